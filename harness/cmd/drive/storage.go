package main

import (
	"reflect"
	"sort"

	"github.com/twpayne/go-geom"
)

// Storage projection (C16 "shares no storage"): every slice a geometry value holds - whatever its fields are called - as the
// byte range of its CAPACITY. Addresses are replaced by their rank among all range boundaries of the objects projected
// together (an order-preserving renaming: which ranges overlap is unchanged, and that is all the specification asks).

type stoRange struct {
	lo, hi uintptr
	ln     int
}

func slicesOf(v reflect.Value, out *[]stoRange, depth int) {
	if depth > 8 {
		return
	}
	switch v.Kind() {
	case reflect.Ptr, reflect.Interface:
		if !v.IsNil() {
			slicesOf(v.Elem(), out, depth+1)
		}
	case reflect.Struct:
		for i := 0; i < v.NumField(); i++ {
			slicesOf(v.Field(i), out, depth+1)
		}
	case reflect.Slice:
		if v.Cap() > 0 {
			lo := v.Pointer()
			*out = append(*out, stoRange{lo, lo + uintptr(v.Cap())*v.Type().Elem().Size(), v.Len()})
		}
		switch v.Type().Elem().Kind() {
		case reflect.Slice, reflect.Ptr, reflect.Interface, reflect.Struct:
			for i := 0; i < v.Len(); i++ {
				slicesOf(v.Index(i), out, depth+1)
			}
		}
	}
}

// storageProj: for each object the list of its ranges [lo rank, hi rank, len], ranks taken over all the objects given.
func storageProj(gs ...geom.T) [][][]int {
	per := make([][]stoRange, len(gs))
	var marks []uintptr
	for i, g := range gs {
		if g != nil {
			slicesOf(reflect.ValueOf(g), &per[i], 0)
		}
		for _, r := range per[i] {
			marks = append(marks, r.lo, r.hi)
		}
	}
	sort.Slice(marks, func(a, b int) bool { return marks[a] < marks[b] })
	rank := map[uintptr]int{}
	for _, m := range marks {
		if _, ok := rank[m]; !ok {
			rank[m] = len(rank)
		}
	}
	out := make([][][]int, len(gs))
	for i := range per {
		out[i] = [][]int{}
		for _, r := range per[i] {
			out[i] = append(out[i], []int{rank[r.lo], rank[r.hi], r.ln})
		}
	}
	return out
}
