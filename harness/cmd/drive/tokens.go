package main

import (
	"math"

	"github.com/twpayne/go-geom"
)

// Ordinate tokens. The specs treat ordinates that the code only copies as opaque tokens 0..NTOK-1; the
// harness instantiates them with float64 bit patterns from a palette of special and ordinary values,
// rotated by the seed. This is the only trusted translation in the harness (DESIGN 2.3).
const NTOK = 128

var (
	palette  [NTOK]float64
	bitsToTk = map[uint64]int{}
	// tokMode: "special" (NaN payloads, infinities, denormals, ...), "finite" (no NaN/Inf), "int" (token k = float64(k))
	tokMode = "special"
)

func initTokens(mode string) {
	tokMode = mode
	bitsToTk = map[uint64]int{}
	specials := []uint64{
		0x0000000000000000, 0x8000000000000000, // +0 -0
		0x3FF0000000000000, 0xBFF0000000000000, // 1 -1
		0x7FF0000000000000, 0xFFF0000000000000, // +Inf -Inf
		0x7FF8000000000000, 0xFFF8000000000000, // canonical quiet NaN, negative quiet NaN
		0x7FF8000000000001, 0x7FF4000000000000, 0x7FF0000000000001, 0xFFFFFFFFFFFFFFFF, // payload / signalling NaNs
		0x0000000000000001, 0x000FFFFFFFFFFFFF, 0x8000000000000001, // denormals
		0x0010000000000000, 0x7FEFFFFFFFFFFFFF, 0xFFEFFFFFFFFFFFFF, // min normal, max, -max
		0x3FB999999999999A, 0x400921FB54442D18, 0x4340000000000001, 0x3CA0000000000000, // 0.1 pi 2^53+2 2^-53
	}
	finite := []uint64{
		0x0000000000000000, 0x8000000000000000, 0x3FF0000000000000, 0xBFF0000000000000,
		0x0000000000000001, 0x000FFFFFFFFFFFFF, 0x8000000000000001,
		0x0010000000000000, 0x7FEFFFFFFFFFFFFF, 0xFFEFFFFFFFFFFFFF,
		0x3FB999999999999A, 0x400921FB54442D18, 0x4340000000000001, 0x3CA0000000000000,
	}
	var base []uint64
	switch mode {
	case "special":
		base = specials
	case "finite":
		base = finite
	case "wkb": // as "special" without the canonical NaN, which WKB reserves for the empty point
		for _, u := range specials {
			if u != 0x7FF8000000000000 && u != 0x7FF8000000000001 && u != 0xFFF8000000000000 { // ... and without the patterns of the fixed tokens 125 / 126
				base = append(base, u)
			}
		}
	}
	rot := 0
	if mode != "int" {
		rot = int(seed % NTOK)
		if rot < 0 {
			rot += NTOK
		}
	}
	for k := 0; k < NTOK; k++ {
		var f float64
		switch {
		case mode == "int":
			f = float64(k)
		case k < len(base):
			f = math.Float64frombits(base[k])
		default:
			f = float64(k)*1.25 + 1000.5 // ordinary, pairwise distinct, not in base
		}
		t := (k + rot) % NTOK
		if mode == "wkb" {
			// tokens 120..127 are fixed: 125/126 non-canonical NaNs, 127 the canonical NaN of an empty point
			t = (k + rot) % 120
			if k >= 120 {
				t = k
				f = float64(k) * 3.5
				switch k {
				case 125:
					f = math.Float64frombits(0x7FF8000000000001)
				case 126:
					f = math.Float64frombits(0xFFF8000000000000)
				case 127:
					f = math.Float64frombits(0x7FF8000000000000)
				}
			}
		}
		palette[t] = f
		if o, dup := bitsToTk[math.Float64bits(f)]; dup && o != t {
			panic("harness: two ordinate tokens share one bit pattern")
		}
		bitsToTk[math.Float64bits(f)] = t
	}
}

func tok2f(t int) float64 {
	if t < 0 || t >= NTOK {
		panic("harness: token out of range")
	}
	return palette[t]
}

// f2tok returns the token of f, or -2 when f is not a palette value (which then disagrees with any spec value).
func f2tok(f float64) int {
	if t, ok := bitsToTk[math.Float64bits(f)]; ok {
		return t
	}
	return -2
}

func toks(fs []float64) []int {
	out := make([]int, len(fs))
	for i, f := range fs {
		out[i] = f2tok(f)
	}
	return out
}

func floats(ts []int) []float64 {
	out := make([]float64, len(ts))
	for i, t := range ts {
		out[i] = tok2f(t)
	}
	return out
}

func coordOf(ts []int) geom.Coord { return geom.Coord(floats(ts)) }

func layoutOf(l string) geom.Layout {
	switch l {
	case "No":
		return geom.NoLayout
	case "XY":
		return geom.XY
	case "XYZ":
		return geom.XYZ
	case "XYM":
		return geom.XYM
	case "XYZM":
		return geom.XYZM
	case "L5":
		return geom.Layout(5)
	case "L6":
		return geom.Layout(6)
	}
	panic("harness: unknown layout " + l)
}

func layoutName(l geom.Layout) string {
	switch l {
	case geom.NoLayout:
		return "No"
	case geom.XY:
		return "XY"
	case geom.XYZ:
		return "XYZ"
	case geom.XYM:
		return "XYM"
	case geom.XYZM:
		return "XYZM"
	case geom.Layout(5):
		return "L5"
	case geom.Layout(6):
		return "L6"
	}
	return "L?"
}

// ints returns a copy (projections must not alias the geometry's storage).
func ints(a []int) []int {
	out := make([]int, len(a))
	copy(out, a)
	return out
}

func intss(a [][]int) [][]int {
	out := make([][]int, len(a))
	for i := range a {
		out[i] = ints(a[i])
	}
	return out
}
