package main

import (
	"bytes"
	"encoding/json"
	"encoding/xml"
	"strconv"
	"strings"

	gkml "github.com/twpayne/go-geom/encoding/kml"
)

// case {g: tree}: the geometry is built through the public constructors, encoded with kml.Encode, written with
// encoding/xml and read back with a generic XML reader into {n, kids, cs}: element name, child elements, and - for a
// <coordinates> element - its positions as tuples of ordinate identifiers (the text of every number is parsed by strconv
// and looked up in the palette; -2 = not a palette value).
func kmlHandler(raw json.RawMessage) map[string]any {
	var c struct{ G wktG }
	must(json.Unmarshal(raw, &c))
	out := map[string]any{"err": "", "xml": "", "tree": map[string]any{"n": "-", "kids": []any{}, "cs": []any{}}, "bad": ""}
	zeros := []int{}
	for id := 0; id <= len(wktVals); id++ {
		if wktVal(id) == 0 {
			zeros = append(zeros, id)
		}
	}
	out["zeros"] = zeros // the identifiers that denote 0 or -0 in this run (an altitude of zero may be left out)
	g := buildWKTGeom(c.G)
	e, err := gkml.Encode(g)
	if err != nil {
		out["err"] = err.Error()
		return out
	}
	var b bytes.Buffer
	if err := xml.NewEncoder(&b).Encode(e); err != nil {
		out["err"] = "xml: " + err.Error()
		return out
	}
	out["xml"] = b.String()
	type node struct {
		n    string
		kids []*node
		text strings.Builder
	}
	root := &node{n: "#"}
	stack := []*node{root}
	d := xml.NewDecoder(bytes.NewReader(b.Bytes()))
	for {
		tok, err := d.Token()
		if err != nil {
			break
		}
		switch t := tok.(type) {
		case xml.StartElement:
			nd := &node{n: t.Name.Local}
			stack[len(stack)-1].kids = append(stack[len(stack)-1].kids, nd)
			stack = append(stack, nd)
		case xml.EndElement:
			stack = stack[:len(stack)-1]
		case xml.CharData:
			stack[len(stack)-1].text.Write(t)
		}
	}
	var proj func(n *node) map[string]any
	proj = func(n *node) map[string]any {
		kids := []any{}
		for _, k := range n.kids {
			kids = append(kids, proj(k))
		}
		cs := []any{}
		if n.n == "coordinates" {
			for _, tup := range strings.Fields(n.text.String()) {
				ids := []int{}
				for _, num := range strings.Split(tup, ",") {
					f, err := strconv.ParseFloat(num, 64)
					if err != nil {
						out["bad"] = "number " + num
						ids = append(ids, -3)
						continue
					}
					ids = append(ids, wktID(f))
				}
				cs = append(cs, ids)
			}
		} else if strings.TrimSpace(n.text.String()) != "" {
			out["bad"] = "text in <" + n.n + ">"
		}
		return map[string]any{"n": n.n, "kids": kids, "cs": cs}
	}
	if len(root.kids) != 1 || len(stack) != 1 {
		out["bad"] = "not one root element"
		return out
	}
	out["tree"] = proj(root.kids[0])
	return out
}

func init() {
	handlers["kml"] = kmlHandler
}
