package main

import (
	"encoding/json"
	"fmt"
	"math"
	"math/rand"
	"regexp"
	"strconv"
	"strings"

	"github.com/twpayne/go-geom"
	"github.com/twpayne/go-geom/encoding/wkt"
)

// ---------------------------------------------------------------- rendering token sequences to text

var wktTypeName = map[string]string{"PT": "POINT", "LS": "LINESTRING", "PG": "POLYGON", "MPT": "MULTIPOINT",
	"MLS": "MULTILINESTRING", "MPG": "MULTIPOLYGON", "GC": "GEOMETRYCOLLECTION"}
var wktTypeOf = map[string]string{}

func init() {
	for k, v := range wktTypeName {
		wktTypeOf[v] = k
	}
}

// value identifiers of point tokens -> finite float64 values (pairwise distinct, rotated by seed)
var wktVals = []float64{0, 1, -2.5, 1e21, 5e-324, 1.7976931348623157e308, 0.1, 123456789.125, -1e-7, 3}

// identifiers >= len(wktVals) are fixed specials that are not rotated: 10 = negative zero
// nearMode (set per case, only for cases whose points use the identifiers 0 and 1 alone): identifier 1 stands for the
// float64 NEXT to the value of identifier 0. The model treats identifiers as opaque and only demands that different
// identifiers are different numbers, so this is as good an instantiation as any other - and the one that tells an
// exact comparison (ring closure, duplicate points) from a tolerant one.
var nearMode bool

func nearVal() float64 {
	v := wktVals[((int(seed))%len(wktVals)+len(wktVals))%len(wktVals)]
	if v == math.MaxFloat64 {
		return math.Nextafter(v, 0)
	}
	return math.Nextafter(v, math.Inf(1))
}

func wktVal(id int) float64 {
	n := len(wktVals)
	if nearMode && id == 1 {
		return nearVal()
	}
	if id == n {
		return math.Copysign(0, -1)
	}
	return wktVals[((id+int(seed))%n+n)%n]
}

// caseVals, when non-nil, is the per-case table of values outside the palette (corpus strings harvested from the
// library's own tests): such a value gets the identifier 100 + its index, in order of first appearance.
var caseVals *[]float64

func wktID(f float64) int {
	n := len(wktVals)
	if caseVals != nil && f == 0 {
		f = 0 // corpus strings: -0 and 0 are the same NUMBER (a ring from 0 to -0 is closed); the sign of zero is C05's business
	}
	if nearMode && math.Float64bits(f) == math.Float64bits(nearVal()) {
		return 1
	}
	for i := 0; i <= n; i++ {
		if math.Float64bits(wktVal(i)) == math.Float64bits(f) {
			return i
		}
	}
	if caseVals != nil {
		for i, v := range *caseVals {
			if math.Float64bits(v) == math.Float64bits(f) {
				return 100 + i
			}
		}
		*caseVals = append(*caseVals, f)
		return 100 + len(*caseVals) - 1
	}
	return -2
}

func caseVariant(r *rand.Rand, s string) string {
	switch r.Intn(3) {
	case 0:
		return s
	case 1:
		return strings.ToLower(s)
	}
	b := []byte(strings.ToLower(s))
	for i := range b {
		if r.Intn(2) == 0 && b[i] >= 'a' && b[i] <= 'z' {
			b[i] -= 32
		}
	}
	return string(b)
}

func numText(r *rand.Rand, f float64, plain bool) string {
	if plain {
		return strconv.FormatFloat(f, 'f', -1, 64)
	}
	switch r.Intn(4) {
	case 0:
		return strconv.FormatFloat(f, 'f', -1, 64)
	case 1:
		return strconv.FormatFloat(f, 'e', -1, 64)
	case 2:
		return strconv.FormatFloat(f, 'E', -1, 64)
	}
	return strconv.FormatFloat(f, 'g', -1, 64)
}

var wsChoices = []string{" ", "  ", "\n", "\t", "\r\n", " \n "}

type wtok []json.RawMessage

func (t wtok) kind() string { return dec[string](t[0]) }

// renderWKT renders a token sequence with rotating spellings (plain = canonical single spaces, upper case).
func renderWKT(toks []wtok, r *rand.Rand, plain bool) string {
	var b strings.Builder
	prevPunct := true
	for _, t := range toks {
		k := t.kind()
		var text string
		punct := false
		switch k {
		case "KW":
			name := wktTypeName[dec[string](t[1])]
			v := dec[string](t[2])
			if v == "B" {
				v = ""
			}
			if plain {
				text = name
				if v != "" {
					text += " " + v
				}
			} else {
				text = caseVariant(r, name)
				if v != "" {
					if r.Intn(2) == 0 {
						text += caseVariant(r, v)
					} else {
						text += wsChoices[r.Intn(len(wsChoices))] + caseVariant(r, v)
					}
				}
			}
		case "P":
			ids := dec[[]int](t[2])
			parts := make([]string, len(ids))
			for i, id := range ids {
				parts[i] = numText(r, wktVal(id), plain)
			}
			if plain {
				text = strings.Join(parts, " ")
			} else {
				for i, p := range parts {
					if i > 0 {
						text += wsChoices[r.Intn(len(wsChoices))]
					}
					text += p
				}
			}
		case "(", ")", ",":
			text, punct = k, true
		case "EMPTY":
			text = "EMPTY"
			if !plain {
				text = caseVariant(r, text)
			}
		case "LEXERR":
			text = []string{"#", "@", "FOO", "1e", "--1", "POINTX", "é", "1.2.3"}[r.Intn(8)]
		case "EOF":
			continue
		}
		sep := " "
		if !plain {
			if punct || prevPunct {
				sep = append([]string{""}, wsChoices...)[r.Intn(len(wsChoices)+1)]
			} else {
				sep = wsChoices[r.Intn(len(wsChoices))]
			}
		} else if b.Len() == 0 {
			sep = ""
		}
		b.WriteString(sep)
		b.WriteString(text)
		prevPunct = punct
	}
	if !plain && r.Intn(2) == 0 {
		b.WriteString(wsChoices[r.Intn(len(wsChoices))])
	}
	return b.String()
}

// ---------------------------------------------------------------- projection of a parsed geometry as a spec tree

func idVec(c []float64) []int {
	out := make([]int, len(c))
	for i, f := range c {
		out[i] = wktID(f)
	}
	return out
}

func idVecs(cs []geom.Coord) [][]int {
	out := make([][]int, len(cs))
	for i, c := range cs {
		out[i] = idVec(c)
	}
	return out
}

func idVecs2(css [][]geom.Coord) [][][]int {
	out := make([][][]int, len(css))
	for i, cs := range css {
		out[i] = idVecs(cs)
	}
	return out
}

// wktTree returns [t, body] and the set of layouts found anywhere in the tree.
func wktTree(g geom.T, layouts map[string]bool) map[string]any {
	layouts[layoutName(g.Layout())] = true
	switch g := g.(type) {
	case *geom.Point:
		if g.Empty() {
			return map[string]any{"t": "PT", "body": []int{}}
		}
		return map[string]any{"t": "PT", "body": idVec(g.FlatCoords())}
	case *geom.LineString:
		return map[string]any{"t": "LS", "body": idVecs(g.Coords())}
	case *geom.Polygon:
		return map[string]any{"t": "PG", "body": idVecs2(g.Coords())}
	case *geom.MultiPoint:
		cs := g.Coords()
		out := make([][]int, len(cs))
		for i, c := range cs {
			if len(c) == 0 { // an empty member (nil or zero-length)
				out[i] = []int{-1}
			} else {
				out[i] = idVec(c)
			}
		}
		return map[string]any{"t": "MPT", "body": out}
	case *geom.MultiLineString:
		return map[string]any{"t": "MLS", "body": idVecs2(g.Coords())}
	case *geom.MultiPolygon:
		cs := g.Coords()
		out := make([][][][]int, len(cs))
		for i, c := range cs {
			out[i] = idVecs2(c)
		}
		return map[string]any{"t": "MPG", "body": out}
	case *geom.GeometryCollection:
		out := []any{}
		for _, m := range g.Geoms() {
			out = append(out, wktTree(m, layouts))
		}
		return map[string]any{"t": "GC", "body": out}
	}
	return map[string]any{"t": "?", "body": []int{}}
}

var wktEvName = map[string]string{
	"validateStrideAndSetDefaultLayoutIfNoLayout": "Pt", "validateNonEmptyGeometryAllowed": "NonEmpty",
	"validateAndSetLayoutIfNoLayout": "VSet", "validateBaseGeometryTypeAllowed": "Base",
	"validateBaseTypeEmptyAllowed": "Empty", "validateAndPushLayoutStackFrame": "Push",
	"validateAndPopLayoutStackFrame": "Pop", "isValidLineString": "LS", "isValidPolygonRing": "Ring",
}

// parseWKT runs the real parser on text with the hook installed and records everything observable.
func parseWKT(text string) map[string]any {
	ltoks := []string{}
	events := []any{}
	wkt.VerifHook = func(ev, arg string, ok bool, stack []wkt.VerifFrame) {
		if ev == "begin" {
			return
		}
		if ev == "tok" {
			switch {
			case arg == "EOF" || arg == "(" || arg == ")" || arg == "," || arg == "NUM" || arg == "LEXERR" || arg == "EMPTY":
				ltoks = append(ltoks, arg)
			case !ok:
				ltoks = append(ltoks, "LEXERR")
			default:
				ltoks = append(ltoks, "KW:"+arg)
			}
			return
		}
		ls := make([]any, len(stack))
		for i, f := range stack {
			ls[i] = map[string]any{"l": layoutName(geom.Layout(f.Layout)), "base": f.Base, "mbe": f.MBE}
		}
		var a any = arg
		if wktEvName[ev] == "Pt" {
			n, _ := strconv.Atoi(arg)
			a = n
		}
		events = append(events, map[string]any{"n": wktEvName[ev], "a": a, "ok": ok, "ls": ls})
	}
	defer func() { wkt.VerifHook = nil }()
	obs := map[string]any{"text": text, "verdict": "rej", "l": "-", "tree": map[string]any{"t": "-", "body": []int{}},
		"tree2": map[string]any{"t": "-", "body": []int{}}, "uniform": true, "errok": true, "errmsg": "", "l2": "-", "wf": []any{}}
	var g geom.T
	var err error
	if ev, msg := call(func() { g, err = wkt.Unmarshal(text) }); ev != "ok" {
		obs["verdict"] = "panic:" + msg
	} else if err != nil {
		if ev, msg := call(func() { obs["errmsg"] = err.Error() }); ev != "ok" {
			obs["errok"] = false
			obs["errmsg"] = "panic:" + msg
		}
	} else {
		obs["verdict"] = "acc"
		lay := map[string]bool{}
		if ev, msg := call(func() { obs["tree"] = wktTree(g, lay) }); ev != "ok" {
			obs["verdict"] = "panic-in-result:" + msg
		}
		obs["l"] = layoutName(g.Layout())
		obs["uniform"] = len(lay) == 1
		// flat representation of every non-collection node ("any decoder" hands out well-formed geometries)
		if ev, _ := call(func() { obs["wf"] = wfList(g) }); ev != "ok" {
			obs["verdict"] = "panic-in-result:wf"
		}
		// re-encode and parse again
		if ev, msg := call(func() {
			s, err := wkt.Marshal(g)
			if err != nil {
				obs["tree2"] = map[string]any{"t": "marshal-error", "body": []int{}}
				return
			}
			obs["text2"] = s
			wkt.VerifHook = nil
			g2, err := wkt.Unmarshal(s)
			if err != nil {
				obs["tree2"] = map[string]any{"t": "reparse-error", "body": []int{}}
				return
			}
			obs["tree2"] = wktTree(g2, map[string]bool{})
			obs["l2"] = layoutName(g2.Layout())
		}); ev != "ok" {
			obs["tree2"] = map[string]any{"t": "panic:" + msg, "body": []int{}}
		}
	}
	obs["ltoks"] = ltoks
	obs["events"] = events
	vc := obs["verdict"].(string)
	if strings.HasPrefix(vc, "panic") {
		vc = "panic"
	}
	obs["vclass"] = vc
	return obs
}

// lexedToks turns the real lexer's token stream into model tokens (numbers grouped into points; the
// value identifiers are unknown, so closure of rings is not decided from them: vector of zeros).
func lexedToks(lt []string) []any {
	out := []any{}
	n := 0
	flush := func() {
		if n > 0 {
			out = append(out, []any{"P", n, make([]int, n)})
			n = 0
		}
	}
	for _, t := range lt {
		if t == "NUM" {
			n++
			continue
		}
		flush()
		switch {
		case strings.HasPrefix(t, "KW:"):
			name := t[3:]
			v := "B"
			for _, suf := range []string{"ZM", "Z", "M"} {
				if strings.HasSuffix(name, suf) {
					if _, ok := wktTypeOf[name[:len(name)-len(suf)]]; ok {
						v, name = suf, name[:len(name)-len(suf)]
						break
					}
				}
			}
			out = append(out, []any{"KW", wktTypeOf[name], v})
		default:
			out = append(out, []any{t})
		}
	}
	flush()
	return out
}

func onlyIDs01(toks []wtok) bool {
	for _, t := range toks {
		if t.kind() == "P" {
			for _, id := range dec[[]int](t[2]) {
				if id != 0 && id != 1 {
					return false
				}
			}
		}
	}
	return true
}

type wktCase struct {
	Toks  []wtok `json:"toks"`
	Plain bool   `json:"plain"`
	Text  string `json:"text"` // when set (arbitrary strings), toks are ignored
	Weak  bool   `json:"weak"` // not a grammatical string: only verdict / totality are compared
	// Corpus: Text is a string harvested from the library's own tests; it is tokenised by the harness's own
	// tokenizer (values outside the palette get per-case identifiers) so that the model decides it like an
	// enumerated string. If the tokenizer meets a word it does not know, the real lexer's tokens are used (weak).
	Corpus bool `json:"corpus"`
}

func wktHandler(raw json.RawMessage) map[string]any {
	c := dec[wktCase](raw)
	r := rand.New(rand.NewSource(seed*7919 + int64(len(raw))*31 + int64(raw[len(raw)/2])))
	text := c.Text
	if text == "" {
		nearMode = len(raw)%2 == 0 && onlyIDs01(c.Toks)
		text = renderWKT(c.Toks, r, c.Plain)
	}
	if c.Corpus {
		tab := []float64{}
		caseVals = &tab
		defer func() { caseVals = nil }()
		known := true
		own := append(tokenizeWKT(text), []any{"EOF"})
		for _, t := range own {
			if k := t.([]any)[0].(string); strings.HasPrefix(k, "WORD:") {
				known = false
			}
		}
		if known {
			b, _ := json.Marshal(own)
			c.Toks = dec[[]wtok](b)
			c.Text = ""
		} else {
			c.Weak = true
		}
	}
	obs := parseWKT(text)
	nearMode = false
	// intended token kinds, for comparison with what the real lexer produced
	want := []string{}
	for _, t := range c.Toks {
		switch k := t.kind(); k {
		case "KW":
			v := dec[string](t[2])
			if v == "B" {
				v = ""
			}
			want = append(want, "KW:"+wktTypeName[dec[string](t[1])]+v)
		case "P":
			for range dec[[]int](t[2]) {
				want = append(want, "NUM")
			}
		default:
			want = append(want, k)
		}
	}
	obs["want"] = want
	obs["hastoks"] = c.Text == ""
	obs["weak"] = c.Weak
	if c.Text == "" {
		obs["toks"] = c.Toks
	} else {
		obs["toks"] = lexedToks(obs["ltoks"].([]string))
	}
	return obs
}

// ---------------------------------------------------------------- C05: encoder side

type wktG struct {
	T    string          `json:"t"`
	L    string          `json:"l"`
	Body json.RawMessage `json:"body"`
}

func idCoord(ids []int) geom.Coord {
	c := make(geom.Coord, len(ids))
	for i, id := range ids {
		c[i] = wktVal(id)
	}
	return c
}

func idCoords1(v [][]int) []geom.Coord {
	out := make([]geom.Coord, len(v))
	for i := range v {
		out[i] = idCoord(v[i])
	}
	return out
}

func idCoords2(v [][][]int) [][]geom.Coord {
	out := make([][]geom.Coord, len(v))
	for i := range v {
		out[i] = idCoords1(v[i])
	}
	return out
}

// buildWKTGeom builds the geometry of a spec tree through the public constructors.
func buildWKTGeom(g wktG) geom.T {
	l := layoutOf(g.L)
	switch g.T {
	case "PT":
		ids := dec[[]int](g.Body)
		if len(ids) == 0 {
			return geom.NewPointEmpty(l)
		}
		return geom.NewPoint(l).MustSetCoords(idCoord(ids))
	case "LS":
		return geom.NewLineString(l).MustSetCoords(idCoords1(dec[[][]int](g.Body)))
	case "PG":
		return geom.NewPolygon(l).MustSetCoords(idCoords2(dec[[][][]int](g.Body)))
	case "MPT":
		v := dec[[][]int](g.Body)
		cs := make([]geom.Coord, len(v))
		for i := range v {
			if !isNil(v[i]) {
				cs[i] = idCoord(v[i])
			}
		}
		return geom.NewMultiPoint(l).MustSetCoords(cs)
	case "MLS":
		return geom.NewMultiLineString(l).MustSetCoords(idCoords2(dec[[][][]int](g.Body)))
	case "MPG":
		v := dec[[][][][]int](g.Body)
		cs := make([][][]geom.Coord, len(v))
		for i := range v {
			cs[i] = idCoords2(v[i])
		}
		return geom.NewMultiPolygon(l).MustSetCoords(cs)
	case "GC":
		gc := geom.NewGeometryCollection()
		for _, m := range dec[[]wktG](g.Body) {
			gc.MustPush(buildWKTGeom(m))
		}
		if gc.NumGeoms() == 0 {
			gc.MustSetLayout(l)
		}
		return gc
	}
	panic("harness: buildWKTGeom " + g.T)
}

// numbers of the standard grammar as the model understands it: optional minus sign (the library, like PostGIS, rejects a
// leading plus), digits with an optional fraction, optional exponent. Anything else ParseFloat might take (hex floats,
// Inf, NaN, underscores) is a word outside the grammar.
var wktNumRe = regexp.MustCompile(`^-?([0-9]+\.?[0-9]*|\.[0-9]+)([eE][+-]?[0-9]+)?$`)

// tokenizeWKT is the harness's own small WKT tokenizer (independent of lex.go): words, numbers, punctuation.
// A word is a type name optionally followed (after white space) by a separate Z / M / ZM word.
func tokenizeWKT(text string) []any {
	var words []string
	i := 0
	for i < len(text) {
		c := text[i]
		switch {
		case c == ' ' || c == '\t' || c == '\n' || c == '\r':
			i++
		case c == '(' || c == ')' || c == ',':
			words = append(words, string(c))
			i++
		default:
			j := i
			for j < len(text) && !strings.ContainsRune(" \t\n\r(),", rune(text[j])) {
				j++
			}
			words = append(words, text[i:j])
			i = j
		}
	}
	out := []any{}
	var run []int
	flush := func() {
		if run != nil {
			out = append(out, []any{"P", len(run), run})
			run = nil
		}
	}
	for k := 0; k < len(words); k++ {
		w := strings.ToUpper(words[k])
		if f, err := strconv.ParseFloat(words[k], 64); err == nil && wktNumRe.MatchString(words[k]) {
			run = append(run, wktID(f))
			continue
		}
		flush()
		switch {
		case w == "(" || w == ")" || w == "," || w == "EMPTY":
			out = append(out, []any{w})
		default:
			name, v := w, "B"
			for _, suf := range []string{"ZM", "Z", "M"} {
				if strings.HasSuffix(name, suf) {
					if _, ok := wktTypeOf[name[:len(name)-len(suf)]]; ok {
						name, v = name[:len(name)-len(suf)], suf
						break
					}
				}
			}
			if t, ok := wktTypeOf[name]; ok {
				if v == "B" && k+1 < len(words) {
					if nx := strings.ToUpper(words[k+1]); nx == "Z" || nx == "M" || nx == "ZM" {
						v = nx
						k++
					}
				}
				out = append(out, []any{"KW", t, v})
			} else {
				out = append(out, []any{"WORD:" + w})
			}
		}
	}
	flush()
	return out
}

type wktEncCase struct {
	G     wktG   `json:"g"`
	Toks  []wtok `json:"toks"`
	Toks2 []wtok `json:"toks2"`
}

func parsedSummary(text string) map[string]any {
	o := parseWKT(text)
	return map[string]any{"text": text, "vclass": o["vclass"], "l": o["l"], "tree": o["tree"]}
}

var (
	wktHistEnc = wkt.NewEncoder()
	wktHalf    = geom.NewGeometryCollection().MustPush(geom.NewPointFlat(geom.XY, []float64{1, 2}), geom.NewLineString(geom.NoLayout))
)

func wktEncHandler(raw json.RawMessage) map[string]any {
	c := dec[wktEncCase](raw)
	r := rand.New(rand.NewSource(seed*104729 + int64(len(raw))))
	obs := map[string]any{"encok": false, "enctoks": []any{}, "text": "", "own": map[string]any{"text": "", "vclass": "none", "l": "-", "tree": map[string]any{"t": "-", "body": []int{}}}}
	g := buildWKTGeom(c.G)
	text, err := wkt.Marshal(g)
	retainStr("wkt.Marshal", text)
	obs["overwritten"] = drainOverwritten()
	// the same geometry through an Encoder VALUE that lives as long as the driver and has just refused a collection half way
	// through: it must write what a new encoder writes
	obs["histsame"] = true
	if _, herr := wktHistEnc.Encode(wktHalf); herr == nil {
		panic("harness: the collection with a member without layout was encoded")
	}
	if t2, err2 := wktHistEnc.Encode(g); t2 != text || (err2 == nil) != (err == nil) {
		obs["histsame"] = false
	}
	if err == nil {
		obs["encok"] = true
		obs["text"] = text
		obs["enctoks"] = tokenizeWKT(text)
		obs["own"] = parsedSummary(text)
	} else {
		obs["text"] = "error: " + err.Error()
	}
	sp := []any{}
	for i := 0; i < 3; i++ {
		sp = append(sp, parsedSummary(renderWKT(c.Toks, r, false)))
	}
	sp = append(sp, parsedSummary(renderWKT(c.Toks2, r, false)))
	sp = append(sp, parsedSummary(renderWKT(c.Toks2, r, true)))
	obs["sp"] = sp
	return obs
}

func init() {
	handlers["wktenc"] = wktEncHandler
	handlers["wkt"] = wktHandler
	_ = fmt.Sprint
}
