package main

import (
	"crypto/sha1"
	"database/sql/driver"
	"encoding/binary"
	"encoding/hex"
	"encoding/json"
	"errors"
	"fmt"
	"io"
	"math"
	"reflect"
	"runtime"
	"runtime/debug"
	"strings"

	"github.com/twpayne/go-geom"
	"github.com/twpayne/go-geom/encoding/ewkb"
	"github.com/twpayne/go-geom/encoding/ewkbhex"
	"github.com/twpayne/go-geom/encoding/wkb"
	"github.com/twpayne/go-geom/encoding/wkbcommon"
	"github.com/twpayne/go-geom/encoding/wkbhex"
)

// ---------------------------------------------------------------- spec geometry <-> geom.T

type wkbG struct {
	T    string          `json:"t"`
	L    string          `json:"l"`
	Srid []int           `json:"srid"`
	Body json.RawMessage `json:"body"`
}

func sridInt(b []int) int {
	if len(b) != 4 {
		return 0
	}
	return b[0]<<24 | b[1]<<16 | b[2]<<8 | b[3]
}

func sridBytes(s int) []int {
	if s == 0 {
		return []int{}
	}
	if s < 0 || s > math.MaxUint32 {
		// not the value of any unsigned 32-bit SRID word (e.g. a sign-extended one): equal to no SRID of the specification
		return []int{-1}
	}
	u := uint32(s)
	return []int{int(u >> 24), int(u >> 16 & 255), int(u >> 8 & 255), int(u & 255)}
}

func buildWKB(g wkbG, used map[int]bool) geom.T {
	l := layoutOf(g.L)
	mark := func(c []int) []int {
		for _, t := range c {
			used[t] = true
		}
		return c
	}
	var out geom.T
	switch g.T {
	case "PT":
		c := dec[[]int](g.Body)
		if len(c) == 0 {
			out = geom.NewPointEmpty(l)
		} else {
			out = geom.NewPointFlat(l, floats(mark(c)))
		}
	case "LS":
		cs := dec[[][]int](g.Body)
		for _, c := range cs {
			mark(c)
		}
		out = geom.NewLineString(l).MustSetCoords(coords1(cs))
	case "PG":
		css := dec[[][][]int](g.Body)
		for _, cs := range css {
			for _, c := range cs {
				mark(c)
			}
		}
		out = geom.NewPolygon(l).MustSetCoords(coords2(css))
	case "MPT":
		mp := geom.NewMultiPoint(l)
		for _, k := range dec[[]wkbG](g.Body) {
			if err := mp.Push(buildWKB(k, used).(*geom.Point)); err != nil {
				panic("harness: " + err.Error())
			}
		}
		out = mp
	case "MLS":
		m := geom.NewMultiLineString(l)
		for _, k := range dec[[]wkbG](g.Body) {
			if err := m.Push(buildWKB(k, used).(*geom.LineString)); err != nil {
				panic("harness: " + err.Error())
			}
		}
		out = m
	case "MPG":
		m := geom.NewMultiPolygon(l)
		for _, k := range dec[[]wkbG](g.Body) {
			if err := m.Push(buildWKB(k, used).(*geom.Polygon)); err != nil {
				panic("harness: " + err.Error())
			}
		}
		out = m
	case "GC":
		gc := geom.NewGeometryCollection()
		for _, k := range dec[[]wkbG](g.Body) {
			gc.MustPush(buildWKB(k, used))
		}
		if gc.NumGeoms() == 0 && g.L != "No" {
			gc.MustSetLayout(l)
		}
		out = gc
	default:
		panic("harness: buildWKB " + g.T)
	}
	if s := sridInt(g.Srid); s != 0 {
		var err error
		if out, err = geom.SetSRID(out, s); err != nil {
			panic("harness: " + err.Error())
		}
	}
	return out
}

// ordinate projections: as token (C03) or as the 8 bytes of the IEEE image, most significant first (C04)
func ordTok(f float64) any   { return f2tok(f) }
func ordBytes(f float64) any { return bytes8(f) }
func bytes8(f float64) []int {
	u := math.Float64bits(f)
	out := make([]int, 8)
	for i := 0; i < 8; i++ {
		out[i] = int(u >> (56 - 8*i) & 255)
	}
	return out
}

func projCoord(c []float64, ord func(float64) any) []any {
	out := make([]any, len(c))
	for i, f := range c {
		out[i] = ord(f)
	}
	return out
}

func projFlat1(flat []float64, stride int, ord func(float64) any) []any {
	out := []any{}
	if stride > 0 {
		for i := 0; i+stride <= len(flat); i += stride {
			out = append(out, projCoord(flat[i:i+stride], ord))
		}
	}
	return out
}

// hugeGeom: more ordinates than any geometry the suite feeds in (a decoder that went astray on a count field): recorded as a
// placeholder that equals no geometry of the specification, instead of megabytes of JSON that the model checker cannot load
func hugeGeom(g geom.T) bool {
	n := 0
	var walk func(g geom.T)
	walk = func(g geom.T) {
		if g == nil || n > 1<<13 {
			return
		}
		if gc, ok := g.(*geom.GeometryCollection); ok {
			n += gc.NumGeoms()
			for _, m := range gc.Geoms() {
				walk(m)
			}
			return
		}
		n += len(g.FlatCoords()) + len(g.Ends())
		for _, es := range g.Endss() {
			n += len(es) + 1
		}
	}
	walk(g)
	return n > 1<<13
}

func projWKB(g geom.T, ord func(float64) any) map[string]any {
	if hugeGeom(g) {
		return map[string]any{"t": "huge", "l": "-", "srid": []int{}, "body": []any{}}
	}
	p := map[string]any{"t": kindOf(g), "l": layoutName(g.Layout()), "srid": sridBytes(g.SRID())}
	switch g := g.(type) {
	case *geom.Point:
		if g.Empty() {
			p["body"] = []any{}
		} else {
			p["body"] = projCoord(g.FlatCoords(), ord)
		}
	case *geom.LineString:
		p["body"] = projFlat1(g.FlatCoords(), g.Stride(), ord)
	case *geom.Polygon:
		rings := []any{}
		off := 0
		for _, e := range g.Ends() {
			rings = append(rings, projFlat1(g.FlatCoords()[off:e], g.Stride(), ord))
			off = e
		}
		p["body"] = rings
	case *geom.MultiPoint:
		ks := []any{}
		for i := 0; i < g.NumPoints(); i++ {
			ks = append(ks, projWKB(g.Point(i), ord))
		}
		p["body"] = ks
	case *geom.MultiLineString:
		ks := []any{}
		for i := 0; i < g.NumLineStrings(); i++ {
			ks = append(ks, projWKB(g.LineString(i), ord))
		}
		p["body"] = ks
	case *geom.MultiPolygon:
		ks := []any{}
		for i := 0; i < g.NumPolygons(); i++ {
			ks = append(ks, projWKB(g.Polygon(i), ord))
		}
		p["body"] = ks
	case *geom.GeometryCollection:
		ks := []any{}
		for i := 0; i < g.NumGeoms(); i++ {
			ks = append(ks, projWKB(g.Geom(i), ord))
		}
		p["body"] = ks
	default:
		p["body"] = []any{}
	}
	return p
}

// outerSridOnly: a copy of a projection (projWKB) in which only the outermost geometry keeps its SRID. The formats promise
// the SRID of the outermost geometry only, so the stability of a decoded tree is recorded on this image as well (d1m, d2m).
func outerSridOnly(p map[string]any, top bool) map[string]any {
	q := map[string]any{}
	for k, v := range p {
		q[k] = v
	}
	if !top {
		q["srid"] = []int{}
	}
	if ks, ok := p["body"].([]any); ok {
		body := make([]any, len(ks))
		for i, k := range ks {
			if m, ok := k.(map[string]any); ok {
				body[i] = outerSridOnly(m, false)
			} else {
				body[i] = k
			}
		}
		q["body"] = body
	}
	return q
}

func digestOf(v any) string {
	b, _ := json.Marshal(v)
	h := sha1.Sum(b)
	return hex.EncodeToString(h[:8])
}

func byteInts(b []byte) []int {
	out := make([]int, len(b))
	for i, x := range b {
		out[i] = int(x)
	}
	return out
}

func orderOf(s string) binary.ByteOrder {
	if s == "XDR" {
		return wkb.XDR
	}
	return wkb.NDR
}

func nanOpt() wkbcommon.WKBOption {
	return wkbcommon.WKBOptionEmptyPointHandling(wkbcommon.EmptyPointHandlingNaN)
}

func marshalFlavor(g geom.T, order binary.ByteOrder, flavor string) ([]byte, error) {
	switch flavor {
	case "wkb":
		return wkb.Marshal(g, order)
	case "wkbnan":
		return wkb.Marshal(g, order, nanOpt())
	}
	return ewkb.Marshal(g, order)
}

func writeFlavor(w io.Writer, g geom.T, order binary.ByteOrder, flavor string) error {
	switch flavor {
	case "wkb":
		return wkb.Write(w, order, g)
	case "wkbnan":
		return wkb.Write(w, order, g, nanOpt())
	}
	return ewkb.Write(w, order, g)
}

func readFlavor(r io.Reader, flavor string) (geom.T, error) {
	switch flavor {
	case "wkb":
		return wkb.Read(r)
	case "wkbnan":
		return wkb.Read(r, nanOpt())
	}
	return ewkb.Read(r)
}

// ---------------------------------------------------------------- instrumented reader / writer

// failWriter accepts f bytes in total and refuses everything after that.
type failWriter struct {
	f   int
	got []byte
}

var errWriterFull = errors.New("harness: writer refuses further bytes")

func (w *failWriter) Write(p []byte) (int, error) {
	room := w.f - len(w.got)
	if room >= len(p) {
		w.got = append(w.got, p...)
		return len(p), nil
	}
	if room > 0 {
		w.got = append(w.got, p[:room]...)
		return room, errWriterFull
	}
	return 0, errWriterFull
}

// schedReader delivers data in chunks of the scheduled sizes (0 = as much as asked). It is deliberately
// not an io.ByteReader. zero: a (0, nil) delivery precedes every real one. eofWithData: the last bytes
// come together with io.EOF.
type schedReader struct {
	data        []byte
	pos         int
	sizes       []int
	k           int
	zero        bool
	zeroPending bool
	eofWithData bool
	reqs        int
}

func (r *schedReader) Read(p []byte) (int, error) {
	r.reqs++
	if r.zero && !r.zeroPending {
		r.zeroPending = true
		return 0, nil
	}
	r.zeroPending = false
	if r.pos >= len(r.data) {
		return 0, io.EOF
	}
	if len(p) == 0 {
		return 0, nil
	}
	n := len(p)
	if s := r.sizes[r.k%len(r.sizes)]; s > 0 && s < n {
		n = s
	}
	r.k++
	if rem := len(r.data) - r.pos; n > rem {
		n = rem
	}
	copy(p, r.data[r.pos:r.pos+n])
	r.pos += n
	if r.eofWithData && r.pos == len(r.data) {
		return n, io.EOF
	}
	return n, nil
}

// ---------------------------------------------------------------- C03: encode / decode / stream / hex / sql

type wkbEncCase struct {
	G      wkbG   `json:"g"`
	Order  string `json:"order"`
	Flavor string `json:"flavor"`
}

func wkbErrClass(err error) string {
	if err == nil {
		return "none"
	}
	var (
		ebo wkbcommon.ErrUnknownByteOrder
		eut wkbcommon.ErrUnknownType
		est wkbcommon.ErrUnsupportedType
		etl wkbcommon.ErrGeometryTooLarge
		ext wkbcommon.ErrUnexpectedType
		elm geom.ErrLayoutMismatch
	)
	switch {
	case errors.Is(err, io.EOF) || errors.Is(err, io.ErrUnexpectedEOF):
		return "eof"
	case errors.As(err, &ebo):
		return "byteorder"
	case errors.As(err, &eut):
		return "unknowntype"
	case errors.As(err, &est):
		return "unsupportedtype"
	case errors.As(err, &etl):
		return "toolarge"
	case errors.As(err, &ext):
		return "childtype"
	case errors.As(err, &elm):
		return "childlayout"
	}
	return "other: " + err.Error()
}

func wkbEncHandler(raw json.RawMessage) map[string]any {
	c := dec[wkbEncCase](raw)
	used := map[int]bool{}
	g := buildWKB(c.G, used)
	order := orderOf(c.Order)
	img := []any{}
	for t := range used {
		img = append(img, append([]int{t}, bytes8(tok2f(t))...))
	}
	obs := map[string]any{"img": img}
	noG := map[string]any{"t": "-", "l": "-", "srid": []int{}, "body": []any{}}
	enc := map[string]any{"ok": false, "bytes": []int{}, "err": ""}
	decd := map[string]any{"ok": false, "g": noG, "consumed": -1, "err": ""}
	obs["enc"], obs["dec"] = enc, decd
	obs["digest"] = ""
	obs["wr"], obs["wrs"], obs["rd"] = []any{}, []any{}, []any{}
	obs["hex"] = map[string]any{"ok": false, "nib": []int{}, "lower": false, "dlow": "", "dup": ""}
	obs["sql"] = []any{}
	obs["ne"], obs["ndr"], obs["xdr"], obs["sqlv"], obs["wf"] = []any{}, []int{}, []int{}, []any{}, []any{}
	wf := &wfSet{seen: map[string]bool{}, list: []any{}}
	if !fourD(c.G) {
		// a geometry the formats cannot carry: should an encoder hand out bytes for it all the same, they are decoded
		// again, and garbage must not be able to claim gigabytes (element limits far above anything in the models)
		wkbcommon.MaxGeometryElements = [4]int{0, 1 << 16, 1 << 16, 1 << 16}
		defer func() { wkbcommon.MaxGeometryElements = [4]int{0, -1, -1, -1} }()
	}
	defer func() { obs["overwritten"] = drainOverwritten() }()
	b, err := marshalFlavor(g, order, c.Flavor)
	retain("Marshal/"+c.Flavor, b)
	if err != nil {
		enc["err"] = err.Error()
		// Marshal refuses the geometry: what the other encoders (stream, hex, Value of a wrapper) make of it
		obs["ne"] = refusedObs(g, order, c.Flavor)
		return obs
	}
	enc["ok"], enc["bytes"] = true, byteInts(b)
	if bn, err := marshalFlavor(g, wkb.NDR, c.Flavor); err == nil {
		obs["ndr"] = byteInts(bn)
	}
	if bx, err := marshalFlavor(g, wkb.XDR, c.Flavor); err == nil {
		obs["xdr"] = byteInts(bx)
	}
	// decode
	rd := &schedReader{data: b, sizes: []int{0}}
	g2, err := readFlavor(rd, c.Flavor)
	if err != nil {
		decd["err"] = wkbErrClass(err)
	} else {
		p := projWKB(g2, ordTok)
		decd["ok"], decd["g"], decd["consumed"] = true, p, rd.pos
		obs["digest"] = digestOf(p)
		wf.add(g2)
	}
	// failing writer at every position (received bytes recorded for a seeded sample of positions)
	wr, wrs := []any{}, []any{}
	for f := 0; f <= len(b)+1; f++ {
		w := &failWriter{f: f}
		err := writeFlavor(w, g, order, c.Flavor)
		wr = append(wr, map[string]any{"f": f, "err": err != nil, "n": len(w.got)})
		every := 5
		if len(b) > 512 {
			every = 257 // kilobyte-sized encodings: the received bytes of a few positions only (each sample is a copy of the prefix)
		}
		if f == 0 || f == len(b) || f == len(b)+1 || (f+int(seed))%every == 0 {
			wrs = append(wrs, map[string]any{"f": f, "bytes": byteInts(w.got)})
		}
	}
	obs["wr"], obs["wrs"] = wr, wrs
	// reader schedules over two concatenated encodings followed by a trailer
	stream := append(append(append([]byte{}, b...), b...), 0xAA, 0xBB, 0xCC)
	scheds := []struct {
		name  string
		sizes []int
		zero  bool
		eof   bool
	}{
		{"one", []int{1}, false, false}, {"two", []int{2}, false, false}, {"three", []int{3}, false, false},
		{"seven", []int{7}, false, false}, {"mixed", []int{1, 5, 2, 13}, false, false},
		{"asked", []int{0}, false, false}, {"asked-eof", []int{0}, false, true}, {"one-eof", []int{1}, false, true},
		{"zero-one", []int{1}, true, false}, {"zero-asked", []int{0}, true, false},
	}
	rds := []any{}
	for _, s := range scheds {
		r := &schedReader{data: stream, sizes: s.sizes, zero: s.zero, eofWithData: s.eof}
		e := map[string]any{"name": s.name, "zero": s.zero, "ok1": false, "ok2": false, "d1": "", "d2": "", "c1": -1, "c2": -1}
		if ga, err := readFlavor(r, c.Flavor); err == nil {
			e["ok1"], e["d1"], e["c1"] = true, digestOf(projWKB(ga, ordTok)), r.pos
			wf.add(ga)
			if gb, err := readFlavor(r, c.Flavor); err == nil {
				e["ok2"], e["d2"], e["c2"] = true, digestOf(projWKB(gb, ordTok)), r.pos
				wf.add(gb)
			}
		}
		rds = append(rds, e)
	}
	obs["rd"] = rds
	// hex variants
	hx := obs["hex"].(map[string]any)
	var hs string
	switch c.Flavor {
	case "wkb":
		hs, err = wkbhex.Encode(g, order)
	case "wkbnan":
		hs, err = wkbhex.Encode(g, order, nanOpt())
	default:
		hs, err = ewkbhex.Encode(g, order)
	}
	if err == nil {
		nib := make([]int, len(hs))
		lower := true
		for i, ch := range hs {
			switch {
			case ch >= '0' && ch <= '9':
				nib[i] = int(ch - '0')
			case ch >= 'a' && ch <= 'f':
				nib[i] = int(ch-'a') + 10
			default:
				nib[i] = -1
				lower = false
			}
		}
		hx["ok"], hx["nib"], hx["lower"] = true, nib, lower
		decHex := func(s string) string {
			var gg geom.T
			var err error
			switch c.Flavor {
			case "wkb":
				gg, err = wkbhex.Decode(s)
			case "wkbnan":
				gg, err = wkbhex.Decode(s, nanOpt())
			default:
				gg, err = ewkbhex.Decode(s)
			}
			if err != nil {
				return "error"
			}
			wf.add(gg)
			return digestOf(projWKB(gg, ordTok))
		}
		hx["dlow"], hx["dup"] = decHex(hs), decHex(strings.ToUpper(hs))
	}
	// database/sql wrappers (they always use NDR and default options)
	if c.Flavor != "wkbnan" {
		obs["sql"] = sqlObs(g, c.Flavor, wf)
		obs["sqlv"] = directValueObs(g, c.Flavor)
	}
	obs["wf"] = wf.list
	return obs
}

// fourD: every node of the case's geometry is in one of the four layouts of the formats.
func fourD(g wkbG) bool {
	switch g.L {
	case "XY", "XYZ", "XYM", "XYZM":
	default:
		return false
	}
	switch g.T {
	case "MPT", "MLS", "MPG", "GC":
		for _, k := range dec[[]wkbG](g.Body) {
			if !fourD(k) {
				return false
			}
		}
	}
	return true
}

// wfSet collects the flat representations (wfList) of every geometry a decoder handed out, without repetitions.
type wfSet struct {
	seen map[string]bool
	list []any
}

func (s *wfSet) add(g geom.T) {
	if isNilGeom(g) {
		return
	}
	for _, o := range wfList(g) {
		k, _ := json.Marshal(o)
		if !s.seen[string(k)] {
			s.seen[string(k)] = true
			s.list = append(s.list, o)
		}
	}
}

// direct returns the SQL wrappers of the flavour that can hold g, populated directly (not by Scan).
func direct(g geom.T, flavor string) map[string]scanValuer {
	out := map[string]scanValuer{}
	if flavor == "ewkb" {
		switch g := g.(type) {
		case *geom.Point:
			out["PT"] = &ewkb.Point{Point: g}
		case *geom.LineString:
			out["LS"] = &ewkb.LineString{LineString: g}
		case *geom.Polygon:
			out["PG"] = &ewkb.Polygon{Polygon: g}
		case *geom.MultiPoint:
			out["MPT"] = &ewkb.MultiPoint{MultiPoint: g}
		case *geom.MultiLineString:
			out["MLS"] = &ewkb.MultiLineString{MultiLineString: g}
		case *geom.MultiPolygon:
			out["MPG"] = &ewkb.MultiPolygon{MultiPolygon: g}
		case *geom.GeometryCollection:
			out["GC"] = &ewkb.GeometryCollection{GeometryCollection: g}
		}
		return out
	}
	out["ANY"] = &wkb.Geom{T: g}
	switch g := g.(type) {
	case *geom.Point:
		out["PT"] = &wkb.Point{Point: g}
	case *geom.LineString:
		out["LS"] = &wkb.LineString{LineString: g}
	case *geom.Polygon:
		out["PG"] = &wkb.Polygon{Polygon: g}
	case *geom.MultiPoint:
		out["MPT"] = &wkb.MultiPoint{MultiPoint: g}
	case *geom.MultiLineString:
		out["MLS"] = &wkb.MultiLineString{MultiLineString: g}
	case *geom.MultiPolygon:
		out["MPG"] = &wkb.MultiPolygon{MultiPolygon: g}
	case *geom.GeometryCollection:
		out["GC"] = &wkb.GeometryCollection{GeometryCollection: g}
	}
	return out
}

// directValueObs: Value() of every wrapper that can hold g, populated directly.
func directValueObs(g geom.T, flavor string) []any {
	out := []any{}
	ws := direct(g, flavor)
	for _, wt := range []string{"PT", "LS", "PG", "MPT", "MLS", "MPG", "GC", "ANY"} {
		w, ok := ws[wt]
		if !ok {
			continue
		}
		e := map[string]any{"w": wt, "ev": "ok", "ok": false, "val": []int{}}
		if ev, msg := call(func() {
			v, err := w.Value()
			if vb, isb := v.([]byte); isb && err == nil {
				retain("Value/"+flavor, vb)
				e["ok"], e["val"] = true, byteInts(vb)
			}
		}); ev != "ok" {
			e["ev"] = "panic: " + msg
		}
		out = append(out, e)
	}
	return out
}

// refusedObs: Marshal returned an error for g. Every other encoder is tried too; whatever bytes one of them
// hands out are decoded again (recorded as api, ev, ok, dec{ok, g}).
func refusedObs(g geom.T, order binary.ByteOrder, flavor string) []any {
	out := []any{}
	noG := map[string]any{"t": "-", "l": "-", "srid": []int{}, "body": []any{}}
	try := func(api string, f func() ([]byte, error)) {
		e := map[string]any{"api": api, "ev": "ok", "ok": false, "dec": map[string]any{"ok": false, "g": noG}}
		if ev, msg := call(func() {
			b, err := f()
			if err != nil {
				return
			}
			e["ok"] = true
			if g2, err := readFlavor(&schedReader{data: b, sizes: []int{0}}, flavor); err == nil {
				e["dec"] = map[string]any{"ok": true, "g": projWKB(g2, ordTok)}
			}
		}); ev != "ok" {
			e["ev"] = "panic: " + msg
		}
		out = append(out, e)
	}
	try("write", func() ([]byte, error) {
		w := &failWriter{f: 1 << 20}
		err := writeFlavor(w, g, order, flavor)
		return w.got, err
	})
	try("hex", func() ([]byte, error) {
		var hs string
		var err error
		switch flavor {
		case "wkb":
			hs, err = wkbhex.Encode(g, order)
		case "wkbnan":
			hs, err = wkbhex.Encode(g, order, nanOpt())
		default:
			hs, err = ewkbhex.Encode(g, order)
		}
		if err != nil {
			return nil, err
		}
		return hex.DecodeString(hs)
	})
	if flavor != "wkbnan" {
		ws := direct(g, flavor)
		for _, wt := range []string{"PT", "LS", "PG", "MPT", "MLS", "MPG", "GC", "ANY"} {
			if w, ok := ws[wt]; ok {
				try("value:"+wt, func() ([]byte, error) {
					v, err := w.Value()
					if err != nil {
						return nil, err
					}
					vb, isb := v.([]byte)
					if !isb {
						return nil, errors.New("no bytes")
					}
					return vb, nil
				})
			}
		}
	}
	return out
}

type scanValuer interface {
	Scan(any) error
	Value() (driver.Value, error)
}

func sqlWrappers(flavor string) map[string]func() (scanValuer, func() geom.T) {
	if flavor == "ewkb" {
		return map[string]func() (scanValuer, func() geom.T){
			"PT": func() (scanValuer, func() geom.T) { w := &ewkb.Point{}; return w, func() geom.T { return w.Point } },
			"LS": func() (scanValuer, func() geom.T) {
				w := &ewkb.LineString{}
				return w, func() geom.T { return w.LineString }
			},
			"PG": func() (scanValuer, func() geom.T) { w := &ewkb.Polygon{}; return w, func() geom.T { return w.Polygon } },
			"MPT": func() (scanValuer, func() geom.T) {
				w := &ewkb.MultiPoint{}
				return w, func() geom.T { return w.MultiPoint }
			},
			"MLS": func() (scanValuer, func() geom.T) {
				w := &ewkb.MultiLineString{}
				return w, func() geom.T { return w.MultiLineString }
			},
			"MPG": func() (scanValuer, func() geom.T) {
				w := &ewkb.MultiPolygon{}
				return w, func() geom.T { return w.MultiPolygon }
			},
			"GC": func() (scanValuer, func() geom.T) {
				w := &ewkb.GeometryCollection{}
				return w, func() geom.T { return w.GeometryCollection }
			},
		}
	}
	return map[string]func() (scanValuer, func() geom.T){
		"PT": func() (scanValuer, func() geom.T) { w := &wkb.Point{}; return w, func() geom.T { return w.Point } },
		"LS": func() (scanValuer, func() geom.T) {
			w := &wkb.LineString{}
			return w, func() geom.T { return w.LineString }
		},
		"PG": func() (scanValuer, func() geom.T) { w := &wkb.Polygon{}; return w, func() geom.T { return w.Polygon } },
		"MPT": func() (scanValuer, func() geom.T) {
			w := &wkb.MultiPoint{}
			return w, func() geom.T { return w.MultiPoint }
		},
		"MLS": func() (scanValuer, func() geom.T) {
			w := &wkb.MultiLineString{}
			return w, func() geom.T { return w.MultiLineString }
		},
		"MPG": func() (scanValuer, func() geom.T) {
			w := &wkb.MultiPolygon{}
			return w, func() geom.T { return w.MultiPolygon }
		},
		"GC": func() (scanValuer, func() geom.T) {
			w := &wkb.GeometryCollection{}
			return w, func() geom.T { return w.GeometryCollection }
		},
		"ANY": func() (scanValuer, func() geom.T) { w := &wkb.Geom{}; return w, func() geom.T { return w.T } },
	}
}

// sqlObs: Scan the NDR and the XDR encoding into a wrapper of every type, Value() of what was scanned, and Scan of
// sources that are not byte slices (nil, a string, an integer).
func sqlObs(g geom.T, flavor string, wf *wfSet) []any {
	out := []any{}
	b, err := marshalFlavor(g, wkb.NDR, flavor)
	if err != nil {
		return out
	}
	bx, err := marshalFlavor(g, wkb.XDR, flavor)
	if err != nil {
		return out
	}
	for _, wt := range []string{"PT", "LS", "PG", "MPT", "MLS", "MPG", "GC", "ANY"} {
		mk, ok := sqlWrappers(flavor)[wt]
		if !ok {
			continue
		}
		e := map[string]any{"w": wt, "str": "error", "int": "error", "nil": "error"}
		scan := func(pfx string, src []byte) {
			w, get := mk()
			// scan: none | wrongtype (wkbcommon.ErrUnexpectedType) | error (any other error) | null | panic; msg: the text
			e[pfx+"scan"], e[pfx+"d"], e[pfx+"val"], e[pfx+"valok"], e[pfx+"msg"] = "none", "", []int{}, false, ""
			ev, msg := call(func() {
				err := w.Scan(append([]byte{}, src...))
				if err != nil {
					var ext wkbcommon.ErrUnexpectedType
					if errors.As(err, &ext) {
						e[pfx+"scan"] = "wrongtype"
					} else {
						e[pfx+"scan"] = "error"
					}
					e[pfx+"msg"] = err.Error()
					return
				}
				if isNilGeom(get()) {
					e[pfx+"scan"] = "null"
					return
				}
				wf.add(get())
				e[pfx+"d"] = digestOf(projWKB(get(), ordTok))
				v, err := w.Value()
				if vb, ok := v.([]byte); ok && err == nil {
					e[pfx+"valok"], e[pfx+"val"] = true, byteInts(vb)
				}
			})
			if ev != "ok" {
				e[pfx+"scan"], e[pfx+"msg"] = "panic", msg
			}
		}
		scan("", b)
		scan("x", bx)
		// sources that are not byte slices: refused with an error, taken as NULL, or (who knows) understood
		other := func(key string, src any) {
			w, get := mk()
			if ev, msg := call(func() {
				if err := w.Scan(src); err == nil {
					if isNilGeom(get()) {
						e[key] = "null"
					} else {
						e[key] = "geom"
						wf.add(get())
					}
				}
			}); ev != "ok" {
				e[key] = "panic: " + msg
			}
		}
		other("str", "not bytes")
		other("int", int64(7))
		other("nil", nil)
		out = append(out, e)
	}
	return out
}

// ---------------------------------------------------------------- C04: decoding arbitrary bytes

type wkbDecCase struct {
	Bytes  []int  `json:"bytes"`
	Flavor string `json:"flavor"` // wkb | ewkb
	Nan    bool   `json:"nan"`
	Lim    []int  `json:"lim"`
	// "" (stream reader) | hex (hex image of Bytes) | hexstr (the string whose characters are HexCodes, valid hex
	// or not) | sql (Scan of the wrapper named by Wrap: ANY PT LS PG MPT MLS MPG GC)
	Via      string `json:"via"`
	Wrap     string `json:"wrap"`
	HexCodes []int  `json:"hexcodes"`
}

// isNilGeom: a wrapper that holds no geometry shows a nil interface (wkb.Geom) or a typed nil pointer.
func isNilGeom(g geom.T) bool {
	if g == nil {
		return true
	}
	v := reflect.ValueOf(g)
	return v.Kind() == reflect.Ptr && v.IsNil()
}

func wkbDecHandler(raw json.RawMessage) map[string]any {
	c := dec[wkbDecCase](raw)
	data := make([]byte, len(c.Bytes))
	for i, v := range c.Bytes {
		data[i] = byte(v)
	}
	wkbcommon.MaxGeometryElements = [4]int{0, c.Lim[0], c.Lim[1], c.Lim[2]}
	defer func() { wkbcommon.MaxGeometryElements = [4]int{0, -1, -1, -1} }()
	fl := c.Flavor
	if fl == "wkb" && c.Nan {
		fl = "wkbnan"
	}
	noG := map[string]any{"t": "-", "l": "-", "srid": []int{}, "body": []any{}}
	obs := map[string]any{"ok": false, "err": "none", "errclass": "none", "g": noG, "consumed": -1, "alloc": 0, "d1": "", "d2": "", "d1m": "", "d2m": "", "re": "none", "wf": []any{},
		"deep": false, "pre": []any{}}
	var g geom.T
	var err error
	null := false // a wrapper reported success and holds no geometry (the SQL NULL of the wrappers)
	rd := &schedReader{data: data, sizes: []int{0}}
	old := debug.SetGCPercent(-1)
	var m0, m1 runtime.MemStats
	runtime.ReadMemStats(&m0)
	ev, msg := call(func() {
		hexDecode := func(s string) {
			if fl == "ewkb" {
				g, err = ewkbhex.Decode(s)
			} else if fl == "wkbnan" {
				g, err = wkbhex.Decode(s, nanOpt())
			} else {
				g, err = wkbhex.Decode(s)
			}
		}
		switch c.Via {
		case "hex":
			hexDecode(hex.EncodeToString(data))
		case "hexstr":
			rs := make([]rune, len(c.HexCodes))
			for i, v := range c.HexCodes {
				rs[i] = rune(v)
			}
			hexDecode(string(rs))
		case "sql":
			if fl == "wkbnan" {
				panic("harness: the SQL wrappers cannot be given the NaN option")
			}
			wt := c.Wrap
			if wt == "" {
				wt = "ANY"
			}
			mk, ok := sqlWrappers(fl)[wt]
			if !ok {
				panic("harness: no wrapper " + wt + " in flavour " + fl)
			}
			w, get := mk()
			err = w.Scan(data)
			if err == nil {
				if g = get(); isNilGeom(g) {
					g, null = nil, true
				}
			}
		default:
			g, err = readFlavor(rd, fl)
		}
	})
	runtime.ReadMemStats(&m1)
	debug.SetGCPercent(old)
	alloc := m1.TotalAlloc - m0.TotalAlloc
	if alloc > 999999999 {
		alloc = 999999999
	}
	obs["alloc"] = int(alloc)
	if alloc > 8<<20 {
		debug.FreeOSMemory() // large garbage must not pile up and kill a later, innocent case
	}
	if ev != "ok" {
		obs["err"], obs["errclass"] = "panic: "+msg, "panic"
		return obs
	}
	if err != nil {
		obs["err"] = wkbErrClass(err)
		obs["errclass"] = obs["err"]
		if strings.HasPrefix(obs["err"].(string), "other") {
			obs["errclass"] = "other"
		}
		return obs
	}
	if null {
		obs["err"], obs["errclass"] = "no error and no geometry", "null"
		return obs
	}
	obs["ok"] = true
	if ev, msg := call(func() {
		p := projWKB(g, ordBytes)
		obs["consumed"], obs["d1"], obs["d1m"] = rd.pos, digestOf(p), digestOf(outerSridOnly(p, true))
		if gcDepth(g) > 40 {
			// the JSON reader of the model checker refuses documents nested deeper than 255: a deep tree is recorded
			// as its preorder node list (collections: member count; every other geometry: the complete node)
			obs["deep"], obs["pre"] = true, preWKB(g, ordBytes, []any{})
		} else {
			obs["g"] = p
		}
		obs["wf"] = wfList(g)
		// canonical: re-encode and decode again
		b2, err := marshalFlavor(g, wkb.NDR, fl)
		if err != nil {
			obs["re"] = "encode-error: " + err.Error()
			return
		}
		g2, err := readFlavor(&schedReader{data: b2, sizes: []int{0}}, fl)
		if err != nil {
			obs["re"] = "decode-error: " + err.Error()
			return
		}
		p2 := projWKB(g2, ordBytes)
		obs["re"], obs["d2"], obs["d2m"] = "ok", digestOf(p2), digestOf(outerSridOnly(p2, true))
	}); ev != "ok" {
		obs["err"], obs["errclass"] = "panic-in-result: "+msg, "panic"
		obs["ok"] = false
	}
	return obs
}

func gcDepth(g geom.T) int {
	gc, ok := g.(*geom.GeometryCollection)
	if !ok || gc == nil {
		return 0
	}
	d := 0
	for _, m := range gc.Geoms() {
		if k := gcDepth(m); k > d {
			d = k
		}
	}
	return d + 1
}

// preWKB: preorder node list of a geometry tree; a collection node carries its member count and an empty body,
// every other node is the complete projection (n = 0).
func preWKB(g geom.T, ord func(float64) any, out []any) []any {
	if gc, ok := g.(*geom.GeometryCollection); ok {
		out = append(out, map[string]any{"t": "GC", "l": layoutName(gc.Layout()), "srid": sridBytes(gc.SRID()), "n": gc.NumGeoms(), "body": []any{}})
		for i := 0; i < gc.NumGeoms(); i++ {
			out = preWKB(gc.Geom(i), ord, out)
		}
		return out
	}
	p := projWKB(g, ord)
	p["n"] = 0
	return append(out, p)
}

// wfList: the flat representation (kind, layout, stride, lengths, ends) of every non-collection node, for
// the spec's WellFormedObj; ordinates are irrelevant here and recorded as zeros.
func wfList(g geom.T) []any {
	if hugeGeom(g) { // (see hugeGeom) recorded as one node that is not well formed
		return []any{map[string]any{"k": "huge", "l": "No", "stride": 0, "flat": []int{}, "ends": []int{}, "endss": [][]int{}}}
	}
	if gc, ok := g.(*geom.GeometryCollection); ok {
		out := []any{}
		for _, m := range gc.Geoms() {
			if m == nil {
				out = append(out, map[string]any{"k": "nil", "l": "No", "stride": 0, "flat": []int{}, "ends": []int{}, "endss": [][]int{}})
				continue
			}
			out = append(out, wfList(m)...)
		}
		return out
	}
	return []any{map[string]any{"k": kindOf(g), "l": layoutName(g.Layout()), "stride": g.Stride(),
		"flat": make([]int, len(g.FlatCoords())), "ends": ints(g.Ends()), "endss": intss(g.Endss())}}
}

func init() {
	handlers["wkbenc"] = wkbEncHandler
	handlers["wkbdec"] = wkbDecHandler
	tokModes["wkbenc"] = "wkb"
	_ = fmt.Sprint
}
