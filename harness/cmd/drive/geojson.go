package main

// Driver for C07 (encoding/geojson). JSON values travel as tagged tuples (see specs/GeoJSON.tla):
// ["null"] ["n",k] ["s",str] ["b",bool] ["a",[...]] ["o",[[key,value],...]] with keys sorted.

import (
	"bytes"
	"encoding/hex"
	"encoding/json"
	"fmt"
	"math"
	"regexp"
	"sort"
	"strconv"
	"strings"

	"github.com/twpayne/go-geom"
	"github.com/twpayne/go-geom/encoding/geojson"
)

type tj []json.RawMessage

func renderTagged(raw json.RawMessage, sb *strings.Builder) {
	var t tj
	must(json.Unmarshal(raw, &t))
	switch dec[string](t[0]) {
	case "null":
		sb.WriteString("null")
	case "n":
		sb.WriteString(strconv.Itoa(dec[int](t[1])))
	case "x": // a number literal, as written
		sb.WriteString(dec[string](t[1]))
	case "s":
		b, _ := json.Marshal(dec[string](t[1]))
		sb.Write(b)
	case "b":
		if dec[bool](t[1]) {
			sb.WriteString("true")
		} else {
			sb.WriteString("false")
		}
	case "a":
		sb.WriteByte('[')
		for i, e := range dec[[]json.RawMessage](t[1]) {
			if i > 0 {
				sb.WriteByte(',')
			}
			renderTagged(e, sb)
		}
		sb.WriteByte(']')
	case "o":
		sb.WriteByte('{')
		for i, kv := range dec[[][]json.RawMessage](t[1]) {
			if i > 0 {
				sb.WriteString(", ")
			}
			b, _ := json.Marshal(dec[string](kv[0]))
			sb.Write(b)
			sb.WriteString(": ")
			renderTagged(kv[1], sb)
		}
		sb.WriteByte('}')
	default:
		panic("harness: bad tagged JSON")
	}
}

// numTag is the tag of a number, BY VALUE: every spelling of the same number (1, 1.0, 1e0, 10e-1) gives the same tag.
// An integer of magnitude below 2e9 is ["n", k]; every other value is ["x", canonical exact spelling] (see canonNum: sign,
// significant digits, power of ten - no rounding); a literal outside the JSON number grammar is carried as written.
func numTag(lit string) any {
	c, nd, mag, ok := canonNum(lit)
	if !ok {
		return []any{"x", lit}
	}
	if c == "0" {
		return []any{"n", 0}
	}
	// value = 0.DIGITS x 10^mag with nd significant digits: an integer exactly when mag >= nd
	if mag >= nd && mag <= 10 {
		digits := c[:strings.IndexByte(c, 'e')]
		if i, err := strconv.Atoi(digits + strings.Repeat("0", mag-nd)); err == nil && i > -2000000000 && i < 2000000000 {
			return []any{"n", i}
		}
	}
	return []any{"x", c}
}

// tagged converts a generic JSON value (decoded with UseNumber) to the tagged form.
func tagged(v any) any {
	switch v := v.(type) {
	case nil:
		return []any{"null"}
	case bool:
		return []any{"b", v}
	case string:
		return []any{"s", v}
	case json.Number:
		return numTag(string(v))
	case float64:
		if math.IsNaN(v) || math.IsInf(v, 0) {
			return []any{"x", strconv.FormatFloat(v, 'g', -1, 64)}
		}
		return numTag(strconv.FormatFloat(v, 'e', -1, 64))
	case []any:
		out := make([]any, len(v))
		for i, e := range v {
			out[i] = tagged(e)
		}
		return []any{"a", out}
	case map[string]any:
		keys := make([]string, 0, len(v))
		for k := range v {
			keys = append(keys, k)
		}
		sort.Strings(keys)
		out := make([]any, len(keys))
		for i, k := range keys {
			out[i] = []any{k, tagged(v[k])}
		}
		return []any{"o", out}
	}
	return []any{"x", fmt.Sprintf("%T", v)}
}

func taggedOfBytes(b []byte) any {
	d := json.NewDecoder(bytes.NewReader(b))
	d.UseNumber()
	var v any
	if err := d.Decode(&v); err != nil {
		return []any{"x", "invalid JSON: " + err.Error()}
	}
	if deeper(v, 60) {
		// the observation reader of the model checker stops at 255 levels of nesting (a tagged value uses three per level)
		return []any{"x", "nested deeper than 60 levels"}
	}
	return tagged(v)
}

func deeper(v any, n int) bool {
	if n < 0 {
		return true
	}
	switch v := v.(type) {
	case []any:
		for _, e := range v {
			if deeper(e, n-1) {
				return true
			}
		}
	case map[string]any:
		for _, e := range v {
			if deeper(e, n-1) {
				return true
			}
		}
	}
	return false
}

// untag converts tagged JSON to a generic Go value (for Feature.Properties).
func untag(raw json.RawMessage) any {
	var sb strings.Builder
	renderTagged(raw, &sb)
	var v any
	must(json.Unmarshal([]byte(sb.String()), &v))
	return v
}

type gjG struct {
	T, L string
	Body json.RawMessage
}

func tokCoord(ts []int) geom.Coord {
	c := make(geom.Coord, len(ts))
	for i, t := range ts {
		c[i] = float64(t)
	}
	return c
}

func tokCoords1(v [][]int) []geom.Coord {
	out := make([]geom.Coord, len(v))
	for i := range v {
		out[i] = tokCoord(v[i])
	}
	return out
}

func tokCoords2(v [][][]int) [][]geom.Coord {
	out := make([][]geom.Coord, len(v))
	for i := range v {
		out[i] = tokCoords1(v[i])
	}
	return out
}

func buildGJ(g gjG) geom.T {
	if g.T == "nil" {
		return nil
	}
	if g.T == "GC" {
		gc := geom.NewGeometryCollection()
		for _, m := range dec[[]gjG](g.Body) {
			gc.MustPush(buildGJ(m))
		}
		return gc
	}
	l := layoutOf(g.L)
	switch g.T {
	case "PT":
		c := dec[[]int](g.Body)
		if len(c) == 0 {
			return geom.NewPointEmpty(l)
		}
		return geom.NewPoint(l).MustSetCoords(tokCoord(c))
	case "LS":
		return geom.NewLineString(l).MustSetCoords(tokCoords1(dec[[][]int](g.Body)))
	case "PG":
		return geom.NewPolygon(l).MustSetCoords(tokCoords2(dec[[][][]int](g.Body)))
	case "MPT":
		v := dec[[][]int](g.Body)
		cs := make([]geom.Coord, len(v))
		for i, c := range v {
			if !isNil(c) {
				cs[i] = tokCoord(c)
			}
		}
		return geom.NewMultiPoint(l).MustSetCoords(cs)
	case "MLS":
		return geom.NewMultiLineString(l).MustSetCoords(tokCoords2(dec[[][][]int](g.Body)))
	case "MPG":
		v := dec[[][][][]int](g.Body)
		cs := make([][][]geom.Coord, len(v))
		for i := range v {
			cs[i] = tokCoords2(v[i])
		}
		return geom.NewMultiPolygon(l).MustSetCoords(cs)
	}
	panic("harness: unknown geojson geometry kind " + g.T)
}

func tokOf(f float64) int {
	if f == math.Trunc(f) && math.Abs(f) < 1e6 {
		return int(f)
	}
	return -2
}

func tokList(c []float64) []int {
	out := make([]int, len(c))
	for i, f := range c {
		out[i] = tokOf(f)
	}
	return out
}

func tokFlat1(flat []float64, stride int) [][]int {
	out := [][]int{}
	for i := 0; stride > 0 && i+stride <= len(flat); i += stride {
		out = append(out, tokList(flat[i:i+stride]))
	}
	return out
}

func tokRings(flat []float64, ends []int, stride, off int) [][][]int {
	out := [][][]int{}
	for _, e := range ends {
		out = append(out, tokFlat1(flat[off:e], stride))
		off = e
	}
	return out
}

// projGJ renders a geometry as the spec's [t, l, body] through the public accessors.
func projGJ(g geom.T) map[string]any { return projGJDepth(g, 40) }

func projGJDepth(g geom.T, depth int) map[string]any {
	if depth < 0 {
		return map[string]any{"t": "deep", "l": "No", "body": []any{}} // see taggedOfBytes
	}
	if g == nil {
		return map[string]any{"t": "nil", "l": "No", "body": []any{}}
	}
	p := map[string]any{"t": kindOf(g), "l": layoutName(g.Layout())}
	switch g := g.(type) {
	case *geom.Point:
		if g.Empty() {
			p["body"] = []int{}
		} else {
			p["body"] = tokList(g.FlatCoords())
		}
	case *geom.LineString:
		p["body"] = tokFlat1(g.FlatCoords(), g.Stride())
	case *geom.Polygon:
		p["body"] = tokRings(g.FlatCoords(), g.Ends(), g.Stride(), 0)
	case *geom.MultiPoint:
		b := [][]int{}
		for i := 0; i < g.NumPoints(); i++ {
			pt := g.Point(i)
			if pt.Empty() {
				b = append(b, []int{-1})
			} else {
				b = append(b, tokList(pt.FlatCoords()))
			}
		}
		p["body"] = b
	case *geom.MultiLineString:
		p["body"] = tokRings(g.FlatCoords(), g.Ends(), g.Stride(), 0)
	case *geom.MultiPolygon:
		b := [][][][]int{}
		for i := 0; i < g.NumPolygons(); i++ {
			pg := g.Polygon(i)
			b = append(b, tokRings(pg.FlatCoords(), pg.Ends(), pg.Stride(), 0))
		}
		p["body"] = b
	case *geom.GeometryCollection:
		p["l"] = "No"
		b := []any{}
		for _, m := range g.Geoms() {
			b = append(b, projGJDepth(m, depth-1))
		}
		p["body"] = b
	default:
		p["body"] = []any{}
	}
	return p
}

func wfOf(g geom.T) []any {
	if g == nil {
		return []any{}
	}
	return wfList(g)
}

func gjBBoxProj(b *geom.Bounds) []int {
	if b == nil {
		return []int{}
	}
	n := 2
	if b.Layout() == geom.XYZ {
		n = 3
	} else if b.Layout() != geom.XY {
		return []int{-9}
	}
	out := []int{}
	for i := 0; i < n; i++ {
		out = append(out, tokOf(b.Min(i)))
	}
	for i := 0; i < n; i++ {
		out = append(out, tokOf(b.Max(i)))
	}
	return out
}

func bboxOf(v []int) *geom.Bounds {
	if len(v) == 0 {
		return nil
	}
	fs := make([]float64, len(v))
	for i, t := range v {
		fs[i] = float64(t)
	}
	if len(v) == 4 {
		return geom.NewBounds(geom.XY).Set(fs...)
	}
	return geom.NewBounds(geom.XYZ).Set(fs...)
}

type gjFeat struct {
	Id    string
	Bbox  []int
	Geom  gjG
	Props json.RawMessage
}

func buildFeat(f gjFeat) *geojson.Feature {
	out := &geojson.Feature{ID: f.Id, BBox: bboxOf(f.Bbox), Geometry: buildGJ(f.Geom)}
	if p := untag(f.Props); p != nil {
		out.Properties = p.(map[string]any)
	}
	return out
}

func propsTagged(m map[string]any) any {
	if m == nil {
		return []any{"null"}
	}
	b, _ := json.Marshal(m)
	return taggedOfBytes(b)
}

func featProj(f *geojson.Feature) any {
	if f == nil {
		return map[string]any{"nil": true}
	}
	return map[string]any{"id": f.ID, "bbox": gjBBoxProj(f.BBox), "geom": projGJ(f.Geometry), "props": propsTagged(f.Properties)}
}

func errStr(err error) string {
	if err == nil {
		return ""
	}
	s := err.Error()
	if s == "" {
		return "error"
	}
	return s
}

// ---------------------------------------------------------------- number literals and ids, as written

var jsonNumRe = regexp.MustCompile(`^(-?)(0|[1-9][0-9]*)(?:\.([0-9]+))?(?:[eE]([+-]?[0-9]+))?$`)

// canonNum is the canonical spelling of the value a JSON number literal denotes: sign, the significant digits without
// leading or trailing zeros, and the power of ten they are scaled by ("-125e-2"; zero is "0", without a sign). nd is the
// number of significant digits, mag the position of the leading digit (value = 0.DIGITS x 10^mag). No arithmetic on the
// value is done here: two literals denote the same number exactly when their canonical spellings are equal.
func canonNum(lit string) (canon string, nd, mag int, ok bool) {
	m := jsonNumRe.FindStringSubmatch(lit)
	if m == nil {
		return "", 0, 0, false
	}
	digits := m[2] + m[3]
	e := -len(m[3])
	if m[4] != "" {
		x, err := strconv.Atoi(m[4])
		if err != nil || x > 1000000 || x < -1000000 {
			return "", 99, 1000000, false
		}
		e += x
	}
	digits = strings.TrimLeft(digits, "0")
	for strings.HasSuffix(digits, "0") {
		digits = digits[:len(digits)-1]
		e++
	}
	if digits == "" {
		return "0", 0, 0, true
	}
	sign := ""
	if m[1] == "-" {
		sign = "-"
	}
	return sign + digits + "e" + strconv.Itoa(e), len(digits), e + len(digits), true
}

// idRec describes the "id" member of a Feature object as an independent reader (encoding/json, generic tree) sees it.
func idRec(obj map[string]any) map[string]any {
	r := map[string]any{"k": "absent", "s": "", "num": "", "nd": 0, "mag": 0, "lit": "", "form": ""}
	v, present := obj["id"]
	if !present {
		return r
	}
	lit := ""
	switch v := v.(type) {
	case nil:
		r["k"] = "null"
		return r
	case string:
		r["k"], r["s"] = "s", v
		lit = v
	case json.Number:
		r["k"] = "n"
		lit = string(v)
	default:
		r["k"] = "other"
		return r
	}
	if c, nd, mag, ok := canonNum(lit); ok {
		r["num"], r["nd"], r["mag"] = c, nd, mag
		// the spelling as text, and whether it is a plain decimal (no exponent part): a lexical observation only
		r["lit"], r["form"] = lit, "exp"
		if !strings.ContainsAny(lit, "eE") {
			r["form"] = "plain"
		}
	} else if r["k"] == "n" {
		r["nd"], r["mag"] = 99, 1000000
	}
	return r
}

// idsOfBytes: the id of a Feature document, or of every member of a FeatureCollection document.
func idsOfBytes(kind string, b []byte) []any {
	out := []any{}
	d := json.NewDecoder(bytes.NewReader(b))
	d.UseNumber()
	var v any
	if err := d.Decode(&v); err != nil {
		return out
	}
	obj, ok := v.(map[string]any)
	if !ok {
		return out
	}
	switch kind {
	case "feature":
		out = append(out, idRec(obj))
	case "fc":
		fs, _ := obj["features"].([]any)
		for _, f := range fs {
			if fo, ok := f.(map[string]any); ok {
				out = append(out, idRec(fo))
			} else {
				out = append(out, map[string]any{"k": "other", "s": "", "num": "", "nd": 0, "mag": 0})
			}
		}
	}
	return out
}

func fcProj(fc *geojson.FeatureCollection) (any, []any) {
	fs, wf := []any{}, []any{}
	for _, f := range fc.Features {
		fs = append(fs, featProj(f))
		if f != nil {
			wf = append(wf, wfOf(f.Geometry)...)
		}
	}
	return map[string]any{"bbox": gjBBoxProj(fc.BBox), "features": fs}, wf
}

func printable(b []byte) string {
	if len(b) > 300 {
		b = b[:300]
	}
	return strings.ToValidUTF8(string(b), "?")
}

// gjRep describes a long repetitive input without spelling it out: pre x n, mid, post x n.
type gjRep struct {
	Pre, Mid, Post string
	N              int
}

// decodeRuns feeds text to every decoding entry point of the package for the kind of document and records, per entry
// point: error or result (projected through the public accessors), the flat representation of every geometry in the
// result, and what the matching encoder makes of the result.
func decodeRuns(kind string, text []byte) []any {
	none := map[string]any{"t": "none", "l": "No", "body": []any{}}
	runs := []any{}
	run := func(api string, f func(o map[string]any)) {
		o := map[string]any{"api": api, "ok": false, "err": "", "pan": "", "g": none, "f": "none", "wf": []any{},
			"re": "", "rejson": []any{"x", "not encoded"}, "reid": []any{}}
		if ev, msg := call(func() { f(o) }); ev != "ok" {
			o["pan"] = msg
			if msg == "" {
				o["pan"] = "panic"
			}
		}
		runs = append(runs, o)
	}
	reenc := func(o map[string]any, b []byte, err error) {
		o["re"] = errStr(err)
		if err == nil {
			o["rejson"], o["reid"] = taggedOfBytes(b), idsOfBytes(kind, b)
		}
	}
	switch kind {
	case "geom":
		run("Unmarshal", func(o map[string]any) {
			var g geom.T
			err := geojson.Unmarshal(text, &g)
			o["err"] = errStr(err)
			if err == nil {
				o["ok"], o["g"], o["wf"] = true, projGJ(g), wfOf(g)
				b, err2 := geojson.Marshal(g)
				reenc(o, b, err2)
			}
		})
		run("Geometry.Decode", func(o map[string]any) {
			var gg *geojson.Geometry
			err := json.Unmarshal(text, &gg)
			var g geom.T
			if err == nil {
				g, err = gg.Decode()
			}
			o["err"] = errStr(err)
			if err == nil {
				o["ok"], o["g"], o["wf"] = true, projGJ(g), wfOf(g)
				ge, err2 := geojson.Encode(g)
				var b []byte
				if err2 == nil {
					b, err2 = json.Marshal(ge)
				}
				reenc(o, b, err2)
			}
		})
	case "feature":
		run("json.Unmarshal", func(o map[string]any) {
			f := &geojson.Feature{}
			err := json.Unmarshal(text, f)
			o["err"] = errStr(err)
			if err == nil {
				o["ok"], o["f"], o["wf"] = true, featProj(f), wfOf(f.Geometry)
				b, err2 := json.Marshal(f)
				reenc(o, b, err2)
			}
		})
		run("Feature.UnmarshalJSON", func(o map[string]any) {
			f := &geojson.Feature{}
			err := f.UnmarshalJSON(text)
			o["err"] = errStr(err)
			if err == nil {
				o["ok"], o["f"], o["wf"] = true, featProj(f), wfOf(f.Geometry)
				b, err2 := f.MarshalJSON()
				reenc(o, b, err2)
			}
		})
	case "fc":
		run("json.Unmarshal", func(o map[string]any) {
			fc := &geojson.FeatureCollection{}
			err := json.Unmarshal(text, fc)
			o["err"] = errStr(err)
			if err == nil {
				o["f"], o["wf"] = fcProj(fc)
				o["ok"] = true
				b, err2 := json.Marshal(fc)
				reenc(o, b, err2)
			}
		})
		run("FeatureCollection.UnmarshalJSON", func(o map[string]any) {
			fc := &geojson.FeatureCollection{}
			err := fc.UnmarshalJSON(text)
			o["err"] = errStr(err)
			if err == nil {
				o["f"], o["wf"] = fcProj(fc)
				o["ok"] = true
				b, err2 := fc.MarshalJSON()
				reenc(o, b, err2)
			}
		})
	}
	return runs
}

func geojsonHandler(raw json.RawMessage) map[string]any {
	var c struct {
		Fam  string
		Kind string
		G    gjG
		F    gjFeat
		Fc   struct {
			Bbox     []int
			Features []gjFeat
		}
		Doc json.RawMessage
		Hex *string
		Rep *gjRep
	}
	must(json.Unmarshal(raw, &c))
	out := map[string]any{"pan": ""}
	defer func() { out["overwritten"] = drainOverwritten() }()
	none := map[string]any{"t": "none", "l": "No", "body": []any{}}
	notEnc := []any{"x", "not encoded"}
	switch c.Fam {
	case "geom":
		g := buildGJ(c.G)
		out["json"], out["encerr"], out["back"], out["backerr"], out["wf"] = notEnc, "", none, "", []any{}
		out["json2"], out["encerr2"], out["back2"], out["backerr2"], out["wf2"] = notEnc, "", none, "", []any{}
		ev, msg := call(func() {
			b, err := geojson.Marshal(g)
			retain("geojson.Marshal", b)
			out["encerr"] = errStr(err)
			if err != nil {
				return
			}
			out["json"] = taggedOfBytes(b)
			var back geom.T
			err = geojson.Unmarshal(b, &back)
			out["backerr"] = errStr(err)
			if err == nil {
				out["back"], out["wf"] = projGJ(back), wfOf(back)
			}
		})
		if ev != "ok" {
			out["pan"] = msg
		}
		// the same through Encode / (*Geometry).Decode
		ev, msg = call(func() {
			ge, err := geojson.Encode(g)
			var b []byte
			if err == nil {
				if ge != nil && ge.Coordinates != nil {
					retain("geojson.Encode.Coordinates", []byte(*ge.Coordinates))
				}
				b, err = json.Marshal(ge)
			}
			out["encerr2"] = errStr(err)
			if err != nil {
				return
			}
			out["json2"] = taggedOfBytes(b)
			back, err := ge.Decode()
			out["backerr2"] = errStr(err)
			if err == nil {
				out["back2"], out["wf2"] = projGJ(back), wfOf(back)
			}
		})
		if ev != "ok" {
			out["pan"] = "Encode/Decode: " + msg
		}
	case "feat":
		out["json"], out["encerr"], out["back"], out["backerr"] = notEnc, "", "none", ""
		out["json2"], out["encerr2"], out["back2"], out["backerr2"] = notEnc, "", "none", ""
		ev, msg := call(func() {
			f := buildFeat(c.F)
			b, err := json.Marshal(f)
			out["encerr"] = errStr(err)
			if err != nil {
				return
			}
			out["json"] = taggedOfBytes(b)
			back := &geojson.Feature{}
			err = json.Unmarshal(b, back)
			out["backerr"] = errStr(err)
			if err == nil {
				out["back"] = featProj(back)
			}
		})
		if ev != "ok" {
			out["pan"] = msg
		}
		// the same through the methods themselves
		ev, msg = call(func() {
			f := buildFeat(c.F)
			b, err := f.MarshalJSON()
			retain("Feature.MarshalJSON", b)
			out["encerr2"] = errStr(err)
			if err != nil {
				return
			}
			out["json2"] = taggedOfBytes(b)
			back := &geojson.Feature{}
			err = back.UnmarshalJSON(b)
			out["backerr2"] = errStr(err)
			if err == nil {
				out["back2"] = featProj(back)
			}
		})
		if ev != "ok" {
			out["pan"] = "MarshalJSON/UnmarshalJSON: " + msg
		}
	case "fc":
		out["json"], out["encerr"], out["back"], out["backerr"] = notEnc, "", "none", ""
		out["json2"], out["encerr2"], out["back2"], out["backerr2"] = notEnc, "", "none", ""
		build := func() *geojson.FeatureCollection {
			fc := &geojson.FeatureCollection{BBox: bboxOf(c.Fc.Bbox)}
			for _, f := range c.Fc.Features {
				fc.Features = append(fc.Features, buildFeat(f))
			}
			return fc
		}
		ev, msg := call(func() {
			b, err := json.Marshal(build())
			out["encerr"] = errStr(err)
			if err != nil {
				return
			}
			out["json"] = taggedOfBytes(b)
			back := &geojson.FeatureCollection{}
			err = json.Unmarshal(b, back)
			out["backerr"] = errStr(err)
			if err == nil {
				out["back"], _ = fcProj(back)
			}
		})
		if ev != "ok" {
			out["pan"] = msg
		}
		ev, msg = call(func() {
			b, err := build().MarshalJSON()
			retain("FeatureCollection.MarshalJSON", b)
			out["encerr2"] = errStr(err)
			if err != nil {
				return
			}
			out["json2"] = taggedOfBytes(b)
			back := &geojson.FeatureCollection{}
			err = back.UnmarshalJSON(b)
			out["backerr2"] = errStr(err)
			if err == nil {
				out["back2"], _ = fcProj(back)
			}
		})
		if ev != "ok" {
			out["pan"] = "MarshalJSON/UnmarshalJSON: " + msg
		}
	case "dec":
		var text []byte
		switch {
		case c.Rep != nil:
			text = []byte(strings.Repeat(c.Rep.Pre, c.Rep.N) + c.Rep.Mid + strings.Repeat(c.Rep.Post, c.Rep.N))
		case c.Hex != nil:
			b, err := hex.DecodeString(*c.Hex)
			must(err)
			text = b
		default:
			var sb strings.Builder
			renderTagged(c.Doc, &sb)
			text = []byte(sb.String())
		}
		out["text"] = printable(text)
		out["idin"] = idsOfBytes(c.Kind, text)
		runs := decodeRuns(c.Kind, text)
		out["runs"] = runs
		// for the violation report: the first entry point's outcome
		out["err"] = ""
		for _, r := range runs {
			m := r.(map[string]any)
			if m["pan"] != "" {
				out["pan"] = m["api"].(string) + ": " + m["pan"].(string)
			}
			if m["err"] != "" && out["err"] == "" {
				out["err"] = m["err"]
			}
		}
	}
	return out
}

func init() {
	handlers["geojson"] = geojsonHandler
	tokModes["geojson"] = "int"
}
