package main

// Driver for C07 (encoding/geojson). JSON values travel as tagged tuples (see specs/GeoJSON.tla):
// ["null"] ["n",k] ["s",str] ["b",bool] ["a",[...]] ["o",[[key,value],...]] with keys sorted.

import (
	"bytes"
	"encoding/json"
	"fmt"
	"math"
	"sort"
	"strconv"
	"strings"

	"github.com/twpayne/go-geom"
	"github.com/twpayne/go-geom/encoding/geojson"
)

type tj []json.RawMessage

func renderTagged(raw json.RawMessage, sb *strings.Builder) {
	var t tj
	must(json.Unmarshal(raw, &t))
	switch dec[string](t[0]) {
	case "null":
		sb.WriteString("null")
	case "n":
		sb.WriteString(strconv.Itoa(dec[int](t[1])))
	case "s":
		b, _ := json.Marshal(dec[string](t[1]))
		sb.Write(b)
	case "b":
		if dec[bool](t[1]) {
			sb.WriteString("true")
		} else {
			sb.WriteString("false")
		}
	case "a":
		sb.WriteByte('[')
		for i, e := range dec[[]json.RawMessage](t[1]) {
			if i > 0 {
				sb.WriteByte(',')
			}
			renderTagged(e, sb)
		}
		sb.WriteByte(']')
	case "o":
		sb.WriteByte('{')
		for i, kv := range dec[[][]json.RawMessage](t[1]) {
			if i > 0 {
				sb.WriteString(", ")
			}
			b, _ := json.Marshal(dec[string](kv[0]))
			sb.Write(b)
			sb.WriteString(": ")
			renderTagged(kv[1], sb)
		}
		sb.WriteByte('}')
	default:
		panic("harness: bad tagged JSON")
	}
}

// tagged converts a generic JSON value (decoded with UseNumber) to the tagged form.
func tagged(v any) any {
	switch v := v.(type) {
	case nil:
		return []any{"null"}
	case bool:
		return []any{"b", v}
	case string:
		return []any{"s", v}
	case json.Number:
		if i, err := strconv.Atoi(string(v)); err == nil && i > -2000000000 && i < 2000000000 {
			return []any{"n", i}
		}
		return []any{"x", string(v)}
	case float64:
		if v == math.Trunc(v) && math.Abs(v) < 2e9 {
			return []any{"n", int(v)}
		}
		return []any{"x", strconv.FormatFloat(v, 'g', -1, 64)}
	case []any:
		out := make([]any, len(v))
		for i, e := range v {
			out[i] = tagged(e)
		}
		return []any{"a", out}
	case map[string]any:
		keys := make([]string, 0, len(v))
		for k := range v {
			keys = append(keys, k)
		}
		sort.Strings(keys)
		out := make([]any, len(keys))
		for i, k := range keys {
			out[i] = []any{k, tagged(v[k])}
		}
		return []any{"o", out}
	}
	return []any{"x", fmt.Sprintf("%T", v)}
}

func taggedOfBytes(b []byte) any {
	d := json.NewDecoder(bytes.NewReader(b))
	d.UseNumber()
	var v any
	if err := d.Decode(&v); err != nil {
		return []any{"x", "invalid JSON: " + err.Error()}
	}
	return tagged(v)
}

// untag converts tagged JSON to a generic Go value (for Feature.Properties).
func untag(raw json.RawMessage) any {
	var sb strings.Builder
	renderTagged(raw, &sb)
	var v any
	must(json.Unmarshal([]byte(sb.String()), &v))
	return v
}

type gjG struct {
	T, L string
	Body json.RawMessage
}

func tokCoord(ts []int) geom.Coord {
	c := make(geom.Coord, len(ts))
	for i, t := range ts {
		c[i] = float64(t)
	}
	return c
}

func tokCoords1(v [][]int) []geom.Coord {
	out := make([]geom.Coord, len(v))
	for i := range v {
		out[i] = tokCoord(v[i])
	}
	return out
}

func tokCoords2(v [][][]int) [][]geom.Coord {
	out := make([][]geom.Coord, len(v))
	for i := range v {
		out[i] = tokCoords1(v[i])
	}
	return out
}

func buildGJ(g gjG) geom.T {
	if g.T == "nil" {
		return nil
	}
	if g.T == "GC" {
		gc := geom.NewGeometryCollection()
		for _, m := range dec[[]gjG](g.Body) {
			gc.MustPush(buildGJ(m))
		}
		return gc
	}
	l := layoutOf(g.L)
	switch g.T {
	case "PT":
		c := dec[[]int](g.Body)
		if len(c) == 0 {
			return geom.NewPointEmpty(l)
		}
		return geom.NewPoint(l).MustSetCoords(tokCoord(c))
	case "LS":
		return geom.NewLineString(l).MustSetCoords(tokCoords1(dec[[][]int](g.Body)))
	case "PG":
		return geom.NewPolygon(l).MustSetCoords(tokCoords2(dec[[][][]int](g.Body)))
	case "MPT":
		v := dec[[][]int](g.Body)
		cs := make([]geom.Coord, len(v))
		for i, c := range v {
			if !isNil(c) {
				cs[i] = tokCoord(c)
			}
		}
		return geom.NewMultiPoint(l).MustSetCoords(cs)
	case "MLS":
		return geom.NewMultiLineString(l).MustSetCoords(tokCoords2(dec[[][][]int](g.Body)))
	case "MPG":
		v := dec[[][][][]int](g.Body)
		cs := make([][][]geom.Coord, len(v))
		for i := range v {
			cs[i] = tokCoords2(v[i])
		}
		return geom.NewMultiPolygon(l).MustSetCoords(cs)
	}
	panic("harness: unknown geojson geometry kind " + g.T)
}

func tokOf(f float64) int {
	if f == math.Trunc(f) && math.Abs(f) < 1e6 {
		return int(f)
	}
	return -2
}

func tokList(c []float64) []int {
	out := make([]int, len(c))
	for i, f := range c {
		out[i] = tokOf(f)
	}
	return out
}

func tokFlat1(flat []float64, stride int) [][]int {
	out := [][]int{}
	for i := 0; stride > 0 && i+stride <= len(flat); i += stride {
		out = append(out, tokList(flat[i:i+stride]))
	}
	return out
}

func tokRings(flat []float64, ends []int, stride, off int) [][][]int {
	out := [][][]int{}
	for _, e := range ends {
		out = append(out, tokFlat1(flat[off:e], stride))
		off = e
	}
	return out
}

// projGJ renders a geometry as the spec's [t, l, body] through the public accessors.
func projGJ(g geom.T) map[string]any {
	if g == nil {
		return map[string]any{"t": "nil", "l": "No", "body": []any{}}
	}
	p := map[string]any{"t": kindOf(g), "l": layoutName(g.Layout())}
	switch g := g.(type) {
	case *geom.Point:
		if g.Empty() {
			p["body"] = []int{}
		} else {
			p["body"] = tokList(g.FlatCoords())
		}
	case *geom.LineString:
		p["body"] = tokFlat1(g.FlatCoords(), g.Stride())
	case *geom.Polygon:
		p["body"] = tokRings(g.FlatCoords(), g.Ends(), g.Stride(), 0)
	case *geom.MultiPoint:
		b := [][]int{}
		for i := 0; i < g.NumPoints(); i++ {
			pt := g.Point(i)
			if pt.Empty() {
				b = append(b, []int{-1})
			} else {
				b = append(b, tokList(pt.FlatCoords()))
			}
		}
		p["body"] = b
	case *geom.MultiLineString:
		p["body"] = tokRings(g.FlatCoords(), g.Ends(), g.Stride(), 0)
	case *geom.MultiPolygon:
		b := [][][][]int{}
		for i := 0; i < g.NumPolygons(); i++ {
			pg := g.Polygon(i)
			b = append(b, tokRings(pg.FlatCoords(), pg.Ends(), pg.Stride(), 0))
		}
		p["body"] = b
	case *geom.GeometryCollection:
		p["l"] = "No"
		b := []any{}
		for _, m := range g.Geoms() {
			b = append(b, projGJ(m))
		}
		p["body"] = b
	default:
		p["body"] = []any{}
	}
	return p
}

func wfOf(g geom.T) []any {
	if g == nil {
		return []any{}
	}
	return wfList(g)
}

func bboxProj(b *geom.Bounds) []int {
	if b == nil {
		return []int{}
	}
	n := 2
	if b.Layout() == geom.XYZ {
		n = 3
	} else if b.Layout() != geom.XY {
		return []int{-9}
	}
	out := []int{}
	for i := 0; i < n; i++ {
		out = append(out, tokOf(b.Min(i)))
	}
	for i := 0; i < n; i++ {
		out = append(out, tokOf(b.Max(i)))
	}
	return out
}

func bboxOf(v []int) *geom.Bounds {
	if len(v) == 0 {
		return nil
	}
	fs := make([]float64, len(v))
	for i, t := range v {
		fs[i] = float64(t)
	}
	if len(v) == 4 {
		return geom.NewBounds(geom.XY).Set(fs...)
	}
	return geom.NewBounds(geom.XYZ).Set(fs...)
}

type gjFeat struct {
	Id    string
	Bbox  []int
	Geom  gjG
	Props json.RawMessage
}

func buildFeat(f gjFeat) *geojson.Feature {
	out := &geojson.Feature{ID: f.Id, BBox: bboxOf(f.Bbox), Geometry: buildGJ(f.Geom)}
	if p := untag(f.Props); p != nil {
		out.Properties = p.(map[string]any)
	}
	return out
}

func propsTagged(m map[string]any) any {
	if m == nil {
		return []any{"null"}
	}
	b, _ := json.Marshal(m)
	return taggedOfBytes(b)
}

func featProj(f *geojson.Feature) any {
	if f == nil {
		return map[string]any{"nil": true}
	}
	return map[string]any{"id": f.ID, "bbox": bboxProj(f.BBox), "geom": projGJ(f.Geometry), "props": propsTagged(f.Properties)}
}

func errStr(err error) string {
	if err == nil {
		return ""
	}
	s := err.Error()
	if s == "" {
		return "error"
	}
	return s
}

func geojsonHandler(raw json.RawMessage) map[string]any {
	var c struct {
		Fam  string
		Kind string
		G    gjG
		F    gjFeat
		Fc   struct {
			Bbox     []int
			Features []gjFeat
		}
		Doc json.RawMessage
	}
	must(json.Unmarshal(raw, &c))
	out := map[string]any{"pan": ""}
	none := map[string]any{"t": "none", "l": "No", "body": []any{}}
	switch c.Fam {
	case "geom":
		g := buildGJ(c.G)
		out["json"], out["encerr"], out["back"], out["backerr"], out["wf"] = []any{"x", "not encoded"}, "", none, "", []any{}
		ev, msg := call(func() {
			b, err := geojson.Marshal(g)
			out["encerr"] = errStr(err)
			if err != nil {
				return
			}
			out["json"] = taggedOfBytes(b)
			var back geom.T
			err = geojson.Unmarshal(b, &back)
			out["backerr"] = errStr(err)
			if err == nil {
				out["back"], out["wf"] = projGJ(back), wfOf(back)
			}
		})
		if ev != "ok" {
			out["pan"] = msg
		}
	case "feat":
		out["json"], out["encerr"], out["back"], out["backerr"] = []any{"x", "not encoded"}, "", "none", ""
		ev, msg := call(func() {
			f := buildFeat(c.F)
			b, err := json.Marshal(f)
			out["encerr"] = errStr(err)
			if err != nil {
				return
			}
			out["json"] = taggedOfBytes(b)
			back := &geojson.Feature{}
			err = json.Unmarshal(b, back)
			out["backerr"] = errStr(err)
			if err == nil {
				out["back"] = featProj(back)
			}
		})
		if ev != "ok" {
			out["pan"] = msg
		}
	case "fc":
		out["json"], out["encerr"], out["back"], out["backerr"] = []any{"x", "not encoded"}, "", "none", ""
		ev, msg := call(func() {
			fc := &geojson.FeatureCollection{BBox: bboxOf(c.Fc.Bbox)}
			for _, f := range c.Fc.Features {
				fc.Features = append(fc.Features, buildFeat(f))
			}
			b, err := json.Marshal(fc)
			out["encerr"] = errStr(err)
			if err != nil {
				return
			}
			out["json"] = taggedOfBytes(b)
			back := &geojson.FeatureCollection{}
			err = json.Unmarshal(b, back)
			out["backerr"] = errStr(err)
			if err == nil {
				fs := []any{}
				for _, f := range back.Features {
					fs = append(fs, featProj(f))
				}
				out["back"] = map[string]any{"bbox": bboxProj(back.BBox), "features": fs}
			}
		})
		if ev != "ok" {
			out["pan"] = msg
		}
	case "dec":
		var sb strings.Builder
		renderTagged(c.Doc, &sb)
		text := []byte(sb.String())
		out["text"] = sb.String()
		out["ok"], out["err"], out["g"], out["wf"], out["f"], out["re"] = false, "", none, []any{}, "none", ""
		ev, msg := call(func() {
			switch c.Kind {
			case "geom":
				var g geom.T
				err := geojson.Unmarshal(text, &g)
				out["err"] = errStr(err)
				if err == nil {
					out["ok"], out["g"], out["wf"] = true, projGJ(g), wfOf(g)
					_, err2 := geojson.Marshal(g)
					out["re"] = errStr(err2)
				}
			case "feature":
				f := &geojson.Feature{}
				err := json.Unmarshal(text, f)
				out["err"] = errStr(err)
				if err == nil {
					out["ok"], out["f"], out["wf"] = true, featProj(f), wfOf(f.Geometry)
					_, err2 := json.Marshal(f)
					out["re"] = errStr(err2)
				}
			case "fc":
				fc := &geojson.FeatureCollection{}
				err := json.Unmarshal(text, fc)
				out["err"] = errStr(err)
				if err == nil {
					fs := []any{}
					for _, f := range fc.Features {
						fs = append(fs, featProj(f))
					}
					out["ok"], out["f"] = true, map[string]any{"bbox": bboxProj(fc.BBox), "features": fs}
					_, err2 := json.Marshal(fc)
					out["re"] = errStr(err2)
				}
			}
		})
		if ev != "ok" {
			out["pan"] = msg
		}
	}
	return out
}

func init() {
	handlers["geojson"] = geojsonHandler
	tokModes["geojson"] = "int"
}
