// Command drive executes cases emitted by the TLA+ models against the real go-geom code and records
// what happened. It is a driver and a recorder, not an oracle: it contains no expected values and no
// assertions (DESIGN.md section 2.3). Verdicts are computed by TLC/Apalache on the recorded observations.
package main

import (
	"bufio"
	"encoding/json"
	"flag"
	"fmt"
	"os"
	"runtime/debug"
	"time"
)

// A handler executes one case and returns the observation (a JSON-able map). The raw case is always
// echoed back under "case" by the main loop.
type handler func(c json.RawMessage) map[string]any

var handlers = map[string]handler{}

var (
	seed   int64
	callMS int
)

func main() {
	if len(os.Args) < 2 {
		fmt.Fprintln(os.Stderr, "usage: drive <sub> -in cases -out obs [-skip n] [-seed s]")
		os.Exit(64)
	}
	sub := os.Args[1]
	fs := flag.NewFlagSet(sub, flag.ExitOnError)
	in := fs.String("in", "", "cases (ndjson)")
	out := fs.String("out", "", "observations (ndjson, appended)")
	skip := fs.Int("skip", 0, "cases to skip (already recorded)")
	fs.Int64Var(&seed, "seed", 1, "seed")
	fs.IntVar(&callMS, "callms", 3000, "per-case deadline in ms")
	extraFlags(fs)
	_ = fs.Parse(os.Args[2:])
	mode := tokModes[sub]
	if mode == "" {
		mode = "special"
	}
	initTokens(mode)
	if special, ok := specials[sub]; ok {
		os.Exit(special(*in, *out))
	}
	h, ok := handlers[sub]
	if !ok {
		fmt.Fprintln(os.Stderr, "unknown subcommand", sub)
		os.Exit(64)
	}
	fin, err := os.Open(*in)
	if err != nil {
		fmt.Fprintln(os.Stderr, err)
		os.Exit(64)
	}
	fout, err := os.OpenFile(*out, os.O_APPEND|os.O_WRONLY|os.O_CREATE, 0o644)
	if err != nil {
		fmt.Fprintln(os.Stderr, err)
		os.Exit(64)
	}
	w := bufio.NewWriterSize(fout, 1<<20)
	sc := bufio.NewScanner(fin)
	sc.Buffer(make([]byte, 1<<20), 1<<28)
	n := 0
	for sc.Scan() {
		n++
		if n <= *skip {
			continue
		}
		raw := append([]byte(nil), sc.Bytes()...)
		obs, hung := guarded(h, raw)
		obs["case"] = json.RawMessage(raw)
		b, err := json.Marshal(obs)
		if err != nil {
			fmt.Fprintln(os.Stderr, "marshal:", err)
			os.Exit(64)
		}
		w.Write(b)
		w.WriteByte('\n')
		w.Flush() // a later case may kill the process: everything recorded so far must be on disk
		if hung {
			// the stuck goroutine cannot be killed: flush and let the orchestrator restart us after this case
			w.Flush()
			fout.Close()
			os.Exit(3)
		}
	}
	w.Flush()
	fout.Close()
}

// guarded runs h under recover() and a deadline. A panic that escapes the handler's own per-call
// recovery is recorded as ev=panic for the whole case; a call that does not return as ev=hang.
func guarded(h handler, raw json.RawMessage) (obs map[string]any, hung bool) {
	done := make(chan map[string]any, 1)
	go func() {
		defer func() {
			if r := recover(); r != nil {
				done <- map[string]any{"ev": "panic", "msg": fmt.Sprint(r), "stack": firstFrames(debug.Stack())}
			}
		}()
		done <- h(raw)
	}()
	select {
	case o := <-done:
		if _, ok := o["ev"]; !ok {
			o["ev"] = "ok"
		}
		return o, false
	case <-time.After(time.Duration(callMS) * time.Millisecond):
		return map[string]any{"ev": "hang"}, true
	}
}

func firstFrames(b []byte) string {
	if len(b) > 1500 {
		b = b[:1500]
	}
	return string(b)
}

// call runs f and converts a panic into ("panic", message).
func call(f func()) (ev string, msg string) {
	defer func() {
		if r := recover(); r != nil {
			ev, msg = "panic", fmt.Sprint(r)
		}
	}()
	f()
	return "ok", ""
}

// tokModes selects the token instantiation per subcommand (default "special").
var tokModes = map[string]string{}

var specials = map[string]func(in, out string) int{}

var extraFlagFns []func(fs *flag.FlagSet)

func extraFlags(fs *flag.FlagSet) {
	for _, f := range extraFlagFns {
		f(fs)
	}
}
