package main

// Driver for C18: output of the WKT and GeoJSON encoders under a limit on decimal digits.

import (
	"bytes"
	"encoding/json"
	"fmt"
	"math"

	"github.com/twpayne/go-geom"
	"github.com/twpayne/go-geom/encoding/geojson"
	"github.com/twpayne/go-geom/encoding/wkt"
)

// numLits returns the number literals of a JSON text in document order, as written.
func numLits(b []byte) []string {
	d := json.NewDecoder(bytes.NewReader(b))
	d.UseNumber()
	var out []string
	for {
		t, err := d.Token()
		if err != nil {
			break
		}
		if n, ok := t.(json.Number); ok {
			out = append(out, string(n))
		}
	}
	return out
}

// wktLits returns the number words of a WKT text.
func wktLits(text string) []string {
	var out []string
	cur := ""
	flush := func() {
		if cur != "" {
			c := cur[0]
			if c == '-' || c == '+' || c == '.' || (c >= '0' && c <= '9') {
				out = append(out, cur)
			}
			cur = ""
		}
	}
	for i := 0; i < len(text); i++ {
		switch c := text[i]; c {
		case ' ', '\t', '\n', '\r', '(', ')', ',':
			flush()
		default:
			cur += string(c)
		}
	}
	flush()
	return out
}

// exactG is a geometry tree [t, l, body] whose ordinates are exact float64 values ("m:e", an integer, or "-0").
type exactG struct {
	T, L string
	Body json.RawMessage
}

type xnum float64

func (n *xnum) UnmarshalJSON(b []byte) error {
	if string(b) == `"-0"` {
		*n = xnum(math.Copysign(0, -1))
		return nil
	}
	var v num
	if err := v.UnmarshalJSON(b); err != nil {
		return err
	}
	*n = xnum(v)
	return nil
}

func xCoord(c []xnum, flat *[]float64) geom.Coord {
	out := make(geom.Coord, len(c))
	for i, v := range c {
		out[i] = float64(v)
	}
	*flat = append(*flat, out...)
	return out
}

func xCoords1(v [][]xnum, flat *[]float64) []geom.Coord {
	out := make([]geom.Coord, len(v))
	for i := range v {
		out[i] = xCoord(v[i], flat)
	}
	return out
}

func xCoords2(v [][][]xnum, flat *[]float64) [][]geom.Coord {
	out := make([][]geom.Coord, len(v))
	for i := range v {
		out[i] = xCoords1(v[i], flat)
	}
	return out
}

// buildExactGeom builds the geometry through the public constructors and appends its ordinates to flat in document order.
func buildExactGeom(g exactG, flat *[]float64) geom.T {
	l := layoutOf(g.L)
	switch g.T {
	case "PT":
		return geom.NewPoint(l).MustSetCoords(xCoord(dec[[]xnum](g.Body), flat))
	case "LS":
		return geom.NewLineString(l).MustSetCoords(xCoords1(dec[[][]xnum](g.Body), flat))
	case "PG":
		return geom.NewPolygon(l).MustSetCoords(xCoords2(dec[[][][]xnum](g.Body), flat))
	case "MPT":
		return geom.NewMultiPoint(l).MustSetCoords(xCoords1(dec[[][]xnum](g.Body), flat))
	case "MLS":
		return geom.NewMultiLineString(l).MustSetCoords(xCoords2(dec[[][][]xnum](g.Body), flat))
	case "MPG":
		v := dec[[][][][]xnum](g.Body)
		cs := make([][][]geom.Coord, len(v))
		for i := range v {
			cs[i] = xCoords2(v[i], flat)
		}
		return geom.NewMultiPolygon(l).MustSetCoords(cs)
	case "GC":
		gc := geom.NewGeometryCollection()
		for _, m := range dec[[]exactG](g.Body) {
			gc.MustPush(buildExactGeom(m, flat))
		}
		return gc
	}
	panic("harness: buildExactGeom " + g.T)
}

func strs(v []string) []string {
	if v == nil {
		return []string{}
	}
	return v
}

// case {kind:"wkt", g, ds}: structure of the WKT text for each digit limit;
// case {kind:"geojson", g (GeoJSON model geometry), ds}: JSON tree for each limit, without and with a bounding box
//
//	(options in both orders);
//
// case {kind:"nums", vals:[exact...], d}: every value written through both encoders (and the bbox) with limit d:
//
//	the literals as written, next to the exact input value.
//
// case {kind:"shapes", g (tree with exact ordinates), d}: every literal of the WKT text and of the GeoJSON document with
//
//	a bounding box (options in both orders), next to the exact ordinates; plus the arity of the box written without a
//	digit limit and the coordinates written without a box.
func digitsHandler(raw json.RawMessage) map[string]any {
	var c struct {
		Kind string
		G    json.RawMessage
		Ds   []int
		D    int
		Vals []num
	}
	must(json.Unmarshal(raw, &c))
	out := map[string]any{}
	switch c.Kind {
	case "wkt":
		g := buildWKTGeom(dec[wktG](c.G))
		outs := []any{}
		for _, d := range c.Ds {
			text, err := wkt.Marshal(g, wkt.EncodeOptionWithMaxDecimalDigits(d))
			o := map[string]any{"d": d, "ok": err == nil, "toks": []any{}}
			if err == nil {
				o["toks"] = tokenizeWKT(text)
				// "the output remains valid WKT": what the library's own parser makes of it
				re := map[string]any{"ok": false, "err": "", "l": "-", "tree": map[string]any{"t": "-", "body": []int{}}}
				if ev, msg := call(func() {
					g2, perr := wkt.Unmarshal(text)
					if perr != nil {
						re["err"] = errStr(perr)
						return
					}
					re["tree"], re["l"] = wktTree(g2, map[string]bool{}), layoutName(g2.Layout())
					re["ok"] = true
				}); ev != "ok" {
					re["ok"], re["err"] = false, "panic: "+msg
				}
				o["re"] = re
			}
			outs = append(outs, o)
		}
		out["outs"] = outs
	case "geojson":
		g := buildGJ(dec[gjG](c.G))
		outs := []any{}
		for _, d := range c.Ds {
			for variant := 0; variant < 3; variant++ {
				var opts []geojson.EncodeGeometryOption
				switch variant {
				case 0:
					opts = []geojson.EncodeGeometryOption{geojson.EncodeGeometryWithMaxDecimalDigits(d)}
				case 1:
					opts = []geojson.EncodeGeometryOption{geojson.EncodeGeometryWithMaxDecimalDigits(d), geojson.EncodeGeometryWithBBox()}
				case 2:
					opts = []geojson.EncodeGeometryOption{geojson.EncodeGeometryWithBBox(), geojson.EncodeGeometryWithMaxDecimalDigits(d)}
				}
				b, err := geojson.Marshal(g, opts...)
				o := map[string]any{"d": d, "bbox": variant > 0, "err": errStr(err), "json": []any{"x", "not encoded"}}
				if err == nil {
					o["json"] = taggedOfBytes(b)
				}
				outs = append(outs, o)
			}
		}
		out["outs"] = outs
		// what the same encoder writes with a bounding box and WITHOUT a digit limit (the reference for "unchanged")
		ref := map[string]any{"err": "", "json": []any{"x", "not encoded"}}
		if ev, msg := call(func() {
			b, err := geojson.Marshal(g, geojson.EncodeGeometryWithBBox())
			ref["err"] = errStr(err)
			if err == nil {
				ref["json"] = taggedOfBytes(b)
			}
		}); ev != "ok" {
			ref["err"] = "panic: " + msg
		}
		out["ref"] = ref
	case "shapes":
		// a geometry whose ordinates are exact float64 values: every number literal of the WKT text and of the GeoJSON
		// document (bounding box requested, the two options in either order), in document order, next to the exact
		// ordinates in the order they were put in
		var flat []float64
		g := buildExactGeom(dec[exactG](c.G), &flat)
		out["x"] = exactStrs(flat)
		w := map[string]any{"err": "", "lits": []string{}}
		if text, err := wkt.Marshal(g, wkt.EncodeOptionWithMaxDecimalDigits(c.D)); err != nil {
			w["err"] = errStr(err)
		} else {
			w["lits"] = strs(wktLits(text))
		}
		out["wkt"] = w
		gj := []any{}
		for _, order := range []string{"BD", "DB"} {
			opts := []geojson.EncodeGeometryOption{geojson.EncodeGeometryWithBBox(), geojson.EncodeGeometryWithMaxDecimalDigits(c.D)}
			if order == "DB" {
				opts[0], opts[1] = opts[1], opts[0]
			}
			o := map[string]any{"order": order, "err": "", "bbox": []string{}, "coords": []string{}}
			b, err := geojson.Marshal(g, opts...)
			var members map[string]json.RawMessage
			if err == nil {
				err = json.Unmarshal(b, &members)
			}
			if err != nil {
				o["err"] = errStr(err)
			} else {
				o["bbox"] = strs(numLits(members["bbox"]))
				if raw, ok := members["coordinates"]; ok {
					o["coords"] = strs(numLits(raw))
				} else {
					o["coords"] = strs(numLits(members["geometries"]))
				}
			}
			gj = append(gj, o)
		}
		out["gj"] = gj
		// references: the bounding box written WITHOUT a digit limit (its arity, or the error), and the coordinates written
		// with the digit limit but without a bounding box
		ref := map[string]any{"err": "", "nbbox": -1}
		if ev, msg := call(func() {
			b, err := geojson.Marshal(g, geojson.EncodeGeometryWithBBox())
			var members map[string]json.RawMessage
			if err == nil {
				err = json.Unmarshal(b, &members)
			}
			if err != nil {
				ref["err"] = errStr(err)
				return
			}
			ref["nbbox"] = len(numLits(members["bbox"]))
		}); ev != "ok" {
			ref["err"] = "panic: " + msg
		}
		out["ref"] = ref
		plain := map[string]any{"err": "", "coords": []string{}}
		if ev, msg := call(func() {
			b, err := geojson.Marshal(g, geojson.EncodeGeometryWithMaxDecimalDigits(c.D))
			var members map[string]json.RawMessage
			if err == nil {
				err = json.Unmarshal(b, &members)
			}
			if err != nil {
				plain["err"] = errStr(err)
				return
			}
			if raw, ok := members["coordinates"]; ok {
				plain["coords"] = strs(numLits(raw))
			} else {
				plain["coords"] = strs(numLits(members["geometries"]))
			}
		}); ev != "ok" {
			plain["err"] = "panic: " + msg
		}
		out["plain"] = plain
	case "nums":
		rows := []any{}
		for i, v := range c.Vals {
			f := float64(v)
			other := float64(c.Vals[(i+1)%len(c.Vals)])
			row := map[string]any{"x": exactStr(f), "lits": []any{}}
			lits := []any{}
			add := func(src string, texts []string, idx ...int) {
				for _, k := range idx {
					if k < len(texts) {
						lits = append(lits, map[string]any{"src": src, "t": texts[k]})
					} else {
						lits = append(lits, map[string]any{"src": src, "t": "<missing>"})
					}
				}
			}
			text, err := wkt.Marshal(geom.NewPointFlat(geom.XYZ, []float64{f, other, f}), wkt.EncodeOptionWithMaxDecimalDigits(c.D))
			if err != nil {
				lits = append(lits, map[string]any{"src": "wkt", "t": "<error: " + err.Error() + ">"})
			} else {
				add("wkt", wktLits(text), 0, 2)
				// what the library's own parser reads back (bit patterns of the first and third ordinate)
				row["inbits"] = fmt.Sprintf("%016x", math.Float64bits(f))
				own := []string{}
				if ev, _ := call(func() {
					g2, perr := wkt.Unmarshal(text)
					if perr != nil {
						own = append(own, "error")
						return
					}
					fc := g2.FlatCoords()
					for _, k := range []int{0, 2} {
						if k < len(fc) {
							own = append(own, fmt.Sprintf("%016x", math.Float64bits(fc[k])))
						}
					}
				}); ev != "ok" {
					own = append(own, "panic")
				}
				row["ownbits"] = own
			}
			ls := geom.NewLineStringFlat(geom.XY, []float64{f, 0, math.Abs(f) + 1, 1})
			b, err := geojson.Marshal(ls, geojson.EncodeGeometryWithBBox(), geojson.EncodeGeometryWithMaxDecimalDigits(c.D))
			if err != nil {
				lits = append(lits, map[string]any{"src": "geojson", "t": "<error: " + err.Error() + ">"})
			} else {
				// document order: bbox (minx, miny, maxx, maxy), then coordinates (f, 0, |f|+1, 1); f is the smaller x
				ns := numLits(b)
				add("bbox", ns, 0)
				add("geojson", ns, 4)
			}
			row["lits"] = lits
			rows = append(rows, row)
		}
		out["rows"] = rows
	}
	return out
}

func init() {
	handlers["digits"] = digitsHandler
	tokModes["digits"] = "int"
}
