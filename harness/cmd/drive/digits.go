package main

// Driver for C18: output of the WKT and GeoJSON encoders under a limit on decimal digits.

import (
	"bytes"
	"encoding/json"
	"math"

	"github.com/twpayne/go-geom"
	"github.com/twpayne/go-geom/encoding/geojson"
	"github.com/twpayne/go-geom/encoding/wkt"
)

// numLits returns the number literals of a JSON text in document order, as written.
func numLits(b []byte) []string {
	d := json.NewDecoder(bytes.NewReader(b))
	d.UseNumber()
	var out []string
	for {
		t, err := d.Token()
		if err != nil {
			break
		}
		if n, ok := t.(json.Number); ok {
			out = append(out, string(n))
		}
	}
	return out
}

// wktLits returns the number words of a WKT text.
func wktLits(text string) []string {
	var out []string
	cur := ""
	flush := func() {
		if cur != "" {
			c := cur[0]
			if c == '-' || c == '+' || c == '.' || (c >= '0' && c <= '9') {
				out = append(out, cur)
			}
			cur = ""
		}
	}
	for i := 0; i < len(text); i++ {
		switch c := text[i]; c {
		case ' ', '\t', '\n', '\r', '(', ')', ',':
			flush()
		default:
			cur += string(c)
		}
	}
	flush()
	return out
}

// case {kind:"wkt", g, ds}: structure of the WKT text for each digit limit;
// case {kind:"geojson", g (GeoJSON model geometry), ds}: JSON tree for each limit, without and with a bounding box
//
//	(options in both orders);
//
// case {kind:"nums", vals:[exact...], d}: every value written through both encoders (and the bbox) with limit d:
//
//	the literals as written, next to the exact input value.
func digitsHandler(raw json.RawMessage) map[string]any {
	var c struct {
		Kind string
		G    json.RawMessage
		Ds   []int
		D    int
		Vals []num
	}
	must(json.Unmarshal(raw, &c))
	out := map[string]any{}
	switch c.Kind {
	case "wkt":
		g := buildWKTGeom(dec[wktG](c.G))
		outs := []any{}
		for _, d := range c.Ds {
			text, err := wkt.Marshal(g, wkt.EncodeOptionWithMaxDecimalDigits(d))
			o := map[string]any{"d": d, "ok": err == nil, "toks": []any{}}
			if err == nil {
				o["toks"] = tokenizeWKT(text)
				if _, perr := wkt.Unmarshal(text); perr != nil && g.Layout() != geom.NoLayout {
					o["reparse"] = perr.Error()
				}
			}
			outs = append(outs, o)
		}
		out["outs"] = outs
	case "geojson":
		g := buildGJ(dec[gjG](c.G))
		outs := []any{}
		for _, d := range c.Ds {
			for variant := 0; variant < 3; variant++ {
				var opts []geojson.EncodeGeometryOption
				switch variant {
				case 0:
					opts = []geojson.EncodeGeometryOption{geojson.EncodeGeometryWithMaxDecimalDigits(d)}
				case 1:
					opts = []geojson.EncodeGeometryOption{geojson.EncodeGeometryWithMaxDecimalDigits(d), geojson.EncodeGeometryWithBBox()}
				case 2:
					opts = []geojson.EncodeGeometryOption{geojson.EncodeGeometryWithBBox(), geojson.EncodeGeometryWithMaxDecimalDigits(d)}
				}
				b, err := geojson.Marshal(g, opts...)
				o := map[string]any{"d": d, "bbox": variant > 0, "err": errStr(err), "json": []any{"x", "not encoded"}}
				if err == nil {
					o["json"] = taggedOfBytes(b)
				}
				outs = append(outs, o)
			}
		}
		out["outs"] = outs
	case "nums":
		rows := []any{}
		for i, v := range c.Vals {
			f := float64(v)
			other := float64(c.Vals[(i+1)%len(c.Vals)])
			row := map[string]any{"x": exactStr(f), "lits": []any{}}
			lits := []any{}
			add := func(src string, texts []string, idx ...int) {
				for _, k := range idx {
					if k < len(texts) {
						lits = append(lits, map[string]any{"src": src, "t": texts[k]})
					} else {
						lits = append(lits, map[string]any{"src": src, "t": "<missing>"})
					}
				}
			}
			text, err := wkt.Marshal(geom.NewPointFlat(geom.XYZ, []float64{f, other, f}), wkt.EncodeOptionWithMaxDecimalDigits(c.D))
			if err != nil {
				lits = append(lits, map[string]any{"src": "wkt", "t": "<error: " + err.Error() + ">"})
			} else {
				add("wkt", wktLits(text), 0, 2)
			}
			ls := geom.NewLineStringFlat(geom.XY, []float64{f, 0, math.Abs(f) + 1, 1})
			b, err := geojson.Marshal(ls, geojson.EncodeGeometryWithBBox(), geojson.EncodeGeometryWithMaxDecimalDigits(c.D))
			if err != nil {
				lits = append(lits, map[string]any{"src": "geojson", "t": "<error: " + err.Error() + ">"})
			} else {
				// document order: bbox (minx, miny, maxx, maxy), then coordinates (f, 0, |f|+1, 1); f is the smaller x
				ns := numLits(b)
				add("bbox", ns, 0)
				add("geojson", ns, 4)
			}
			row["lits"] = lits
			rows = append(rows, row)
		}
		out["rows"] = rows
	}
	return out
}

func init() {
	handlers["digits"] = digitsHandler
	tokModes["digits"] = "int"
}
