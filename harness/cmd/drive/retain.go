package main

import (
	"bytes"
	"unsafe"
)

// Retained results. A byte slice (or string) an encoder returned is kept, LIVE, together with a snapshot of what it held at
// the return. When the same entry point is called again (the next case, or the next call of the same case) the kept slice
// is compared with its snapshot first: a result that a later call has overwritten (a pooled or reused buffer handed out
// without a copy) is reported by name in the record's "overwritten" list. The driver only records; the rule is the
// specification's (results are values: what a call returned stays what it returned).
type retEnt struct{ live, snap []byte }

var (
	retained    = map[string]*retEnt{}
	overwritten []string
)

func retainCheck(name string) {
	if e, ok := retained[name]; ok && !bytes.Equal(e.live, e.snap) {
		overwritten = append(overwritten, name)
		delete(retained, name)
	}
}

// retain registers b as the result the entry point `name` has just returned (after checking the previous one).
func retain(name string, b []byte) {
	retainCheck(name)
	if len(b) > 0 {
		retained[name] = &retEnt{live: b, snap: append([]byte(nil), b...)}
	}
}

func retainStr(name, s string) {
	if len(s) == 0 {
		retainCheck(name)
		return
	}
	retain(name, unsafe.Slice(unsafe.StringData(s), len(s)))
}

// drainOverwritten: every kept result is checked once more, then the names collected since the last drain are handed out.
func drainOverwritten() []string {
	for name := range retained {
		retainCheck(name)
	}
	out := overwritten
	overwritten = nil
	if out == nil {
		out = []string{}
	}
	return out
}
