package main

// Driver for C19 (encoding/igc): renders abstract line sequences to text and reads them; writes tracks with
// the encoder and reads them back; reads arbitrary byte streams. Projections only, no expectations.

import (
	"bytes"
	"encoding/base64"
	"encoding/json"
	"errors"
	"fmt"
	"math"
	"strings"

	"github.com/twpayne/go-geom"
	"github.com/twpayne/go-geom/encoding/igc"
)

type igcLine struct {
	K     string
	Src   string
	Key   string
	Extra string
	Colon bool
	Value string
	Dd    int
	Mm    int
	Yy    int
	Short bool
	N     int
	Ents  [][]json.RawMessage
	Len   int
	Sec   int
	Ok    bool
}

func renderIGCLine(l igcLine) string {
	switch l.K {
	case "A":
		return "AXXX001 verif"
	case "X":
		return "GSECURITYRECORD"
	case "blank":
		return ""
	case "H":
		s := "H" + l.Src + l.Key
		if l.Colon {
			s += l.Extra + ":"
		}
		return s + l.Value
	case "HDTE":
		if l.Short {
			return fmt.Sprintf("HFDTE%02d%02d", l.Dd, l.Mm)
		}
		return fmt.Sprintf("HFDTE%02d%02d%02d", l.Dd, l.Mm, l.Yy)
	case "I":
		s := fmt.Sprintf("I%02d", l.N)
		for _, e := range l.Ents {
			s += fmt.Sprintf("%02d%02d%s", dec[int](e[0]), dec[int](e[1]), dec[string](e[2]))
		}
		return s
	case "B":
		lat, alt := "4730000N", "0050000600"
		if !l.Ok && l.Sec%2 == 0 {
			lat = "47X0000N"
		} else if !l.Ok {
			alt = "005000060X" // every field up to the last altitude digit is valid
		}
		s := fmt.Sprintf("B%02d%02d%02d%s00830000EA%s", l.Sec/3600, (l.Sec/60)%60, l.Sec%60, lat, alt)
		for len(s) < l.Len {
			s += "0"
		}
		return s[:l.Len]
	}
	panic("harness: unknown igc line kind " + l.K)
}

func daySec(unix float64) []int {
	if math.IsNaN(unix) || math.Abs(unix) > 1e13 || unix != math.Trunc(unix) {
		return []int{-1, -1}
	}
	t := int64(unix)
	d := t / 86400
	s := t % 86400
	if s < 0 {
		s += 86400
		d--
	}
	return []int{int(d), int(s)}
}

// maxLineLen is a projection of the input: the length of its longest "\n"-terminated piece.
func maxLineLen(data []byte) int {
	m := 0
	for len(data) > 0 {
		i := bytes.IndexByte(data, '\n')
		if i < 0 {
			i = len(data)
		}
		if i > m {
			m = i
		}
		if i == len(data) {
			break
		}
		data = data[i+1:]
	}
	return m
}

// igcReadProj reads data and records projections of everything igc.Read returned: the line string, the headers
// (hdrMode "full": every field, for input rendered by this driver; "dates": the first six characters of the value of the
// DTE headers; otherwise only their number), the kind of the error (errors.As: an igc.Errors list anywhere in the chain
// is the list) and the number of record errors. nores: Read returned no track (a nil *T or a nil LineString).
func igcReadProj(data []byte, out map[string]any, hdrMode string) *igc.T {
	out["layout"], out["flatlen"], out["nfix"], out["nerr"], out["times"] = "?", 0, 0, 0, [][]int{}
	out["errkind"], out["maxline"], out["nhdr"], out["nores"] = "?", maxLineLen(data), 0, false
	switch hdrMode {
	case "full":
		out["hdrs"] = [][]string{}
	case "dates":
		out["hdates"] = []string{}
	}
	var res *igc.T
	ev, msg := call(func() {
		t, err := igc.Read(bytes.NewReader(data))
		out["errkind"] = "nil"
		if err != nil {
			var es igc.Errors
			if errors.As(err, &es) {
				out["errkind"] = "Errors"
				out["nerr"] = len(es)
				_ = es.Error()
				_ = err.Error()
			} else {
				out["errkind"] = fmt.Sprintf("%T", err)
				out["nerr"] = -1
			}
		}
		if t == nil || t.LineString == nil {
			out["nores"] = true
			if t != nil {
				out["nhdr"] = len(t.Headers)
			}
			return
		}
		res = t
		ls := t.LineString
		out["layout"] = layoutName(ls.Layout())
		out["flatlen"] = len(ls.FlatCoords())
		out["nfix"] = ls.NumCoords()
		times := [][]int{}
		for i := 0; i < ls.NumCoords(); i++ {
			times = append(times, daySec(ls.Coord(i)[3]))
		}
		out["times"] = times
		_ = t.HasCoords()
		out["nhdr"] = len(t.Headers)
		hdrs, hdates := [][]string{}, []string{}
		for _, h := range t.Headers {
			hdrs = append(hdrs, []string{h.Source, h.Key, h.KeyExtra, h.Value})
			if h.Key == "DTE" {
				hdates = append(hdates, h.Value[:min(6, len(h.Value))])
			}
		}
		switch hdrMode {
		case "full":
			out["hdrs"] = hdrs
		case "dates":
			out["hdates"] = hdates
		}
	})
	if ev != "ok" {
		out["ev"] = "panic"
		out["msg"] = msg
	}
	return res
}

func qInt(f float64, q float64) int {
	v := math.Round(f * q)
	if math.IsNaN(v) || math.Abs(v) > 2e9 {
		return 2000000000
	}
	return int(v)
}

func igcHandler(raw json.RawMessage) map[string]any {
	var c struct {
		Fam   string
		Lines []igcLine
		Track []struct {
			Lonq, Latq, Alt  int
			Lone, Late, Altf int // optional: millionths of a position unit, thousandths of a metre
			T                []int
		}
		B64   string
		Parts []struct { // optional: the input is B64 followed by every part repeated Rep times
			B64 string
			Rep int
		}
	}
	must(json.Unmarshal(raw, &c))
	out := map[string]any{}
	switch c.Fam {
	case "lines", "glines":
		var sb strings.Builder
		for i, l := range c.Lines {
			sb.WriteString(renderIGCLine(l))
			if i%3 == 2 {
				sb.WriteString("\r\n")
			} else {
				sb.WriteString("\n")
			}
		}
		igcReadProj([]byte(sb.String()), out, "full")
	case "tracks":
		ls := geom.NewLineString(geom.Layout(5))
		var flat []float64
		for _, f := range c.Track {
			flat = append(flat, (float64(f.Lonq)+float64(f.Lone)/1e6)/6000000., (float64(f.Latq)+float64(f.Late)/1e6)/6000000.,
				float64(f.Alt)+float64(f.Altf)/1000, float64(int64(f.T[0])*86400+int64(f.T[1])), 0)
		}
		ls = geom.NewLineStringFlat(geom.Layout(5), flat)
		var buf bytes.Buffer
		out["encerr"] = ""
		ev, msg := call(func() {
			if err := igc.NewEncoder(&buf, igc.A("XXX001")).Encode(ls); err != nil {
				out["encerr"] = err.Error()
			}
		})
		if ev != "ok" {
			return map[string]any{"ev": "panic", "encev": "panic", "msg": "Encode: " + msg, "encerr": "", "got": []any{}, "layout": "?", "flatlen": 0, "nfix": 0, "nerr": 0, "times": [][]int{},
				"errkind": "?", "maxline": 0, "nhdr": 0, "nores": false, "hdates": []string{}}
		}
		out["encev"] = "ok"
		t := igcReadProj(buf.Bytes(), out, "dates")
		got := []any{}
		if t != nil && out["ev"] == nil {
			for i := 0; i < t.LineString.NumCoords(); i++ {
				co := t.LineString.Coord(i)
				got = append(got, map[string]any{"lonq": qInt(co[0], 6000000), "latq": qInt(co[1], 6000000), "alt": qInt(co[2], 1),
					"palt": qInt(co[4], 1), "t": daySec(co[3])})
			}
		}
		out["got"] = got
		out["text"] = buf.String()
	case "bytes":
		data, err := base64.StdEncoding.DecodeString(c.B64)
		must(err)
		for _, p := range c.Parts {
			piece, err := base64.StdEncoding.DecodeString(p.B64)
			must(err)
			data = append(data, bytes.Repeat(piece, p.Rep)...)
		}
		igcReadProj(data, out, "")
	}
	return out
}

func init() {
	handlers["igc"] = igcHandler
	tokModes["igc"] = "int"
}
