package main

// Driver for C17: every non-mutating exported function is called on shared arguments, first alone
// (sequential pass, twice each) and then from many goroutines at once (concurrent pass, built with -race).
// It records, per call, a digest of the result and bitwise digests of the argument before and after.
// No expectations here: CallsTrace.tla decides purity, determinism and (from the race detector's log,
// appended by the orchestrator) freedom from data races.

import (
	"bufio"
	"bytes"
	"crypto/sha1"
	"encoding/binary"
	"encoding/hex"
	"encoding/json"
	"fmt"
	"io"
	"math"
	"math/rand"
	"os"
	"reflect"
	"strings"
	"sync"

	"github.com/twpayne/go-geom"
	"github.com/twpayne/go-geom/bigxy"
	"github.com/twpayne/go-geom/encoding/ewkb"
	"github.com/twpayne/go-geom/encoding/ewkbhex"
	"github.com/twpayne/go-geom/encoding/geojson"
	"github.com/twpayne/go-geom/encoding/igc"
	"github.com/twpayne/go-geom/encoding/wkb"
	"github.com/twpayne/go-geom/encoding/wkbcommon"
	"github.com/twpayne/go-geom/encoding/wkbhex"
	"github.com/twpayne/go-geom/encoding/wkt"
	"github.com/twpayne/go-geom/transform"
	"github.com/twpayne/go-geom/xy"
	"github.com/twpayne/go-geom/xy/lineintersector"
	"github.com/twpayne/go-geom/xyz"
)

// a shared argument: a geometry, its encodings (byte slices / strings handed to the decoders) and some coords
type callArg struct {
	id    string
	g     geom.T
	wkbB  []byte
	ewkbB []byte
	gjB   []byte
	wktS  string
	hexS  string
	igcB  []byte
	pts   []geom.Coord // a few coordinates taken from the geometry (own storage, shared between goroutines)
}

func dig(parts ...any) string {
	h := sha1.New()
	for _, p := range parts {
		switch v := p.(type) {
		case []float64:
			for _, f := range v {
				_ = binary.Write(h, binary.LittleEndian, math.Float64bits(f))
			}
		case geom.Coord:
			for _, f := range v {
				_ = binary.Write(h, binary.LittleEndian, math.Float64bits(f))
			}
		case float64:
			_ = binary.Write(h, binary.LittleEndian, math.Float64bits(v))
		case []byte:
			h.Write(v)
		case string:
			h.Write([]byte(v))
		default:
			fmt.Fprintf(h, "%v", v)
		}
		h.Write([]byte{0})
	}
	return hex.EncodeToString(h.Sum(nil))[:16]
}

func geomDigest(g geom.T) string {
	if g == nil {
		return "nil"
	}
	if gc, ok := g.(*geom.GeometryCollection); ok {
		parts := []any{"GC", gc.SRID()}
		for _, m := range gc.Geoms() {
			parts = append(parts, geomDigest(m))
		}
		return dig(parts...)
	}
	return dig(kindOf(g), int(g.Layout()), g.SRID(), g.FlatCoords(), fmt.Sprint(g.Ends()), fmt.Sprint(g.Endss()))
}

// deepWalk writes every field of a value - exported or not, through pointers, slices and interfaces - into h:
// the bitwise snapshot of an argument (a query that caches something in an unexported field changes it).
func deepWalk(h io.Writer, v reflect.Value, depth int) {
	if depth > 12 {
		return
	}
	switch v.Kind() {
	case reflect.Ptr, reflect.Interface:
		if v.IsNil() {
			fmt.Fprint(h, "nil;")
			return
		}
		deepWalk(h, v.Elem(), depth+1)
	case reflect.Struct:
		for i := 0; i < v.NumField(); i++ {
			fmt.Fprintf(h, "%s:", v.Type().Field(i).Name)
			deepWalk(h, v.Field(i), depth+1)
		}
	case reflect.Slice, reflect.Array:
		if v.Kind() == reflect.Slice && v.IsNil() {
			fmt.Fprint(h, "nilslice;")
			return
		}
		fmt.Fprintf(h, "[%d]", v.Len())
		for i := 0; i < v.Len(); i++ {
			deepWalk(h, v.Index(i), depth+1)
		}
	case reflect.Float64, reflect.Float32:
		fmt.Fprintf(h, "%x;", math.Float64bits(v.Float()))
	case reflect.Int, reflect.Int8, reflect.Int16, reflect.Int32, reflect.Int64:
		fmt.Fprintf(h, "%d;", v.Int())
	case reflect.Uint, reflect.Uint8, reflect.Uint16, reflect.Uint32, reflect.Uint64:
		fmt.Fprintf(h, "%d;", v.Uint())
	case reflect.Bool:
		fmt.Fprintf(h, "%t;", v.Bool())
	case reflect.String:
		fmt.Fprintf(h, "%q;", v.String())
	default:
		fmt.Fprintf(h, "<%s>;", v.Kind())
	}
}

func deepDigest(x any) string {
	h := sha1.New()
	deepWalk(h, reflect.ValueOf(x), 0)
	return hex.EncodeToString(h.Sum(nil))[:16]
}

// snapshot: everything a call could have modified in its argument, plus the exported package-level variables
func (a *callArg) snapshot() string {
	parts := []any{geomDigest(a.g), deepDigest(a.g), a.wkbB, a.ewkbB, a.gjB, a.wktS, a.hexS, a.igcB, int(geojson.DefaultLayout), fmt.Sprint(wkbcommon.MaxGeometryElements)}
	for _, p := range a.pts {
		parts = append(parts, p)
	}
	return dig(parts...)
}

func resGeom(g geom.T, err error) string {
	if err != nil {
		return "err:" + errClass(err)
	}
	return geomDigest(g)
}

type callOp struct {
	name string
	f    func(a *callArg) string
}

// opScribs (by operation name, optional): make the call again and OVERWRITE every part of the object it returns - the
// result belongs to the caller; if that changes the argument, the result shares storage with it
var opScribs = map[string]func(a *callArg){}

const scribV = 987654.25

func scribFlat(fc []float64) {
	for i := range fc {
		fc[i] = scribV
	}
}

func scribGeom(g geom.T) {
	if g == nil {
		return
	}
	if gc, ok := g.(*geom.GeometryCollection); ok {
		for _, m := range gc.Geoms() {
			scribGeom(m)
		}
		return
	}
	scribFlat(g.FlatCoords())
	for i := range g.Ends() {
		g.Ends()[i] = 0
	}
	for _, es := range g.Endss() {
		for i := range es {
			es[i] = 0
		}
	}
}

func scribCoords(v reflect.Value) {
	switch v.Kind() {
	case reflect.Slice:
		for i := 0; i < v.Len(); i++ {
			scribCoords(v.Index(i))
		}
	case reflect.Float64:
		if v.CanSet() {
			v.SetFloat(scribV)
		}
	}
}

func flatOfT(g geom.T) ([]float64, bool) {
	if _, ok := g.(*geom.GeometryCollection); ok {
		return nil, false
	}
	return g.FlatCoords(), true
}

func callOps() []callOp {
	guard := func(f func(a *callArg) string) func(a *callArg) string {
		return func(a *callArg) (r string) {
			defer func() {
				if e := recover(); e != nil {
					r = "panic:" + fmt.Sprint(e)
				}
			}()
			return f(a)
		}
	}
	ops := []callOp{
		{"Bounds", func(a *callArg) string {
			b := a.g.Bounds()
			return dig(int(b.Layout()), b.IsEmpty(), fmt.Sprint(b))
		}},
		{"Empty", func(a *callArg) string { return fmt.Sprint(a.g.Empty()) }},
		{"Layout/Stride/SRID", func(a *callArg) string { return fmt.Sprint(a.g.Layout(), a.g.Stride(), a.g.SRID()) }},
		{"Area/Length", func(a *callArg) string {
			if m, ok := a.g.(interface {
				Area() float64
				Length() float64
			}); ok {
				return dig(m.Area(), m.Length())
			}
			return "n/a"
		}},
		{"Coords", func(a *callArg) string {
			switch g := a.g.(type) {
			case *geom.LineString:
				return dig(fmt.Sprint(g.Coords()), g.NumCoords())
			case *geom.Polygon:
				return dig(fmt.Sprint(g.Coords()), g.NumLinearRings(), geomDigest(g.LinearRing(0)))
			case *geom.MultiPoint:
				return dig(fmt.Sprint(g.Coords()), g.NumPoints(), geomDigest(g.Point(g.NumPoints()-1)))
			case *geom.MultiPolygon:
				return dig(fmt.Sprint(g.Coords()), g.NumPolygons(), geomDigest(g.Polygon(g.NumPolygons()-1)))
			case *geom.MultiLineString:
				return dig(fmt.Sprint(g.Coords()), geomDigest(g.LineString(0)))
			case *geom.Point:
				return dig(fmt.Sprint(g.Coords()))
			}
			return "n/a"
		}},
		{"Clone", func(a *callArg) string {
			switch g := a.g.(type) {
			case *geom.LineString:
				return geomDigest(g.Clone())
			case *geom.Polygon:
				return geomDigest(g.Clone())
			case *geom.MultiPoint:
				return geomDigest(g.Clone())
			case *geom.MultiPolygon:
				return geomDigest(g.Clone())
			case *geom.MultiLineString:
				return geomDigest(g.Clone())
			case *geom.Point:
				return geomDigest(g.Clone())
			}
			return "n/a"
		}},
		{"xy.ConvexHull", func(a *callArg) string { return geomDigest(xy.ConvexHull(a.g)) }},
		{"xy.ConvexHullFlat", func(a *callArg) string {
			if fc, ok := flatOfT(a.g); ok {
				return geomDigest(xy.ConvexHullFlat(a.g.Layout(), fc))
			}
			return "n/a"
		}},
		{"xy.Centroid", func(a *callArg) string {
			c, err := xy.Centroid(a.g)
			if err != nil {
				return "err"
			}
			return dig(c)
		}},
		{"xy.SimplifyFlatCoords", func(a *callArg) string {
			if fc, ok := flatOfT(a.g); ok && a.g.Stride() > 0 {
				return fmt.Sprint(xy.SimplifyFlatCoords(fc, 0.75, a.g.Stride()))
			}
			return "n/a"
		}},
		{"xy.ring-functions", func(a *callArg) string {
			fc, ok := flatOfT(a.g)
			if !ok || len(fc) < 4*a.g.Stride() {
				return "n/a"
			}
			l := a.g.Layout()
			return dig(xy.SignedArea(l, fc), fmt.Sprint(xy.IsRingCounterClockwise(l, fc), xy.IsPointInRing(l, a.pts[0], fc),
				xy.LocatePointInRing(l, a.pts[1], fc), xy.IsOnLine(l, a.pts[0], fc)), xy.DistanceFromPointToLineString(l, a.pts[1], fc))
		}},
		{"xy.point-functions", func(a *callArg) string {
			p := a.pts
			return dig(xy.DistanceFromPointToLine(p[0], p[1], p[2]), xy.PerpendicularDistanceFromPointToLine(p[0], p[1], p[2]),
				xy.DistanceFromLineToLine(p[0], p[1], p[2], p[3]), xy.Distance(p[0], p[3]), int(xy.OrientationIndex(p[0], p[1], p[2])),
				int(bigxy.OrientationIndex(p[1], p[2], p[3])), xy.Angle(p[0], p[1]), xy.AngleBetween(p[0], p[1], p[2]), fmt.Sprint(xy.IsAcute(p[0], p[1], p[2])),
				fmt.Sprint(xy.DoLinesOverlap(p[0], p[1], p[2], p[3]), xy.IsPointWithinLineBounds(p[0], p[1], p[2])), bigxy.Intersection(p[0], p[1], p[2], p[3]))
		}},
		{"xyz.distances", func(a *callArg) string {
			q := make([]geom.Coord, 4)
			for i := range q { // 3-D views of the shared coordinates (z = 0 when the layout has none)
				q[i] = geom.Coord{a.pts[i][0], a.pts[i][1], 0}
				if len(a.pts[i]) > 2 {
					q[i][2] = a.pts[i][2]
				}
			}
			return dig(xyz.Distance(q[0], q[1]), xyz.DistancePointToLine(q[0], q[1], q[2]), xyz.DistanceLineToLine(q[0], q[1], q[2], q[3]))
		}},
		{"lineintersector", func(a *callArg) string {
			p := a.pts
			r := lineintersector.LineIntersectsLine(lineintersector.RobustLineIntersector{}, p[0], p[1], p[2], p[3])
			n := lineintersector.LineIntersectsLine(lineintersector.NonRobustLineIntersector{}, p[0], p[1], p[2], p[3])
			return dig(int(r.Type()), fmt.Sprint(r.Intersection()), int(n.Type()), fmt.Sprint(n.Intersection()),
				fmt.Sprint(lineintersector.PointIntersectsLine(lineintersector.RobustLineIntersector{}, p[0], p[1], p[2])))
		}},
		{"transform.UniqueCoords", func(a *callArg) string {
			if fc, ok := flatOfT(a.g); ok && a.g.Stride() > 0 {
				return dig(transform.UniqueCoords(a.g.Layout(), hullCmp{}, fc))
			}
			return "n/a"
		}},
		{"wkt.Marshal", func(a *callArg) string {
			s, err := wkt.Marshal(a.g)
			s2, _ := wkt.Marshal(a.g, wkt.EncodeOptionWithMaxDecimalDigits(2))
			return dig(s, s2, fmt.Sprint(err))
		}},
		{"wkb.Marshal", func(a *callArg) string {
			b, err := wkb.Marshal(a.g, wkb.NDR, wkbcommon.WKBOptionEmptyPointHandling(wkbcommon.EmptyPointHandlingNaN))
			b2, _ := wkb.Marshal(a.g, wkb.XDR, wkbcommon.WKBOptionEmptyPointHandling(wkbcommon.EmptyPointHandlingNaN))
			return dig(b, b2, fmt.Sprint(err))
		}},
		{"ewkb.Marshal", func(a *callArg) string {
			b, err := ewkb.Marshal(a.g, ewkb.NDR)
			b2, _ := ewkb.Marshal(a.g, ewkb.XDR)
			return dig(b, b2, fmt.Sprint(err))
		}},
		{"hex.Encode", func(a *callArg) string {
			s, err := wkbhex.Encode(a.g, wkb.NDR, wkbcommon.WKBOptionEmptyPointHandling(wkbcommon.EmptyPointHandlingNaN))
			s2, err2 := ewkbhex.Encode(a.g, ewkb.XDR)
			return dig(s, s2, fmt.Sprint(err, err2))
		}},
		{"geojson.Marshal", func(a *callArg) string {
			b, err := geojson.Marshal(a.g)
			b2, err2 := geojson.Marshal(a.g, geojson.EncodeGeometryWithMaxDecimalDigits(1))
			return dig(b, b2, fmt.Sprint(err, err2))
		}},
		{"igc.Encode", func(a *callArg) string {
			ls, ok := a.g.(*geom.LineString)
			if !ok || ls.Stride() < 4 {
				return "n/a"
			}
			var buf bytes.Buffer
			err := igc.NewEncoder(&buf, igc.A("XXX")).Encode(ls)
			return dig(buf.Bytes(), fmt.Sprint(err))
		}},
		{"wkt.Unmarshal", func(a *callArg) string { return resGeom(wkt.Unmarshal(a.wktS)) }},
		{"wkb.Unmarshal", func(a *callArg) string {
			return resGeom(wkb.Unmarshal(a.wkbB, wkbcommon.WKBOptionEmptyPointHandling(wkbcommon.EmptyPointHandlingNaN)))
		}},
		{"wkb.Read", func(a *callArg) string {
			return resGeom(wkb.Read(bytes.NewReader(a.wkbB), wkbcommon.WKBOptionEmptyPointHandling(wkbcommon.EmptyPointHandlingNaN)))
		}},
		{"ewkb.Unmarshal", func(a *callArg) string { return resGeom(ewkb.Unmarshal(a.ewkbB)) }},
		{"hex.Decode", func(a *callArg) string {
			return resGeom(wkbhex.Decode(a.hexS, wkbcommon.WKBOptionEmptyPointHandling(wkbcommon.EmptyPointHandlingNaN)))
		}},
		{"geojson.Unmarshal", func(a *callArg) string {
			var g geom.T
			err := geojson.Unmarshal(a.gjB, &g)
			return resGeom(g, err)
		}},
		{"igc.Read", func(a *callArg) string {
			t, err := igc.Read(bytes.NewReader(a.igcB))
			return dig(geomDigest(t.LineString), len(t.Headers), fmt.Sprint(err))
		}},
		{"sql.Value", func(a *callArg) string {
			v, err := (&wkb.Geom{T: a.g}).Value()
			b, _ := v.([]byte)
			v2, err2 := (&ewkb.GeometryCollection{}).Value()
			b2, _ := v2.([]byte)
			return dig(b, b2, fmt.Sprint(err, err2))
		}},
	}
	far := func(l geom.Layout) geom.T {
		c := make([]float64, l.Stride())
		for i := range c {
			c[i] = -scribV * float64(i+1)
		}
		return geom.NewPointFlat(l, c)
	}
	scribs := map[string]func(a *callArg){
		"Bounds": func(a *callArg) {
			b := a.g.Bounds()
			if l := b.Layout(); l != geom.NoLayout {
				b.Extend(far(l))
				c := make(geom.Coord, l.Stride())
				b.SetCoords(c, c)
			}
		},
		"Coords": func(a *callArg) {
			switch g := a.g.(type) {
			case *geom.LineString:
				scribCoords(reflect.ValueOf(g.Coords()))
			case *geom.Polygon:
				scribCoords(reflect.ValueOf(g.Coords()))
			case *geom.MultiPoint:
				scribCoords(reflect.ValueOf(g.Coords()))
			case *geom.MultiPolygon:
				scribCoords(reflect.ValueOf(g.Coords()))
			case *geom.MultiLineString:
				scribCoords(reflect.ValueOf(g.Coords()))
			case *geom.Point:
				scribCoords(reflect.ValueOf(g.Coords()))
			}
		},
		"Clone": func(a *callArg) {
			switch g := a.g.(type) {
			case *geom.LineString:
				scribGeom(g.Clone())
			case *geom.Polygon:
				scribGeom(g.Clone())
			case *geom.MultiPoint:
				scribGeom(g.Clone())
			case *geom.MultiPolygon:
				scribGeom(g.Clone())
			case *geom.MultiLineString:
				scribGeom(g.Clone())
			case *geom.Point:
				scribGeom(g.Clone())
			}
		},
		// NOT scribbled: hulls, centroids, unique coordinates (the properties promise fresh storage for Bounds(), Coords()
		// and Clone() only; whether another computed object may share storage with its input is left open) and
		// the intersector's result. For an endpoint intersection it hands back the caller's own coordinate
		// value (slice header and all); the property does not promise a copy there.
	}
	for i := range ops {
		ops[i].f = guard(ops[i].f)
		if sc, ok := scribs[ops[i].name]; ok {
			opScribs[ops[i].name] = func(a *callArg) {
				defer func() { _ = recover() }()
				sc(a)
			}
		}
	}
	return ops
}

type hullCmp struct{}

func (hullCmp) IsEquals(x, y geom.Coord) bool { return x[0] == y[0] && x[1] == y[1] }
func (hullCmp) IsLess(x, y geom.Coord) bool {
	return x[0] < y[0] || (x[0] == y[0] && x[1] < y[1])
}

type namedGeom struct {
	id string
	g  geom.T
}

// callArgs: the shared arguments. The encodings handed to the decoders are produced from a SECOND, equal set of
// geometries, so that the shared geometries have not been touched by any library call before their first snapshot.
func callArgs(seed int64) []*callArg {
	gs := buildGeoms(rand.New(rand.NewSource(seed)))
	twins := buildGeoms(rand.New(rand.NewSource(seed)))
	var out []*callArg
	for i, x := range gs {
		t := twins[i].g
		a := &callArg{id: x.id, g: x.g}
		a.wkbB, _ = wkb.Marshal(t, wkb.NDR, wkbcommon.WKBOptionEmptyPointHandling(wkbcommon.EmptyPointHandlingNaN))
		a.ewkbB, _ = ewkb.Marshal(t, ewkb.XDR)
		a.gjB, _ = geojson.Marshal(t)
		a.wktS, _ = wkt.Marshal(t)
		a.hexS, _ = wkbhex.Encode(t, wkb.XDR, wkbcommon.WKBOptionEmptyPointHandling(wkbcommon.EmptyPointHandlingNaN))
		a.igcB = []byte("AXXX\nHFDTE010100\nI013636TDS\nB1200004730000N00830000EA00500006005\nB1200014730001N00830002EA00501006015\n")
		var fc []float64
		stride := 2
		if _, isGC := t.(*geom.GeometryCollection); !isGC && len(t.FlatCoords()) >= 4*t.Stride() && t.Stride() >= 2 {
			fc, stride = t.FlatCoords(), t.Stride()
		} else {
			fc = []float64{0, 0, 4, 4, 0, 4, 4, 0}
		}
		n := len(fc) / stride
		for k := 0; k < 4; k++ {
			j := (k * (n / 4)) % n
			a.pts = append(a.pts, append(geom.Coord{}, fc[j*stride:(j+1)*stride]...))
		}
		out = append(out, a)
	}
	return out
}

func buildGeoms(r *rand.Rand) []namedGeom {
	var gs []namedGeom
	add := func(id string, g geom.T) { gs = append(gs, namedGeom{id, g}) }
	rnd := func(n, stride int, grid float64) []float64 {
		out := make([]float64, n*stride)
		for i := range out {
			out[i] = math.Floor(r.Float64()*grid) / 4
		}
		return out
	}
	add("pt-xyz", geom.NewPointFlat(geom.XYZ, []float64{1.5, -2, 3}))
	add("ls80-xym", geom.NewLineStringFlat(geom.XYM, rnd(80, 3, 400)))
	track := make([]float64, 0, 60)
	for i := 0; i < 12; i++ {
		track = append(track, 8+float64(i)/64, 47-float64(i)/128, float64(500+10*i), float64(946684790+i*7), float64(490+10*i))
	}
	add("track-l5", geom.NewLineStringFlat(geom.Layout(5), track))
	ring := []float64{0, 0, 10, 0, 10, 10, 5, 12, 0, 10, 0, 0}
	hole := []float64{2, 2, 2, 4, 4, 4, 4, 2, 2, 2}
	add("pg-hole", geom.NewPolygonFlat(geom.XY, append(append([]float64{}, ring...), hole...), []int{len(ring), len(ring) + len(hole)}))
	add("mpt80", geom.NewMultiPointFlat(geom.XY, rnd(80, 2, 200)))
	add("mpt120-xyzm", geom.NewMultiPointFlat(geom.XYZM, rnd(120, 4, 40)))
	same := make([]float64, 0, 120)
	for i := 0; i < 60; i++ {
		same = append(same, 3, 4)
	}
	add("mpt60-coincident", geom.NewMultiPointFlat(geom.XY, same))
	col := make([]float64, 0, 140)
	for i := 0; i < 70; i++ {
		k := float64((i * 37) % 70)
		col = append(col, k, 2*k+1)
	}
	add("mpt70-collinear", geom.NewMultiPointFlat(geom.XY, col))
	mpg := geom.NewMultiPolygon(geom.XY)
	_ = mpg.Push(geom.NewPolygonFlat(geom.XY, append([]float64{}, ring...), []int{len(ring)}))
	_ = mpg.Push(geom.NewPolygon(geom.XY))
	_ = mpg.Push(geom.NewPolygonFlat(geom.XY, []float64{20, 0, 30, 0, 30, 10, 20, 0}, []int{8}))
	add("mpg-empty-member", mpg)
	mls := geom.NewMultiLineStringFlat(geom.XYZ, rnd(9, 3, 50), []int{9, 9, 27})
	add("mls-xyz", mls)
	gc := geom.NewGeometryCollection()
	gc.MustPush(geom.NewPointFlat(geom.XY, []float64{1, 2}), geom.NewLineStringFlat(geom.XY, rnd(5, 2, 30)),
		geom.NewGeometryCollection().MustPush(geom.NewPolygonFlat(geom.XY, append([]float64{}, ring...), []int{len(ring)})))
	add("gc-nested", gc)
	gcm := geom.NewGeometryCollection()
	gcm.MustPush(geom.NewPointFlat(geom.XYZ, []float64{1, 2, 3}), geom.NewLineStringFlat(geom.XYM, rnd(4, 3, 30)),
		geom.NewMultiPointFlat(geom.XY, rnd(3, 2, 30)))
	add("gc-mixed-z-m", gcm)
	// legal but degenerate: rings that are not closed, each followed by further rings / members in the same flat array
	// (anything appended "to" such a ring lands in its neighbour)
	open := []float64{0, 0, 10, 0, 10, 10, 0, 10}
	add("pg-unclosed-shell", geom.NewPolygonFlat(geom.XY, append(append([]float64{}, open...), hole...), []int{len(open), len(open) + len(hole)}))
	mpo := geom.NewMultiPolygon(geom.XY)
	_ = mpo.Push(geom.NewPolygonFlat(geom.XY, append([]float64{}, open...), []int{len(open)}))
	_ = mpo.Push(geom.NewPolygonFlat(geom.XY, []float64{20, 0, 30, 0, 30, 10, 20, 0}, []int{8}))
	add("mpg-unclosed-member", mpo)
	add("mls-one-point-lines", geom.NewMultiLineStringFlat(geom.XY, []float64{1, 1, 2, 2, 3, 3, 4, 5}, []int{2, 4, 8}))
	add("ls-one-coordinate", geom.NewLineStringFlat(geom.XYZM, []float64{1, 2, 3, 4}))
	return gs
}

type callEvent struct {
	Ev   string `json:"ev"`
	Gor  int    `json:"gor"`
	Seq  int    `json:"seq"`
	Op   string `json:"op"`
	Arg  string `json:"arg"`
	Res  string `json:"res"`
	Pre  string `json:"pre"`
	Post string `json:"post"`
}

// special subcommand: drive calls -in <params json> -out <events ndjson>
// params: {"goroutines": G, "rounds": R, "control": bool}
func callsSpecial(in, out string) int {
	var p struct {
		Goroutines, Rounds int
		Control            bool
	}
	b, err := os.ReadFile(in)
	if err != nil {
		fmt.Fprintln(os.Stderr, err)
		return 64
	}
	must(json.Unmarshal(bytes.TrimSpace(b), &p))
	args := callArgs(seed)
	ops := callOps()
	fout, err := os.Create(out)
	if err != nil {
		fmt.Fprintln(os.Stderr, err)
		return 64
	}
	w := bufio.NewWriter(fout)
	emit := func(e callEvent) {
		b, _ := json.Marshal(e)
		w.Write(b)
		w.WriteByte('\n')
	}
	for _, a := range args {
		emit(callEvent{Ev: "init", Arg: a.id, Pre: a.snapshot(), Post: "-", Op: "-", Res: "-"})
	}
	// sequential pass: every op on every argument, twice (a result must not depend on an earlier call)
	seq := 0
	for pass := 0; pass < 2; pass++ {
		for _, o := range ops {
			for _, a := range args {
				pre := a.snapshot()
				res := o.f(a)
				seq++
				emit(callEvent{Ev: "seq", Gor: 0, Seq: seq, Op: o.name, Arg: a.id, Res: res, Pre: pre, Post: a.snapshot()})
				if sc := opScribs[o.name]; sc != nil && pass == 1 {
					// the caller overwrites the object the call returned (second pass only, so that the first pass has
					// recorded every sequential result on untouched arguments)
					pre := a.snapshot()
					sc(a)
					seq++
					emit(callEvent{Ev: "scrib", Gor: 0, Seq: seq, Op: o.name, Arg: a.id, Res: "-", Pre: pre, Post: a.snapshot()})
				}
			}
		}
	}
	// concurrent pass: G goroutines, each a seeded mix of calls on the SAME arguments
	var wg sync.WaitGroup
	evs := make([][]callEvent, p.Goroutines)
	start := make(chan struct{})
	for g := 0; g < p.Goroutines; g++ {
		wg.Add(1)
		go func(g int) {
			defer wg.Done()
			rr := rand.New(rand.NewSource(seed*1000 + int64(g)))
			<-start
			for k := 0; k < p.Rounds; k++ {
				o := ops[rr.Intn(len(ops))]
				a := args[rr.Intn(len(args))]
				if p.Control && g == 0 {
					// positive control of the sensor (never part of a verdict run): the HARNESS keeps writing to a shared
					// slice (reversing it in place, so every round really writes) while the other goroutines read it
					if fc, ok := flatOfT(args[4].g); ok {
						for i, j := 0, len(fc)-1; i < j; i, j = i+1, j-1 {
							fc[i], fc[j] = fc[j], fc[i]
						}
					}
					a = args[4]
				}
				if p.Control && g != 0 && k%2 == 0 {
					a = args[4]
				}
				res := o.f(a)
				evs[g] = append(evs[g], callEvent{Ev: "conc", Gor: g + 1, Seq: k + 1, Op: o.name, Arg: a.id, Res: res, Pre: "-", Post: "-"})
			}
		}(g)
	}
	close(start)
	wg.Wait()
	for _, es := range evs {
		for _, e := range es {
			emit(e)
		}
	}
	for _, a := range args {
		emit(callEvent{Ev: "final", Arg: a.id, Pre: a.snapshot(), Post: "-", Op: "-", Res: "-"})
	}
	w.Flush()
	fout.Close()
	_ = strings.TrimSpace
	return 0
}

func init() {
	specials["calls"] = callsSpecial
	tokModes["calls"] = "int"
}
