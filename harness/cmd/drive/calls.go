package main

// Driver for C17: every non-mutating exported function is called on shared arguments, first alone
// (sequential pass, twice each) and then from many goroutines at once (concurrent pass, built with -race).
// It records, per call, a digest of the result and bitwise digests of the argument before and after.
// No expectations here: CallsTrace.tla decides purity, determinism and (from the race detector's log,
// appended by the orchestrator) freedom from data races.
//
// Arguments: geometries of every type (also a LinearRing, empty ones, one without layout, degenerate ones), their
// encodings - proper, and MALFORMED / truncated ones, so that the decoders' error paths run alone and concurrently
// (the recorded result is then the error class) - and the other values pure functions take (Bounds, GeoJSON Feature /
// FeatureCollection / Geometry / CRS, a TreeSet, an intersection Result).
// Operations: only those documented as pure. Where an API accumulates into or fills an object by contract (a centroid
// calculator, a sql Scan wrapper, a Feature being unmarshalled, sorting), that object is created per call (sorting: a
// per-call copy of the coordinates); what is shared are the things it reads.
// Under concurrency no per-call snapshots are taken (they would not be atomic): every argument gets ONE final
// snapshot after all goroutines have finished.

import (
	"bufio"
	"bytes"
	"crypto/sha1"
	"database/sql/driver"
	"encoding/binary"
	"encoding/hex"
	"encoding/json"
	"encoding/xml"
	"fmt"
	"math"
	"math/rand"
	"os"
	"reflect"
	"sort"
	"sync"
	"unsafe"

	"github.com/twpayne/go-geom"
	"github.com/twpayne/go-geom/bigxy"
	"github.com/twpayne/go-geom/encoding/ewkb"
	"github.com/twpayne/go-geom/encoding/ewkbhex"
	"github.com/twpayne/go-geom/encoding/geojson"
	"github.com/twpayne/go-geom/encoding/igc"
	kmlenc "github.com/twpayne/go-geom/encoding/kml"
	"github.com/twpayne/go-geom/encoding/wkb"
	"github.com/twpayne/go-geom/encoding/wkbcommon"
	"github.com/twpayne/go-geom/encoding/wkbhex"
	"github.com/twpayne/go-geom/encoding/wkt"
	"github.com/twpayne/go-geom/sorting"
	"github.com/twpayne/go-geom/transform"
	"github.com/twpayne/go-geom/xy"
	"github.com/twpayne/go-geom/xy/lineintersection"
	"github.com/twpayne/go-geom/xy/lineintersector"
	"github.com/twpayne/go-geom/xyz"
)

// a shared argument: a geometry, its encodings (byte slices / strings handed to the decoders), some coords, and the
// other kinds of value the library's pure functions take: Bounds, GeoJSON Feature / FeatureCollection / Geometry / CRS
// values, a populated TreeSet, an intersection Result. Everything here is shared between the goroutines
// of the concurrent pass and is part of snapshot(). (No encoder OBJECT is shared: the statement promises concurrent
// calls "on the same geometries", not that one encoder value - which may own a scratch buffer - serves many goroutines.)
type callArg struct {
	id    string
	g     geom.T
	wkbB  []byte
	ewkbB []byte
	gjB   []byte
	wktS  string
	hexS  string
	ehexS string
	igcB  []byte
	featB []byte       // a GeoJSON Feature document
	fcB   []byte       // a GeoJSON FeatureCollection document
	pts   []geom.Coord // a few coordinates taken from the geometry (own storage, shared between goroutines)
	pts3  []geom.Coord // the same, padded to three ordinates (for package xyz)
	bnd   *geom.Bounds // the geometry's bounds (an object of its own, computed from the twin)
	bnd2  *geom.Bounds // a box around pts[0]
	feat  *geojson.Feature
	feat2 *geojson.Feature
	fc    *geojson.FeatureCollection
	gjG   *geojson.Geometry
	crs   *geojson.CRS
	tree  *transform.TreeSet
	lir   lineintersection.Result
}

func dig(parts ...any) string {
	h := sha1.New()
	var b8 [8]byte
	fl := func(f float64) {
		binary.LittleEndian.PutUint64(b8[:], math.Float64bits(f))
		h.Write(b8[:])
	}
	for _, p := range parts {
		switch v := p.(type) {
		case []float64:
			for _, f := range v {
				fl(f)
			}
		case geom.Coord:
			for _, f := range v {
				fl(f)
			}
		case float64:
			fl(v)
		case []byte:
			h.Write(v)
		case string:
			h.Write([]byte(v))
		default:
			fmt.Fprintf(h, "%v", v)
		}
		h.Write([]byte{0})
	}
	return hex.EncodeToString(h.Sum(nil))[:16]
}

func isNilT(g geom.T) bool {
	if g == nil {
		return true
	}
	v := reflect.ValueOf(g)
	return v.Kind() == reflect.Ptr && v.IsNil()
}

func geomDigest(g geom.T) string {
	if isNilT(g) {
		return "nil"
	}
	if gc, ok := g.(*geom.GeometryCollection); ok {
		parts := []any{"GC", gc.SRID()}
		for _, m := range gc.Geoms() {
			parts = append(parts, geomDigest(m))
		}
		return dig(parts...)
	}
	return dig(kindOf(g), int(g.Layout()), g.SRID(), g.FlatCoords(), fmt.Sprint(g.Ends()), fmt.Sprint(g.Endss()))
}

// error class of a call: the dynamic type of the error (texts are left open)
func errK(err error) string {
	if err == nil {
		return "none"
	}
	return fmt.Sprintf("%T", err)
}

// class of a recovered panic: the dynamic type of its value (its text is left open like an error's)
func panicK(e any) string {
	return fmt.Sprintf("panic:%T", e)
}

// canonJSON: the VALUE of a JSON document, not its spelling. An encoder that walks a Go map itself emits the members
// of an object in another order on every call (sequentially as well); that is not another result. The document is decoded
// into interface{} and marshalled again by encoding/json, which sorts the keys. What does not parse is kept as it is.
func canonJSON(b []byte) []byte {
	if len(b) == 0 {
		return b
	}
	var v interface{}
	if err := json.Unmarshal(b, &v); err != nil {
		return b
	}
	c, err := json.Marshal(v)
	if err != nil {
		return b
	}
	return c
}

// deepWalk appends every field of a value - exported or not, through pointers, slices, maps and interfaces - to b:
// the bitwise snapshot of an argument (a query that caches something in an unexported field changes it).
func deepWalk(b []byte, v reflect.Value, depth int) []byte {
	if depth > 400 {
		return b
	}
	switch v.Kind() {
	case reflect.Invalid:
		b = append(b, "invalid;"...)
	case reflect.Ptr, reflect.Interface:
		if v.IsNil() {
			return append(b, "nil;"...)
		}
		b = append(b, '*')
		b = deepWalk(b, v.Elem(), depth+1)
	case reflect.Struct:
		b = append(b, '{')
		for i := 0; i < v.NumField(); i++ {
			b = append(b, byte('a'+i), ':')
			b = deepWalk(b, v.Field(i), depth+1)
		}
		b = append(b, '}')
	case reflect.Slice, reflect.Array:
		if v.Kind() == reflect.Slice && v.IsNil() {
			return append(b, "nilslice;"...)
		}
		n := v.Len()
		b = binary.LittleEndian.AppendUint32(append(b, '['), uint32(n))
		if v.Kind() == reflect.Slice && n > 0 {
			switch v.Type().Elem().Kind() {
			case reflect.Float64: // the bits of the floats, read in one go
				for _, f := range unsafe.Slice((*float64)(v.UnsafePointer()), n) {
					b = binary.LittleEndian.AppendUint64(b, math.Float64bits(f))
				}
				return b
			case reflect.Uint8:
				return append(b, unsafe.Slice((*byte)(v.UnsafePointer()), n)...)
			}
		}
		for i := 0; i < n; i++ {
			b = deepWalk(b, v.Index(i), depth+1)
		}
	case reflect.Map:
		if v.IsNil() {
			return append(b, "nilmap;"...)
		}
		keys := v.MapKeys()
		sort.Slice(keys, func(i, j int) bool { return fmt.Sprint(keys[i]) < fmt.Sprint(keys[j]) })
		b = binary.LittleEndian.AppendUint32(append(b, 'm'), uint32(len(keys)))
		for _, k := range keys {
			b = deepWalk(b, k, depth+1)
			b = append(b, '=')
			b = deepWalk(b, v.MapIndex(k), depth+1)
		}
	case reflect.Float64, reflect.Float32:
		b = binary.LittleEndian.AppendUint64(append(b, 'f'), math.Float64bits(v.Float()))
	case reflect.Int, reflect.Int8, reflect.Int16, reflect.Int32, reflect.Int64:
		b = binary.LittleEndian.AppendUint64(append(b, 'i'), uint64(v.Int()))
	case reflect.Uint, reflect.Uint8, reflect.Uint16, reflect.Uint32, reflect.Uint64:
		b = binary.LittleEndian.AppendUint64(append(b, 'u'), v.Uint())
	case reflect.Bool:
		if v.Bool() {
			b = append(b, 'T')
		} else {
			b = append(b, 'F')
		}
	case reflect.String:
		s := v.String()
		b = append(binary.LittleEndian.AppendUint32(append(b, 's'), uint32(len(s))), s...)
	default:
		b = append(append(b, '<'), v.Kind().String()...)
	}
	return b
}

func deepDigest(x any) string {
	sum := sha1.Sum(deepWalk(make([]byte, 0, 4096), reflect.ValueOf(x), 0))
	return hex.EncodeToString(sum[:])[:16]
}

const geomPkg = "github.com/twpayne/go-geom"

// pubWalk: what a value that is NOT a geometry shows through its exported fields (an internal, synchronised memo in an
// unexported field is no modification of an argument anybody can see). Geometries and Bounds met on the way - values of
// package geom - are still walked in full (deepWalk): "never modify the geometries" covers everything they hold.
func pubWalk(b []byte, v reflect.Value, depth int) []byte {
	if depth > 400 {
		return b
	}
	switch v.Kind() {
	case reflect.Ptr, reflect.Interface:
		if v.IsNil() {
			return append(b, "nil;"...)
		}
		b = append(b, '*')
		return pubWalk(b, v.Elem(), depth+1)
	case reflect.Struct:
		if v.Type().PkgPath() == geomPkg {
			return deepWalk(b, v, depth)
		}
		b = append(b, '{')
		for i := 0; i < v.NumField(); i++ {
			if !v.Type().Field(i).IsExported() {
				continue
			}
			b = append(b, byte('a'+i), ':')
			b = pubWalk(b, v.Field(i), depth+1)
		}
		return append(b, '}')
	case reflect.Slice, reflect.Array:
		if v.Kind() == reflect.Slice && v.IsNil() {
			return append(b, "nilslice;"...)
		}
		if k := v.Type().Elem().Kind(); k == reflect.Float64 || k == reflect.Uint8 {
			return deepWalk(b, v, depth)
		}
		n := v.Len()
		b = binary.LittleEndian.AppendUint32(append(b, '['), uint32(n))
		for i := 0; i < n; i++ {
			b = pubWalk(b, v.Index(i), depth+1)
		}
		return b
	case reflect.Map:
		if v.IsNil() {
			return append(b, "nilmap;"...)
		}
		keys := v.MapKeys()
		sort.Slice(keys, func(i, j int) bool { return fmt.Sprint(keys[i]) < fmt.Sprint(keys[j]) })
		b = binary.LittleEndian.AppendUint32(append(b, 'm'), uint32(len(keys)))
		for _, k := range keys {
			b = pubWalk(b, k, depth+1)
			b = append(b, '=')
			b = pubWalk(b, v.MapIndex(k), depth+1)
		}
		return b
	}
	return deepWalk(b, v, depth) // scalars and strings
}

func pubDigest(x any) string {
	sum := sha1.Sum(pubWalk(make([]byte, 0, 1024), reflect.ValueOf(x), 0))
	return hex.EncodeToString(sum[:])[:16]
}

// a TreeSet shows its contents through ToFlatArray only, an intersection Result through its three accessors
func treeDigest(t *transform.TreeSet) string {
	if t == nil {
		return "nil"
	}
	return fmt.Sprint(sub(func() any { return dig(t.ToFlatArray()) }))
}

func lirDigest(r *lineintersection.Result) string {
	return fmt.Sprint(sub(func() any {
		parts := []any{r.HasIntersection(), int(r.Type())}
		for _, c := range r.Intersection() {
			parts = append(parts, c)
		}
		return dig(parts...)
	}))
}

// a Feature: its exported fields (the geometry and the Bounds in full, they are geometries' values); its geometry by
// identity when it IS the shared geometry (walked already)
func (a *callArg) featDigest(f *geojson.Feature) string {
	if f == nil {
		return "nil"
	}
	gd := "shared-g"
	if f.Geometry != a.g {
		gd = deepDigest(f.Geometry)
	}
	return dig(f.ID, deepDigest(f.BBox), pubDigest(f.Properties), gd)
}

// snapshot: everything a call could have modified in its argument, plus the exported package-level variables.
// Geometries (geom.T values) and Bounds: every field, exported or not. The other values (GeoJSON Geometry / CRS / Feature /
// FeatureCollection, TreeSet, intersection Result): what their public API shows (exported fields, accessor results).
// One short digest per component (geometry, encodings, coordinates, bounds, features, other values, package variables),
// so that a deviation names the component.
func (a *callArg) snapshot() string {
	short := func(s string) string { return s[:10] }
	enc := dig(a.wkbB, a.ewkbB, a.gjB, a.wktS, a.hexS, a.ehexS, a.igcB, a.featB, a.fcB)
	var cp []any
	for _, p := range a.pts {
		cp = append(cp, p)
	}
	for _, p := range a.pts3 {
		cp = append(cp, p)
	}
	fparts := []any{a.featDigest(a.feat), a.featDigest(a.feat2)}
	if a.fc != nil {
		fparts = append(fparts, deepDigest(a.fc.BBox), len(a.fc.Features))
		for i, f := range a.fc.Features {
			// the collection must still list the same Feature VALUES (by identity), each covered above
			fparts = append(fparts, i, f == a.feat, f == a.feat2)
		}
	}
	pkg := dig(int(geojson.DefaultLayout), fmt.Sprint(wkbcommon.MaxGeometryElements),
		fmt.Sprint(wkb.XDR, wkb.NDR, ewkb.XDR, ewkb.NDR, wkbhex.XDR, wkbhex.NDR, ewkbhex.XDR, ewkbhex.NDR, wkbcommon.XDR, wkbcommon.NDR),
		fmt.Sprint(wkt.ErrBraceMismatch))
	return "g:" + short(dig(geomDigest(a.g), deepDigest(a.g))) + ",e:" + short(enc) + ",c:" + short(dig(cp...)) +
		",b:" + short(dig(deepDigest(a.bnd), deepDigest(a.bnd2))) + ",f:" + short(dig(fparts...)) +
		",o:" + short(dig(pubDigest(a.gjG), pubDigest(a.crs), treeDigest(a.tree), lirDigest(&a.lir))) +
		",v:" + short(pkg)
}

func resGeom(g geom.T, err error) string {
	if err != nil {
		return "err:" + errK(err)
	}
	return geomDigest(g)
}

type callOp struct {
	name string
	f    func(a *callArg) string
}

// opScribs (by operation name, optional): make the call again and OVERWRITE every part of the object it returns - the
// result belongs to the caller; if that changes the argument, the result shares storage with it
var opScribs = map[string]func(a *callArg){}

const scribV = 987654.25

func scribFlat(fc []float64) {
	for i := range fc {
		fc[i] = scribV
	}
}

func scribGeom(g geom.T) {
	if g == nil {
		return
	}
	if gc, ok := g.(*geom.GeometryCollection); ok {
		for _, m := range gc.Geoms() {
			scribGeom(m)
		}
		return
	}
	scribFlat(g.FlatCoords())
	for i := range g.Ends() {
		g.Ends()[i] = 0
	}
	for _, es := range g.Endss() {
		for i := range es {
			es[i] = 0
		}
	}
}

func scribCoords(v reflect.Value) {
	switch v.Kind() {
	case reflect.Slice:
		for i := 0; i < v.Len(); i++ {
			scribCoords(v.Index(i))
		}
	case reflect.Float64:
		if v.CanSet() {
			v.SetFloat(scribV)
		}
	}
}

func flatOfT(g geom.T) ([]float64, bool) {
	if _, ok := g.(*geom.GeometryCollection); ok {
		return nil, false
	}
	return g.FlatCoords(), true
}

// sub runs one part of an operation; a panic becomes that part's (recorded) result
func sub(f func() any) (r any) {
	defer func() {
		if e := recover(); e != nil {
			r = panicK(e)
		}
	}()
	return f()
}

// scanAll scans src into each (FRESH) sql wrapper: the geometry the wrapper holds afterwards, or - when Scan reports an
// error - the error class alone (what a receiver holds after a failed decode is left open)
func scanAll(src any, ws ...interface{ Scan(any) error }) []any {
	var parts []any
	for _, w := range ws {
		w := w
		parts = append(parts, sub(func() any {
			err := w.Scan(src)
			if err != nil {
				return "err:" + errK(err)
			}
			f := reflect.ValueOf(w).Elem().Field(0) // the embedded geometry
			var g geom.T
			if !f.IsNil() {
				g, _ = f.Interface().(geom.T)
			}
			return "none/" + geomDigest(g)
		}))
	}
	return parts
}

// what a decoded Feature holds
func featResult(f *geojson.Feature) string {
	if f == nil {
		return "nil"
	}
	props, _ := json.Marshal(f.Properties)
	return dig(f.ID, deepDigest(f.BBox), geomDigest(f.Geometry), props)
}

func callOps() []callOp {
	guard := func(f func(a *callArg) string) func(a *callArg) string {
		return func(a *callArg) (r string) {
			defer func() {
				if e := recover(); e != nil {
					r = panicK(e)
				}
			}()
			return f(a)
		}
	}
	ops := []callOp{
		{"Bounds", func(a *callArg) string {
			b := a.g.Bounds()
			return dig(int(b.Layout()), b.IsEmpty(), fmt.Sprint(b))
		}},
		{"Empty", func(a *callArg) string { return fmt.Sprint(a.g.Empty()) }},
		{"Layout/Stride/SRID", func(a *callArg) string { return fmt.Sprint(a.g.Layout(), a.g.Stride(), a.g.SRID()) }},
		{"Area/Length", func(a *callArg) string {
			if m, ok := a.g.(interface {
				Area() float64
				Length() float64
			}); ok {
				return dig(m.Area(), m.Length())
			}
			return "n/a"
		}},
		{"Coords", func(a *callArg) string {
			switch g := a.g.(type) {
			case *geom.LineString:
				return dig(fmt.Sprint(g.Coords()), g.NumCoords())
			case *geom.LinearRing:
				return dig(fmt.Sprint(g.Coords()), g.NumCoords())
			case *geom.Polygon:
				return dig(fmt.Sprint(g.Coords()), g.NumLinearRings(), geomDigest(g.LinearRing(0)))
			case *geom.MultiPoint:
				return dig(fmt.Sprint(g.Coords()), g.NumPoints(), geomDigest(g.Point(g.NumPoints()-1)))
			case *geom.MultiPolygon:
				return dig(fmt.Sprint(g.Coords()), g.NumPolygons(), geomDigest(g.Polygon(g.NumPolygons()-1)))
			case *geom.MultiLineString:
				return dig(fmt.Sprint(g.Coords()), geomDigest(g.LineString(0)))
			case *geom.Point:
				return dig(fmt.Sprint(g.Coords()))
			}
			return "n/a"
		}},
		{"Clone", func(a *callArg) string {
			switch g := a.g.(type) {
			case *geom.LineString:
				return geomDigest(g.Clone())
			case *geom.LinearRing:
				return geomDigest(g.Clone())
			case *geom.Polygon:
				return geomDigest(g.Clone())
			case *geom.MultiPoint:
				return geomDigest(g.Clone())
			case *geom.MultiPolygon:
				return geomDigest(g.Clone())
			case *geom.MultiLineString:
				return geomDigest(g.Clone())
			case *geom.Point:
				return geomDigest(g.Clone())
			}
			return "n/a"
		}},
		{"xy.ConvexHull", func(a *callArg) string { return geomDigest(xy.ConvexHull(a.g)) }},
		{"xy.ConvexHullFlat", func(a *callArg) string {
			if fc, ok := flatOfT(a.g); ok {
				return geomDigest(xy.ConvexHullFlat(a.g.Layout(), fc))
			}
			return "n/a"
		}},
		{"xy.Centroid", func(a *callArg) string {
			c, err := xy.Centroid(a.g)
			if err != nil {
				return "err"
			}
			return dig(c)
		}},
		{"xy.SimplifyFlatCoords", func(a *callArg) string {
			if fc, ok := flatOfT(a.g); ok && a.g.Stride() > 0 {
				return fmt.Sprint(xy.SimplifyFlatCoords(fc, 0.75, a.g.Stride()))
			}
			return "n/a"
		}},
		{"xy.ring-functions", func(a *callArg) string {
			fc, ok := flatOfT(a.g)
			if !ok || len(fc) < 4*a.g.Stride() {
				return "n/a"
			}
			l := a.g.Layout()
			return dig(xy.SignedArea(l, fc), fmt.Sprint(xy.IsRingCounterClockwise(l, fc), xy.IsPointInRing(l, a.pts[0], fc),
				xy.LocatePointInRing(l, a.pts[1], fc), xy.IsOnLine(l, a.pts[0], fc)), xy.DistanceFromPointToLineString(l, a.pts[1], fc))
		}},
		{"xy.point-functions", func(a *callArg) string {
			p := a.pts
			return dig(xy.DistanceFromPointToLine(p[0], p[1], p[2]), xy.PerpendicularDistanceFromPointToLine(p[0], p[1], p[2]),
				xy.DistanceFromLineToLine(p[0], p[1], p[2], p[3]), xy.Distance(p[0], p[3]), int(xy.OrientationIndex(p[0], p[1], p[2])),
				int(bigxy.OrientationIndex(p[1], p[2], p[3])), xy.Angle(p[0], p[1]), xy.AngleBetween(p[0], p[1], p[2]), fmt.Sprint(xy.IsAcute(p[0], p[1], p[2])),
				fmt.Sprint(xy.DoLinesOverlap(p[0], p[1], p[2], p[3]), xy.IsPointWithinLineBounds(p[0], p[1], p[2])), bigxy.Intersection(p[0], p[1], p[2], p[3]))
		}},
		{"xyz.distances", func(a *callArg) string {
			q := make([]geom.Coord, 4)
			for i := range q { // 3-D views of the shared coordinates (z = 0 when the layout has none)
				q[i] = geom.Coord{a.pts[i][0], a.pts[i][1], 0}
				if len(a.pts[i]) > 2 {
					q[i][2] = a.pts[i][2]
				}
			}
			return dig(xyz.Distance(q[0], q[1]), xyz.DistancePointToLine(q[0], q[1], q[2]), xyz.DistanceLineToLine(q[0], q[1], q[2], q[3]))
		}},
		{"lineintersector", func(a *callArg) string {
			p := a.pts
			r := lineintersector.LineIntersectsLine(lineintersector.RobustLineIntersector{}, p[0], p[1], p[2], p[3])
			n := lineintersector.LineIntersectsLine(lineintersector.NonRobustLineIntersector{}, p[0], p[1], p[2], p[3])
			return dig(int(r.Type()), fmt.Sprint(r.Intersection()), int(n.Type()), fmt.Sprint(n.Intersection()),
				fmt.Sprint(lineintersector.PointIntersectsLine(lineintersector.RobustLineIntersector{}, p[0], p[1], p[2])))
		}},
		{"transform.UniqueCoords", func(a *callArg) string {
			if fc, ok := flatOfT(a.g); ok && a.g.Stride() > 0 {
				return dig(transform.UniqueCoords(a.g.Layout(), hullCmp{}, fc))
			}
			return "n/a"
		}},
		{"wkt.Marshal", func(a *callArg) string {
			s, err := wkt.Marshal(a.g)
			s2, err2 := wkt.Marshal(a.g, wkt.EncodeOptionWithMaxDecimalDigits(2))
			return dig(s, s2, errK(err), errK(err2))
		}},
		{"wkb.Marshal", func(a *callArg) string {
			b, err := wkb.Marshal(a.g, wkb.NDR, wkbcommon.WKBOptionEmptyPointHandling(wkbcommon.EmptyPointHandlingNaN))
			b2, err2 := wkb.Marshal(a.g, wkb.XDR, wkbcommon.WKBOptionEmptyPointHandling(wkbcommon.EmptyPointHandlingNaN))
			return dig(b, b2, errK(err), errK(err2))
		}},
		{"ewkb.Marshal", func(a *callArg) string {
			b, err := ewkb.Marshal(a.g, ewkb.NDR)
			b2, err2 := ewkb.Marshal(a.g, ewkb.XDR)
			return dig(b, b2, errK(err), errK(err2))
		}},
		{"hex.Encode", func(a *callArg) string {
			s, err := wkbhex.Encode(a.g, wkb.NDR, wkbcommon.WKBOptionEmptyPointHandling(wkbcommon.EmptyPointHandlingNaN))
			s2, err2 := ewkbhex.Encode(a.g, ewkb.XDR)
			return dig(s, s2, errK(err), errK(err2))
		}},
		{"geojson.Marshal", func(a *callArg) string {
			b, err := geojson.Marshal(a.g)
			b2, err2 := geojson.Marshal(a.g, geojson.EncodeGeometryWithMaxDecimalDigits(1))
			return dig(canonJSON(b), canonJSON(b2), errK(err), errK(err2))
		}},
		{"igc.Encode", func(a *callArg) string {
			ls, ok := a.g.(*geom.LineString)
			if !ok || ls.Stride() < 4 {
				return "n/a"
			}
			var buf bytes.Buffer
			err := igc.NewEncoder(&buf, igc.A("XXX")).Encode(ls)
			return dig(buf.Bytes(), errK(err))
		}},
		{"wkt.Unmarshal", func(a *callArg) string { return resGeom(wkt.Unmarshal(a.wktS)) }},
		{"wkb.Unmarshal", func(a *callArg) string {
			return resGeom(wkb.Unmarshal(a.wkbB, wkbcommon.WKBOptionEmptyPointHandling(wkbcommon.EmptyPointHandlingNaN)))
		}},
		{"wkb.Read", func(a *callArg) string {
			return resGeom(wkb.Read(bytes.NewReader(a.wkbB), wkbcommon.WKBOptionEmptyPointHandling(wkbcommon.EmptyPointHandlingNaN)))
		}},
		{"ewkb.Unmarshal", func(a *callArg) string { return resGeom(ewkb.Unmarshal(a.ewkbB)) }},
		{"hex.Decode", func(a *callArg) string {
			return resGeom(wkbhex.Decode(a.hexS, wkbcommon.WKBOptionEmptyPointHandling(wkbcommon.EmptyPointHandlingNaN)))
		}},
		{"geojson.Unmarshal", func(a *callArg) string {
			var g geom.T
			err := geojson.Unmarshal(a.gjB, &g)
			return resGeom(g, err)
		}},
		{"igc.Read", func(a *callArg) string {
			t, err := igc.Read(bytes.NewReader(a.igcB))
			if t == nil {
				return "nil-T err:" + errK(err)
			}
			n := 0
			if es, ok := err.(igc.Errors); ok {
				n = len(es)
			}
			return dig(geomDigest(t.LineString), len(t.Headers), fmt.Sprint(t.Headers), t.HasCoords(), errK(err), n)
		}},
		{"sql.Value", func(a *callArg) string {
			v, err := (&wkb.Geom{T: a.g}).Value()
			b, _ := v.([]byte)
			v2, err2 := (&ewkb.GeometryCollection{}).Value()
			b2, _ := v2.([]byte)
			return dig(b, b2, errK(err), errK(err2))
		}},
		// ------------------------------------------------------------------ further entry points (all documented as pure)
		{"kml.Encode", func(a *callArg) string {
			el, err := kmlenc.Encode(a.g)
			if err != nil || el == nil {
				return "err:" + errK(err)
			}
			b, err := xml.Marshal(el)
			return dig(b, errK(err))
		}},
		{"kml.Encode-typed", func(a *callArg) string {
			var el xml.Marshaler
			switch g := a.g.(type) {
			case *geom.Point:
				el = kmlenc.EncodePoint(g)
			case *geom.LineString:
				el = kmlenc.EncodeLineString(g)
			case *geom.LinearRing:
				el = kmlenc.EncodeLinearRing(g)
			case *geom.Polygon:
				el = kmlenc.EncodePolygon(g)
			case *geom.MultiPoint:
				el = kmlenc.EncodeMultiPoint(g)
			case *geom.MultiLineString:
				el = kmlenc.EncodeMultiLineString(g)
			case *geom.MultiPolygon:
				el = kmlenc.EncodeMultiPolygon(g)
			case *geom.GeometryCollection:
				e, err := kmlenc.EncodeGeometryCollection(g)
				if err != nil {
					return "err:" + errK(err)
				}
				el = e
			default:
				return "n/a"
			}
			b, err := xml.Marshal(el)
			return dig(b, errK(err))
		}},
		{"ewkbhex.Decode", func(a *callArg) string { return resGeom(ewkbhex.Decode(a.ehexS)) }},
		{"ewkb.Read", func(a *callArg) string { return resGeom(ewkb.Read(bytes.NewReader(a.ewkbB))) }},
		{"wkb.Write", func(a *callArg) string {
			var b1, b2 bytes.Buffer
			e1 := wkb.Write(&b1, wkb.NDR, a.g, wkbcommon.WKBOptionEmptyPointHandling(wkbcommon.EmptyPointHandlingNaN))
			e2 := wkb.Write(&b2, wkb.XDR, a.g)
			return dig(b1.Bytes(), b2.Bytes(), errK(e1), errK(e2))
		}},
		{"ewkb.Write", func(a *callArg) string {
			var b1, b2 bytes.Buffer
			e1 := ewkb.Write(&b1, ewkb.NDR, a.g)
			e2 := ewkb.Write(&b2, ewkb.XDR, a.g)
			return dig(b1.Bytes(), b2.Bytes(), errK(e1), errK(e2))
		}},
		{"wkbcommon.flat", func(a *callArg) string {
			fc, ok := flatOfT(a.g)
			if !ok || a.g.Stride() == 0 {
				return "n/a"
			}
			var buf bytes.Buffer
			e1 := wkbcommon.WriteFlatCoords1(&buf, wkbcommon.NDR, fc, a.g.Stride())
			e2 := wkbcommon.WriteFloatArray(&buf, wkbcommon.XDR, fc)
			e3 := wkbcommon.WriteFlatCoords0(&buf, wkbcommon.XDR, a.pts[0])
			back, e4 := wkbcommon.ReadFlatCoords1(bytes.NewReader(buf.Bytes()), wkbcommon.NDR, a.g.Stride())
			p := wkbcommon.InitWKBParams(wkbcommon.WKBParams{}, wkbcommon.WKBOptionEmptyPointHandling(wkbcommon.EmptyPointHandlingNaN))
			return dig(buf.Bytes(), back, errK(e1), errK(e2), errK(e3), errK(e4), fmt.Sprint(p))
		}},
		{"sql.Scan-wkb", func(a *callArg) string {
			parts := scanAll(a.wkbB, &wkb.Geom{}, &wkb.Point{}, &wkb.LineString{}, &wkb.Polygon{}, &wkb.MultiPoint{},
				&wkb.MultiLineString{}, &wkb.MultiPolygon{}, &wkb.GeometryCollection{})
			parts = append(parts, scanAll(nil, &wkb.Geom{}, &wkb.Polygon{})...)
			parts = append(parts, scanAll(a.wktS, &wkb.Geom{}, &wkb.LineString{})...)
			return dig(parts...)
		}},
		{"sql.Scan-ewkb", func(a *callArg) string {
			parts := scanAll(a.ewkbB, &ewkb.Point{}, &ewkb.LineString{}, &ewkb.Polygon{}, &ewkb.MultiPoint{},
				&ewkb.MultiLineString{}, &ewkb.MultiPolygon{}, &ewkb.GeometryCollection{})
			parts = append(parts, scanAll(nil, &ewkb.Point{}, &ewkb.GeometryCollection{})...)
			parts = append(parts, scanAll(a.hexS, &ewkb.MultiPoint{})...)
			return dig(parts...)
		}},
		{"sql.Value-typed", func(a *callArg) string {
			var w, e driver.Valuer
			var valid bool
			switch g := a.g.(type) {
			case *geom.Point:
				w, e, valid = &wkb.Point{Point: g}, &ewkb.Point{Point: g}, (&ewkb.Point{Point: g}).Valid()
			case *geom.LineString:
				w, e, valid = &wkb.LineString{LineString: g}, &ewkb.LineString{LineString: g}, (&ewkb.LineString{LineString: g}).Valid()
			case *geom.Polygon:
				w, e, valid = &wkb.Polygon{Polygon: g}, &ewkb.Polygon{Polygon: g}, (&ewkb.Polygon{Polygon: g}).Valid()
			case *geom.MultiPoint:
				w, e, valid = &wkb.MultiPoint{MultiPoint: g}, &ewkb.MultiPoint{MultiPoint: g}, (&ewkb.MultiPoint{MultiPoint: g}).Valid()
			case *geom.MultiLineString:
				w, e, valid = &wkb.MultiLineString{MultiLineString: g}, &ewkb.MultiLineString{MultiLineString: g}, (&ewkb.MultiLineString{MultiLineString: g}).Valid()
			case *geom.MultiPolygon:
				w, e, valid = &wkb.MultiPolygon{MultiPolygon: g}, &ewkb.MultiPolygon{MultiPolygon: g}, (&ewkb.MultiPolygon{MultiPolygon: g}).Valid()
			case *geom.GeometryCollection:
				w, e, valid = &wkb.GeometryCollection{GeometryCollection: g}, &ewkb.GeometryCollection{GeometryCollection: g}, (&ewkb.GeometryCollection{GeometryCollection: g}).Valid()
			default:
				return "n/a"
			}
			v1, e1 := w.Value()
			v2, e2 := e.Value()
			b1, _ := v1.([]byte)
			b2, _ := v2.([]byte)
			return dig(b1, b2, errK(e1), errK(e2), valid, geomDigest((&wkb.Geom{T: a.g}).Geom()))
		}},
		{"geojson.Encode+options", func(a *callArg) string {
			j := func(g *geojson.Geometry, err error) string {
				if err != nil {
					return "err:" + errK(err)
				}
				b, err := json.Marshal(g)
				return string(canonJSON(b)) + errK(err)
			}
			r1 := sub(func() any { return j(geojson.Encode(a.g)) })
			r2 := sub(func() any { return j(geojson.Encode(a.g, geojson.EncodeGeometryWithBBox())) })
			r3 := sub(func() any {
				return j(geojson.Encode(a.g, geojson.EncodeGeometryWithCRS(a.crs), geojson.EncodeGeometryWithBBox(), geojson.EncodeGeometryWithMaxDecimalDigits(2)))
			})
			r4 := sub(func() any {
				b, err := geojson.Marshal(a.g, geojson.EncodeGeometryWithCRS(a.crs))
				return string(canonJSON(b)) + errK(err)
			})
			return dig(r1, r2, r3, r4)
		}},
		{"geojson.Geometry.Decode", func(a *callArg) string {
			r := resGeom(a.gjG.Decode())
			b, err := json.Marshal(a.gjG)
			return dig(r, canonJSON(b), errK(err))
		}},
		{"geojson.Feature.MarshalJSON", func(a *callArg) string {
			b1, e1 := a.feat.MarshalJSON()
			b2, e2 := json.Marshal(a.feat2)
			return dig(canonJSON(b1), canonJSON(b2), errK(e1), errK(e2))
		}},
		{"geojson.FeatureCollection.MarshalJSON", func(a *callArg) string {
			b1, e1 := a.fc.MarshalJSON()
			b2, e2 := (&geojson.FeatureCollection{}).MarshalJSON()
			return dig(canonJSON(b1), canonJSON(b2), errK(e1), errK(e2))
		}},
		{"geojson.Feature.UnmarshalJSON", func(a *callArg) string {
			// a fresh value per call: UnmarshalJSON fills its receiver. After an error only the error class is recorded
			// (what the receiver holds after a failed decode is left open)
			dec := func(un func(f *geojson.Feature) error) string {
				var f geojson.Feature
				if err := un(&f); err != nil {
					return "err:" + errK(err)
				}
				return featResult(&f)
			}
			return dig(dec(func(f *geojson.Feature) error { return f.UnmarshalJSON(a.featB) }),
				dec(func(f *geojson.Feature) error { return json.Unmarshal(a.featB, f) }))
		}},
		{"geojson.FeatureCollection.UnmarshalJSON", func(a *callArg) string {
			var fc geojson.FeatureCollection
			err := fc.UnmarshalJSON(a.fcB)
			if err != nil {
				return "err:" + errK(err)
			}
			parts := []any{errK(err), deepDigest(fc.BBox), len(fc.Features)}
			for _, f := range fc.Features {
				parts = append(parts, featResult(f))
			}
			return dig(parts...)
		}},
		{"wkt.Encoder", func(a *callArg) string {
			e := wkt.NewEncoder(wkt.EncodeOptionWithMaxDecimalDigits(3)) // one encoder per call, used twice
			s1, e1 := e.Encode(a.g)
			s2, e2 := e.Encode(a.g)
			s3, e3 := wkt.NewEncoder().Encode(a.g)
			return dig(s1, s2, s3, errK(e1), errK(e2), errK(e3))
		}},
		// results are values: what the encoders returned for the argument, digested at once (now) and digested after every
		// one of them has been called again for ANOTHER geometry (kept). CallsTrace demands the same digest (AloneOf): a result
		// that lives in a pooled or reused buffer is overwritten by the later call.
		{"encoders.kept", func(a *callArg) string { return encodersDigest(a, true) }},
		{"encoders.now", func(a *callArg) string { return encodersDigest(a, false) }},
		// an encoder value that has a history of its own (a call that failed half way through a collection, a call that
		// succeeded) against a new one: CallsTrace demands the same result for the pair (AloneOf)
		{"wkt.Encoder.reused", func(a *callArg) string {
			e := wkt.NewEncoder(wkt.EncodeOptionWithMaxDecimalDigits(3))
			half := geom.NewGeometryCollection().MustPush(geom.NewPointFlat(geom.XY, []float64{1, 2}), geom.NewLineString(geom.NoLayout))
			_, e0 := e.Encode(half)
			_, _ = e.Encode(geom.NewPointFlat(geom.XYZ, []float64{7, 8, 9}))
			_, e1 := e.Encode(half)
			s, err := e.Encode(a.g)
			if e0 == nil || e1 == nil {
				panic("harness: the collection with a member without layout was encoded")
			}
			return dig(s, errK(err))
		}},
		{"wkt.Encoder.alone", func(a *callArg) string {
			s, err := wkt.NewEncoder(wkt.EncodeOptionWithMaxDecimalDigits(3)).Encode(a.g)
			return dig(s, errK(err))
		}},
		{"Bounds.queries", func(a *callArg) string {
			b, b2 := a.bnd, a.bnd2
			parts := []any{int(b.Layout()), b.IsEmpty(), b2.IsEmpty(), int(b2.Layout())}
			for _, l := range []geom.Layout{geom.NoLayout, geom.XY, b.Layout()} {
				l := l
				parts = append(parts,
					sub(func() any { return b.Overlaps(l, b2) }), sub(func() any { return b2.Overlaps(l, b) }), sub(func() any { return b.Overlaps(l, b) }),
					sub(func() any { return b.OverlapsPoint(l, a.pts[0]) }), sub(func() any { return b2.OverlapsPoint(l, a.pts[1]) }))
			}
			parts = append(parts, sub(func() any { return geomDigest(b.Polygon()) }), sub(func() any { return geomDigest(b2.Polygon()) }),
				sub(func() any { return deepDigest(b.Clone()) }))
			for d := 0; d < b.Layout().Stride(); d++ {
				d := d
				parts = append(parts, sub(func() any { return dig(b.Min(d), b.Max(d)) }))
			}
			return dig(parts...)
		}},
		{"Coord.methods", func(a *callArg) string {
			p := a.pts
			l := geom.XY
			if _, isGC := a.g.(*geom.GeometryCollection); !isGC && a.g.Layout() != geom.NoLayout {
				l = a.g.Layout()
			}
			c := p[0].Clone()
			return dig(c, p[0].X(), p[0].Y(), fmt.Sprint(p[0].Equal(l, p[1]), p[0].Equal(l, c), p[2].Equal(geom.XY, p[3]), p[0].Equal(geom.XYZM, p[0])),
				geom.PointEmptyCoord())
		}},
		{"accessors", func(a *callArg) string {
			parts := []any{}
			add := func(f func() any) { parts = append(parts, sub(f)) }
			switch g := a.g.(type) {
			case *geom.Point:
				add(func() any { return dig(g.X(), g.Y()) })
				add(func() any { return g.Z() })
				add(func() any { return g.M() })
				add(func() any { return g.FlatCoords() })
			case *geom.LineString:
				add(func() any { return g.Coord(0) })
				add(func() any { return g.Coord(g.NumCoords() - 1) })
				add(func() any { i, f := g.Interpolate(a.pts[1][0], 0); return dig(i, f) })
				add(func() any { i, f := g.Interpolate(a.pts[2][g.Stride()-1], g.Stride()-1); return dig(i, f) })
				add(func() any { return geomDigest(g.SubLineString(0, g.NumCoords()/2)) })
			case *geom.LinearRing:
				add(func() any { return g.Coord(0) })
				add(func() any { return dig(g.Area(), g.Length(), g.NumCoords()) })
			case *geom.Polygon:
				add(func() any { return g.NumLinearRings() })
				add(func() any { return geomDigest(g.LinearRing(g.NumLinearRings() - 1)) })
				add(func() any { return fmt.Sprint(g.Ends(), g.NumCoords()) })
			case *geom.MultiPoint:
				add(func() any { return g.Coord(0) })
				add(func() any { return geomDigest(g.Point(0)) })
				add(func() any { return fmt.Sprint(g.Ends(), g.NumCoords(), g.NumPoints()) })
			case *geom.MultiLineString:
				add(func() any { return geomDigest(g.LineString(g.NumLineStrings() - 1)) })
				add(func() any { return fmt.Sprint(g.Ends(), g.NumCoords(), g.NumLineStrings()) })
			case *geom.MultiPolygon:
				add(func() any { return geomDigest(g.Polygon(0)) })
				add(func() any { return fmt.Sprint(g.Endss(), g.NumCoords(), g.NumPolygons()) })
			case *geom.GeometryCollection:
				add(func() any { return geomDigest(g.Geom(0)) })
				add(func() any {
					return fmt.Sprint(g.NumGeoms(), errK(g.CheckLayout(geom.XY)), errK(g.CheckLayout(geom.XYZM)))
				})
			}
			return dig(parts...)
		}},
		{"xy.centroid-calculators", func(a *callArg) string {
			// a calculator per call (its Add methods accumulate into the calculator, which belongs to this call)
			switch g := a.g.(type) {
			case *geom.Polygon:
				ac := xy.NewAreaCentroidCalculator(g.Layout())
				c0 := ac.GetCentroid()
				ac.AddPolygon(g)
				c1 := ac.GetCentroid()
				ac.AddPolygon(g)
				lc := xy.NewLineCentroidCalculator(g.Layout())
				lc.AddPolygon(g)
				return dig(c0, c1, ac.GetCentroid(), lc.GetCentroid())
			case *geom.LineString:
				lc := xy.NewLineCentroidCalculator(g.Layout())
				lc.AddLine(g)
				c1 := lc.GetCentroid()
				return dig(c1, lc.AddLine(g).GetCentroid())
			case *geom.LinearRing:
				lc := xy.NewLineCentroidCalculator(g.Layout())
				return dig(lc.AddLinearRing(g).GetCentroid())
			case *geom.Point:
				pc := xy.NewPointCentroidCalculator()
				pc.AddPoint(g)
				pc.AddCoord(a.pts[0])
				return dig(pc.GetCentroid())
			case *geom.MultiPoint:
				pc := xy.NewPointCentroidCalculator()
				for i := 0; i < g.NumPoints(); i++ {
					pc.AddPoint(g.Point(i))
				}
				return dig(pc.GetCentroid())
			}
			return "n/a"
		}},
		{"xy.typed-centroids", func(a *callArg) string {
			switch g := a.g.(type) {
			case *geom.Point:
				return dig(xy.PointsCentroid(g), xy.PointsCentroid(g, g, g))
			case *geom.MultiPoint:
				return dig(xy.MultiPointCentroid(g), sub(func() any { return xy.PointsCentroidFlat(g.Layout(), g.FlatCoords()) }))
			case *geom.LineString:
				return dig(xy.LinesCentroid(g), xy.LinesCentroid(g, g))
			case *geom.LinearRing:
				return dig(xy.LinearRingsCentroid(g), xy.LinearRingsCentroid(g, g))
			case *geom.MultiLineString:
				return dig(xy.MultiLineCentroid(g))
			case *geom.Polygon:
				return dig(xy.PolygonsCentroid(g), xy.PolygonsCentroid(g, g))
			case *geom.MultiPolygon:
				return dig(xy.MultiPolygonCentroid(g))
			}
			return "n/a"
		}},
		{"xy.predicates+angles", func(a *callArg) string {
			p := a.pts
			fc, ok := flatOfT(a.g)
			eq := "n/a"
			if ok && len(fc) >= 4 {
				eq = fmt.Sprint(xy.Equal(fc, 0, fc, 0), xy.Equal(fc, 0, fc, len(fc)-2), xy.Equal(fc, 0, p[0], 0))
			}
			a1, a2 := xy.Angle(p[0], p[1]), xy.Angle(p[2], p[3])
			return dig(eq, fmt.Sprint(xy.IsObtuse(p[0], p[1], p[2]), xy.IsObtuse(p[1], p[0], p[3]), xy.IsAcute(p[3], p[2], p[1])),
				xy.AngleBetweenOriented(p[0], p[1], p[2]), xy.InteriorAngle(p[0], p[1], p[2]), xy.AngleFromOrigin(p[3]),
				int(xy.AngleOrientation(a1, a2)), xy.Normalize(a1+7), xy.NormalizePositive(a2-7), xy.Diff(a1, a2))
		}},
		{"xyz.vectors", func(a *callArg) string {
			q := a.pts3 // shared three-ordinate coordinates
			return dig(xyz.Distance(q[0], q[1]), xyz.DistancePointToLine(q[0], q[1], q[2]), xyz.DistanceLineToLine(q[0], q[1], q[2], q[3]),
				fmt.Sprint(xyz.Equals(q[0], q[1]), xyz.Equals(q[2], q[2])), xyz.VectorDot(q[0], q[1], q[2], q[3]), xyz.VectorLength(q[1]), xyz.VectorNormalize(q[2]))
		}},
		{"lineintersection.Result", func(a *callArg) string {
			r := &a.lir // the shared Result value
			p := a.pts
			r2 := lineintersector.LineIntersectsLine(lineintersector.RobustLineIntersector{}, p[0], p[2], p[1], p[3])
			return dig(r.HasIntersection(), int(r.Type()), r.Type().String(), fmt.Sprint(r.Intersection()),
				r2.HasIntersection(), r2.Type().String(), fmt.Sprint(r2.Intersection()),
				fmt.Sprint(lineintersector.PointIntersectsLine(lineintersector.NonRobustLineIntersector{}, p[1], p[0], p[2])))
		}},
		{"sorting-on-a-copy", func(a *callArg) string {
			// sorting sorts in place by contract: every call sorts its OWN copy; the focal point and the layout are shared
			fc, ok := flatOfT(a.g)
			if !ok || a.g.Stride() < 2 || len(fc) == 0 {
				return "n/a"
			}
			l := a.g.Layout()
			c1 := append([]float64(nil), fc...)
			c2 := append([]float64(nil), fc...)
			c3 := append([]float64(nil), fc...)
			sort.Sort(sorting.NewFlatCoordSorting2D(l, c1))
			sort.Sort(xy.NewRadialSorting(l, c2, a.pts[0]))
			s := sorting.NewFlatCoordSorting(l, c3, sorting.IsLess2D)
			return dig(c1, c2, s.Len(), s.Less(0, s.Len()-1), sorting.IsLess2D(a.pts[0], a.pts[1]), sorting.IsLess2D(a.pts[1], a.pts[0]))
		}},
		{"transform.TreeSet", func(a *callArg) string {
			shared := a.tree.ToFlatArray() // query on the shared, populated set
			fc, ok := flatOfT(a.g)
			if !ok || a.g.Stride() < 2 {
				return dig(shared)
			}
			ts := transform.NewTreeSet(a.g.Layout(), hullCmp{}) // a set per call, fed with views of the shared coordinates
			n := 0
			for i := 0; i+a.g.Stride() <= len(fc); i += a.g.Stride() {
				if ts.Insert(fc[i : i+a.g.Stride()]) {
					n++
				}
			}
			return dig(shared, ts.ToFlatArray(), n)
		}},
	}
	far := func(l geom.Layout) geom.T {
		c := make([]float64, l.Stride())
		for i := range c {
			c[i] = -scribV * float64(i+1)
		}
		return geom.NewPointFlat(l, c)
	}
	scribs := map[string]func(a *callArg){
		"Bounds": func(a *callArg) {
			b := a.g.Bounds()
			if l := b.Layout(); l != geom.NoLayout {
				b.Extend(far(l))
				c := make(geom.Coord, l.Stride())
				b.SetCoords(c, c)
			}
		},
		"Coords": func(a *callArg) {
			switch g := a.g.(type) {
			case *geom.LineString:
				scribCoords(reflect.ValueOf(g.Coords()))
			case *geom.Polygon:
				scribCoords(reflect.ValueOf(g.Coords()))
			case *geom.MultiPoint:
				scribCoords(reflect.ValueOf(g.Coords()))
			case *geom.MultiPolygon:
				scribCoords(reflect.ValueOf(g.Coords()))
			case *geom.MultiLineString:
				scribCoords(reflect.ValueOf(g.Coords()))
			case *geom.Point:
				scribCoords(reflect.ValueOf(g.Coords()))
			}
		},
		"Clone": func(a *callArg) {
			switch g := a.g.(type) {
			case *geom.LineString:
				scribGeom(g.Clone())
			case *geom.Polygon:
				scribGeom(g.Clone())
			case *geom.MultiPoint:
				scribGeom(g.Clone())
			case *geom.MultiPolygon:
				scribGeom(g.Clone())
			case *geom.MultiLineString:
				scribGeom(g.Clone())
			case *geom.Point:
				scribGeom(g.Clone())
			}
		},
		// NOT scribbled: hulls, centroids, unique coordinates (the properties promise fresh storage for Bounds(), Coords()
		// and Clone() only; whether another computed object may share storage with its input is left open) and
		// the intersector's result. For an endpoint intersection it hands back the caller's own coordinate
		// value (slice header and all); the property does not promise a copy there.
	}
	for i := range ops {
		ops[i].f = guard(ops[i].f)
		if sc, ok := scribs[ops[i].name]; ok {
			opScribs[ops[i].name] = func(a *callArg) {
				defer func() { _ = recover() }()
				sc(a)
			}
		}
	}
	return ops
}

// encodersDigest: every encoder that hands out bytes, on a.g; with again=true each is called once more on another geometry
// before the first results are digested.
func encodersDigest(a *callArg, again bool) string {
	nan := wkbcommon.WKBOptionEmptyPointHandling(wkbcommon.EmptyPointHandlingNaN)
	all := func(g geom.T) []any {
		b1, e1 := wkb.Marshal(g, wkb.NDR, nan)
		b2, e2 := ewkb.Marshal(g, ewkb.XDR)
		b3, e3 := geojson.Marshal(g)
		v4, e4 := (&wkb.Geom{T: g}).Value()
		var v5 any
		var e5 error
		if gc, ok := g.(*geom.GeometryCollection); ok {
			v5, e5 = (&ewkb.GeometryCollection{GeometryCollection: gc}).Value()
		} else if pt, ok := g.(*geom.Point); ok {
			v5, e5 = (&ewkb.Point{Point: pt}).Value()
		} else if pg, ok := g.(*geom.Polygon); ok {
			v5, e5 = (&ewkb.Polygon{Polygon: pg}).Value()
		}
		var b6 []byte
		ge, e6 := geojson.Encode(g)
		if e6 == nil && ge != nil && ge.Coordinates != nil {
			b6 = []byte(*ge.Coordinates)
		}
		b7, e7 := (&geojson.Feature{ID: "k", Geometry: g, Properties: map[string]interface{}{"a": 1.0}}).MarshalJSON()
		s8, e8 := wkt.Marshal(g)
		s9, e9 := wkbhex.Encode(g, wkb.NDR, nan)
		return []any{b1, b2, b3, v4, v5, b6, b7, s8, s9, errK(e1), errK(e2), errK(e3), errK(e4), errK(e5), errK(e6), errK(e7), errK(e8), errK(e9)}
	}
	first := all(a.g)
	if again {
		other := geom.NewPolygonFlat(geom.XYZ, []float64{9, 9, 1, 19, 9, 2, 19, 19, 3, 9, 9, 1}, []int{12})
		_ = all(other)
		_ = all(geom.NewPointFlat(geom.XY, []float64{-7, -8}))
	}
	return dig(first...)
}

type hullCmp struct{}

func (hullCmp) IsEquals(x, y geom.Coord) bool { return x[0] == y[0] && x[1] == y[1] }
func (hullCmp) IsLess(x, y geom.Coord) bool {
	return x[0] < y[0] || (x[0] == y[0] && x[1] < y[1])
}

type namedGeom struct {
	id string
	g  geom.T
}

// callArgs: the shared arguments. The encodings handed to the decoders (and the Bounds / Feature / TreeSet values) are
// produced from a SECOND, equal set of geometries, so that the shared geometries have not been touched by any library
// call before their first snapshot.
func callArgs(seed int64) []*callArg {
	gs := buildGeoms(rand.New(rand.NewSource(seed)))
	twins := buildGeoms(rand.New(rand.NewSource(seed)))
	rb := rand.New(rand.NewSource(seed ^ 0x5eed))
	var out []*callArg
	for i, x := range gs {
		t := twins[i].g
		a := &callArg{id: x.id, g: x.g}
		a.wkbB, _ = wkb.Marshal(t, wkb.NDR, wkbcommon.WKBOptionEmptyPointHandling(wkbcommon.EmptyPointHandlingNaN))
		a.ewkbB, _ = ewkb.Marshal(t, ewkb.XDR)
		a.gjB, _ = geojson.Marshal(t)
		a.wktS, _ = wkt.Marshal(t)
		a.hexS, _ = wkbhex.Encode(t, wkb.XDR, wkbcommon.WKBOptionEmptyPointHandling(wkbcommon.EmptyPointHandlingNaN))
		a.ehexS, _ = ewkbhex.Encode(t, ewkb.NDR)
		a.igcB = []byte("AXXX\nHFDTE010100\nI013636TDS\nB1200004730000N00830000EA00500006005\nB1200014730001N00830002EA00501006015\n")
		var fc []float64
		stride := 2
		if _, isGC := t.(*geom.GeometryCollection); !isGC && t.Stride() >= 2 && len(t.FlatCoords()) >= 4*t.Stride() {
			fc, stride = t.FlatCoords(), t.Stride()
		} else {
			fc = []float64{0, 0, 4, 4, 0, 4, 4, 0}
		}
		n := len(fc) / stride
		for k := 0; k < 4; k++ {
			j := (k * (n / 4)) % n
			c := append(geom.Coord{}, fc[j*stride:(j+1)*stride]...)
			a.pts = append(a.pts, c)
			c3 := geom.Coord{c[0], c[1], 0}
			if len(c) > 2 {
				c3[2] = c[2]
			}
			a.pts3 = append(a.pts3, c3)
		}
		// Bounds values of their own (computed from the twin)
		a.bnd, _ = sub(func() any { return t.Bounds() }).(*geom.Bounds)
		if a.bnd == nil {
			a.bnd = geom.NewBounds(geom.XY)
		}
		a.bnd2 = geom.NewBounds(geom.XY).Set(a.pts[0][0]-1, a.pts[0][1]-1, a.pts[0][0]+1, a.pts[0][1]+1)
		// GeoJSON values: the Feature holds the SHARED geometry itself and a Bounds / property map of its own
		a.crs = &geojson.CRS{Type: "name", Properties: map[string]interface{}{"name": "urn:ogc:def:crs:OGC:1.3:CRS84"}}
		a.feat = &geojson.Feature{ID: "f-" + x.id, BBox: geom.NewBounds(geom.XY).Set(-1, -2, 3, 4), Geometry: x.g,
			Properties: map[string]interface{}{"name": x.id, "n": 3.5, "tags": []interface{}{"a", "b"}, "nested": map[string]interface{}{"k": true}}}
		a.feat2 = &geojson.Feature{Geometry: geom.NewPointFlat(geom.XYZ, []float64{7, 8, 9}), Properties: map[string]interface{}{"i": 1.0}}
		a.fc = &geojson.FeatureCollection{BBox: geom.NewBounds(geom.XYZ).Set(0, 0, 0, 5, 6, 7), Features: []*geojson.Feature{a.feat, a.feat2}}
		tf := &geojson.Feature{ID: a.feat.ID, BBox: geom.NewBounds(geom.XY).Set(-1, -2, 3, 4), Geometry: t,
			Properties: map[string]interface{}{"name": x.id, "n": 3.5, "tags": []interface{}{"a", "b"}}}
		a.featB, _ = sub(func() any { b, _ := tf.MarshalJSON(); return b }).([]byte)
		a.fcB, _ = sub(func() any {
			b, _ := (&geojson.FeatureCollection{BBox: geom.NewBounds(geom.XY).Set(0, 0, 5, 6), Features: []*geojson.Feature{tf, tf}}).MarshalJSON()
			return b
		}).([]byte)
		a.gjG, _ = sub(func() any { g, _ := geojson.Encode(t); return g }).(*geojson.Geometry)
		// a populated set (coordinates of its own)
		a.tree = transform.NewTreeSet(geom.XY, hullCmp{})
		own := append([]float64(nil), fc...)
		for j := 0; j+stride <= len(own) && j < 24*stride; j += stride {
			a.tree.Insert(own[j : j+2])
		}
		a.lir = lineintersection.NewResult(lineintersection.CollinearIntersection, []geom.Coord{a.pts[0].Clone(), a.pts[1].Clone()})
		if x.id == "ls-nolayout" {
			a.gjB = []byte(`{"type":"LineString"}`) // what the GeoJSON decoder turns into a NoLayout LineString
			raw := json.RawMessage(`[]`)
			a.gjG = &geojson.Geometry{Type: "Polygon", Coordinates: &raw}
		}
		if len(x.id) > 4 && x.id[:4] == "bad-" {
			spoil(a, x.id, rb)
		}
		out = append(out, a)
	}
	return out
}

// spoil replaces the encodings of an argument by MALFORMED ones (the geometry itself stays a proper one): every decoder
// gets them, sequentially and concurrently; what it answers (an error class, mostly) is the recorded result.
func spoil(a *callArg, kind string, r *rand.Rand) {
	cutB := func(b []byte, n int) []byte {
		if n > len(b) {
			n = len(b)
		}
		return append([]byte(nil), b[:n]...)
	}
	switch kind {
	case "bad-truncated": // cut somewhere in the middle (seeded)
		at := func(n int) int {
			if n < 2 {
				return 0
			}
			return 1 + r.Intn(n-1)
		}
		a.wkbB, a.ewkbB, a.gjB = cutB(a.wkbB, at(len(a.wkbB))), cutB(a.ewkbB, at(len(a.ewkbB))), cutB(a.gjB, at(len(a.gjB)))
		a.wktS, a.hexS, a.ehexS = a.wktS[:at(len(a.wktS))], a.hexS[:at(len(a.hexS))], a.ehexS[:at(len(a.ehexS))]
		a.igcB, a.featB, a.fcB = cutB(a.igcB, at(len(a.igcB))), cutB(a.featB, at(len(a.featB))), cutB(a.fcB, at(len(a.fcB)))
		raw := json.RawMessage(`[[1,2],[3`)
		a.gjG = &geojson.Geometry{Type: "LineString", Coordinates: &raw}
	case "bad-cut1": // the last byte is missing (odd number of hex digits, open bracket, half a float)
		a.wkbB, a.ewkbB, a.gjB = cutB(a.wkbB, len(a.wkbB)-1), cutB(a.ewkbB, len(a.ewkbB)-1), cutB(a.gjB, len(a.gjB)-1)
		a.wktS, a.hexS, a.ehexS = a.wktS[:len(a.wktS)-1], a.hexS[:len(a.hexS)-1], a.ehexS[:len(a.ehexS)-1]
		a.igcB, a.featB, a.fcB = cutB(a.igcB, len(a.igcB)-9), cutB(a.featB, len(a.featB)-1), cutB(a.fcB, len(a.fcB)-1)
		raw := json.RawMessage(`[[[1,2],[3,4],[5,6],[1,2]]`)
		a.gjG = &geojson.Geometry{Type: "Polygon", Coordinates: &raw}
	case "bad-garbage": // the wrong thing altogether
		a.wkbB = append([]byte{7}, a.wkbB[1:]...)                             // unknown byte order mark
		a.ewkbB = append(append([]byte{}, a.ewkbB[:1]...), 0, 0, 0, 99, 1, 2) // unknown type
		a.gjB = []byte(`{"type":"Nope","coordinates":[1,2]}`)
		a.wktS = "LINESTRING ZM (1 2 3, 4 5 6 7) ) POINT"
		a.hexS = "zz" + a.hexS[2:]
		a.ehexS = "0x" + a.ehexS
		a.igcB = []byte("AXXX\nHFDTE991399\nI013636TDSx\nB2561004730000X00830000EA00500006005\nB12\n\x00\xff\n")
		a.featB = []byte(`{"type":"NotAFeature","geometry":null,"properties":null}`)
		a.fcB = []byte(`{"type":"FeatureCollection","bbox":[1,2,3],"features":[]}`)
		raw := json.RawMessage(`{"x":1}`)
		a.gjG = &geojson.Geometry{Type: "MultiPoint", Coordinates: &raw}
	case "bad-lies": // well-formed containers whose contents do not fit their headers
		a.wkbB = append([]byte(nil), a.wkbB...)
		binary.LittleEndian.PutUint32(a.wkbB[5:9], binary.LittleEndian.Uint32(a.wkbB[5:9])+1000) // more parts / points announced than present
		a.ewkbB = append([]byte(nil), a.ewkbB...)
		a.ewkbB[len(a.ewkbB)/2] ^= 0x40
		a.ewkbB = append(a.ewkbB, 1, 2, 3) // and trailing bytes
		a.gjB = []byte(`{"type":"Polygon","coordinates":[[1,2],[3,4]]}`)
		a.wktS = "POLYGON ((0 0, 1 1 1, 2 2, 0 0))"
		a.hexS = a.hexS + "00"
		a.ehexS = a.ehexS[:10] + "e8030000" + a.ehexS[18:] // 1000 points announced
		a.igcB = append(append([]byte(nil), a.igcB...), []byte("B1159594730000N00830000EA00500006005\nB9999999999999N99999999EA00500006005\n")...)
		a.featB = []byte(`{"type":"Feature","id":{"a":1},"bbox":[1,2,3,4],"geometry":{"type":"Point","coordinates":[1]},"properties":{}}`)
		a.fcB = []byte(`{"type":"FeatureCollection","features":[{"type":"Feature","geometry":{"type":"LineString","coordinates":[[1,2],[3]]},"properties":null},7]}`)
		raw := json.RawMessage(`[[1,2],[3,4,5],[6]]`)
		a.gjG = &geojson.Geometry{Type: "LineString", Coordinates: &raw}
	case "bad-empty": // nothing at all
		a.wkbB, a.ewkbB, a.gjB, a.igcB, a.featB, a.fcB = []byte{}, nil, []byte{}, nil, []byte{}, nil
		a.wktS, a.hexS, a.ehexS = "", "", ""
		a.gjG = nil
	}
}

func buildGeoms(r *rand.Rand) []namedGeom {
	var gs []namedGeom
	add := func(id string, g geom.T) { gs = append(gs, namedGeom{id, g}) }
	rnd := func(n, stride int, grid float64) []float64 {
		out := make([]float64, n*stride)
		for i := range out {
			out[i] = math.Floor(r.Float64()*grid) / 4
		}
		return out
	}
	add("pt-xyz", geom.NewPointFlat(geom.XYZ, []float64{1.5, -2, 3}))
	add("ls80-xym", geom.NewLineStringFlat(geom.XYM, rnd(80, 3, 400)))
	track := make([]float64, 0, 60)
	for i := 0; i < 12; i++ {
		track = append(track, 8+float64(i)/64, 47-float64(i)/128, float64(500+10*i), float64(946684790+i*7), float64(490+10*i))
	}
	add("track-l5", geom.NewLineStringFlat(geom.Layout(5), track))
	ring := []float64{0, 0, 10, 0, 10, 10, 5, 12, 0, 10, 0, 0}
	hole := []float64{2, 2, 2, 4, 4, 4, 4, 2, 2, 2}
	add("pg-hole", geom.NewPolygonFlat(geom.XY, append(append([]float64{}, ring...), hole...), []int{len(ring), len(ring) + len(hole)}))
	add("mpt80", geom.NewMultiPointFlat(geom.XY, rnd(80, 2, 200)))
	add("mpt120-xyzm", geom.NewMultiPointFlat(geom.XYZM, rnd(120, 4, 40)))
	same := make([]float64, 0, 120)
	for i := 0; i < 60; i++ {
		same = append(same, 3, 4)
	}
	add("mpt60-coincident", geom.NewMultiPointFlat(geom.XY, same))
	col := make([]float64, 0, 140)
	for i := 0; i < 70; i++ {
		k := float64((i * 37) % 70)
		col = append(col, k, 2*k+1)
	}
	add("mpt70-collinear", geom.NewMultiPointFlat(geom.XY, col))
	// the same in the other directions (for the hull's extreme-point reduction every direction class is a different case:
	// the eight extreme points collapse to two in a different order), stored from the far end and shuffled; and a thin band
	for _, d := range []struct {
		id     string
		dx, dy float64
	}{{"steep-down", 1, -2}, {"vertical", 0, 1}, {"horizontal", 1, 0}, {"shallow-down", 2, -1}, {"diagonal-down", 1, -1}} {
		var a, b []float64
		for i := 0; i < 60; i++ {
			k, j := float64(59-i), float64((i*37)%60)
			a = append(a, 5+k*d.dx, 200+k*d.dy)
			b = append(b, 5+j*d.dx, 200+j*d.dy)
		}
		add("ls60-line-"+d.id, geom.NewLineStringFlat(geom.XY, a))
		add("mpt60-line-"+d.id, geom.NewMultiPointFlat(geom.XY, b))
	}
	band := make([]float64, 0, 120)
	for i := 0; i < 60; i++ {
		k := float64(59 - i)
		band = append(band, 5+k+float64(i%3)/8, 200-2*k+float64(i%2)/8)
	}
	add("mpt60-thin-band", geom.NewMultiPointFlat(geom.XY, band))
	mpg := geom.NewMultiPolygon(geom.XY)
	_ = mpg.Push(geom.NewPolygonFlat(geom.XY, append([]float64{}, ring...), []int{len(ring)}))
	_ = mpg.Push(geom.NewPolygon(geom.XY))
	_ = mpg.Push(geom.NewPolygonFlat(geom.XY, []float64{20, 0, 30, 0, 30, 10, 20, 0}, []int{8}))
	add("mpg-empty-member", mpg)
	mls := geom.NewMultiLineStringFlat(geom.XYZ, rnd(9, 3, 50), []int{9, 9, 27})
	add("mls-xyz", mls)
	gc := geom.NewGeometryCollection()
	gc.MustPush(geom.NewPointFlat(geom.XY, []float64{1, 2}), geom.NewLineStringFlat(geom.XY, rnd(5, 2, 30)),
		geom.NewGeometryCollection().MustPush(geom.NewPolygonFlat(geom.XY, append([]float64{}, ring...), []int{len(ring)})))
	add("gc-nested", gc)
	gcm := geom.NewGeometryCollection()
	gcm.MustPush(geom.NewPointFlat(geom.XYZ, []float64{1, 2, 3}), geom.NewLineStringFlat(geom.XYM, rnd(4, 3, 30)),
		geom.NewMultiPointFlat(geom.XY, rnd(3, 2, 30)))
	add("gc-mixed-z-m", gcm)
	// a collection with an SRID whose members carry the same SRID, another one, and none
	gcs := geom.NewGeometryCollection().SetSRID(4326)
	gcs.MustPush(geom.NewPointFlat(geom.XY, []float64{8, 47}).SetSRID(4326), geom.NewLineStringFlat(geom.XY, rnd(4, 2, 30)).SetSRID(4326),
		geom.NewPolygonFlat(geom.XY, append([]float64{}, ring...), []int{len(ring)}).SetSRID(3857), geom.NewPointFlat(geom.XY, []float64{1, 1}))
	add("gc-srid-members", gcs)
	// ordinates that are NaN with a payload other than the library's "empty point" pattern (an unknown Z set to math.NaN()):
	// an encoder has no business normalising them IN the caller's geometry (snapshots are bitwise)
	qnan := math.Float64frombits(0x7FF8000000000001)
	add("pt-nan-z", geom.NewPointFlat(geom.XYZ, []float64{3, 4, qnan}))
	add("pt-all-nan", geom.NewPointFlat(geom.XY, []float64{qnan, math.NaN()}))
	add("mpt-nan-m", geom.NewMultiPointFlat(geom.XYM, []float64{1, 2, qnan, 3, 4, 5, 6, 7, math.NaN()}))
	// legal but degenerate: rings that are not closed, each followed by further rings / members in the same flat array
	// (anything appended "to" such a ring lands in its neighbour)
	open := []float64{0, 0, 10, 0, 10, 10, 0, 10}
	add("pg-unclosed-shell", geom.NewPolygonFlat(geom.XY, append(append([]float64{}, open...), hole...), []int{len(open), len(open) + len(hole)}))
	mpo := geom.NewMultiPolygon(geom.XY)
	_ = mpo.Push(geom.NewPolygonFlat(geom.XY, append([]float64{}, open...), []int{len(open)}))
	_ = mpo.Push(geom.NewPolygonFlat(geom.XY, []float64{20, 0, 30, 0, 30, 10, 20, 0}, []int{8}))
	add("mpg-unclosed-member", mpo)
	add("mls-one-point-lines", geom.NewMultiLineStringFlat(geom.XY, []float64{1, 1, 2, 2, 3, 3, 4, 5}, []int{2, 4, 8}))
	add("ls-one-coordinate", geom.NewLineStringFlat(geom.XYZM, []float64{1, 2, 3, 4}))
	// further argument classes: a ring of its own, empty top-level geometries, a geometry without layout
	add("lr-xyz", geom.NewLinearRingFlat(geom.XYZ, []float64{0, 0, 1, 8, 0, 2, 8, 6, 3, 3, 9, 4, 0, 6, 5, 0, 0, 1}))
	add("empty-pt", geom.NewPointEmpty(geom.XY))
	add("empty-ls-xym", geom.NewLineString(geom.XYM))
	add("empty-pg", geom.NewPolygon(geom.XY))
	add("empty-mpt-xyz", geom.NewMultiPoint(geom.XYZ))
	add("empty-mls", geom.NewMultiLineString(geom.XY))
	add("empty-mpg-xyzm", geom.NewMultiPolygon(geom.XYZM))
	add("empty-gc", geom.NewGeometryCollection())
	add("ls-nolayout", geom.NewLineString(geom.NoLayout))
	// proper geometries whose ENCODINGS are spoilt afterwards (callArgs / spoil)
	add("bad-truncated", geom.NewPolygonFlat(geom.XY, append(append([]float64{}, ring...), hole...), []int{len(ring), len(ring) + len(hole)}))
	add("bad-cut1", geom.NewMultiLineStringFlat(geom.XYZ, rnd(7, 3, 50), []int{9, 21}))
	add("bad-garbage", geom.NewLineStringFlat(geom.XYZM, rnd(6, 4, 50)))
	add("bad-lies", geom.NewMultiPointFlat(geom.XY, rnd(9, 2, 50)))
	add("bad-empty", geom.NewPointFlat(geom.XY, []float64{2, 3}))
	return gs
}

type callEvent struct {
	Ev   string `json:"ev"`
	Gor  int    `json:"gor"`
	Seq  int    `json:"seq"`
	Op   string `json:"op"`
	Arg  string `json:"arg"`
	Res  string `json:"res"`
	Pre  string `json:"pre"`
	Post string `json:"post"`
}

// special subcommand: drive calls -in <params json> -out <events ndjson>
// params: {"goroutines": G, "rounds": R, "control": bool}
func callsSpecial(in, out string) int {
	var p struct {
		Goroutines, Rounds int
		Control            bool
	}
	b, err := os.ReadFile(in)
	if err != nil {
		fmt.Fprintln(os.Stderr, err)
		return 64
	}
	must(json.Unmarshal(bytes.TrimSpace(b), &p))
	args := callArgs(seed)
	ops := callOps()
	fout, err := os.Create(out)
	if err != nil {
		fmt.Fprintln(os.Stderr, err)
		return 64
	}
	w := bufio.NewWriter(fout)
	emit := func(e callEvent) {
		b, _ := json.Marshal(e)
		w.Write(b)
		w.WriteByte('\n')
	}
	for _, a := range args {
		emit(callEvent{Ev: "init", Arg: a.id, Pre: a.snapshot(), Post: "-", Op: "-", Res: "-"})
	}
	// sequential pass: every op on every argument, twice (a result must not depend on an earlier call)
	seq := 0
	notApplicable := map[string]bool{}
	passes := 2
	if p.Control {
		passes = 0 // the sensor control only needs the concurrent pass (its log is never judged)
	}
	for pass := 0; pass < passes; pass++ {
		for _, o := range ops {
			for _, a := range args {
				pre := a.snapshot()
				res := o.f(a)
				seq++
				if res == "n/a" {
					notApplicable[o.name+"@"+a.id] = true
				}
				emit(callEvent{Ev: "seq", Gor: 0, Seq: seq, Op: o.name, Arg: a.id, Res: res, Pre: pre, Post: a.snapshot()})
				if sc := opScribs[o.name]; sc != nil && pass == 1 {
					// the caller overwrites the object the call returned (second pass only, so that the first pass has
					// recorded every sequential result on untouched arguments)
					pre := a.snapshot()
					sc(a)
					seq++
					emit(callEvent{Ev: "scrib", Gor: 0, Seq: seq, Op: o.name, Arg: a.id, Res: "-", Pre: pre, Post: a.snapshot()})
				}
			}
		}
	}
	// concurrent pass: G goroutines, each a seeded mix of calls on the SAME arguments. The mix is drawn from the
	// (operation, argument) pairs to which the operation applies (its sequential result is not "n/a").
	type pair struct {
		o callOp
		a *callArg
	}
	var pairs []pair
	for _, o := range ops {
		for _, a := range args {
			if !notApplicable[o.name+"@"+a.id] {
				pairs = append(pairs, pair{o, a})
			}
		}
	}
	ctl := args[0] // the argument of the sensor control: a geometry with many coordinates
	for _, a := range args {
		if a.id == "mpt80" {
			ctl = a
		}
	}
	// Two halves. First a free mix: every goroutine draws its own (operation, argument) pairs - calls of DIFFERENT
	// operations overlap. Then one phase per operation: all goroutines call the same operation at the same time (on
	// arguments of their own choice), so that state kept by one operation - also on its rarely taken paths, like the
	// error path of a decoder - is touched by several goroutines with nothing in between that would order them.
	// (The barrier at the start of a phase orders the phases, not the calls inside one.)
	byOp := make([][]*callArg, len(ops))
	for i, o := range ops {
		for _, a := range args {
			if !notApplicable[o.name+"@"+a.id] {
				byOp[i] = append(byOp[i], a)
			}
		}
	}
	mix, burst := p.Rounds, 0
	if !p.Control {
		mix = p.Rounds / 2
		burst = (p.Rounds - mix + len(ops) - 1) / len(ops)
	}
	barriers := make([]sync.WaitGroup, len(ops))
	for i := range barriers {
		barriers[i].Add(p.Goroutines)
	}
	var wg sync.WaitGroup
	evs := make([][]callEvent, p.Goroutines)
	start := make(chan struct{})
	for g := 0; g < p.Goroutines; g++ {
		wg.Add(1)
		go func(g int) {
			defer wg.Done()
			rr := rand.New(rand.NewSource(seed*1000 + int64(g)))
			<-start
			k := 0
			call := func(o callOp, a *callArg) {
				res := o.f(a)
				k++
				evs[g] = append(evs[g], callEvent{Ev: "conc", Gor: g + 1, Seq: k, Op: o.name, Arg: a.id, Res: res, Pre: "-", Post: "-"})
			}
			for k < mix {
				pr := pairs[rr.Intn(len(pairs))]
				o, a := pr.o, pr.a
				if p.Control {
					o = ops[rr.Intn(len(ops))]
				}
				if p.Control && g == 0 {
					// positive control of the sensor (never part of a verdict run): the HARNESS keeps writing to a shared
					// slice (reversing it in place, so every round really writes) while the other goroutines read it
					if fc, ok := flatOfT(ctl.g); ok {
						for i, j := 0, len(fc)-1; i < j; i, j = i+1, j-1 {
							fc[i], fc[j] = fc[j], fc[i]
						}
					}
					a = ctl
				}
				if p.Control && g != 0 && k%2 == 0 {
					a = ctl
				}
				call(o, a)
			}
			if burst > 0 {
				for i, o := range ops {
					barriers[i].Done()
					barriers[i].Wait()
					for j := 0; j < burst && len(byOp[i]) > 0; j++ {
						call(o, byOp[i][rr.Intn(len(byOp[i]))])
					}
				}
			}
		}(g)
	}
	close(start)
	wg.Wait()
	for _, es := range evs {
		for _, e := range es {
			emit(e)
		}
	}
	for _, a := range args {
		emit(callEvent{Ev: "final", Arg: a.id, Pre: a.snapshot(), Post: "-", Op: "-", Res: "-"})
	}
	w.Flush()
	fout.Close()
	return 0
}

func init() {
	specials["calls"] = callsSpecial
	tokModes["calls"] = "int"
}
