package main

import (
	"encoding/json"
	"errors"
	"fmt"

	"github.com/twpayne/go-geom"
)

// ---------------------------------------------------------------- building geometries from spec values

func dec[T any](raw json.RawMessage) T {
	var v T
	if err := json.Unmarshal(raw, &v); err != nil {
		panic(fmt.Sprintf("harness: bad value %s: %v", string(raw), err))
	}
	return v
}

func coords1(v [][]int) []geom.Coord {
	out := make([]geom.Coord, len(v))
	for i, c := range v {
		out[i] = coordOf(c)
	}
	return out
}

func coords2(v [][][]int) [][]geom.Coord {
	out := make([][]geom.Coord, len(v))
	for i, c := range v {
		out[i] = coords1(c)
	}
	return out
}

func coords3(v [][][][]int) [][][]geom.Coord {
	out := make([][][]geom.Coord, len(v))
	for i, c := range v {
		out[i] = coords2(c)
	}
	return out
}

func isNil(c []int) bool { return len(c) == 1 && c[0] == -1 }

func coordsMP(v [][]int) []geom.Coord {
	out := make([]geom.Coord, len(v))
	for i, c := range v {
		if isNil(c) {
			out[i] = nil
		} else {
			out[i] = coordOf(c)
		}
	}
	return out
}

func newGeom(k string, l geom.Layout) geom.T {
	switch k {
	case "PT":
		return geom.NewPointEmpty(l)
	case "LS":
		return geom.NewLineString(l)
	case "LR":
		return geom.NewLinearRing(l)
	case "PG":
		return geom.NewPolygon(l)
	case "MPT":
		return geom.NewMultiPoint(l)
	case "MLS":
		return geom.NewMultiLineString(l)
	case "MPG":
		return geom.NewMultiPolygon(l)
	case "GC":
		return geom.NewGeometryCollection()
	}
	panic("harness: unknown kind " + k)
}

// setCoords calls the type's SetCoords with the spec value v.
func setCoords(g geom.T, k string, v json.RawMessage) error {
	var err error
	switch k {
	case "PT":
		c := dec[[]int](v)
		_, err = g.(*geom.Point).SetCoords(coordOf(c))
	case "LS":
		_, err = g.(*geom.LineString).SetCoords(coords1(dec[[][]int](v)))
	case "LR":
		_, err = g.(*geom.LinearRing).SetCoords(coords1(dec[[][]int](v)))
	case "PG":
		_, err = g.(*geom.Polygon).SetCoords(coords2(dec[[][][]int](v)))
	case "MLS":
		_, err = g.(*geom.MultiLineString).SetCoords(coords2(dec[[][][]int](v)))
	case "MPT":
		_, err = g.(*geom.MultiPoint).SetCoords(coordsMP(dec[[][]int](v)))
	case "MPG":
		_, err = g.(*geom.MultiPolygon).SetCoords(coords3(dec[[][][][]int](v)))
	default:
		panic("harness: setCoords on " + k)
	}
	return err
}

type member struct {
	K string          `json:"k"`
	L string          `json:"l"`
	V json.RawMessage `json:"v"`
}

// build makes a geometry of kind k / layout l holding value v through the public constructors and setters.
func build(k, l string, v json.RawMessage) geom.T {
	if k == "GC" {
		gc := geom.NewGeometryCollection()
		for _, m := range dec[[]member](v) {
			if err := gc.Push(build(m.K, m.L, m.V)); err != nil {
				panic("harness: build GC: " + err.Error())
			}
		}
		if l != "No" {
			if err := gc.SetLayout(layoutOf(l)); err != nil {
				panic("harness: build GC layout: " + err.Error())
			}
		}
		return gc
	}
	g := newGeom(k, layoutOf(l))
	if k == "PT" && len(dec[[]int](v)) == 0 {
		return g
	}
	if err := setCoords(g, k, v); err != nil {
		panic("harness: build: " + err.Error())
	}
	return g
}

// ---------------------------------------------------------------- projection of a geometry through the public API

func kindOf(g geom.T) string {
	switch g.(type) {
	case *geom.Point:
		return "PT"
	case *geom.LineString:
		return "LS"
	case *geom.LinearRing:
		return "LR"
	case *geom.Polygon:
		return "PG"
	case *geom.MultiPoint:
		return "MPT"
	case *geom.MultiLineString:
		return "MLS"
	case *geom.MultiPolygon:
		return "MPG"
	case *geom.GeometryCollection:
		return "GC"
	}
	return "?"
}

func tk1(cs []geom.Coord) [][]int {
	out := make([][]int, len(cs))
	for i, c := range cs {
		out[i] = toks(c)
	}
	return out
}

func tk2(cs [][]geom.Coord) [][][]int {
	out := make([][][]int, len(cs))
	for i, c := range cs {
		out[i] = tk1(c)
	}
	return out
}

func tk3(cs [][][]geom.Coord) [][][][]int {
	out := make([][][][]int, len(cs))
	for i, c := range cs {
		out[i] = tk2(c)
	}
	return out
}

func tkMP(cs []geom.Coord) [][]int {
	out := make([][]int, len(cs))
	for i, c := range cs {
		if len(c) == 0 { // an empty member (nil or zero-length: the distinction is not promised)
			out[i] = []int{-1}
		} else {
			out[i] = toks(c)
		}
	}
	return out
}

// proj records everything the public API shows of g. Each accessor runs under recover(); the names of
// accessors that panicked are listed in "pan" (the spec requires it to be empty).
func proj(g geom.T, withParts bool) map[string]any {
	k := kindOf(g)
	p := map[string]any{"k": k, "flat": []int{}, "ends": []int{}, "endss": [][]int{}, "val": []int{},
		"n": 0, "parts": []any{}, "srid": 0, "l": "?", "stride": -1}
	pan := []string{}
	try := func(name string, f func()) {
		if ev, msg := call(f); ev != "ok" {
			pan = append(pan, name+": "+msg)
		}
	}
	try("Layout", func() { p["l"] = layoutName(g.Layout()) })
	try("Stride", func() { p["stride"] = g.Stride() })
	try("SRID", func() { p["srid"] = g.SRID() })
	if k == "GC" {
		gc := g.(*geom.GeometryCollection)
		try("NumGeoms", func() { p["n"] = gc.NumGeoms() })
		try("Geom", func() {
			parts := []any{}
			for i := 0; i < gc.NumGeoms(); i++ {
				parts = append(parts, proj(gc.Geom(i), true))
			}
			p["parts"] = parts
		})
		p["pan"] = pan
		return p
	}
	try("FlatCoords", func() { p["flat"] = toks(g.FlatCoords()) })
	try("Ends", func() { p["ends"] = ints(g.Ends()) })
	try("Endss", func() { p["endss"] = intss(g.Endss()) })
	parts := []any{}
	switch g := g.(type) {
	case *geom.Point:
		try("Coords", func() {
			if g.Empty() {
				p["val"] = []int{}
			} else {
				p["val"] = toks(g.Coords())
			}
		})
	case *geom.LineString:
		try("Coords", func() { p["val"] = tk1(g.Coords()) })
	case *geom.LinearRing:
		try("Coords", func() { p["val"] = tk1(g.Coords()) })
	case *geom.Polygon:
		try("Coords", func() { p["val"] = tk2(g.Coords()) })
		try("NumLinearRings", func() { p["n"] = g.NumLinearRings() })
		if withParts {
			try("LinearRing", func() {
				for i := 0; i < g.NumLinearRings(); i++ {
					parts = append(parts, proj(g.LinearRing(i), false))
				}
			})
		}
	case *geom.MultiLineString:
		try("Coords", func() { p["val"] = tk2(g.Coords()) })
		try("NumLineStrings", func() { p["n"] = g.NumLineStrings() })
		if withParts {
			try("LineString", func() {
				for i := 0; i < g.NumLineStrings(); i++ {
					parts = append(parts, proj(g.LineString(i), false))
				}
			})
		}
	case *geom.MultiPoint:
		try("Coords", func() { p["val"] = tkMP(g.Coords()) })
		try("NumPoints", func() { p["n"] = g.NumPoints() })
		if withParts {
			try("Point", func() {
				for i := 0; i < g.NumPoints(); i++ {
					parts = append(parts, proj(g.Point(i), false))
				}
			})
		}
	case *geom.MultiPolygon:
		try("Coords", func() { p["val"] = tk3(g.Coords()) })
		try("NumPolygons", func() { p["n"] = g.NumPolygons() })
		if withParts {
			try("Polygon", func() {
				for i := 0; i < g.NumPolygons(); i++ {
					parts = append(parts, proj(g.Polygon(i), false))
				}
			})
		}
	}
	p["parts"] = parts
	p["pan"] = pan
	return p
}

func errClass(err error) string {
	if err == nil {
		return "none"
	}
	var lm geom.ErrLayoutMismatch
	var sm geom.ErrStrideMismatch
	switch {
	case errors.As(err, &lm):
		return "layout"
	case errors.As(err, &sm):
		return "stride"
	}
	return "other: " + err.Error()
}

// ---------------------------------------------------------------- replay of a GeomOps behaviour

type gAction struct {
	Op      string          `json:"op"`
	To      int             `json:"to"`
	Part    json.RawMessage `json:"part"`
	Part2   json.RawMessage `json:"part2"`
	Empty   bool            `json:"empty"`
	Pos     int             `json:"pos"`
	Srid    int             `json:"srid"`
	V       json.RawMessage `json:"v"`
	L       string          `json:"l"`
	Wl      string          `json:"wl"`  // pushbad: the layout of the misfit part ("" = the default choice)
	Rep     *flatRep        `json:"rep"` // newflat: Deflate(v), computed by the model
	How     string          `json:"how"` // setself: "rev" or "rot"
	Room    bool            `json:"room"`
	NilEnds bool            `json:"nilends"` // newflat (MultiPoint without empty members): the ends option is passed, with a nil slice // newflat: the slices handed over have capacity behind their length
}

type flatRep struct {
	Flat  []int   `json:"flat"`
	Ends  []int   `json:"ends"`
	Endss [][]int `json:"endss"`
}

type gCase struct {
	K    string    `json:"k"`
	L    string    `json:"l"`
	L2   string    `json:"l2"`  // layout of the second object when it differs from the first one's
	Sto  bool      `json:"sto"` // record the storage projection of both objects after every step (C16)
	Hist []gAction `json:"hist"`
}

func partKind(k string) string {
	switch k {
	case "PG":
		return "LR"
	case "MLS":
		return "LS"
	case "MPT":
		return "PT"
	case "MPG":
		return "PG"
	}
	return "?"
}

func push(g, part geom.T) error {
	switch g := g.(type) {
	case *geom.Polygon:
		return g.Push(part.(*geom.LinearRing))
	case *geom.MultiLineString:
		return g.Push(part.(*geom.LineString))
	case *geom.MultiPoint:
		return g.Push(part.(*geom.Point))
	case *geom.MultiPolygon:
		return g.Push(part.(*geom.Polygon))
	case *geom.GeometryCollection:
		return g.Push(part)
	}
	panic("harness: push on non-multi")
}

func swap(a, b geom.T) {
	switch a := a.(type) {
	case *geom.Point:
		a.Swap(b.(*geom.Point))
	case *geom.LineString:
		a.Swap(b.(*geom.LineString))
	case *geom.LinearRing:
		a.Swap(b.(*geom.LinearRing))
	case *geom.Polygon:
		a.Swap(b.(*geom.Polygon))
	case *geom.MultiPoint:
		a.Swap(b.(*geom.MultiPoint))
	case *geom.MultiLineString:
		a.Swap(b.(*geom.MultiLineString))
	case *geom.MultiPolygon:
		a.Swap(b.(*geom.MultiPolygon))
	default:
		panic("harness: swap")
	}
}

func clone(a geom.T) geom.T {
	switch a := a.(type) {
	case *geom.Point:
		return a.Clone()
	case *geom.LineString:
		return a.Clone()
	case *geom.LinearRing:
		return a.Clone()
	case *geom.Polygon:
		return a.Clone()
	case *geom.MultiPoint:
		return a.Clone()
	case *geom.MultiLineString:
		return a.Clone()
	case *geom.MultiPolygon:
		return a.Clone()
	}
	panic("harness: clone")
}

func reverse(a geom.T) {
	switch a := a.(type) {
	case *geom.LineString:
		a.Reverse()
	case *geom.LinearRing:
		a.Reverse()
	case *geom.Polygon:
		a.Reverse()
	case *geom.MultiPoint:
		a.Reverse()
	case *geom.MultiLineString:
		a.Reverse()
	case *geom.MultiPolygon:
		a.Reverse()
	}
}

type reserver interface{ Reserve(int) }

func wrongLayout(l string) string {
	if l == "XY" {
		return "XYZ"
	}
	return "XY"
}

// a part of the wrong layout for pushbad: empty, or holding one coordinate
func badPart(k, l, wrong string, empty bool) geom.T {
	wl := layoutOf(wrongLayout(l))
	if wrong != "" {
		wl = layoutOf(wrong)
	}
	c := make(geom.Coord, wl.Stride())
	for i := range c {
		c[i] = tok2f(70 + i)
	}
	switch partKind(k) {
	case "PT":
		if empty {
			return geom.NewPointEmpty(wl)
		}
		return geom.NewPointFlat(wl, c)
	case "LR":
		if empty {
			return geom.NewLinearRing(wl)
		}
		return geom.NewLinearRingFlat(wl, c)
	case "LS":
		if empty {
			return geom.NewLineString(wl)
		}
		return geom.NewLineStringFlat(wl, c)
	case "PG":
		if empty {
			return geom.NewPolygon(wl)
		}
		return geom.NewPolygonFlat(wl, c, []int{len(c)})
	}
	panic("harness: badPart")
}

// newFlat builds a geometry of kind k through the New<Kind>Flat constructor from the representation the model computed.
func newFlat(k string, l geom.Layout, r *flatRep, room, nilEnds bool) geom.T {
	spare := 0
	if room {
		spare = 8
	}
	flat := make([]float64, len(r.Flat), len(r.Flat)+4*spare)
	for i, t := range r.Flat {
		flat[i] = tok2f(t)
	}
	ints := func(es []int) []int {
		out := make([]int, len(es), len(es)+spare)
		copy(out, es)
		return out
	}
	switch k {
	case "PT":
		if len(flat) == 0 {
			return geom.NewPointEmpty(l)
		}
		return geom.NewPointFlat(l, flat)
	case "LS":
		return geom.NewLineStringFlat(l, flat)
	case "LR":
		return geom.NewLinearRingFlat(l, flat)
	case "PG":
		return geom.NewPolygonFlat(l, flat, ints(r.Ends))
	case "MLS":
		return geom.NewMultiLineStringFlat(l, flat, ints(r.Ends))
	case "MPT":
		if nilEnds {
			return geom.NewMultiPointFlat(l, flat, geom.NewMultiPointFlatOptionWithEnds(nil))
		}
		if !room && l.Stride() > 0 && len(r.Ends)*l.Stride() == len(flat) {
			return geom.NewMultiPointFlat(l, flat) // no empty member: the constructor derives the ends itself
		}
		return geom.NewMultiPointFlat(l, flat, geom.NewMultiPointFlatOptionWithEnds(ints(r.Ends)))
	case "MPG":
		endss := make([][]int, len(r.Endss), len(r.Endss)+spare)
		for i, es := range r.Endss {
			endss[i] = ints(es)
		}
		return geom.NewMultiPolygonFlat(l, flat, endss)
	}
	panic("harness: newFlat on " + k)
}

func geomopsHandler(raw json.RawMessage) map[string]any {
	c := dec[gCase](raw)
	o := [3]geom.T{nil, newGeom(c.K, layoutOf(c.L)), newGeom(c.K, layoutOf(c.L))}
	if c.L2 != "" {
		o[2] = newGeom(c.K, layoutOf(c.L2))
	}
	type poolEnt struct {
		k string
		v json.RawMessage
		g geom.T
	}
	pool := map[string]*poolEnt{}
	poolOrder := []string{}
	getPart := func(a gAction) geom.T {
		key := string(a.Part)
		if e, ok := pool[key]; ok {
			return e.g
		}
		var e *poolEnt
		if c.K == "GC" {
			m := dec[member](a.Part)
			e = &poolEnt{k: m.K, v: m.V, g: build(m.K, m.L, m.V)}
		} else {
			pk := partKind(c.K)
			v := a.Part
			if pk == "PT" && isNil(dec[[]int](a.Part)) {
				v = json.RawMessage("[]")
			}
			e = &poolEnt{k: pk, v: v, g: build(pk, c.L, v)}
		}
		pool[key] = e
		poolOrder = append(poolOrder, key)
		return e.g
	}
	steps := []any{}
	init := map[string]any{"o1": proj(o[1], true), "o2": proj(o[2], true)}
	for _, a := range c.Hist {
		errc := "none"
		var partObj geom.T
		ev, msg := call(func() {
			switch a.Op {
			case "push":
				errc = errClass(push(o[a.To], getPart(a)))
			case "push2":
				a2 := a
				a2.Part = a.Part2
				errc = errClass(o[a.To].(*geom.GeometryCollection).Push(getPart(a), getPart(a2)))
			case "pushbad":
				errc = errClass(push(o[a.To], badPart(c.K, c.L, a.Wl, a.Empty)))
			case "newflat":
				o[a.To] = newFlat(c.K, o[a.To].Layout(), a.Rep, a.Room, a.NilEnds)
			case "reverse":
				reverse(o[a.To])
			case "swap":
				swap(o[1], o[2])
			case "clone":
				o[2] = clone(o[1])
			case "write":
				if fc := o[a.To].FlatCoords(); a.Pos < len(fc) {
					fc[a.Pos] = tok2f(99)
				}
			case "wend":
				g := o[a.To]
				switch c.K {
				case "PG", "MLS":
					if es := g.Ends(); len(es) >= 2 {
						es[0] = 0
					}
				case "MPG":
					n := 0
					for _, es := range g.Endss() {
						n += len(es)
					}
					if n >= 2 {
						for _, es := range g.Endss() {
							if len(es) > 0 {
								es[0] = 0
								break
							}
						}
					}
				}
			case "transform":
				geom.TransformInPlace(o[a.To], func(cd geom.Coord) { cd[0] = tok2f(98) })
			case "srid":
				if _, err := geom.SetSRID(o[a.To], a.Srid); err != nil {
					errc = errClass(err)
				}
			case "reserve":
				o[a.To].(reserver).Reserve(len(o[a.To].FlatCoords()) + 16)
			case "setcoords", "setbad": // setbad: a value holding coordinates of the wrong length (must be refused)
				errc = errClass(setCoords(o[a.To], c.K, a.V))
			case "setlayout":
				errc = errClass(o[a.To].(*geom.GeometryCollection).SetLayout(layoutOf(a.L)))
			case "setself": // SetCoords fed with the object's own Coord(i) views, reversed or rotated by one
				type coorder interface {
					NumCoords() int
					Coord(int) geom.Coord
				}
				g := o[a.To].(coorder)
				if o[a.To].Stride() == 0 {
					break // nothing to hand back
				}
				n := g.NumCoords()
				views := make([]geom.Coord, 0, n)
				for i := 0; i < n; i++ {
					j := n - 1 - i
					if a.How == "rot" {
						j = (i + 1) % n
					}
					views = append(views, g.Coord(j))
				}
				switch g := o[a.To].(type) {
				case *geom.LineString:
					_, err := g.SetCoords(views)
					errc = errClass(err)
				case *geom.LinearRing:
					_, err := g.SetCoords(views)
					errc = errClass(err)
				default:
					panic("harness: setself on " + c.K)
				}
			case "setpart": // SetCoords on the part object the accessor hands out (no call when there is no such part)
				switch g := o[a.To].(type) {
				case *geom.Polygon:
					if a.Pos < g.NumLinearRings() {
						partObj = g.LinearRing(a.Pos)
					}
				case *geom.MultiLineString:
					if a.Pos < g.NumLineStrings() {
						partObj = g.LineString(a.Pos)
					}
				case *geom.MultiPolygon:
					if a.Pos < g.NumPolygons() {
						partObj = g.Polygon(a.Pos)
					}
				case *geom.MultiPoint:
					if a.Pos < g.NumPoints() {
						partObj = g.Point(a.Pos)
					}
				default:
					panic("harness: setpart on " + c.K)
				}
				if partObj != nil {
					errc = errClass(setCoords(partObj, partKind(c.K), a.V))
				}
			default:
				panic("harness: unknown op " + a.Op)
			}
		})
		if ev != "ok" {
			errc = "panic: " + msg
		}
		pl := []any{}
		if c.K != "GC" {
			for _, key := range poolOrder {
				e := pool[key]
				pl = append(pl, map[string]any{"k": e.k, "v": e.v, "p": proj(e.g, false)})
			}
		}
		step := map[string]any{"err": errc, "o1": proj(o[1], true), "o2": proj(o[2], true), "pool": pl}
		if c.Sto {
			sp := storageProj(o[1], o[2])
			step["sto"] = map[string]any{"o1": sp[0], "o2": sp[1]}
		}
		if a.Op == "setpart" {
			if partObj != nil {
				step["part"] = proj(partObj, false)
			} else {
				step["part"] = map[string]any{"pan": []string{"no such part"}, "val": []int{}}
			}
		}
		steps = append(steps, step)
	}
	return map[string]any{"steps": steps, "init": init}
}

func init() {
	handlers["geomops"] = geomopsHandler
}
