package main

// Driver for C08 (geom.Bounds). Ordinates are small integers; +Inf / -Inf are recorded as +99 / -99.

import (
	"encoding/json"
	"fmt"
	"math"

	"github.com/twpayne/go-geom"
	"github.com/twpayne/go-geom/encoding/geojson"
)

const infTok = 99

func ordInt(f float64) int {
	switch {
	case math.IsInf(f, 1):
		return infTok
	case math.IsInf(f, -1):
		return -infTok
	case math.IsNaN(f):
		return -77
	case f != math.Trunc(f) || math.Abs(f) > 90:
		return -78
	}
	return int(f)
}

func boundsProj(f func() *geom.Bounds) map[string]any {
	out := map[string]any{"pan": "", "l": "?", "min": []int{}, "max": []int{}, "empty": false}
	ev, msg := call(func() {
		b := f()
		out["l"] = layoutName(b.Layout())
		n := b.Layout().Stride()
		mn, mx := make([]int, n), make([]int, n)
		for i := 0; i < n; i++ {
			mn[i], mx[i] = ordInt(b.Min(i)), ordInt(b.Max(i))
		}
		out["min"], out["max"] = mn, mx
		out["empty"] = b.IsEmpty()
	})
	if ev != "ok" {
		out["pan"] = msg
	}
	return out
}

// polyProj records Bounds.Polygon(): layout, ends and the flat coordinates (as recorded ordinates).
func polyProj(f func() *geom.Bounds) map[string]any {
	out := map[string]any{"pan": "", "l": "?", "ends": []int{}, "fc": []int{}}
	ev, msg := call(func() {
		p := f().Polygon()
		out["l"] = layoutName(p.Layout())
		out["ends"] = append([]int{}, p.Ends()...)
		fc := []int{}
		for _, v := range p.FlatCoords() {
			fc = append(fc, ordInt(v))
		}
		out["fc"] = fc
	})
	if ev != "ok" {
		out["pan"] = msg
	}
	return out
}

// bboxProj records the "bbox" member of the GeoJSON encoding of g with EncodeGeometryWithBBox (plus opts).
func geoBBoxProj(g geom.T, opts ...geojson.EncodeGeometryOption) map[string]any {
	out := map[string]any{"pan": "", "err": "", "has": false, "bb": []int{}}
	ev, msg := call(func() {
		data, err := geojson.Marshal(g, append([]geojson.EncodeGeometryOption{geojson.EncodeGeometryWithBBox()}, opts...)...)
		if err != nil {
			out["err"] = "marshal: " + err.Error()
			return
		}
		var obj map[string]json.RawMessage
		if err := json.Unmarshal(data, &obj); err != nil {
			out["err"] = "not a JSON object: " + err.Error()
			return
		}
		raw, ok := obj["bbox"]
		if !ok {
			return
		}
		var fs []float64
		if err := json.Unmarshal(raw, &fs); err != nil {
			out["err"] = "bbox is not an array of numbers: " + err.Error()
			return
		}
		bb := []int{}
		for _, v := range fs {
			bb = append(bb, ordInt(v))
		}
		out["has"], out["bb"] = true, bb
	})
	if ev != "ok" {
		out["pan"] = msg
	}
	return out
}

func goType(g geom.T) string {
	return fmt.Sprintf("%T", g)[len("*geom."):]
}

type bGeom struct {
	L  string
	Cs [][]int
}

type bNode struct {
	L  string
	Cs [][]int
	Gc *[]bNode
}

func intCoords(cs [][]int) []geom.Coord {
	out := make([]geom.Coord, len(cs))
	for i, c := range cs {
		out[i] = make(geom.Coord, len(c))
		for j, v := range c {
			out[i][j] = float64(v)
		}
	}
	return out
}

// leafGeom builds a geometry holding exactly the coords cs (in order); the Go type rotates with salt over the
// seven coordinate-carrying types, with empty parts / rings / members mixed in.
func leafGeom(l string, cs [][]int, salt int) geom.T {
	layout := layoutOf(l)
	co := intCoords(cs)
	h := (len(co) + 1) / 2
	if salt < 0 {
		salt = -salt
	}
	if noRing && salt%8 == 4 {
		salt++
	}
	switch salt % 8 {
	case 0:
		switch len(co) {
		case 0:
			return geom.NewPointEmpty(layout)
		case 1:
			return geom.NewPoint(layout).MustSetCoords(co[0])
		}
		return geom.NewMultiPoint(layout).MustSetCoords(co)
	case 1:
		return geom.NewMultiPoint(layout).MustSetCoords(co)
	case 2:
		return geom.NewLineString(layout).MustSetCoords(co)
	case 3:
		return geom.NewMultiLineString(layout).MustSetCoords([][]geom.Coord{{}, co})
	case 4:
		return geom.NewLinearRing(layout).MustSetCoords(co)
	case 5:
		if len(co) == 0 {
			return geom.NewPolygon(layout).MustSetCoords([][]geom.Coord{{}, {}})
		}
		return geom.NewPolygon(layout).MustSetCoords([][]geom.Coord{co[:h], {}, co[h:]})
	case 6:
		if len(co) == 0 {
			return geom.NewMultiPolygon(layout).MustSetCoords([][][]geom.Coord{{}, {{}}})
		}
		return geom.NewMultiPolygon(layout).MustSetCoords([][][]geom.Coord{{}, {co[:h], {}}, {}, {{}, co[h:]}})
	default:
		if len(co) == 0 {
			return geom.NewPolygon(layout)
		}
		return geom.NewMultiLineString(layout).MustSetCoords([][]geom.Coord{co[:h], {}, co[h:]})
	}
}

// leafSalt spreads the Go types over the positions of a history.
func leafSalt(i, n int, g bNode) int {
	return 7*i + 3*n + 5*len(g.Cs) + len(g.L)
}

// noRing: GeoJSON has no LinearRing; collections built for the GeoJSON encoder use a Polygon in its place.
var noRing bool

func buildNode(n bNode, salt int) geom.T {
	if n.Gc != nil {
		gc := geom.NewGeometryCollection()
		for i, m := range *n.Gc {
			gc.MustPush(buildNode(m, salt+i+1))
		}
		return gc
	}
	return leafGeom(n.L, n.Cs, salt)
}

func buildNodeJSON(n bNode, salt int) geom.T {
	noRing = n.Gc != nil
	defer func() { noRing = false }()
	return buildNode(n, salt)
}

type bBox struct {
	L        string
	Min, Max []int
}

func tokFloat(v int) float64 {
	switch v {
	case infTok:
		return math.Inf(1)
	case -infTok:
		return math.Inf(-1)
	}
	return float64(v)
}

// mkBox builds the box: NewBounds for the canonical empty box, otherwise NewBounds(layout).Set(minima..., maxima...)
// (an interval recorded as (+INF, -INF) is written as (+Inf, -Inf): the state NewBounds leaves in an unused dimension).
func mkBox(b bBox) *geom.Bounds {
	nb := geom.NewBounds(layoutOf(b.L))
	all := true
	args := []float64{}
	for i, v := range b.Min {
		all = all && v == infTok && b.Max[i] == -infTok
		args = append(args, tokFloat(v))
	}
	for _, v := range b.Max {
		args = append(args, tokFloat(v))
	}
	if all {
		return nb
	}
	return nb.Set(args...)
}

// dimIndex: position of the dimensions of layout l in a by-name vector (x, y, z, m).
func dimIndex(l geom.Layout) []int {
	switch l {
	case geom.XY:
		return []int{0, 1}
	case geom.XYZ:
		return []int{0, 1, 2}
	case geom.XYM:
		return []int{0, 1, 3}
	case geom.XYZM:
		return []int{0, 1, 2, 3}
	}
	return []int{}
}

// eachPoint enumerates vals^n.
func eachPoint(n int, vals []int, f func(p []int)) {
	var rec func(p []int)
	rec = func(p []int) {
		if len(p) == n {
			f(append([]int{}, p...))
			return
		}
		for _, v := range vals {
			rec(append(p, v))
		}
	}
	rec(nil)
}

func boundsHandler(raw json.RawMessage) map[string]any {
	var c struct {
		Fam        string
		L0         string
		M1, M2     bGeom
		First      int
		Gs         []bNode
		Pre, Post  []bNode
		Op         string
		Smin, Smax []int
		T          bNode
		Ty         int
		L          string
		B, B1, B2  bBox
		Pv         []int
		Viaown     bool // extend family: the box is the first geometry's own Bounds(), extended by the others
	}
	must(json.Unmarshal(raw, &c))
	out := map[string]any{}
	switch c.Fam {
	case "extend":
		// gs holds leaves and (for direct Bounds.Extend(collection) calls) collection trees
		var b *geom.Bounds
		out["init"] = boundsProj(func() *geom.Bounds { b = geom.NewBounds(layoutOf(c.L0)); return b })
		steps, own, tys := []any{}, []any{}, []string{}
		for i, g := range c.Gs {
			gg := buildNode(g, leafSalt(i, len(c.Gs), g))
			if c.Viaown && i == 0 {
				// (only generated with l0 = "No": NewBounds(NoLayout).Extend(g) and g.Bounds() must be the same box)
				steps = append(steps, boundsProj(func() *geom.Bounds { b = gg.Bounds(); return b }))
			} else {
				steps = append(steps, boundsProj(func() *geom.Bounds { b.Extend(gg); return b }))
			}
			own = append(own, boundsProj(func() *geom.Bounds { return gg.Bounds() }))
			tys = append(tys, goType(gg))
		}
		out["steps"], out["own"], out["tys"] = steps, own, tys
		out["poly"] = polyProj(func() *geom.Bounds { return b })
	case "set":
		// NewBounds(l0), Extend(pre...), Set / SetCoords with the box (smin, smax) projected on the CURRENT layout, Extend(post...)
		b := geom.NewBounds(layoutOf(c.L0))
		steps := []any{}
		for i, g := range c.Pre {
			gg := buildNode(g, leafSalt(i, len(c.Pre)+1, g))
			steps = append(steps, boundsProj(func() *geom.Bounds { b.Extend(gg); return b }))
		}
		// the layout read off the box right before Set / SetCoords (recorded: the projection of the corners below follows it)
		out["lset"] = layoutName(b.Layout())
		ix := dimIndex(b.Layout())
		mn, mx := make([]float64, len(ix)), make([]float64, len(ix))
		for k, d := range ix {
			mn[k], mx[k] = float64(c.Smin[d]), float64(c.Smax[d])
		}
		if c.Op == "Set" {
			steps = append(steps, boundsProj(func() *geom.Bounds { return b.Set(append(append([]float64{}, mn...), mx...)...) }))
		} else {
			steps = append(steps, boundsProj(func() *geom.Bounds { return b.SetCoords(geom.Coord(mn), geom.Coord(mx)) }))
		}
		for i, g := range c.Post {
			gg := buildNode(g, leafSalt(i+2, len(c.Post), g))
			steps = append(steps, boundsProj(func() *geom.Bounds { b.Extend(gg); return b }))
		}
		out["steps"] = steps
		out["poly"] = polyProj(func() *geom.Bounds { return b })
	case "clone":
		b := geom.NewBounds(layoutOf(c.L0))
		for i, g := range c.Gs {
			b.Extend(buildNode(g, i))
		}
		cl := b.Clone()
		proj := func(x *geom.Bounds) map[string]any { return boundsProj(func() *geom.Bounds { return x }) }
		out["orig0"], out["clone0"] = proj(b), proj(cl)
		x, y := b, cl
		if c.First == 2 {
			x, y = cl, b
		}
		x.Extend(leafGeom(c.M1.L, c.M1.Cs, 1))
		out["orig1"], out["clone1"] = proj(b), proj(cl)
		y.Extend(leafGeom(c.M2.L, c.M2.Cs, 2))
		out["orig2"], out["clone2"] = proj(b), proj(cl)
		// Set / SetCoords on a fresh clone: the original is projected again afterwards (BoundsObs compares it with orig2)
		if b.Layout() != geom.NoLayout {
			c2 := b.Clone()
			args := make([]float64, 2*b.Layout().Stride())
			for i := range args {
				args[i] = float64(50 + i)
			}
			c2.Set(args...)
			c2.SetCoords(geom.Coord(args[:b.Layout().Stride()]), geom.Coord(args[b.Layout().Stride():]))
		}
		out["orig3"] = proj(b)
		// Coord.Clone on special bit patterns: the bits of original and clone at clone time, after a write to each of them,
		// the lengths after an append to the clone, and the length of a cloned nil coordinate - no judgement here
		bitsOf := func(c geom.Coord) []string {
			o := make([]string, len(c))
			for i, v := range c {
				o[i] = fmt.Sprintf("%016x", math.Float64bits(v))
			}
			return o
		}
		co := geom.Coord{math.Copysign(0, -1), math.Float64frombits(0x7FF8000000000001), math.Inf(1), 5e-324, 1.5}[:2+c.First]
		cc := co.Clone()
		out["co0"], out["cc0"] = bitsOf(co), bitsOf(cc)
		cc[0] = 77
		co[1] = 88
		out["co1"], out["cc1"] = bitsOf(co), bitsOf(cc)
		cc = append(cc, 9)
		out["colen"], out["cclen"] = len(co), len(cc)
		var nilc geom.Coord
		out["nilclonelen"] = len(nilc.Clone())
	case "gc":
		g := buildNode(c.T, 0)
		out["b"] = boundsProj(func() *geom.Bounds { return g.Bounds() })
		out["poly"] = polyProj(func() *geom.Bounds { return g.Bounds() })
		out["bbox"] = geoBBoxProj(buildNodeJSON(c.T, 0))
	case "geo":
		// one geometry of an explicit Go type (ty): its own Bounds(), the polygon of those bounds, the GeoJSON bbox
		g := buildNode(c.T, c.Ty)
		out["ty"] = goType(g)
		out["b"] = boundsProj(func() *geom.Bounds { return g.Bounds() })
		out["poly"] = polyProj(func() *geom.Bounds { return g.Bounds() })
		gj := buildNodeJSON(c.T, c.Ty)
		out["bbox"] = geoBBoxProj(gj)
		out["bbd"] = geoBBoxProj(gj, geojson.EncodeGeometryWithMaxDecimalDigits(1))
	case "overlap":
		out["pan"] = ""
		out["ov"], out["vo"], out["e1"] = false, false, false
		b1, b2 := mkBox(c.B1), mkBox(c.B2)
		l := layoutOf(c.L)
		out["e1"] = b1.IsEmpty()
		_, m1 := call(func() { out["ov"] = b1.Overlaps(l, b2) })
		_, m2 := call(func() { out["vo"] = b2.Overlaps(l, b1) })
		if m1 != "" {
			out["pan"] = "Overlaps: " + m1
		} else if m2 != "" {
			out["pan"] = "Overlaps (swapped): " + m2
		}
	case "ovpt":
		out["pan"] = ""
		b := mkBox(c.B)
		l := layoutOf(c.L)
		pts := []any{}
		eachPoint(l.Stride(), c.Pv, func(p []int) {
			co := make(geom.Coord, len(p))
			for i, v := range p {
				co[i] = float64(v)
			}
			got := false
			if _, m := call(func() { got = b.OverlapsPoint(l, co) }); m != "" && out["pan"] == "" {
				out["pan"] = m
			}
			pts = append(pts, map[string]any{"p": p, "got": got})
		})
		out["pts"] = pts
	}
	return out
}

func init() {
	handlers["bounds"] = boundsHandler
	tokModes["bounds"] = "int"
}
