package main

// Driver for C08 (geom.Bounds). Ordinates are small integers; +Inf / -Inf are recorded as +99 / -99.

import (
	"encoding/json"
	"fmt"
	"math"

	"github.com/twpayne/go-geom"
)

const infTok = 99

func ordInt(f float64) int {
	switch {
	case math.IsInf(f, 1):
		return infTok
	case math.IsInf(f, -1):
		return -infTok
	case math.IsNaN(f):
		return -77
	case f != math.Trunc(f) || math.Abs(f) > 90:
		return -78
	}
	return int(f)
}

func boundsProj(f func() *geom.Bounds) map[string]any {
	out := map[string]any{"pan": "", "l": "?", "min": []int{}, "max": []int{}, "empty": false}
	ev, msg := call(func() {
		b := f()
		out["l"] = layoutName(b.Layout())
		n := b.Layout().Stride()
		mn, mx := make([]int, n), make([]int, n)
		for i := 0; i < n; i++ {
			mn[i], mx[i] = ordInt(b.Min(i)), ordInt(b.Max(i))
		}
		out["min"], out["max"] = mn, mx
		out["empty"] = b.IsEmpty()
	})
	if ev != "ok" {
		out["pan"] = msg
	}
	return out
}

type bGeom struct {
	L  string
	Cs [][]int
}

type bNode struct {
	L  string
	Cs [][]int
	Gc *[]bNode
}

func intCoords(cs [][]int) []geom.Coord {
	out := make([]geom.Coord, len(cs))
	for i, c := range cs {
		out[i] = make(geom.Coord, len(c))
		for j, v := range c {
			out[i][j] = float64(v)
		}
	}
	return out
}

// leafGeom builds a geometry holding exactly the coords cs; the Go type rotates with salt.
func leafGeom(l string, cs [][]int, salt int) geom.T {
	layout := layoutOf(l)
	co := intCoords(cs)
	switch {
	case len(cs) == 1 && salt%2 == 0:
		return geom.NewPoint(layout).MustSetCoords(co[0])
	case salt%3 == 0:
		return geom.NewMultiPoint(layout).MustSetCoords(co)
	case salt%3 == 1:
		return geom.NewLineString(layout).MustSetCoords(co)
	default:
		if len(co) == 0 {
			return geom.NewPolygon(layout)
		}
		return geom.NewMultiLineString(layout).MustSetCoords([][]geom.Coord{{}, co})
	}
}

func buildNode(n bNode, salt int) geom.T {
	if n.Gc != nil {
		gc := geom.NewGeometryCollection()
		for i, m := range *n.Gc {
			gc.MustPush(buildNode(m, salt+i+1))
		}
		return gc
	}
	return leafGeom(n.L, n.Cs, salt)
}

func boundsHandler(raw json.RawMessage) map[string]any {
	var c struct {
		Fam    string
		L0     string
		M1, M2 bGeom
		First  int
		Gs     []bGeom
		T      bNode
		N      int
		L      string
		B1, B2 struct{ Min, Max []int }
	}
	must(json.Unmarshal(raw, &c))
	out := map[string]any{}
	switch c.Fam {
	case "extend":
		var b *geom.Bounds
		out["init"] = boundsProj(func() *geom.Bounds { b = geom.NewBounds(layoutOf(c.L0)); return b })
		steps, own := []any{}, []any{}
		for i, g := range c.Gs {
			gg := leafGeom(g.L, g.Cs, i+len(c.Gs))
			steps = append(steps, boundsProj(func() *geom.Bounds { b.Extend(gg); return b }))
			own = append(own, boundsProj(func() *geom.Bounds { return gg.Bounds() }))
		}
		out["steps"], out["own"] = steps, own
	case "clone":
		b := geom.NewBounds(layoutOf(c.L0))
		for i, g := range c.Gs {
			b.Extend(leafGeom(g.L, g.Cs, i))
		}
		cl := b.Clone()
		proj := func(x *geom.Bounds) map[string]any { return boundsProj(func() *geom.Bounds { return x }) }
		out["orig0"], out["clone0"] = proj(b), proj(cl)
		x, y := b, cl
		if c.First == 2 {
			x, y = cl, b
		}
		x.Extend(leafGeom(c.M1.L, c.M1.Cs, 1))
		out["orig1"], out["clone1"] = proj(b), proj(cl)
		y.Extend(leafGeom(c.M2.L, c.M2.Cs, 2))
		out["orig2"], out["clone2"] = proj(b), proj(cl)
		// Set on a fresh clone must not show through its original (bitwise snapshot of min / max)
		setok := true
		if b.Layout() != geom.NoLayout {
			before := fmt.Sprint(proj(b))
			c2 := b.Clone()
			args := make([]float64, 2*b.Layout().Stride())
			for i := range args {
				args[i] = float64(50 + i)
			}
			c2.Set(args...)
			c2.SetCoords(geom.Coord(args[:b.Layout().Stride()]), geom.Coord(args[b.Layout().Stride():]))
			setok = before == fmt.Sprint(proj(b))
		}
		out["setok"] = setok
		// Coord.Clone: equal, and writes to either are not visible through the other
		co := geom.Coord{1, 2, 3, 4, 5}[:2+c.First]
		cc := co.Clone()
		ok := len(cc) == len(co)
		for i := range co {
			ok = ok && math.Float64bits(cc[i]) == math.Float64bits(co[i])
		}
		cc[0] = 77
		ok = ok && co[0] == 1
		co[1] = 88
		ok = ok && cc[1] == 2
		cc = append(cc, 9)
		ok = ok && len(co) == 2+c.First
		var nilc geom.Coord
		ok = ok && len(nilc.Clone()) == 0
		out["coordok"] = ok
	case "gc":
		g := buildNode(c.T, 0)
		out["b"] = boundsProj(func() *geom.Bounds { return g.Bounds() })
	case "overlap":
		mk := func(b struct{ Min, Max []int }) *geom.Bounds {
			var l geom.Layout
			switch {
			case c.N == 2:
				l = geom.XY
			case c.L == "XYM":
				l = geom.XYM
			default:
				l = geom.XYZ
			}
			nb := geom.NewBounds(l)
			if b.Min[0] == infTok {
				return nb
			}
			args := []float64{}
			for _, v := range b.Min {
				args = append(args, float64(v))
			}
			for _, v := range b.Max {
				args = append(args, float64(v))
			}
			return nb.Set(args...)
		}
		out["pan"] = ""
		out["ov"], out["vo"], out["e1"] = false, false, false
		pts := []any{}
		ev, msg := call(func() {
			b1, b2 := mk(c.B1), mk(c.B2)
			l := layoutOf(c.L)
			out["ov"] = b1.Overlaps(l, b2)
			out["vo"] = b2.Overlaps(l, b1)
			out["e1"] = b1.IsEmpty()
			n := l.Stride()
			var rec func(p []int)
			rec = func(p []int) {
				if len(p) == n {
					co := make(geom.Coord, n)
					for i, v := range p {
						co[i] = float64(v)
					}
					pts = append(pts, map[string]any{"p": append([]int{}, p...), "got": b1.OverlapsPoint(l, co)})
					return
				}
				for v := -1; v <= 3; v++ {
					rec(append(p, v))
				}
			}
			rec(nil)
		})
		if ev != "ok" {
			out["pan"] = msg
		}
		out["pts"] = pts
	}
	return out
}

func init() {
	handlers["bounds"] = boundsHandler
	tokModes["bounds"] = "int"
}
