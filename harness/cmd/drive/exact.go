package main

// Drivers for the computational-geometry functions (C09-C15, C20): execute the real functions on the
// inputs of a case and record inputs and outputs losslessly. No expected values, no assertions.
//
// Numbers in:  a JSON integer, or a string "m:e" meaning m*2^e (exact float64).
// Numbers out: {"t": "num"|"nan"|"+inf"|"-inf", "q": round(f*Q) (int32, 0 if it does not fit: t = "big"),
//               "x": "m:e" exact}.  TLC reads t and q, the Apalache generator reads x.

import (
	"encoding/json"
	"fmt"
	"math"
	"sort"
	"strconv"
	"strings"

	"github.com/twpayne/go-geom"
	"github.com/twpayne/go-geom/bigxy"
	"github.com/twpayne/go-geom/sorting"
	"github.com/twpayne/go-geom/transform"
	"github.com/twpayne/go-geom/xy"
	"github.com/twpayne/go-geom/xy/lineintersection"
	"github.com/twpayne/go-geom/xy/lineintersector"
	"github.com/twpayne/go-geom/xyz"
)

type num float64

func (n *num) UnmarshalJSON(b []byte) error {
	if len(b) > 0 && b[0] == '"' {
		var s string
		if err := json.Unmarshal(b, &s); err != nil {
			return err
		}
		i := strings.IndexByte(s, ':')
		if i < 0 {
			return fmt.Errorf("bad exact number %q", s)
		}
		m, err := strconv.ParseInt(s[:i], 10, 64)
		if err != nil {
			return err
		}
		e, err := strconv.Atoi(s[i+1:])
		if err != nil {
			return err
		}
		f := math.Ldexp(float64(m), e)
		if float64(int64(float64(m))) != float64(m) || math.IsInf(f, 0) {
			return fmt.Errorf("inexact number %q", s)
		}
		*n = num(f)
		return nil
	}
	var i int64
	if err := json.Unmarshal(b, &i); err != nil {
		return err
	}
	*n = num(float64(i))
	return nil
}

type pt []num

func (p pt) coord() geom.Coord {
	c := make(geom.Coord, len(p))
	for i, v := range p {
		c[i] = float64(v)
	}
	return c
}

func exactStr(f float64) string {
	switch {
	case math.IsNaN(f):
		return "nan"
	case math.IsInf(f, 1):
		return "+inf"
	case math.IsInf(f, -1):
		return "-inf"
	case f == 0:
		return "0:0"
	}
	fr, e := math.Frexp(f)
	m := int64(math.Ldexp(fr, 53))
	e -= 53
	for m%2 == 0 {
		m /= 2
		e++
	}
	return strconv.FormatInt(m, 10) + ":" + strconv.Itoa(e)
}

func numOut(f float64, q float64) map[string]any {
	o := map[string]any{"t": "num", "q": 0, "x": exactStr(f)}
	switch {
	case math.IsNaN(f):
		o["t"] = "nan"
	case math.IsInf(f, 1):
		o["t"] = "+inf"
	case math.IsInf(f, -1):
		o["t"] = "-inf"
	default:
		r := math.Round(f * q)
		if math.Abs(r) < 2147483000 {
			o["q"] = int(r)
		} else {
			o["t"] = "big"
		}
	}
	return o
}

func numsOut(fs []float64, q float64) []any {
	out := make([]any, len(fs))
	for i, f := range fs {
		out[i] = numOut(f, q)
	}
	return out
}

func exactStrs(fs []float64) []string {
	out := make([]string, len(fs))
	for i, f := range fs {
		out[i] = exactStr(f)
	}
	return out
}

// withExtra appends k extra ordinates (which the planar functions must ignore) to an XY coordinate.
func withExtra(c geom.Coord, k int, salt int) geom.Coord {
	out := append(geom.Coord{}, c[:2]...)
	// finite values only: the properties quantify over finite ordinates; what must not matter is that extra ordinates EXIST
	// and differ wildly from the x, y in play
	junk := []float64{-1e300, 7.5, 1e300, -0.5, 1e-300, 123456789.25}
	for i := 0; i < k; i++ {
		out = append(out, junk[(salt+i)%len(junk)])
	}
	return out
}

func gridPts(n int) []geom.Coord {
	out := make([]geom.Coord, 0, n*n)
	for x := 0; x < n; x++ {
		for y := 0; y < n; y++ {
			out = append(out, geom.Coord{float64(x), float64(y)})
		}
	}
	return out
}

func grid3(n int) []geom.Coord {
	out := make([]geom.Coord, 0, n*n*n)
	for x := 0; x < n; x++ {
		for y := 0; y < n; y++ {
			for z := 0; z < n; z++ {
				out = append(out, geom.Coord{float64(x), float64(y), float64(z)})
			}
		}
	}
	return out
}

// guardI runs f and returns its int result, or 99 and the panic message.
func guardI(f func() int) (r int, msg string) {
	defer func() {
		if e := recover(); e != nil {
			r, msg = 99, fmt.Sprint(e)
		}
	}()
	return f(), ""
}

func guardF(f func() float64) (r float64, msg string) {
	defer func() {
		if e := recover(); e != nil {
			r, msg = math.NaN(), "panic: "+fmt.Sprint(e)
		}
	}()
	return f(), ""
}

// ------------------------------------------------------------------ C10
// case {a,b,n}: both orientation functions for every c of the n x n grid, with extra ordinates on the
// arguments; res[k] = [bigxy, xy] for c = grid point k (x-major).
func orientGridHandler(raw json.RawMessage) map[string]any {
	var c struct {
		A, B pt
		N    int
	}
	must(json.Unmarshal(raw, &c))
	a, b := c.A.coord(), c.B.coord()
	var res [][]int
	pans := []string{}
	for k, p := range gridPts(c.N) {
		r1, m1 := guardI(func() int {
			return int(bigxy.OrientationIndex(withExtra(a, k%3, k), withExtra(b, (k+1)%3, k), withExtra(p, (k+2)%3, k)))
		})
		r2, m2 := guardI(func() int { return int(xy.OrientationIndex(a, b, p)) })
		if m1 != "" {
			pans = append(pans, m1)
		}
		if m2 != "" {
			pans = append(pans, m2)
		}
		res = append(res, []int{r1, r2})
	}
	return map[string]any{"res": res, "pan": pans}
}

// case {pts: [a,b,c] exact}: both functions on all 6 argument permutations.
var perms3 = [6][3]int{{0, 1, 2}, {1, 2, 0}, {2, 0, 1}, {1, 0, 2}, {0, 2, 1}, {2, 1, 0}}

// orientBuf: three coordinates that live as long as the driver and are overwritten IN PLACE for every case (a caller that
// walks a flat array hands the same three slices to every call): the call made with them first and last in a case must
// answer for the values they hold now, whatever an earlier call saw in the same storage.
var orientBuf = [3]geom.Coord{{0, 0}, {0, 0}, {0, 0}}

func orientExactHandler(raw json.RawMessage) map[string]any {
	var c struct{ Pts []pt }
	must(json.Unmarshal(raw, &c))
	p := []geom.Coord{c.Pts[0].coord(), c.Pts[1].coord(), c.Pts[2].coord()}
	for i := range orientBuf {
		copy(orientBuf[i], p[i][:2])
	}
	reuse := []int{}
	inPlace := func() {
		r, _ := guardI(func() int { return int(bigxy.OrientationIndex(orientBuf[0], orientBuf[1], orientBuf[2])) })
		reuse = append(reuse, r)
	}
	inPlace()
	var res [][]int
	for _, pm := range perms3 {
		r1, _ := guardI(func() int { return int(bigxy.OrientationIndex(p[pm[0]], p[pm[1]], p[pm[2]])) })
		// xy.OrientationIndex with extra ordinates (they must be ignored) on every other argument order
		k := (pm[0] + 2*pm[1]) % 2 * 2
		r2, _ := guardI(func() int {
			return int(xy.OrientationIndex(withExtra(p[pm[0]], k, pm[0]), withExtra(p[pm[1]], k, pm[1]+1), withExtra(p[pm[2]], k, pm[2]+2)))
		})
		res = append(res, []int{r1, r2})
	}
	inPlace()
	xs := [][]string{}
	for _, q := range p {
		xs = append(xs, exactStrs(q[:2]))
	}
	return map[string]any{"res": res, "x": xs, "reuse": reuse}
}

// ------------------------------------------------------------------ C11
func flatOf(ps []geom.Coord, stride int, salt int) []float64 {
	var out []float64
	for i, p := range ps {
		out = append(out, withExtra(p, stride-2, salt+i)...)
	}
	return out
}

// finiteExtra appends k copies of v to the first two ordinates of c; finiteFlat flattens ps with the extra ordinates
// 10 + index (finite, pairwise different).
func finiteExtra(c geom.Coord, k int, v float64) geom.Coord {
	out := append(geom.Coord{}, c[:2]...)
	for i := 0; i < k; i++ {
		out = append(out, v)
	}
	return out
}

func finiteFlat(ps []geom.Coord, stride int) []float64 {
	var out []float64
	for i, p := range ps {
		out = append(out, finiteExtra(p, stride-2, float64(10+i))...)
	}
	return out
}

func layoutOfStride(s int) geom.Layout {
	switch s {
	case 2:
		return geom.XY
	case 3:
		return geom.XYZ
	case 4:
		return geom.XYZM
	}
	return geom.Layout(s)
}

func boolName(f func() bool) string {
	b := false
	if ev, _ := call(func() { b = f() }); ev != "ok" {
		return "panic"
	}
	if b {
		return "true"
	}
	return "false"
}

func locName(f func() int) string {
	r, msg := guardI(f)
	if msg != "" {
		return "panic"
	}
	switch r {
	case 0:
		return "interior"
	case 1:
		return "boundary"
	case 2:
		return "exterior"
	}
	return "other"
}

// case {ring: open vertex list, n}  (or {ring, qs: explicit query points}):
// for every query point: location against the closed ring and against its reversal, rotation,
// vertex-duplicated and XYZ / XYZM / Layout(5) variants; IsPointInRing; IsOnLine of the closed ring taken as a line.
func locateHandler(raw json.RawMessage) map[string]any {
	var c struct {
		Ring []pt
		N    int
		Qs   []pt
	}
	must(json.Unmarshal(raw, &c))
	var vs []geom.Coord
	for _, p := range c.Ring {
		vs = append(vs, p.coord())
	}
	n := len(vs)
	closed := append(append([]geom.Coord{}, vs...), vs[0])
	rev := make([]geom.Coord, 0, n+1)
	for i := n; i >= 0; i-- {
		rev = append(rev, closed[i])
	}
	rot := append(append([]geom.Coord{}, vs[1:]...), vs[0], vs[1])
	dup := []geom.Coord{}
	for i, p := range closed {
		dup = append(dup, p)
		if i%2 == 0 {
			dup = append(dup, p)
		}
	}
	var qs []geom.Coord
	if len(c.Qs) > 0 {
		for _, q := range c.Qs {
			qs = append(qs, q.coord())
		}
	} else {
		qs = gridPts(c.N)
	}
	var loc [][]string
	var inr, onl, pil []bool
	var inrv, onlv, pilv [][]string
	for k, q := range qs {
		row := []string{
			locName(func() int { return int(xy.LocatePointInRing(geom.XY, q, flatOf(closed, 2, 0))) }),
			locName(func() int { return int(xy.LocatePointInRing(geom.XY, q, flatOf(rev, 2, 0))) }),
			locName(func() int { return int(xy.LocatePointInRing(geom.XY, q, flatOf(rot, 2, 0))) }),
			locName(func() int { return int(xy.LocatePointInRing(geom.XY, q, flatOf(dup, 2, 0))) }),
			locName(func() int { return int(xy.LocatePointInRing(geom.XYZ, withExtra(q, 1, k), flatOf(closed, 3, k))) }),
			locName(func() int { return int(xy.LocatePointInRing(geom.XYZM, withExtra(q, 2, k), flatOf(closed, 4, k))) }),
			locName(func() int { return int(xy.LocatePointInRing(geom.Layout(5), withExtra(q, 3, k), flatOf(closed, 5, k))) }),
			// finite extra ordinates; the query's lie far outside the range of the ring's (the location is a matter of x, y)
			locName(func() int { return int(xy.LocatePointInRing(geom.XYZ, finiteExtra(q, 1, 1e9), finiteFlat(closed, 3))) }),
			locName(func() int {
				return int(xy.LocatePointInRing(geom.XYZM, finiteExtra(q, 2, -1e9), finiteFlat(closed, 4)))
			}),
		}
		loc = append(loc, row)
		b := false
		ev, _ := call(func() { b = xy.IsPointInRing(geom.XY, q, flatOf(closed, 2, 0)) })
		inr = append(inr, b && ev == "ok")
		b = false
		ev, _ = call(func() { b = xy.IsOnLine(geom.XYZ, withExtra(q, 1, k+1), flatOf(closed, 3, k)) })
		onl = append(onl, b && ev == "ok")
		b = false
		ev, _ = call(func() {
			b = lineintersector.PointIntersectsLine(lineintersector.RobustLineIntersector{}, q, closed[0], closed[1])
		})
		pil = append(pil, b && ev == "ok")
		// the same predicates on the other variants of the ring, a panic recorded as such
		inrv = append(inrv, []string{
			boolName(func() bool { return xy.IsPointInRing(geom.XY, q, flatOf(closed, 2, 0)) }),
			boolName(func() bool { return xy.IsPointInRing(geom.XY, q, flatOf(rev, 2, 0)) }),
			boolName(func() bool { return xy.IsPointInRing(geom.XY, q, flatOf(dup, 2, 0)) }),
			boolName(func() bool { return xy.IsPointInRing(geom.XYZ, finiteExtra(q, 1, 1e9), finiteFlat(closed, 3)) }),
			boolName(func() bool { return xy.IsPointInRing(geom.XYZM, withExtra(q, 2, k), flatOf(closed, 4, k)) }),
		})
		onlv = append(onlv, []string{
			boolName(func() bool { return xy.IsOnLine(geom.XY, q, flatOf(closed, 2, 0)) }),
			boolName(func() bool { return xy.IsOnLine(geom.XYM, finiteExtra(q, 1, -1e9), finiteFlat(closed, 3)) }),
			boolName(func() bool { return xy.IsOnLine(geom.XY, q, flatOf(closed[:n], 2, 0)) }), // the OPEN linestring
		})
		pilv = append(pilv, []string{
			boolName(func() bool {
				return lineintersector.PointIntersectsLine(lineintersector.RobustLineIntersector{}, q, closed[0], closed[1])
			}),
			boolName(func() bool {
				return lineintersector.PointIntersectsLine(lineintersector.RobustLineIntersector{}, q, closed[1], closed[0])
			}),
			boolName(func() bool {
				return lineintersector.PointIntersectsLine(lineintersector.RobustLineIntersector{}, finiteExtra(q, 2, 5), finiteExtra(closed[0], 1, 7), finiteExtra(closed[1], 3, 9))
			}),
		})
	}
	out := map[string]any{"loc": loc, "inring": inr, "online": onl, "onseg1": pil, "inringv": inrv, "onlinev": onlv, "onsegv": pilv}
	if len(c.Qs) > 0 {
		var xs [][]string
		for _, p := range closed {
			xs = append(xs, exactStrs(p[:2]))
		}
		var xq [][]string
		for _, q := range qs {
			xq = append(xq, exactStrs(q[:2]))
		}
		out["xring"], out["xqs"] = xs, xq
	}
	return out
}

// ------------------------------------------------------------------ C12
const segQ = 1024

func typeName(t lineintersection.Type) string {
	switch t {
	case lineintersection.NoIntersection:
		return "none"
	case lineintersection.PointIntersection:
		return "point"
	case lineintersection.CollinearIntersection:
		return "overlap"
	}
	return "other"
}

func segsegRow(a, b, c, d geom.Coord) map[string]any {
	row := map[string]any{"ev": "ok"}
	ev, msg := call(func() {
		r := lineintersector.LineIntersectsLine(lineintersector.RobustLineIntersector{}, a, b, c, d)
		row["t"] = typeName(r.Type())
		pts := []any{}
		for _, p := range r.Intersection() {
			pts = append(pts, numsOut(p[:2], segQ))
		}
		row["p"] = pts
		row["has"] = r.HasIntersection()
		n := lineintersector.LineIntersectsLine(lineintersector.NonRobustLineIntersector{}, a, b, c, d)
		row["nr"] = n.HasIntersection()
		row["nrt"] = typeName(n.Type())
	})
	if ev != "ok" {
		return map[string]any{"ev": "panic", "msg": msg, "t": "panic", "p": []any{}, "has": false, "nr": false, "nrt": "panic"}
	}
	return row
}

// case {a,b,n}: the segment a-b against every segment c-d (c # d) of the n x n grid; rows x-major over (c,d).
func segsegGridHandler(raw json.RawMessage) map[string]any {
	var c struct {
		A, B pt
		N    int
	}
	must(json.Unmarshal(raw, &c))
	a, b := c.A.coord(), c.B.coord()
	g := gridPts(c.N)
	var rows []any
	for i, p := range g {
		for j, q := range g {
			if i == j {
				continue
			}
			// inputs carry extra ordinates on every other row: the result must not depend on them
			k := 0
			if (i+j)%2 == 1 {
				k = 2
			}
			row := segsegRow(withExtra(a, k, i), withExtra(b, k, j), withExtra(p, k, i+j), withExtra(q, k, i))
			row["c"] = []int{int(p[0]), int(p[1])}
			row["d"] = []int{int(q[0]), int(q[1])}
			rows = append(rows, row)
		}
	}
	return map[string]any{"rows": rows}
}

// case {segs: [[a,b,c,d] ...]}: explicit pairs, each in all 8 argument symmetries.
func segsegListHandler(raw json.RawMessage) map[string]any {
	var c struct{ Segs [][]pt }
	must(json.Unmarshal(raw, &c))
	var rows []any
	for _, s := range c.Segs {
		p := []geom.Coord{s[0].coord(), s[1].coord(), s[2].coord(), s[3].coord()}
		for _, o := range [8][4]int{{0, 1, 2, 3}, {1, 0, 2, 3}, {0, 1, 3, 2}, {1, 0, 3, 2}, {2, 3, 0, 1}, {3, 2, 0, 1}, {2, 3, 1, 0}, {3, 2, 1, 0}} {
			row := segsegRow(p[o[0]], p[o[1]], p[o[2]], p[o[3]])
			row["x"] = [][]string{exactStrs(p[o[0]][:2]), exactStrs(p[o[1]][:2]), exactStrs(p[o[2]][:2]), exactStrs(p[o[3]][:2])}
			rows = append(rows, row)
		}
	}
	return map[string]any{"rows": rows}
}

// ------------------------------------------------------------------ C13
func hullObs(layout geom.Layout, flat []float64, viaGeom bool) map[string]any {
	stride := layout.Stride()
	in := append([]float64{}, flat...)
	out := map[string]any{"kind": "panic", "h": [][]string{}, "msg": ""}
	ev, msg := call(func() {
		var g geom.T
		if viaGeom {
			g = xy.ConvexHull(geom.NewMultiPointFlat(layout, in))
		} else {
			g = xy.ConvexHullFlat(layout, in)
		}
		if g == nil {
			out["kind"] = "nil"
			return
		}
		out["kind"] = map[string]string{"PT": "Point", "LS": "LineString", "PG": "Polygon"}[kindOf(g)]
		if out["kind"] == "" {
			out["kind"] = kindOf(g)
		}
		out["hl"] = layoutName(g.Layout())
		fc := g.FlatCoords()
		hs := g.Layout().Stride()
		h := [][]float64{}
		for i := 0; hs > 0 && i+hs <= len(fc); i += hs {
			h = append(h, append([]float64{}, fc[i:i+hs]...))
		}
		out["hf"] = h
		if pg, ok := g.(*geom.Polygon); ok {
			out["rings"] = pg.NumLinearRings()
		}
	})
	if ev != "ok" {
		out["msg"] = msg
	}
	same := len(in) == len(flat)
	for i := range flat {
		if math.Float64bits(flat[i]) != math.Float64bits(in[i]) {
			same = false
		}
	}
	out["inputsame"] = same
	_ = stride
	return out
}

// intPts renders points whose ordinates are all integers of small magnitude as ints (else -1 flag).
func intRows(rows [][]float64) ([][]int, bool) {
	out := make([][]int, len(rows))
	ok := true
	for i, r := range rows {
		out[i] = make([]int, len(r))
		for j, f := range r {
			if f != math.Trunc(f) || math.Abs(f) > 1<<30 {
				ok = false
				continue
			}
			out[i][j] = int(f)
		}
	}
	return out, ok
}

// case {pts: [[x,y],...], l: layout}: extra ordinates are filled with 100+index (distinct per input point)
// so that "carried over from the input" is observable. Both entry points are run.
func hullHandler(raw json.RawMessage) map[string]any {
	var c struct {
		Pts []pt
		L   string
	}
	must(json.Unmarshal(raw, &c))
	layout := layoutOf(c.L)
	stride := layout.Stride()
	var flat []float64
	var rows [][]float64
	for i, p := range c.Pts {
		r := []float64{float64(p[0]), float64(p[1])}
		for k := 2; k < stride; k++ {
			r = append(r, float64(100*(k-1)+i))
		}
		rows = append(rows, r)
		flat = append(flat, r...)
	}
	out := map[string]any{}
	pi, _ := intRows(rows)
	out["pts"] = pi
	for name, via := range map[string]bool{"flat": false, "geom": true} {
		o := hullObs(layout, flat, via)
		if hf, ok := o["hf"].([][]float64); ok {
			hi, isInt := intRows(hf)
			o["h"] = hi
			o["hint"] = isInt
			var xs [][]string
			for _, r := range hf {
				xs = append(xs, exactStrs(r))
			}
			o["hx"] = xs
			delete(o, "hf")
		} else {
			o["h"] = [][]int{}
			o["hint"] = true
		}
		out[name] = o
	}
	var xs [][]string
	for _, r := range rows {
		xs = append(xs, exactStrs(r))
	}
	out["x"] = xs
	return out
}

// ------------------------------------------------------------------ C15
const distQ = 256

func distRow(fs ...func() float64) []any {
	out := make([]any, len(fs))
	for i, f := range fs {
		r, msg := guardF(f)
		o := numOut(r, distQ)
		if msg != "" {
			o["t"] = "panic"
		}
		out[i] = o
	}
	return out
}

// case {op:"d2", a, b, n}: 2-D functions for the segment a-b (a = b allowed) against every point p and
// every segment c-d of the grid; {op:"d3", a, b, n}: the 3-D functions likewise (segments: c-d over the
// sub-lattice selected by "cd": list of index pairs, or all pairs when absent).
func distHandler(raw json.RawMessage) map[string]any {
	var c struct {
		Op   string
		A, B pt
		N    int
		Cd   [][2]int
	}
	must(json.Unmarshal(raw, &c))
	a, b := c.A.coord(), c.B.coord()
	out := map[string]any{}
	switch c.Op {
	case "d2":
		g := gridPts(c.N)
		var prow, srow []any
		for k, p := range g {
			pe := withExtra(p, k%3, k)
			prow = append(prow, map[string]any{"p": []int{int(p[0]), int(p[1])}, "r": distRow(
				func() float64 { return xy.DistanceFromPointToLine(pe, a, b) },
				func() float64 { return xy.DistanceFromPointToLine(p, b, a) },
				func() float64 { return xy.DistanceFromPointToLineString(geom.XY, p, []float64{a[0], a[1], b[0], b[1]}) },
				func() float64 {
					return xy.DistanceFromPointToLineString(geom.XYZ, withExtra(p, 1, k), []float64{a[0], a[1], 9, b[0], b[1], -9, a[0], a[1], 5})
				},
				func() float64 { return xy.PerpendicularDistanceFromPointToLine(pe, a, b) },
			)})
		}
		for i, p := range g {
			for j, q := range g {
				srow = append(srow, map[string]any{"c": []int{int(p[0]), int(p[1])}, "d": []int{int(q[0]), int(q[1])}, "r": distRow(
					func() float64 { return xy.DistanceFromLineToLine(a, b, p, q) },
					func() float64 { return xy.DistanceFromLineToLine(p, q, a, b) },
					func() float64 { return xy.DistanceFromLineToLine(b, a, q, p) },
					func() float64 {
						return xy.DistanceFromLineToLine(withExtra(a, 1, i), withExtra(b, 1, j), withExtra(p, 1, i+j), withExtra(q, 1, i))
					},
				)})
			}
		}
		// point against the three-vertex linestrings a-b-c (c over the grid), in both directions and in a layout with
		// an extra ordinate: the minimum over SEVERAL segments, whichever is visited first
		var lrow []any
		for k, p := range g {
			for _, q := range g {
				lrow = append(lrow, map[string]any{"p": []int{int(p[0]), int(p[1])}, "c": []int{int(q[0]), int(q[1])}, "r": distRow(
					func() float64 {
						return xy.DistanceFromPointToLineString(geom.XY, p, []float64{a[0], a[1], b[0], b[1], q[0], q[1]})
					},
					func() float64 {
						return xy.DistanceFromPointToLineString(geom.XY, p, []float64{q[0], q[1], b[0], b[1], a[0], a[1]})
					},
					func() float64 {
						return xy.DistanceFromPointToLineString(geom.XYM, withExtra(p, 1, k), []float64{a[0], a[1], 7, b[0], b[1], -7, q[0], q[1], 70})
					},
				)})
			}
		}
		out["pt"], out["seg"], out["pls"] = prow, srow, lrow
	case "d3":
		g := grid3(c.N)
		var prow, srow []any
		for _, p := range g {
			prow = append(prow, map[string]any{"p": []int{int(p[0]), int(p[1]), int(p[2])}, "r": distRow(
				func() float64 { return xyz.DistancePointToLine(p, a, b) },
				func() float64 { return xyz.DistancePointToLine(p, b, a) },
				func() float64 { return xyz.Distance(p, a) },
			)})
		}
		pair := func(i, j int) {
			p, q := g[i], g[j]
			srow = append(srow, map[string]any{"c": []int{int(p[0]), int(p[1]), int(p[2])}, "d": []int{int(q[0]), int(q[1]), int(q[2])}, "r": distRow(
				func() float64 { return xyz.DistanceLineToLine(a, b, p, q) },
				func() float64 { return xyz.DistanceLineToLine(p, q, a, b) },
				func() float64 { return xyz.DistanceLineToLine(b, a, q, p) },
			)})
		}
		if c.Cd != nil {
			for _, ij := range c.Cd {
				pair(ij[0]%len(g), ij[1]%len(g))
			}
		} else {
			for i := range g {
				for j := range g {
					pair(i, j)
				}
			}
		}
		out["pt"], out["seg"] = prow, srow
	}
	return out
}

// case {op:"x2"|"x3", segs:[[a,b,c,d],...]}: explicit (exact) inputs for the big-integer tier.
func distExactHandler(raw json.RawMessage) map[string]any {
	var c struct {
		Op   string
		Segs [][]pt
	}
	must(json.Unmarshal(raw, &c))
	var rows []any
	for _, s := range c.Segs {
		a, b, p, q := s[0].coord(), s[1].coord(), s[2].coord(), s[3].coord()
		var r []any
		dim := 2
		if c.Op == "x2" {
			r = distRow(
				func() float64 { return xy.DistanceFromLineToLine(a, b, p, q) },
				func() float64 { return xy.DistanceFromLineToLine(p, q, a, b) },
				func() float64 { return xy.DistanceFromPointToLine(p, a, b) },
				func() float64 { return xy.DistanceFromPointToLine(a, p, q) },
				func() float64 { return xy.PerpendicularDistanceFromPointToLine(p, a, b) },
				func() float64 {
					return xy.DistanceFromPointToLineString(geom.XY, p, []float64{a[0], a[1], b[0], b[1], q[0], q[1]})
				},
				func() float64 {
					return xy.DistanceFromPointToLineString(geom.XY, p, []float64{q[0], q[1], b[0], b[1], a[0], a[1]})
				},
			)
		} else {
			dim = 3
			r = distRow(
				func() float64 { return xyz.DistanceLineToLine(a, b, p, q) },
				func() float64 { return xyz.DistanceLineToLine(p, q, a, b) },
				func() float64 { return xyz.DistancePointToLine(p, a, b) },
				func() float64 { return xyz.DistancePointToLine(a, p, q) },
				func() float64 { return xyz.Distance(a, p) },
				func() float64 { return xyz.Distance(q, b) },
			)
		}
		rows = append(rows, map[string]any{"r": r, "x": [][]string{exactStrs(a[:dim]), exactStrs(b[:dim]), exactStrs(p[:dim]), exactStrs(q[:dim])}})
	}
	return map[string]any{"rows": rows}
}

// ------------------------------------------------------------------ C20
// case {pts, stride, thr: [num, den]}: threshold = num/den (exactly representable by construction).
func rdpHandler(raw json.RawMessage) map[string]any {
	var c struct {
		Pts    []pt
		Stride int
		Thr    [2]int
		// Fill: how the ordinates beyond x, y are chosen. "" = values unrelated to any coordinate; "next" = the LAST
		// ordinates of point i repeat (x, y) of point i+1, "prev" = the FIRST extra ordinates repeat (x, y) of point
		// i-1 (as far as the stride allows): the simplification must not care.
		Fill string
	}
	must(json.Unmarshal(raw, &c))
	thr := float64(c.Thr[0]) / float64(c.Thr[1])
	var flat []float64
	for i, p := range c.Pts {
		v := withExtra(p.coord(), c.Stride-2, i)
		switch {
		case c.Stride > 2 && c.Fill == "next" && i+1 < len(c.Pts):
			nx := c.Pts[i+1].coord()
			v[c.Stride-1] = nx[1]
			if c.Stride-2 >= 2 {
				v[c.Stride-2] = nx[0]
			}
		case c.Stride > 2 && c.Fill == "prev" && i > 0:
			pv := c.Pts[i-1].coord()
			v[2] = pv[0]
			if c.Stride > 3 {
				v[3] = pv[1]
			}
		}
		flat = append(flat, v...)
	}
	in := append([]float64{}, flat...)
	out := map[string]any{"idx": []int{}, "idx2": []int{}, "msg": ""}
	dp := [][]int{}
	ev, msg := call(func() {
		xy.VerifHook = func(ev string, args ...int) {
			if ev == "dp" && len(dp) < 5000 {
				dp = append(dp, append([]int{}, args...))
			}
		}
		idx := xy.SimplifyFlatCoords(flat, thr, c.Stride)
		xy.VerifHook = nil
		if idx == nil {
			idx = []int{}
		}
		out["idx"] = idx
		var simp []float64
		for _, k := range idx {
			if k < 0 || k >= len(c.Pts) {
				out["msg"] = "index out of range"
				return
			}
			simp = append(simp, flat[k*c.Stride:(k+1)*c.Stride]...)
		}
		idx2 := xy.SimplifyFlatCoords(simp, thr, c.Stride)
		if idx2 == nil {
			idx2 = []int{}
		}
		out["idx2"] = idx2
	})
	if ev != "ok" {
		out["ev"] = "panic"
		out["msg"] = msg
	}
	same := true
	for i := range flat {
		if math.Float64bits(flat[i]) != math.Float64bits(in[i]) {
			same = false
		}
	}
	out["inputsame"] = same
	out["dp"] = dp
	return out
}

// case {pts, l} (as for "hull"): the set / order components the hull is built from.
func setOrderHandler(raw json.RawMessage) map[string]any {
	var c struct {
		Pts []pt
		L   string
	}
	must(json.Unmarshal(raw, &c))
	layout := layoutOf(c.L)
	stride := layout.Stride()
	var flat []float64
	var rows [][]float64
	for i, p := range c.Pts {
		r := []float64{float64(p[0]), float64(p[1])}
		for k := 2; k < stride; k++ {
			r = append(r, float64(100*(k-1)+i))
		}
		rows = append(rows, r)
		flat = append(flat, r...)
	}
	in := append([]float64{}, flat...)
	rowsOf := func(fc []float64) [][]int {
		var rr [][]float64
		for i := 0; i+stride <= len(fc); i += stride {
			rr = append(rr, append([]float64{}, fc[i:i+stride]...))
		}
		out, _ := intRows(rr)
		if out == nil {
			out = [][]int{}
		}
		return out
	}
	out := map[string]any{"pan": "", "unique": [][]int{}, "treeset": [][]int{}, "sorted": [][]int{}}
	pi, _ := intRows(rows)
	out["pts"] = pi
	ev, msg := call(func() {
		out["unique"] = rowsOf(transform.UniqueCoords(layout, hullCmp{}, in))
		ts := transform.NewTreeSet(layout, hullCmp{})
		for i := 0; i+stride <= len(in); i += stride {
			ts.Insert(geom.Coord(in[i : i+stride]))
		}
		out["treeset"] = rowsOf(ts.ToFlatArray())
		cp := append([]float64{}, in...)
		sort.Sort(sorting.NewFlatCoordSorting2D(layout, cp))
		out["sorted"] = rowsOf(cp)
	})
	if ev != "ok" {
		out["pan"] = msg
	}
	same := true
	for i := range flat {
		if math.Float64bits(flat[i]) != math.Float64bits(in[i]) {
			same = false
		}
	}
	out["inputsame"] = same
	return out
}

func must(err error) {
	if err != nil {
		panic("harness: bad case: " + err.Error())
	}
}

func init() {
	handlers["orientgrid"] = orientGridHandler
	handlers["orientx"] = orientExactHandler
	handlers["locate"] = locateHandler
	handlers["segseggrid"] = segsegGridHandler
	handlers["segseglist"] = segsegListHandler
	handlers["hull"] = hullHandler
	handlers["dist"] = distHandler
	handlers["distx"] = distExactHandler
	handlers["rdp"] = rdpHandler
	// a HISTORY of simplifications made one after the other in this process (what one call leaves behind meets the next)
	handlers["rdpseq"] = func(raw json.RawMessage) map[string]any {
		var c struct{ Seq []json.RawMessage }
		must(json.Unmarshal(raw, &c))
		seq := []any{}
		for _, one := range c.Seq {
			o := map[string]any{"ev": "ok"}
			ev, msg := call(func() { o = rdpHandler(one) })
			if ev != "ok" {
				o = map[string]any{"ev": ev, "msg": msg}
			} else if _, has := o["ev"]; !has {
				o["ev"] = "ok"
			}
			seq = append(seq, o)
		}
		return map[string]any{"seq": seq}
	}
	tokModes["rdpseq"] = "int"
	handlers["setorder"] = setOrderHandler
	tokModes["setorder"] = "int"
	for _, s := range []string{"orientgrid", "orientx", "locate", "segseggrid", "segseglist", "hull", "dist", "distx", "rdp"} {
		tokModes[s] = "int"
	}
}

// ------------------------------------------------------------------ C09 / C14
// intOut renders f*mult when that is exactly an integer of small magnitude.
// intOut: f * mult as an integer when it is one (ok, v), and in any case in 2^-10 fixed point (qok, q) - the measures of the
// catalogue shapes are integers, "to within rounding" is judged on q.
func intOut(f float64, mult float64) map[string]any {
	v := f * mult
	o := map[string]any{"ok": false, "v": 0, "x": exactStr(f), "qok": false, "q": 0}
	if math.IsNaN(v) || math.IsInf(v, 0) {
		return o
	}
	if q := math.Round(v * 1024); math.Abs(q) < 2e9 {
		o["qok"], o["q"] = true, int(q)
	}
	if v == math.Trunc(v) && math.Abs(v) <= 2e9 {
		o["ok"], o["v"] = true, int(v)
	}
	return o
}

func xyExtra(p []int, stride int, salt int) geom.Coord {
	c := geom.Coord{float64(p[0]), float64(p[1])}
	for k := 2; k < stride; k++ {
		c = append(c, float64(1000*k+7*salt)+0.5)
	}
	return c
}

func ring1(ps [][]int, stride, salt int) []geom.Coord {
	out := make([]geom.Coord, len(ps))
	for i, p := range ps {
		out[i] = xyExtra(p, stride, salt+i)
	}
	return out
}

func ring2(rs [][][]int, stride, salt int) [][]geom.Coord {
	out := make([][]geom.Coord, len(rs))
	for i, r := range rs {
		out[i] = ring1(r, stride, salt+10*i)
	}
	return out
}

type measurer interface {
	Area() float64
	Length() float64
}

func measureOf(g measurer) map[string]any {
	out := map[string]any{"pan": ""}
	ev, msg := call(func() { out["a2"] = intOut(g.Area(), 2) })
	if ev != "ok" {
		out["pan"] = "Area: " + msg
		out["a2"] = map[string]any{"ok": false, "v": 0, "x": "panic", "qok": false, "q": 0}
	}
	ev, msg = call(func() { out["len"] = intOut(g.Length(), 1) })
	if ev != "ok" {
		out["pan"] = "Length: " + msg
		out["len"] = map[string]any{"ok": false, "v": 0, "x": "panic", "qok": false, "q": 0}
	}
	return out
}

// case {k, l, v}: v holds XY integer coordinates nested as the type requires; extra ordinates are filled with junk.
func measureHandler(raw json.RawMessage) map[string]any {
	var c struct {
		K, L string
		V    json.RawMessage
	}
	must(json.Unmarshal(raw, &c))
	layout := layoutOf(c.L)
	stride := layout.Stride()
	out := map[string]any{"parts": []any{}, "seterr": ""}
	parts := []any{}
	var whole measurer
	fail := func(err error) map[string]any {
		out["seterr"] = err.Error()
		out["whole"] = map[string]any{"pan": "", "a2": map[string]any{"ok": false, "v": 0, "x": "", "qok": false, "q": 0}, "len": map[string]any{"ok": false, "v": 0, "x": "", "qok": false, "q": 0}}
		return out
	}
	switch c.K {
	case "PT":
		v := dec[[]int](c.V)
		g := geom.NewPoint(layout)
		if len(v) > 0 {
			if _, err := g.SetCoords(xyExtra(v, stride, 1)); err != nil {
				return fail(err)
			}
		}
		whole = g
	case "MPT":
		v := dec[[][]int](c.V)
		cs := make([]geom.Coord, len(v))
		for i, p := range v {
			if len(p) > 0 {
				cs[i] = xyExtra(p, stride, i)
			}
		}
		g := geom.NewMultiPoint(layout)
		if _, err := g.SetCoords(cs); err != nil {
			return fail(err)
		}
		whole = g
	case "LS":
		g := geom.NewLineString(layout)
		if _, err := g.SetCoords(ring1(dec[[][]int](c.V), stride, 3)); err != nil {
			return fail(err)
		}
		whole = g
	case "LR":
		g := geom.NewLinearRing(layout)
		if _, err := g.SetCoords(ring1(dec[[][]int](c.V), stride, 3)); err != nil {
			return fail(err)
		}
		whole = g
	case "PG":
		g := geom.NewPolygon(layout)
		if _, err := g.SetCoords(ring2(dec[[][][]int](c.V), stride, 5)); err != nil {
			return fail(err)
		}
		whole = g
		for i := 0; i < g.NumLinearRings(); i++ {
			parts = append(parts, measureOf(g.LinearRing(i)))
		}
	case "MLS":
		g := geom.NewMultiLineString(layout)
		if _, err := g.SetCoords(ring2(dec[[][][]int](c.V), stride, 5)); err != nil {
			return fail(err)
		}
		whole = g
		for i := 0; i < g.NumLineStrings(); i++ {
			parts = append(parts, measureOf(g.LineString(i)))
		}
	case "MPG":
		v := dec[[][][][]int](c.V)
		cs := make([][][]geom.Coord, len(v))
		for i, p := range v {
			cs[i] = ring2(p, stride, 100*i)
		}
		g := geom.NewMultiPolygon(layout)
		if _, err := g.SetCoords(cs); err != nil {
			return fail(err)
		}
		whole = g
		for i := 0; i < g.NumPolygons(); i++ {
			parts = append(parts, measureOf(g.Polygon(i)))
		}
	}
	out["whole"] = measureOf(whole)
	out["parts"] = parts
	// the same value in other representations: handed to the New<Kind>Flat constructor with every end-offset slice present
	// (an empty member is an empty, non-nil slice there; the setters leave nil), and the Clone of that
	alts := []any{}
	if ev, _ := call(func() {
		if f := reFlat(whole.(geom.T)); f != nil {
			alts = append(alts, measureOf(f.(measurer)), measureOf(clone(f).(measurer)))
		}
	}); ev != "ok" {
		alts = append(alts, map[string]any{"pan": "constructor", "a2": map[string]any{"ok": false, "v": 0, "x": "panic", "qok": false, "q": 0},
			"len": map[string]any{"ok": false, "v": 0, "x": "panic", "qok": false, "q": 0}})
	}
	out["alts"] = alts
	return out
}

// reFlat rebuilds g from copies of its flat coordinates and end offsets through the Flat constructor of its type; nil
// end-offset slices become empty non-nil ones.
func reFlat(g geom.T) geom.T {
	flat := append([]float64{}, g.FlatCoords()...)
	ends := append([]int{}, g.Ends()...)
	l := g.Layout()
	switch g := g.(type) {
	case *geom.Point:
		if len(flat) == 0 {
			return geom.NewPointEmpty(l)
		}
		return geom.NewPointFlat(l, flat)
	case *geom.LineString:
		return geom.NewLineStringFlat(l, flat)
	case *geom.LinearRing:
		return geom.NewLinearRingFlat(l, flat)
	case *geom.Polygon:
		return geom.NewPolygonFlat(l, flat, ends)
	case *geom.MultiLineString:
		return geom.NewMultiLineStringFlat(l, flat, ends)
	case *geom.MultiPoint:
		return geom.NewMultiPointFlat(l, flat, geom.NewMultiPointFlatOptionWithEnds(ends))
	case *geom.MultiPolygon:
		endss := make([][]int, 0, len(g.Endss()))
		for _, es := range g.Endss() {
			endss = append(endss, append([]int{}, es...))
		}
		return geom.NewMultiPolygonFlat(l, flat, endss)
	}
	return nil
}

const cenQ = 256

func cenOut(f func() geom.Coord) map[string]any {
	out := map[string]any{"pan": "", "x": numOut(math.NaN(), cenQ), "y": numOut(math.NaN(), cenQ), "n": 0}
	ev, msg := call(func() {
		c := f()
		out["n"] = len(c)
		if len(c) >= 2 {
			out["x"], out["y"] = numOut(c[0], cenQ), numOut(c[1], cenQ)
		}
	})
	if ev != "ok" {
		out["pan"] = msg
	}
	return out
}

func shiftRing(ps [][]int, off []int) [][]int {
	out := make([][]int, len(ps))
	for i, p := range ps {
		out[i] = []int{p[0] + off[0], p[1] + off[1]}
	}
	return out
}

// case {kind: "poly"|"lines"|"points", polys|lines|pts (un-shifted integer XY), off: [ox, oy]}:
// the driver shifts by off, builds the geometries in a layout chosen from the case digest and calls
// every centroid entry point; for polygons also ring direction and signed area of every ring.
func centroidHandler(raw json.RawMessage) map[string]any {
	var c struct {
		Kind  string
		Polys [][][][]int
		Lines [][][]int
		Pts   [][]int
		Off   []int
		Gaps  []int
	}
	must(json.Unmarshal(raw, &c))
	salt := 0
	for _, b := range raw {
		salt = (salt*31 + int(b)) % 9973
	}
	layout := []geom.Layout{geom.XY, geom.XYZ, geom.XYM, geom.XYZM, geom.Layout(5)}[salt%5]
	stride := layout.Stride()
	out := map[string]any{"l": layoutName(layout)}
	res := []any{}
	switch c.Kind {
	case "poly":
		var polys []*geom.Polygon
		mp := geom.NewMultiPolygon(layout)
		rings := []any{}
		for i, p := range c.Polys {
			var rs [][][]int
			for _, r := range p {
				rs = append(rs, shiftRing(r, c.Off))
			}
			pg := geom.NewPolygon(layout)
			if _, err := pg.SetCoords(ring2(rs, stride, 10*i)); err != nil {
				panic("harness: " + err.Error())
			}
			polys = append(polys, pg)
			if err := mp.Push(pg); err != nil {
				panic("harness: " + err.Error())
			}
			for j := 0; j < pg.NumLinearRings(); j++ {
				fc := pg.LinearRing(j).FlatCoords()
				ro := map[string]any{"ccw": false, "pan": ""}
				ev, msg := call(func() { ro["ccw"] = xy.IsRingCounterClockwise(layout, fc) })
				if ev != "ok" {
					ro["pan"] = msg
				}
				ev, msg = call(func() { ro["sa2"] = intOut(xy.SignedArea(layout, fc), 2) })
				if ev != "ok" {
					ro["pan"] = msg
					ro["sa2"] = map[string]any{"ok": false, "v": 0, "x": "panic", "qok": false, "q": 0}
				}
				rings = append(rings, ro)
			}
		}
		res = append(res,
			cenOut(func() geom.Coord { return xy.PolygonsCentroid(polys[0], polys[1:]...) }),
			cenOut(func() geom.Coord { return xy.MultiPolygonCentroid(mp) }),
			cenOut(func() geom.Coord { c, _ := xy.Centroid(mp); return c }))
		if len(polys) == 1 {
			res = append(res, cenOut(func() geom.Coord { c, _ := xy.Centroid(polys[0]); return c }))
		}
		out["rings"] = rings
	case "lines":
		var lines []*geom.LineString
		var lrs []*geom.LinearRing
		ml := geom.NewMultiLineString(layout)
		for i, l := range c.Lines {
			ls := geom.NewLineString(layout)
			if _, err := ls.SetCoords(ring1(shiftRing(l, c.Off), stride, 10*i)); err != nil {
				panic("harness: " + err.Error())
			}
			lines = append(lines, ls)
			lr := geom.NewLinearRing(layout)
			lc := l // the linear ring is the CLOSED line (first point repeated when the line is open)
			if len(l) > 0 && (l[0][0] != l[len(l)-1][0] || l[0][1] != l[len(l)-1][1]) {
				lc = append(append([][]int{}, l...), l[0])
			}
			if _, err := lr.SetCoords(ring1(shiftRing(lc, c.Off), stride, 10*i)); err != nil {
				panic("harness: " + err.Error())
			}
			lrs = append(lrs, lr)
			if err := ml.Push(ls); err != nil {
				panic("harness: " + err.Error())
			}
		}
		res = append(res,
			cenOut(func() geom.Coord { return xy.LinesCentroid(lines[0], lines[1:]...) }),
			cenOut(func() geom.Coord { return xy.MultiLineCentroid(ml) }),
			cenOut(func() geom.Coord { return xy.LinearRingsCentroid(lrs[0], lrs[1:]...) }),
			cenOut(func() geom.Coord { c, _ := xy.Centroid(ml); return c }))
		if len(lines) == 1 {
			res = append(res, cenOut(func() geom.Coord { c, _ := xy.Centroid(lines[0]); return c }),
				cenOut(func() geom.Coord { c, _ := xy.Centroid(lrs[0]); return c }))
		}
	case "points":
		var pts []*geom.Point
		mp := geom.NewMultiPoint(layout)
		var flat []float64
		gap := func(j int) {
			if j < len(c.Gaps) && c.Gaps[j] == 1 {
				if err := mp.Push(geom.NewPointEmpty(layout)); err != nil {
					panic("harness: " + err.Error())
				}
			}
		}
		for i, p := range shiftRing(c.Pts, c.Off) {
			gap(i)
			pt := geom.NewPoint(layout)
			if _, err := pt.SetCoords(xyExtra(p, stride, i)); err != nil {
				panic("harness: " + err.Error())
			}
			pts = append(pts, pt)
			if err := mp.Push(pt); err != nil {
				panic("harness: " + err.Error())
			}
			flat = append(flat, xyExtra(p, stride, i)...)
		}
		gap(len(c.Pts))
		res = append(res,
			cenOut(func() geom.Coord { return xy.PointsCentroid(pts[0], pts[1:]...) }),
			cenOut(func() geom.Coord { return xy.MultiPointCentroid(mp) }),
			cenOut(func() geom.Coord { return xy.PointsCentroidFlat(layout, flat) }),
			cenOut(func() geom.Coord { c, _ := xy.Centroid(mp); return c }))
		if len(pts) == 1 {
			res = append(res, cenOut(func() geom.Coord { c, _ := xy.Centroid(pts[0]); return c }))
		}
	}
	out["res"] = res
	return out
}

func init() {
	handlers["measure"] = measureHandler
	handlers["centroid"] = centroidHandler
	tokModes["measure"] = "int"
	tokModes["centroid"] = "int"
}

// case {polys: [[[ [x,y] exact ...] ring] polygon], l}: Area() and Length() of the MultiPolygon built from the
// exact coordinates, of its polygons and of the first ring as a LinearRing; results exact.
func measureXHandler(raw json.RawMessage) map[string]any {
	var c struct {
		Polys [][][]pt
		L     string
	}
	must(json.Unmarshal(raw, &c))
	layout := layoutOf(c.L)
	stride := layout.Stride()
	mp := geom.NewMultiPolygon(layout)
	var xs [][][][]string
	parts := []string{}
	for pi, p := range c.Polys {
		var rings [][]geom.Coord
		var xr [][][]string
		for ri, r := range p {
			var ring []geom.Coord
			var xring [][]string
			for i, q := range r {
				co := q.coord()
				full := append(geom.Coord{}, co[:2]...)
				for k := 2; k < stride; k++ {
					full = append(full, float64(7*k+i+ri+pi)*1e150)
				}
				ring = append(ring, full)
				xring = append(xring, exactStrs(co[:2]))
			}
			rings = append(rings, ring)
			xr = append(xr, xring)
		}
		pg := geom.NewPolygon(layout).MustSetCoords(rings)
		if err := mp.Push(pg); err != nil {
			panic("harness: " + err.Error())
		}
		xs = append(xs, xr)
		a, msg := guardF(pg.Area)
		if msg != "" {
			parts = append(parts, "panic")
		} else {
			parts = append(parts, exactStr(a))
		}
	}
	out := map[string]any{"x": xs, "parts": parts}
	a, msg := guardF(mp.Area)
	out["area"] = exactStr(a)
	if msg != "" {
		out["area"] = "panic"
	}
	// Length() of the whole, of every polygon, and of every ring as a LineString and as a LinearRing
	lens := map[string]any{}
	rec := func(key string, f func() float64) {
		v, msg := guardF(f)
		if msg != "" {
			lens[key] = "panic"
		} else {
			lens[key] = exactStr(v)
		}
	}
	rec("mp", mp.Length)
	for pi := 0; pi < mp.NumPolygons(); pi++ {
		pg := mp.Polygon(pi)
		rec(fmt.Sprintf("pg%d", pi), pg.Length)
		for ri := 0; ri < pg.NumLinearRings(); ri++ {
			lr := pg.LinearRing(ri)
			rec(fmt.Sprintf("lr%d.%d", pi, ri), lr.Length)
			rec(fmt.Sprintf("ls%d.%d", pi, ri), geom.NewLineStringFlat(layout, lr.FlatCoords()).Length)
		}
	}
	out["lens"] = lens
	return out
}

func init() {
	handlers["measurex"] = measureXHandler
	tokModes["measurex"] = "int"
}

// ------------------------------------------------------------------ extras (beyond the listed properties)
func extrasHandler(raw json.RawMessage) map[string]any {
	var c struct {
		Op          string
		Cs          [][]int
		Dim, Val    int
		Start, Stop int
		A, O, B     pt
		C, D        pt
	}
	must(json.Unmarshal(raw, &c))
	out := map[string]any{"pan": ""}
	lineOf := func() *geom.LineString {
		st := len(c.Cs[0])
		var flat []float64
		for _, co := range c.Cs {
			for _, v := range co {
				flat = append(flat, float64(v))
			}
		}
		return geom.NewLineStringFlat(layoutOfStride(st), flat)
	}
	switch c.Op {
	case "interpolate":
		out["i"], out["fq"] = -1, 0
		ev, msg := call(func() {
			i, f := lineOf().Interpolate(float64(c.Val), c.Dim-1)
			out["i"], out["fq"] = i, int(math.Round(f*1024))
		})
		if ev != "ok" {
			out["pan"] = msg
		}
	case "sub":
		out["sub"], out["shares"] = [][]int{}, false
		ev, msg := call(func() {
			ls := lineOf()
			sub := ls.SubLineString(c.Start, c.Stop)
			rows := [][]float64{}
			for i := 0; i < sub.NumCoords(); i++ {
				rows = append(rows, append([]float64{}, sub.Coord(i)...))
			}
			ri, _ := intRows(rows)
			if ri == nil {
				ri = [][]int{}
			}
			out["sub"] = ri
			shares := true
			if sub.NumCoords() > 0 {
				sub.FlatCoords()[0] = -5
				shares = ls.FlatCoords()[c.Start*ls.Stride()] == -5
			}
			out["shares"] = shares
		})
		if ev != "ok" {
			out["pan"] = msg
		}
	case "angle":
		out["acute"] = xy.IsAcute(c.A.coord(), c.O.coord(), c.B.coord())
		out["obtuse"] = xy.IsObtuse(c.A.coord(), c.O.coord(), c.B.coord())
	case "lineint":
		out["x"], out["y"] = numOut(math.NaN(), 1024), numOut(math.NaN(), 1024)
		ev, msg := call(func() {
			p := bigxy.Intersection(c.A.coord(), c.B.coord(), c.C.coord(), c.D.coord())
			out["x"], out["y"] = numOut(p[0], 1024), numOut(p[1], 1024)
		})
		if ev != "ok" {
			out["pan"] = msg
		}
	case "transform":
		after := [][]int{}
		if len(c.Cs) > 0 {
			ls := lineOf()
			i := 0
			geom.TransformInPlace(ls, func(co geom.Coord) {
				i++
				for k := range co {
					co[k] += float64(k + 1 + 10*i)
				}
			})
			rows := [][]float64{}
			for j := 0; j < ls.NumCoords(); j++ {
				rows = append(rows, append([]float64{}, ls.Coord(j)...))
			}
			after, _ = intRows(rows)
		}
		out["after"] = after
	case "layout":
		l := geom.Layout(c.Val)
		out["stride"], out["z"], out["m"], out["name"] = l.Stride(), l.ZIndex(), l.MIndex(), l.String()
	case "maybeempty":
		// Cs[0]: one entry per ordinate, 1 = the canonical "empty point" NaN, 0 = an ordinary number, 2 = another NaN
		flat := make([]float64, len(c.Cs[0]))
		for k, v := range c.Cs[0] {
			switch v {
			case 1:
				flat[k] = math.Float64frombits(geom.PointEmptyCoordHex)
			case 2:
				flat[k] = math.Float64frombits(0x7FF8000000000001)
			default:
				flat[k] = float64(10 + k)
			}
		}
		out["empty"], out["n"] = false, -1
		ev, msg := call(func() {
			p := geom.NewPointFlatMaybeEmpty(layoutOfStride(len(flat)), flat)
			out["empty"], out["n"] = p.Empty(), len(p.FlatCoords())
		})
		if ev != "ok" {
			out["pan"] = msg
		}
	}
	return out
}

func init() {
	handlers["extras"] = extrasHandler
	tokModes["extras"] = "int"
}
