module verifharness

go 1.22

require github.com/twpayne/go-geom v0.0.0

replace github.com/twpayne/go-geom => /repo
