#!/usr/bin/env python3
"""usage: tools/eval_benign.py <Cxx> <k> [--checks C01,C02] [--tier quick]
Takes a BENIGN change written by a sub-agent (/tmp/wt/B<Cxx>/_seed/k), confirms that it builds and that the complete
existing test suite passes with it (in the scratch worktree), stores it under benign/<Cxx>-<k>/, applies it to /repo,
runs the named checks (default: the property's own) - which must stay silent (exit 0) - and undoes it."""
import json, os, shutil, subprocess, sys, time
ROOT = os.path.dirname(os.path.dirname(os.path.abspath(__file__)))
a = sys.argv[1:]
prop, k = a[0], a[1]
checks, tier = [prop], "quick"
for i, x in enumerate(a):
    if x == "--checks":
        checks = a[i + 1].split(",")
    if x == "--tier":
        tier = a[i + 1]
wt = "/tmp/wt/B%s" % prop
src = "%s/_seed/%s" % (wt, k)
dstname = "%s-%s" % (prop, k)
for i, x in enumerate(a):
    if x == "--as":
        dstname = a[i + 1]
dst = os.path.join(ROOT, "benign", dstname)
env = dict(os.environ, GOFLAGS="-mod=mod", GOPROXY="off", GOSUMDB="off", GOTOOLCHAIN="local")
meta_path = os.path.join(dst, "meta.json")
meta = json.load(open(meta_path)) if os.path.exists(meta_path) else {}
if os.path.isdir(src) and "--noconfirm" not in a:
    subprocess.run(["git", "-C", wt, "checkout", "-q", "--", "."])
    p = subprocess.run(["git", "-C", wt, "apply", os.path.join(src, "patch.diff")], capture_output=True, text=True)
    if p.returncode != 0:
        print("patch does not apply in its own worktree:", p.stderr[:300]); sys.exit(9)
    b = subprocess.run("go build ./... && go build -tags verif ./... && go test -vet=off -count=1 ./...", shell=True, cwd=wt, env=env,
                       capture_output=True, text=True)
    subprocess.run(["git", "-C", wt, "checkout", "-q", "--", "."])
    if b.returncode != 0:
        print("benign change does not build / pass the suite - not kept:", (b.stdout + b.stderr)[-600:]); sys.exit(1)
    os.makedirs(dst, exist_ok=True)
    for f in os.listdir(src):
        if os.path.isfile(os.path.join(src, f)) and os.path.getsize(os.path.join(src, f)) < 200000:
            shutil.copy(os.path.join(src, f), dst)
    meta.update(property=prop, kind="benign", confirmed="builds (with and without -tags verif) and passes the complete test suite", when=time.strftime("%Y-%m-%d %H:%M"))
patch = os.path.join(dst, "patch.diff")
# applied to a scratch worktree of /repo's HEAD (never to /repo itself); evidence / replays of these runs go to VERIF_OUT
scratch = "/tmp/evalrepo-B%s-%d" % (dstname, os.getpid())
subprocess.run(["git", "-C", "/repo", "worktree", "add", "-q", "--detach", scratch, "HEAD"], check=True)
res = meta.setdefault("checks", {})
try:
    p = subprocess.run(["git", "-C", scratch, "apply", patch], capture_output=True, text=True)
    if p.returncode != 0:
        print("patch does not apply to /repo's HEAD:", p.stderr[:300]); sys.exit(9)
    cenv = dict(os.environ, VERIF_REPO=scratch, VERIF_OUT=scratch + "-out")
    for c in checks:
        t = time.time()
        q = subprocess.run([os.path.join(ROOT, "check"), c, "--tier", tier], capture_output=True, text=True, cwd=ROOT, env=cenv)
        lines = [l for l in q.stdout.splitlines() if l.startswith(("VIOLATION", "  sig=", "KNOWN"))]
        res["%s/%s" % (c, tier)] = dict(rc=q.returncode, seconds=round(time.time() - t), sigs=[l.strip()[:300] for l in lines if "sig=" in l][:6])
        print("check %s --tier %s on BENIGN %s -> rc=%d %s" % (c, tier, dstname, q.returncode, "(silent, as required)" if q.returncode == 0 else "  <-- ALARM ON A BENIGN CHANGE"))
        for l in lines[:6]:
            print("   ", l[:260])
        if q.returncode == 2:
            print((q.stdout + q.stderr)[-800:])
finally:
    subprocess.run(["git", "-C", "/repo", "worktree", "remove", "--force", scratch])
    shutil.rmtree(scratch + "-out", ignore_errors=True)
meta["alarms"] = sorted(c for c, r in res.items() if r["rc"] != 0)
json.dump(meta, open(meta_path, "w"), indent=1)
