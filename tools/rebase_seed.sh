#!/bin/sh
# usage: tools/rebase_seed.sh <orig patch> <out patch>
# Rebases a seeded patch written against the pinned commit onto /repo's HEAD (hooks + fixes): the patch is applied
# to the pinned version of the hooked files and the add-only hook lines are re-inserted mechanically.
set -e
P=$1; OUT=$2; BASE=0a78a9d
cd /repo
if git apply --check "$P" 2>/dev/null; then cp "$P" "$OUT"; echo "applies as is"; exit 0; fi
for f in $(git apply --numstat "$P" | awk '{print $3}'); do git show $BASE:$f > $f; done
git apply "$P"
for f in $(git apply --numstat "$P" | awk '{print $3}'); do
  case $f in
    encoding/wkt/lex.go) python3 /verif/tools/hooks/wkt_hook_insert.py $f;;
    *) for h in /verif/tools/hooks/*.sh; do [ -f "$h" ] && sh "$h" "$f"; done;;
  esac
done
git diff > "$OUT"
git checkout -- .
echo "rebased -> $OUT"
