#!/bin/sh
# usage: tools/mutest.sh <patch.diff> <Cxx> [tier]   -- apply a seeded change to /repo, run one check, undo the change
set -u
P=$1; C=$2; T=${3:-quick}
git -C /repo apply "$P" 2>/dev/null || git -C /repo apply -3 "$P" 2>/dev/null || (cd /repo && patch -p1 -s --fuzz=3 --no-backup-if-mismatch < "$P") || { echo "patch does not apply"; git -C /repo checkout -- .; exit 9; }
git -C /repo reset -q
(cd /verif && ./check "$C" --tier "$T" >/tmp/mutest.$$.out 2>/tmp/mutest.$$.err); rc=$?
git -C /repo checkout -- . ; git -C /repo clean -fdq
grep -E '^(VIOLATION|KNOWN-FINDING|  sig=)' /tmp/mutest.$$.out | cut -c1-260 | head -12
[ $rc -eq 2 ] && tail -5 /tmp/mutest.$$.err
rm -f /tmp/mutest.$$.out /tmp/mutest.$$.err
echo "check $C on $(basename $(dirname $P)) -> rc=$rc"
exit $rc
