#!/bin/sh
# usage: tools/reeval_all.sh <parallel> [pattern]   re-runs every stored seeded change (seeded/Cxx-k) against the current
# checks - the same checks its meta.json lists as catching it - in scratch worktrees of /repo's HEAD; one line per change.
# /repo and /verif/evidence are not touched.
PAR=${1:-4}; PAT=${2:-C}
mkdir -p /tmp/reeval
ls -d /verif/seeded/${PAT}* | xargs -n1 basename | xargs -P "$PAR" -I{} sh -c 'p=$(echo {} | cut -d- -f1); k=$(echo {} | cut -d- -f2); cd /verif; cs=$(python3 -c "import json;m=json.load(open(\"seeded/{}/meta.json\"));print(\",\".join(sorted({c.split(\"/\")[0] for c,r in m.get(\"checks\",{}).items() if r.get(\"rc\")==1}) or [\"$p\"]))"); python3 tools/eval_seed.py $p $k --as {} --noconfirm --checks $cs > /tmp/reeval/{}.log 2>&1; echo "{}: [$cs] $(grep -o "rc=[0-9]" /tmp/reeval/{}.log | tr "\n" " ")"'
