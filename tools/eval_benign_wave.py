#!/usr/bin/env python3
"""usage: tools/eval_benign_wave.py <offset> <parallel> Cxx...
Confirms and evaluates the BENIGN changes _seed/1,2 of /tmp/wt/B<Cxx> as benign/Cxx-(k+offset) against the property's own
check and its neighbours; properties in parallel, the two changes of one property one after the other."""
import subprocess, sys, os
from concurrent.futures import ThreadPoolExecutor
ROOT = os.path.dirname(os.path.dirname(os.path.abspath(__file__)))
NEIGH = {"C01": "C01,C02,C16", "C02": "C02,C01", "C03": "C03,C04", "C04": "C04,C03", "C05": "C05,C06,C18", "C06": "C06,C05", "C07": "C07,C18,C17",
         "C08": "C08,C07", "C09": "C09", "C10": "C10,C11,C12", "C11": "C11,C13", "C12": "C12,C11,C15,C17", "C13": "C13,C17", "C14": "C14",
         "C15": "C15", "C16": "C16,C01,C02", "C17": "C17,C12,C07", "C18": "C18,C05,C07", "C19": "C19,C17", "C20": "C20"}
off, par, props = int(sys.argv[1]), int(sys.argv[2]), sys.argv[3:]


def one(prop):
    out = []
    for k in (1, 2):
        name = "%s-%d" % (prop, k + off)
        p = subprocess.run([sys.executable, os.path.join(ROOT, "tools/eval_benign.py"), prop, str(k), "--as", name, "--checks", NEIGH[prop]],
                           capture_output=True, text=True, cwd=ROOT)
        lines = [l for l in p.stdout.splitlines() if l.startswith("check ") or "not kept" in l or "does not apply" in l]
        bad = (not lines) or any("ALARM" in l or "not kept" in l or "does not apply" in l for l in lines)
        out.append("%s: %s%s" % (name, " | ".join(l.split("->")[-1].strip()[:40] for l in lines), ("\n   <-- LOOK:\n" + p.stdout[-2500:]) if bad else ""))
    return "\n".join(out)


with ThreadPoolExecutor(max_workers=par) as ex:
    for r in ex.map(one, props):
        print(r, flush=True)
