#!/usr/bin/env python3-vt
"""Validates MANIFEST.json and every evidence file against the given schemas (tooling venv has jsonschema)."""
import glob, json, sys
import jsonschema
ok = True
try:
    jsonschema.validate(json.load(open('/verif/MANIFEST.json')), json.load(open('/root/.vp/MANIFEST.schema.json')))
    print("MANIFEST.json valid")
except Exception as e:
    ok = False; print("MANIFEST invalid:", str(e)[:500])
sch = json.load(open('/root/.vp/EVIDENCE.schema.json'))
for f in sorted(glob.glob('/verif/evidence/*.json')):
    try:
        jsonschema.validate(json.load(open(f)), sch)
    except Exception as e:
        ok = False; print(f, "INVALID:", str(e)[:300])
print("evidence files checked:", len(glob.glob('/verif/evidence/*.json')))
sys.exit(0 if ok else 1)
