#!/bin/sh
# usage: tools/mut1.sh <file-in-repo> <sed-expression> <Cxx> [tier] -- one-line scripted mutation, run check, undo
F=$1; E=$2; C=$3; T=${4:-quick}
cd /repo && sed -i "$E" "$F" && git diff --stat | tail -1
if git diff --quiet; then echo "mutation did not change anything"; exit 9; fi
(export GOFLAGS=-mod=mod GOPROXY=off GOSUMDB=off GOTOOLCHAIN=local; go build ./... ) || { git checkout -- .; echo "does not compile"; exit 9; }
(cd /verif && ./check "$C" --tier "$T" >/tmp/mut1.$$.out 2>/tmp/mut1.$$.err); rc=$?
git -C /repo checkout -- .
grep -E '^(VIOLATION|KNOWN-FINDING|  sig=)' /tmp/mut1.$$.out | cut -c1-220 | head -8
[ $rc -eq 2 ] && tail -5 /tmp/mut1.$$.err
rm -f /tmp/mut1.$$.out /tmp/mut1.$$.err
echo "mutation of $F: check $C -> rc=$rc"
