#!/usr/bin/env python3
"""Regenerates /verif/MANIFEST.json from the table below (keeps it valid and current)."""
import json
import os

ROOT = os.path.dirname(os.path.dirname(os.path.abspath(__file__)))

TB = ("TLC / SANY (tla2tools 1.8.0) and the CommunityModules Json reader; the Go driver's projection of values "
      "through the public API and its token->float64 palette; TLC's 32-bit integers (overflow aborts the run: exit 2)")

CLAIMED = {
    "C01": dict(
        text="Model checking of the GeomOps/FlatGeom specification (TLC, exhaustive over all histories up to the "
             "bound for 8 geometry kinds x 7 layouts incl. NoLayout and Layout(5/6)), every transition of the state "
             "graph replayed on real geom values, and every recorded projection decided by TLC against "
             "WellFormedObj / Deflate / Inflate of the spec.",
        ref="DESIGN.md 3.1, 4-C01",
        technique="TLA+ spec (FlatGeom, GeomOps) + TLC exhaustive exploration; spec->code replay of every "
                  "transition; code->spec observation checking by TLC"),
    "C02": dict(
        text="Model checking: TLC enumerates every history of Push / Push-wrong-layout / Reverse / Swap / Clone / "
             "SetLayout up to the bound from empty Polygon, MultiPoint, MultiLineString, MultiPolygon and "
             "GeometryCollection values; each transition's behaviour is replayed on the real types and TLC folds the "
             "spec's Apply over the history, requiring the full API projection (flat, ends, endss, Coords, every "
             "part accessor, error class, pushed parts unchanged) to agree after every step.",
        ref="DESIGN.md 3.1, 4-C02",
        technique="TLA+ spec (GeomOps) + TLC exhaustive exploration; replay of every state-graph transition; "
                  "trace validation by folding Apply in TLC"),
    "C16": dict(
        text="Model checking: TLC enumerates histories ...; Clone; mutation* for the 7 cloneable geometry types "
             "(plus a fixed probe tail of mutations of both objects); the design-level action property "
             "CloneIndependent is checked on the model and the same statement is evaluated by TLC on the "
             "projections recorded from the real code (clone equals original at clone time, no later action on one "
             "side changes what the API shows of the other).",
        ref="DESIGN.md 3.1, 4-C16",
        technique="TLA+ spec (GeomOps, ghost spare-capacity flag) + TLC; replay of every transition; "
                  "projection-level independence checked by TLC on recorded traces"),
}

CLAIMED["C05"] = dict(
    text="Model checking: the WKTRender specification (canonical token sequence of a geometry tree, from the OGC "
         "grammar) and the WKTParser specification (reference reader) are shown to agree by TLC on every tree of "
         "the bounded model; the real encoder's text, tokenised independently, must equal Render(g), the library's "
         "parser must read it back to g (coordinate identity by bit pattern), and every spelling variant "
         "(case, white space/CRLF, attached/detached suffix, exponent notation, parenthesised multipoint members) "
         "must parse to g - all decided by TLC on the recorded observations.",
    ref="DESIGN.md 3.4, 4-C05",
    technique="TLA+ specs (WKTRender, WKTParser) + TLC; enumeration of geometry trees; observation checking of "
              "encoder output and parses by TLC")
CLAIMED["C06"] = dict(
    text="Model checking of a token-level transcription of the parser (grammar as pushdown recogniser + the layout "
         "stack with all panic sites as values): TLC checks NoPanic/StackNonEmpty/AcceptedAtTop on the model and "
         "enumerates ALL grammatical token strings up to the bound (full alphabet) plus family alphabets to 12-15 "
         "tokens; each string is rendered with rotating spellings and parsed by the real parser with the verif hook "
         "on; TLC requires the same verdict, exactly the model's sequence of validator events with identical layout "
         "stacks, the same layout and geometry tree as the reference reader, a uniform layout, and an equal result "
         "after re-encoding and parsing again.",
    ref="DESIGN.md 3.4, 4-C06, 5",
    technique="TLA+ spec mirroring the parser (WKTParser) + TLC exhaustive string enumeration; trace validation of "
              "hook events (layout-stack operations) against the spec's log")

CLAIMED["C03"] = dict(
    text="Model checking: the WKB specification contains an independent reference encoder (ISO WKB / PostGIS EWKB, "
         "type words assembled bytewise from the format documents) and a reference decoder; TLC checks on every "
         "geometry tree x byte order x flavour x SRID of the bounded model that the two halves agree, and then decides "
         "the real code's observations: Marshal bytes equal Enc(g) byte for byte, decoding returns Canon(g) and "
         "consumes exactly the encoding, a writer failing at EVERY byte position gets an error reported and only a "
         "prefix, two concatenated encodings read through 10 reader schedules (1/2/3/7-byte, mixed, as-asked, "
         "data-with-EOF, zero-length deliveries) decode one after another with exact consumption, hex output is "
         "the lower-case hex of those bytes and both cases decode, the database/sql wrappers accept exactly their "
         "own type and return the NDR encoding.",
    ref="DESIGN.md 3.3, 4-C03",
    technique="TLA+ spec (WKB: reference encoder + decoder) + TLC; enumeration of geometry trees; observation "
              "checking of bytes, stream schedules, writer fault positions, hex and SQL wrappers by TLC")
CLAIMED["C04"] = dict(
    text="Model checking: TLC enumerates mutations of valid encodings (every truncation, byte substitutions over "
         "the first 48 positions x 12 values - byte order, type word, flags, SRID, every count field -, "
         "concatenations) x 4 element-limit settings (incl. disabled, restricted to counts backed by input) x "
         "NaN mode, checks the reference decoder's own totality invariants, and decides each real decode (direct, "
         "hex, SQL) by evaluating the reference decoder on the SAME bytes: same accept/reject, too-large reported "
         "when the spec says so, same geometry and bytes consumed, well-formed result (FlatGeom predicate), "
         "re-encode/decode stable, TotalAlloc within a bound derived from input length and limits; a decode that "
         "kills its (address-space limited) process is a reported crash.",
    ref="DESIGN.md 3.3, 4-C04",
    technique="TLA+ reference decoder (WKB!Decode) evaluated by TLC on every recorded input; TLC-enumerated "
              "mutation space; allocation measured around each call")

TBX = ("TLC / SANY (tla2tools 1.8.0), Apalache 0.58 + Z3 for the big-integer tier, the CommunityModules Json reader; "
       "the Go driver's lossless rendering of float64 as m*2^e and the orchestrator's exact scaling to integers; "
       "fixed-point rounding of non-integer outputs in the TLC tier (tolerance widened accordingly)")
CLAIMED["C10"] = dict(
    text="Model checking: ExactGeom!Orient is the exact sign of the cross product. TLC enumerates every pair (a,b) of "
         "an N x N grid, checks antisymmetry / cyclic invariance / the collinearity characterisation of the oracle "
         "itself, and the real bigxy.OrientationIndex and xy.OrientationIndex are run on every triple of the grid "
         "(with junk extra ordinates) and decided by TLC. The region where the floating-point filter hands over to "
         "the extended-precision fallback is unreachable on any grid TLC can hold, so a seeded family of "
         "near-collinear float64 triples (classic 0.5+i*2^-53 family, exactly collinear lattice lines perturbed by "
         "0-4 ulps, magnitudes 2^-300..2^300) is converted to exact integers and decided by Apalache on the same "
         "operator, on all six argument orders.",
    ref="DESIGN.md 3.7, 4-C10", note="Bounded: grid size N; float tier is a seeded sample. Trusted base: " + TBX,
    technique="TLA+ spec (ExactGeom!Orient) + TLC exhaustive grid enumeration + Apalache (unbounded integers) on "
              "recorded float64 observations")
CLAIMED["C11"] = dict(
    text="Model checking: ExactGeom!Locate states the even-odd rule with an exact on-boundary test. TLC enumerates "
         "every vertex sequence of 3..4 points on the grid (self-intersecting, repeated, collinear, horizontal "
         "edges, vertices level with the query), checks that the oracle is invariant under reversal and rotation, "
         "and the real LocatePointInRing / IsPointInRing / IsOnLine / PointIntersectsLine are run for every grid "
         "query point against the ring and its reversed, rotated, vertex-duplicated, XYZ / XYZM / Layout(5) "
         "variants; TLC decides every answer. Seeded rings of 3-8 vertices on grids up to 4000 with query points on, one "
         "step off and level with the edges are decided by TLC as well, and point-on-line over float inputs (one-decimal "
         "ordinates, exactly-on, rounded-on and decimal-collinear families) is decided exactly by Apalache.",
    ref="DESIGN.md 3.7, 4-C11, 13.1", note="Bounded: grid size and ring length of the .cfg. Trusted base: " + TBX,
    technique="TLA+ spec (ExactGeom!Locate, OnLine) + TLC exhaustive enumeration of rings; observation checking by TLC")
CLAIMED["C12"] = dict(
    text="Model checking: ExactGeom!SegSegClass / SharedEnds / CrossPt define the classification, the overlap "
         "endpoints and the rational crossing point from orientation and on-segment tests only. TLC enumerates every "
         "non-degenerate segment of the grid, checks the oracle's own symmetry under exchanging and reversing "
         "segments, and the robust intersector is run against every other segment (all 8 argument symmetries are in "
         "the enumeration): class, HasIntersection, exact shared endpoints, exact overlap endpoints, crossing "
         "point within the fixed-point tolerance, and the non-robust strategy's has-intersection are decided by TLC.",
    ref="DESIGN.md 3.7, 4-C12", note="Bounded: grid size. Crossing-point accuracy is a gross-error check (2^-9) in "
                                     "this tier. Trusted base: " + TBX,
    technique="TLA+ spec (ExactGeom!SegSegClass, CrossPt) + TLC exhaustive enumeration of segment pairs; "
              "observation checking by TLC")
CLAIMED["C13"] = dict(
    text="Model checking: ExactGeom!IsHullOf is the definition of a correct answer (vertices are input points with "
         "all their ordinates, all input on one closed side of every edge, strictly turning, distinct vertices, "
         "closed ring; two extreme points for collinear input; a point for coincident input) - it does not "
         "prescribe start vertex or direction. TLC enumerates every sequence of 1..K points on a 3x3 grid (all "
         "duplicate patterns) x layouts, plus seeded multisets of 1..200 points (both sides of the 50-point "
         "reduction; collinear, coincident, few-distinct and circle-like families) and decides both ConvexHullFlat "
         "and ConvexHull outputs, input snapshot unchanged, layout and ring count.",
    ref="DESIGN.md 3.7, 4-C13", note="Bounded: K and grid of the .cfg; seeded sample for large inputs. Trusted base: " + TBX,
    technique="TLA+ spec (ExactGeom!IsHullOf) + TLC exhaustive enumeration of small point sequences + seeded large "
              "inputs; observation checking of the predicate by TLC")
CLAIMED["C15"] = dict(
    text="Model checking: ExactGeom gives squared distances as exact rationals (point-segment by projection "
         "cases, segment-segment as the minimum of a convex quadratic over the parameter square: four edges plus the "
         "interior critical point). TLC enumerates every segment (zero length included) of the 2-D grid and of the "
         "3-D lattice, checks symmetry and zero-iff-meeting of the oracle, and every 2-D and 3-D distance function "
         "is run against every point and every segment in several argument orders and directions; TLC decides "
         "|got - sqrt(num/den)| in 2^-8 fixed point, never NaN, never a panic.",
    ref="DESIGN.md 3.7, 4-C15", note="Bounded: lattice size; tolerance 1.5/256 (gross-error tier). Trusted base: " + TBX,
    technique="TLA+ spec (ExactGeom!SqDist*) + TLC exhaustive enumeration of configurations; observation checking by TLC")
CLAIMED["C20"] = dict(
    text="Model checking: ExactGeom!ValidSimplification states what a correct result is (strictly increasing "
         "indexes incl. first and last; every omitted point within the threshold of the chord of its retained "
         "neighbours, as an exact rational comparison) - not how it is computed. TLC enumerates every sequence of "
         "0..K points on a 3x3 grid x 5 thresholds x stride 2..5, plus seeded sequences up to 200 points (collinear "
         "runs, loops, repeats); the returned indexes, the re-simplification of the result (fixed point) and the "
         "input snapshot are decided by TLC. The verif hook in dpWorker logs every processed interval; TLC validates the "
         "trace against a state machine over the set of pending intervals (split exactly when a farthest point exceeds "
         "the threshold, at a farthest point; order of processing and tie-breaking left open).",
    ref="DESIGN.md 3.7, 4-C20, 13.2", note="Bounded: K; thresholds are exactly representable rationals. Trusted base: " + TBX,
    technique="TLA+ spec (ExactGeom!ValidSimplification + interval state machine) + TLC exhaustive enumeration of point "
              "sequences; observation checking and hook-trace validation by TLC")

CLAIMED["C09"] = dict(
    text="Model checking: ExactSums states area (shoelace sum, counter-clockwise positive) and length as integer sums "
         "and the measures of nested values as sums over their parts. TLC enumerates every sequence of up to 3 parts "
         "from a catalogue of rings / lines / polygons (empty ring, empty polygon, polygon with an empty ring, "
         "degenerate two-point ring at every position) for all 7 types x layouts, checks that two formulas for the "
         "area agree on the catalogue, and the real Area() / Length() of the whole geometry and of every part "
         "accessor are decided exactly by TLC; a panic is a violation. The rounding clause for Area() is decided by "
         "Apalache (MeasureBig!AreaOK, a fold over the edges in exact integers) on seeded rings with arbitrary float64 "
         "ordinates up to 2^200 placed far from the origin: |Area - exact| <= (n+8) 2^-52 sum|trapezoid terms| / 2.",
    ref="DESIGN.md 3.1, 3.7, 4-C09, 13.1",
    note="Bounded: catalogue and sequence length; seeded sample for the numeric tier; the rounding bound of Length() "
         "(square roots) is not decided. Trusted base: " + TBX,
    technique="TLA+ spec (ExactSums: Area2, Length, additivity) + TLC exhaustive enumeration of nested shapes; "
              "MeasureBig!AreaOK decided by Apalache on recorded float64 observations")
CLAIMED["C14"] = dict(
    text="Model checking: ExactSums gives the mean, the length-weighted and the area-weighted centroid as exact "
         "rationals from the textbook sums (shell counted with |area|, holes with -|area|, zero total area falls "
         "back to the length-weighted centroid). TLC assembles polygons from a catalogue of simple shells "
         "(convex, concave, flat top, unique top) in both directions and every start vertex, with subsets of holes "
         "in both directions, one or two members, offsets up to 1e5, zero-area polygons, polylines and point sets; "
         "it checks on the catalogue itself that rings are simple, holes strictly inside, and that the oracle is "
         "translation-equivariant and direction-independent; every centroid entry point, IsRingCounterClockwise "
         "and SignedArea are decided by TLC (centroids in 2^-8 fixed point relative to the offset, direction and "
         "area exactly).",
    ref="DESIGN.md 3.7, 4-C14", note="Bounded: catalogue-based valid polygons. Trusted base: " + TBX,
    technique="TLA+ spec (ExactSums: centroid numerators, Area2) + TLC enumeration of catalogue polygons; "
              "observation checking by TLC")

CLAIMED["C08"] = dict(
    text="Model checking: the Bounds specification states the box on NAMED dimensions (x, y, z, m), so order "
         "independence and Z-with-Z / M-with-M are part of the definition; TLC checks on the model that the tight box "
         "does not depend on the order of extension and that Overlap is symmetric. It enumerates every history of "
         "Extend calls up to the bound over a palette mixing XY/XYZ/XYM/XYZM geometries (empty, one, two coords) "
         "from every initial layout, every collection tree nested to depth 2 with mixed layouts and empty members, "
         "and every pair of small boxes (incl. the canonical empty box) / box and point; after every step the real "
         "Layout/Min/Max/IsEmpty, each geometry's own Bounds(), GeometryCollection.Bounds(), Overlaps (both "
         "directions) and OverlapsPoint are decided by TLC.",
    ref="DESIGN.md 3.2, 4-C08", note="Bounded: history length, palette, tree depth, interval endpoints. Trusted base: " + TB,
    technique="TLA+ spec (Bounds: Tight, Join, Overlap) + TLC exhaustive enumeration of Extend histories, collection "
              "trees and box pairs; trace/observation checking by TLC")

CLAIMED["C19"] = dict(
    text="Model checking: the IGC specification has (1) a line-level model of the decoder whose state mirrors "
         "decode.go (A seen, date, last instant, announced B length, extension ranges) with every column the decoder "
         "indexes accounted for (invariant NoIndexOutOfRange), and (2) the format the encoder must write (A record, "
         "date header on every new UTC day, truncated milli-minutes, hemisphere letters, clamped altitude) with the "
         "round-trip statement; TLC checks on the model that the decoder applied to the prescribed format returns "
         "every instant for 1970..2069 (two-digit-year window, leap days, midnight, 1999/2000). It enumerates every "
         "sequence of up to 4 records over 22 line kinds (contiguous / gapped / reversed / over-announced I tables, "
         "short and long B records, malformed and boundary date headers, records before A) and every non-decreasing "
         "track of up to 3 fixes over palettes incl. the poles, the antimeridian and out-of-range altitudes; the "
         "real igc.Read / Encoder are run on all of them plus seeded mutations of sample files, and TLC decides fix "
         "count, error count, instants, positions within 1/60000 degree, clamped altitudes, whole fixes, no panic.",
    ref="DESIGN.md 3.6, 4-C19", note="Bounded: line alphabet, sequence and track length. Byte-stream mutations are "
                                     "decided for totality and whole fixes only. Trusted base: " + TB,
    technique="TLA+ spec (IGC: decoder line model + encoder format) + TLC exhaustive enumeration of record sequences "
              "and tracks; observation checking by TLC")

CLAIMED["C07"] = dict(
    text="Model checking: the GeoJSON specification states what an RFC 7946 reader understands (EncGeom / EncFeature "
         "/ EncFC as tagged JSON trees) and a TOTAL decoder on arbitrary JSON values incl. the encoding/json rules "
         "that matter (null into slice / number, wrong kind, missing member), with the carve-outs characterised "
         "exactly (RoundTrips, Canon); TLC checks on the model that decoding the encoder's output is the identity "
         "on the property's domain for geometries, features and collections. It enumerates geometry trees with "
         "2/3/4/5 ordinates per position and XYM, empty members at every position, nested collections; features "
         "with every id kind, bbox of 4 / 6 / none, property maps, null geometry; feature collections; and a "
         "bounded universe of ~6500 documents (wrong kinds at every level, ragged arrays, nulls, unknown / missing "
         "members, forged ids and bboxes). The real Marshal output - parsed by encoding/json into a generic tree - "
         "and every Unmarshal result (accept/reject, value, well-formedness by the FlatGeom predicate, no panic) "
         "are decided by TLC.",
    ref="DESIGN.md 3.5, 4-C07", note="Bounded: tree shapes and the JSON universe of the model. Trusted base: " + TB +
                                     "; encoding/json as the independent JSON reader",
    technique="TLA+ spec (GeoJSON: encoder + total decoder) + TLC enumeration of geometries, features and JSON "
              "documents; observation checking by TLC")

CLAIMED["C18"] = dict(
    text="Model checking: Decimal!RoundOK states the property on exact integers (a float64 is mant*2^k, a literal is "
         "digits/10^nfrac): at most d fractional digits, no trailing zero, |literal - value| <= 10^-d/2; Apalache "
         "decides it for every literal the WKT encoder, the GeoJSON encoder and the GeoJSON bounding box write for a "
         "palette of 40 values (decimal ties, neighbours of powers of ten, 5e-324, 1.8e308, -0, values that round to "
         "zero or across a power of ten) plus seeded floats, for every d in 0..15. The structural half is decided by "
         "TLC: for every tree of the WKT model the encoder's tokens with numbers blanked equal the canonical rendering "
         "for each digit limit, and for every bbox-capable geometry of the GeoJSON model the JSON tree equals the RFC "
         "object with a bbox member of the right arity and values, with the two options given in either order.",
    ref="DESIGN.md 3.8, 4-C18", note="Bounded: value palette + seeded sample; trees of the two models. The literal is "
                                     "split into sign / digits / fraction by a regular expression in the orchestrator. "
                                     "Trusted base: " + TBX,
    technique="TLA+ spec (Decimal!RoundOK) decided by Apalache on recorded literals with exact integers; TLA+ specs "
              "(WKTRender, GeoJSON) + TLC for structure")

CLAIMED["C17"] = dict(
    text="Model checking + trace validation: the Calls specification models N client processes calling library "
         "functions on shared cells, each call a Start, a sequence of single-cell reads and a Return; TLC explores all "
         "interleavings of 2-3 processes x 2 calls and shows that a read-only footprint makes every call return its "
         "sequential result (two controls with an operation that sorts its argument in place must be - and are - "
         "rejected, so the model is not vacuous). The real code is bound to it by trace validation: 29 groups of "
         "non-mutating exported functions (measures, bounds, accessors, clone, hull, centroids, simplification, ring / "
         "point / segment predicates, 2-D and 3-D distances, intersectors, every encoder and decoder incl. hex, SQL "
         "Value, IGC) are called on 11 shared arguments, first alone (twice each) and then from 8 (quick) / 32 "
         "(thorough) goroutines at once in a binary built with -race; TLC checks on the event log that every "
         "argument and package variable keeps its initial bitwise snapshot, that every call - sequential repeat or "
         "concurrent - returns the digest it returned alone, and that the race detector reported no race whose "
         "writing access is in go-geom.",
    ref="DESIGN.md 3.8, 4-C17, 8",
    note="The race detector is the sensor for memory accesses (TLA+ cannot observe them); a control run in which the "
         "harness itself sorts a shared slice must produce reports, otherwise the check exits 2. Interleavings of the "
         "real code are those the scheduler produced. Trusted base: " + TB + "; Go's race detector",
    technique="TLA+ spec (Calls) model-checked by TLC over all interleavings + trace validation of recorded call "
              "events (CallsTrace) with Go's race detector as the sensor")

NOT_YET = {}


def main():
    props = [json.loads(l) for l in open(os.path.join(ROOT, "properties.jsonl"))]
    checks, na = [], []
    for p in props:
        i = p["id"]
        if i in CLAIMED:
            c = CLAIMED[i]
            checks.append(dict(
                property_id=i,
                quick_cmd="./check %s --tier quick" % i,
                thorough_cmd="./check %s --tier thorough" % i,
                evidence_file="evidence/%s.json" % i,
                replay_cmd_template="./check %s --replay {path}" % i,
                engine="tla-model-based",
                level_claimed=dict(category=c.get("category", "model_checking"), text=c["text"], design_ref=c["ref"]),
                level_note=c.get("note", "Bounded: constants of the .cfg files (history length, part alphabets, "
                                         "layouts). Trusted base: " + TB),
                technique=c["technique"]))
        else:
            na.append(dict(property_id=i, reason=NOT_YET.get(i, "check not built yet in this revision of /verif "
                                                              "(planned: DESIGN.md section 4-%s); nothing is claimed" % i)))
    m = dict(
        version=1,
        setup_cmd="./tools/setup.sh",
        hooks=dict(guard="verif", enable="go build -tags verif (the checks build /verif/harness against /repo's "
                                         "working tree with this tag)",
                   baseline_off_cmd="cd /repo && GOFLAGS=-mod=mod GOPROXY=off GOSUMDB=off go test -vet=off -count=1 -timeout 25m ./...",
                   source_commits=HOOK_COMMITS, add_only=True),
        engines=[dict(name="tla-model-based", path="check",
                      serves_properties=[c["property_id"] for c in checks],
                      kind_free_text="explicit TLA+ specifications (specs/*.tla) checked by TLC/Apalache; spec->code "
                                     "replay and code->spec observation/trace checking through a Go driver "
                                     "(harness/) built from /repo's working tree")],
        checks=checks,
        not_applicable=na,
        notes="Every verdict is computed by a model checker evaluating the TLA+ text on observations recorded from "
              "the real code; exit 2 = infrastructure problem, never a verdict. Known findings: findings/known.jsonl.")
    json.dump(m, open(os.path.join(ROOT, "MANIFEST.json"), "w"), indent=1)
    print("MANIFEST.json: %d checks, %d not_applicable" % (len(checks), len(na)))


HOOK_COMMITS = ["6f9adbc", "a081719", "fe307dd"]

if __name__ == "__main__":
    main()
