#!/usr/bin/env python3
"""usage: tools/eval_seed.py <Cxx> <k> [--checks C01,C16] [--tier quick|thorough] [--noconfirm]
Confirms a sub-agent's seeded change (tools/confirm_seed.sh), stores it under seeded/<Cxx>-<k>/, applies it to /repo,
runs the named checks (default: the property's own), undoes it, and records the outcome in meta.json."""
import json, os, shutil, subprocess, sys, glob, time
ROOT = os.path.dirname(os.path.dirname(os.path.abspath(__file__)))
a = sys.argv[1:]
prop, k = a[0], a[1]
checks = [prop]
tier = "quick"
confirm = True
for i, x in enumerate(a):
    if x == "--checks":
        checks = a[i + 1].split(",")
    if x == "--tier":
        tier = a[i + 1]
    if x == "--noconfirm":
        confirm = False
wt = "/tmp/wt/%s" % prop
src = "%s/_seed/%s" % (wt, k)
dstname = "%s-%s" % (prop, k)
for i, x in enumerate(a):
    if x == "--as":
        dstname = a[i + 1]
dst = os.path.join(ROOT, "seeded", dstname)
meta_path = os.path.join(dst, "meta.json")
meta = json.load(open(meta_path)) if os.path.exists(meta_path) else {}
if confirm and os.path.isdir(src):
    p = subprocess.run([os.path.join(ROOT, "tools/confirm_seed.sh"), wt, k], capture_output=True, text=True)
    print(p.stdout.strip()[-400:])
    if p.returncode != 0:
        print("seed not confirmed - not kept")
        sys.exit(1)
    os.makedirs(dst, exist_ok=True)
    for f in os.listdir(src):
        if os.path.isfile(os.path.join(src, f)) and os.path.getsize(os.path.join(src, f)) < 200000:
            shutil.copy(os.path.join(src, f), dst)
    meta.update(property=prop, confirmed=dict(by="tools/confirm_seed.sh in the sub-agent's scratch worktree",
                result=p.stdout.strip().splitlines()[-2:], when=time.strftime("%Y-%m-%d %H:%M")))
    notes = os.path.join(dst, "notes.md")
    if os.path.exists(notes):
        meta["needs_to_manifest"] = "see notes.md"
patch = os.path.join(dst, "patch.diff")
# the change is applied to a scratch worktree of /repo's HEAD (never to /repo itself); the checks are pointed at it with
# VERIF_REPO and write their evidence / replays under VERIF_OUT, so /verif/evidence keeps describing the unchanged tree
# and several changes can be evaluated at the same time
scratch = "/tmp/evalrepo-%s-%d" % (dstname, os.getpid())
subprocess.run(["git", "-C", "/repo", "worktree", "add", "-q", "--detach", scratch, "HEAD"], check=True)
res = meta.setdefault("checks", {})
try:
    p = subprocess.run(["git", "-C", scratch, "apply", patch], capture_output=True, text=True)
    if p.returncode != 0:
        print("patch does not apply to /repo's HEAD:", p.stderr[:300]); sys.exit(9)
    env = dict(os.environ, VERIF_REPO=scratch, VERIF_OUT=scratch + "-out")
    for c in checks:
        t = time.time()
        q = subprocess.run([os.path.join(ROOT, "check"), c, "--tier", tier], capture_output=True, text=True, cwd=ROOT, env=env)
        lines = [l for l in q.stdout.splitlines() if l.startswith(("VIOLATION", "  sig=", "KNOWN"))]
        res["%s/%s" % (c, tier)] = dict(rc=q.returncode, seconds=round(time.time() - t), sigs=[l.strip()[:200] for l in lines if "sig=" in l][:6])
        print("check %s --tier %s on seed %s -> rc=%d" % (c, tier, dstname, q.returncode))
        for l in lines[:6]:
            print("   ", l[:220])
        if q.returncode == 2:
            print(q.stderr[-800:])
finally:
    subprocess.run(["git", "-C", "/repo", "worktree", "remove", "--force", scratch])
    shutil.rmtree(scratch + "-out", ignore_errors=True)
meta["caught_by"] = sorted(c for c, r in res.items() if r["rc"] == 1)
json.dump(meta, open(meta_path, "w"), indent=1)
