"""C20: Douglas-Peucker simplification honours its threshold."""
import random
import vlib
from props import exact_common as ec

PIPES = {"rdp": ec.pipe("rdp"), "rdpseq": ec.pipe("rdpseq")}


def seeded(seed, n):
    r = random.Random(seed)
    out = []
    for _ in range(n):
        cnt = r.choice([0, 1, 2, 3, 7, 20, 60, 200])
        grid = r.choice([3, 5, 12, 40])
        mode = r.choice(["any", "collinear-runs", "loop", "repeats", "zigzag", "spiral"])
        pts = []
        x, y = r.randrange(grid), r.randrange(grid)
        if mode in ("zigzag", "spiral"):
            # shapes whose farthest point always lies near one end of the pending interval, so that the interval stack grows
            # as deep as the line is long: a zig-zag whose teeth shrink by one unit each, and a staircase of shrinking steps
            # (ordinates stay below 64: cross products squared must fit TLC's 32-bit integers)
            cnt = r.choice([18, 19, 20, 33, 34, 35, 40, 60])
            for k in range(cnt):
                if mode == "zigzag":
                    pts.append([k, (cnt - k) if k % 2 else -(cnt - k)])
                else:
                    pts.append([k, ((cnt - k) * (cnt - k)) // cnt if k % 2 else 0])
            if r.randrange(2):
                pts.reverse()
            cnt = 0
        for k in range(cnt):
            if mode == "collinear-runs" and k % 5:
                x, y = min(grid * 4, x + 1), y
            elif mode == "repeats" and k % 3 == 0:
                pass
            else:
                x, y = r.randrange(grid), r.randrange(grid)
            pts.append([x, y])
        if mode == "loop" and pts:
            pts.append(pts[0][:])
        ox, oy = r.choice([(0, 0), (-grid, -grid), (-3 * grid, 2), (r.randrange(-grid, 1), r.randrange(-grid, 1))])
        if mode in ("zigzag", "spiral"):
            ox, oy = r.choice([(0, 0), (-30, -5)])             # (keeps every ordinate below 64 in magnitude)
        pts = [[x + ox, y + oy] for x, y in pts]                  # anywhere in the plane
        thrs = [[0, 1], [1, 2], [1, 1], [3, 2], [2, 1], [5, 1], [1, 4]]
        if grid <= 12:
            thrs += [[1, 3], [2, 3], [7, 5], [1, 10]]             # thresholds that are not float64 values (ties stay far from rounding)
        out.append(dict(pts=pts, stride=r.choice([2, 3, 4, 5]), fill=r.choice(["", "", "next", "prev"]), thr=r.choice(thrs)))
        continue
        out.append(dict(pts=pts, stride=r.choice([2, 3, 4, 5]), fill=r.choice(["", "", "next", "prev"]), thr=r.choice([[0, 1], [1, 2], [1, 1], [3, 2], [2, 1], [5, 1], [1, 4]])))
    return out


def ramps(seed, n):
    """Consecutive cases whose point counts grow slowly (N, then N + 3, then N + 4 / N, 4N/3, 3N/2): the driver simplifies
    them one after the other in one process, so scratch storage that a call leaves behind (a pooled mask, a reused stack) meets
    a slightly larger line next. The second line has corners everywhere (everything retained), the third one is almost
    straight (only its ends are retained): what the second call marked must not show in the third result."""
    r = random.Random(seed * 7 + 2)
    out = []
    for i in range(n):
        N = r.choice([8, 13, 21, 40, 55, 100, 130])
        M, K = (N + 3, N + 4) if i % 2 == 0 else (N + N // 3, N + N // 2)
        stride = r.choice([2, 3, 4])
        thr = r.choice([[1, 1], [3, 2], [2, 1]])
        out.append(dict(pts=[[k % 40, (k * 7) % 11] for k in range(N)], stride=stride, fill="", thr=thr))
        out.append(dict(pts=[[k % 50, 10 if k % 2 else -10] for k in range(M)], stride=stride, fill="", thr=thr))      # all corners
        out.append(dict(pts=[[k % 60, 0] for k in range(K)], stride=stride, fill="", thr=thr))       # along one line (ordinates < 64)
    return out


def run(ctx, verdict):
    fam = ec.family(ctx, verdict, "rdp", nontrivial=lambda c: len(c["pts"]) >= 3)
    # the same enumerated sequences with extra ordinates that repeat a neighbour's (x, y): "extra ordinates are ignored"
    alias = [dict(c, fill=f) for c in fam if c["stride"] > 2 and len(c["pts"]) >= 3 for f in ("next", "prev")]
    vlib.note_cases(ctx, alias)
    ec.pipe("rdp")(ctx, verdict, alias)
    cases = seeded(ctx.seed, 250 if ctx.quick else 5000)
    rs = ramps(ctx.seed, 12 if ctx.quick else 400)
    hist = [dict(seq=rs[i:i + 3]) for i in range(0, len(rs), 3)]        # each history is ONE case: a replay repeats all of it
    vlib.note_cases(ctx, hist)
    ec.pipe("rdpseq")(ctx, verdict, hist)
    ctx.coverage_extra["histories_of_three_simplifications"] = len(hist)
    vlib.note_cases(ctx, cases, nontrivial=lambda c: len(c["pts"]) >= 3)
    ec.pipe("rdp")(ctx, verdict, cases)
