"""Shared WKT pipeline (C05, C06): token sequences -> text -> real parser (hook on) -> model B."""
import vlib


def pipe(ctx, verdict, cases, name="wkt"):
    obs = vlib.run_driver(ctx, "wkt", cases)
    viols = vlib.model_b(ctx, "WKTObs", "Obs.cfg", obs, name="WKTObs")
    for idx, v in viols:
        verdict.add(name, v["sig"], cases[idx], dict(text=v["text"]))
    return obs


def enumerate_strings(ctx, cfg, timeout=1500):
    out, r = vlib.model_a(ctx, "MCWKT", cfg, ["CASE"], timeout=timeout)
    cases = out["CASE"]
    cases.sort(key=lambda c: vlib.digest(c))
    ctx.coverage_extra.setdefault("model_a", []).append(
        dict(cfg=cfg, states=r["distinct"], transitions=r["generated"], strings=len(cases)))
    return cases
