"""C11: point location against rings and lines is exact."""
import random
import vlib
from props import exact_common as ec

PIPES = {"locate": ec.pipe("locate")}


def seeded(seed, n):
    """Rings of 3..8 vertices on grids up to 4000 with query points aimed at the boundary cases: lattice points ON
    edges (at every ratio the grid allows), their neighbours one step away, vertices, points level with a vertex,
    points on the supporting line beyond an edge, and random points."""
    r = random.Random(seed)
    out = []
    for k in range(n):
        G = r.choice([6, 6, 12, 30, 100, 1000, 4000])
        m = r.choice([3, 3, 4, 5, 6, 8])
        ring = [ec.rnd_pt(r, G) for _ in range(m)]
        if k % 5 == 0:          # a horizontal edge and a repeated vertex
            ring[1] = [ring[0][0] + r.randrange(1, G + 1), ring[0][1]]
            ring[-1] = ring[-2][:]
        qs = []
        closed = ring + [ring[0]]
        for i in range(m):
            a, b = closed[i], closed[i + 1]
            p = ec.lattice_on(r, a, b)
            qs.append(p)
            qs.append([p[0] + r.choice([-1, 1]), p[1]])
            qs.append([p[0], p[1] + r.choice([-1, 1])])
            qs.append([a[0] - r.randrange(0, G + 1), a[1]])          # level with a vertex, to its left
            qs.append([2 * b[0] - a[0], 2 * b[1] - a[1]])            # on the supporting line, beyond b
        qs.append(ring[0][:])
        qs += [ec.rnd_pt(r, G) for _ in range(4)]
        out.append(dict(ring=ring, n=0, qs=qs[:48]))
    return out


def run(ctx, verdict):
    ec.family(ctx, verdict, "locate", nontrivial=lambda c: len({tuple(p) for p in c["ring"]}) >= 3)
    cases = seeded(ctx.seed, 1500 if ctx.quick else 20000)
    vlib.note_cases(ctx, cases, nontrivial=lambda c: len({tuple(p) for p in c["ring"]}) >= 3)
    ec.pipe("locate")(ctx, verdict, cases)
    ctx.coverage_extra["seeded"] = dict(rings=len(cases), grids=[6, 12, 30, 100, 1000, 4000], queries_per_ring="<= 48")
    ctx.assumptions += ["rings: every vertex sequence of 3..K points on the N x N grid (self-intersecting, repeated and "
                        "collinear vertices included), closed by the driver; each ring also reversed, rotated, with "
                        "duplicated vertices and in XYZ / XYZM / Layout(5) with junk extra ordinates (NaN, +-Inf)",
                        "seeded tier: rings of 3..8 vertices on grids up to 4000 (cross products stay within TLC's "
                        "32-bit integers) with query points on, next to and level with the edges"]
