"""C11: point location against rings and lines is exact."""
import random
import vlib
from props import exact_common as ec

PIPES = {"locate": ec.pipe("locate")}


def seeded(seed, n):
    """Rings of 3..8 vertices on grids up to 4000 with query points aimed at the boundary cases: lattice points ON
    edges (at every ratio the grid allows), their neighbours one step away, vertices, points level with a vertex,
    points on the supporting line beyond an edge, and random points."""
    r = random.Random(seed)
    out = []
    for k in range(n):
        G = r.choice([6, 6, 12, 30, 100, 1000, 4000])
        m = r.choice([3, 3, 4, 5, 6, 8])
        ring = [ec.rnd_pt(r, G) for _ in range(m)]
        if k % 5 == 0:          # a horizontal edge and a repeated vertex
            ring[1] = [ring[0][0] + r.randrange(1, G + 1), ring[0][1]]
            ring[-1] = ring[-2][:]
        qs = []
        closed = ring + [ring[0]]
        for i in range(m):
            a, b = closed[i], closed[i + 1]
            p = ec.lattice_on(r, a, b)
            qs.append(p)
            qs.append([p[0] + r.choice([-1, 1]), p[1]])
            qs.append([p[0], p[1] + r.choice([-1, 1])])
            qs.append([a[0] - r.randrange(0, G + 1), a[1]])          # level with a vertex, to its left
            qs.append([2 * b[0] - a[0], 2 * b[1] - a[1]])            # on the supporting line, beyond b
        qs.append(ring[0][:])
        qs += [ec.rnd_pt(r, G) for _ in range(4)]
        out.append(dict(ring=ring, n=0, qs=qs[:48]))
    return out


def float_cases(seed, n):
    """Point-on-line over moderate-magnitude floats (ordinates whose differences are NOT exact in float64):
    one-decimal segments with the point (a) exactly on the segment when that point is representable, (b) the
    rounded image of a point of the segment, (c) another one-decimal point inside the envelope, (d) an endpoint."""
    from fractions import Fraction as F
    r = random.Random(seed)
    out = []
    while len(out) < n:
        dec = r.choice([10, 10, 100, 8, 3])
        a = [r.randrange(0, 1000) / dec, r.randrange(0, 1000) / dec]
        b = [r.randrange(0, 1000) / dec, r.randrange(0, 1000) / dec]
        if a == b:
            continue
        fam = ["exact-on", "rounded-on", "decimal-collinear", "decimal-near", "decimal-collinear", "endpoint", "decimal-collinear", "beyond",
               "fine-grid-on", "fine-grid-on", "axis-end", "axis-end"][len(out) % 12]
        if fam == "axis-end":
            # an axis-parallel segment of decimal (non-grid) floats and a point on its supporting line a few units in the last
            # place before / behind one of its ends: collinear exactly, so only the comparison with the END decides
            import math
            v0, v1 = r.randrange(0, 100000) / r.choice([10, 100, 1000]), r.randrange(0, 100000) / r.choice([10, 100, 1000])
            w = r.randrange(0, 1000) / 10
            if v0 == v1:
                continue
            e = r.choice([v0, v1])
            q = e
            for _ in range(r.choice([1, 1, 2, 3, 50, 4000])):
                q = math.nextafter(q, r.choice([-math.inf, math.inf]) if _ == 0 else (math.inf if q > e else -math.inf))
            if r.random() < 0.5:
                a, b, p = [v0, w], [v1, w], [q, w]
            else:
                a, b, p = [w, v0], [w, v1], [w, q]
        elif fam == "fine-grid-on":
            # p EXACTLY on the segment although no coordinate difference is a float64: a of magnitude a few hundred on the
            # 2^-43 grid, p in [0, 1) on the 2^-(43+j) grid, b = 2^j p - (2^j - 1) a (on the 2^-43 grid again, below 2^10 x 2^j):
            # p = a + (b - a) / 2^j. A floating-point determinant of such a triple is pure rounding residue.
            j = r.choice([1, 2, 2, 3])
            k = 1 << j
            a = [F(r.randrange(-(300 << 43), 300 << 43), 1 << 43) for _ in range(2)]
            pq = [F(r.randrange(0, 1 << (43 + j)), 1 << (43 + j)) for _ in range(2)]
            bq = [k * pq[i] - (k - 1) * a[i] for i in range(2)]
            if any(F(float(v)) != v for v in a + pq + bq):
                continue
            a, b, p = [float(v) for v in a], [float(v) for v in bq], [float(v) for v in pq]
            if r.random() < 0.25:          # and the same one unit in the last place off the line
                p[r.randrange(2)] += 2.0 ** -(44 + j)
        elif fam == "exact-on":
            t = F(r.randrange(1, 16), 16)
            px, py = F(a[0]) + t * (F(b[0]) - F(a[0])), F(a[1]) + t * (F(b[1]) - F(a[1]))
            if F(float(px)) != px or F(float(py)) != py:
                continue
            p = [float(px), float(py)]
        elif fam == "rounded-on":
            t = r.random()
            p = [a[0] + t * (b[0] - a[0]), a[1] + t * (b[1] - a[1])]
        elif fam == "decimal-collinear":
            # a, b and p lie on one line in DECIMAL arithmetic; their float64 images generally do not
            x0, y0 = r.randrange(0, 900), r.randrange(0, 900)
            dx, dy = r.randrange(-40, 41), r.randrange(-40, 41)
            if dx == 0 and dy == 0:
                continue
            nn = r.randrange(2, 12)
            mm = r.randrange(1, nn)
            a = [x0 / dec, y0 / dec]
            b = [(x0 + nn * dx) / dec, (y0 + nn * dy) / dec]
            p = [(x0 + mm * dx) / dec, (y0 + mm * dy) / dec]
        elif fam == "decimal-near":
            t = r.random()
            p = [round((a[0] + t * (b[0] - a[0])) * dec) / dec, round((a[1] + t * (b[1] - a[1])) * dec) / dec]
        elif fam == "endpoint":
            p = r.choice([a, b])[:]
        else:
            p = [2 * b[0] - a[0], 2 * b[1] - a[1]]
        c = [r.randrange(0, 1000) / dec, r.randrange(0, 1000) / dec]
        # a-b first: PointIntersectsLine is recorded for the first segment of the line, IsOnLine for all of them
        out.append(dict(fam=fam, line=[[ec.to_exact(v) for v in q] for q in (a, b, c)], p=[ec.to_exact(v) for v in p]))
    return out


def float_pipe(ctx, verdict, cases, name="online-float"):
    """IsOnLine / PointIntersectsLine on float inputs, decided exactly by Apalache (ExactGeom!OnLine, OnSeg)."""
    drv = [dict(ring=c["line"], n=0, qs=[c["p"]]) for c in cases]
    obs = list(vlib.run_driver(ctx, "locate", drv, for_tlc=False))
    exprs, sigs = [], []
    for c, o in zip(cases, obs):
        if o["ev"] != "ok":
            exprs.append("FALSE")
            sigs.append("locate|float|" + o["ev"])
            continue
        sin = [v for q in o["xring"] for v in q] + o["xqs"][0]
        ints, _, k = ec.obs_ints(sin, [])
        m = len(o["xring"])
        ring = "<<" + ", ".join(ec.tla_pt(ints[2 * j:2 * j + 2]) for j in range(m)) + ">>"
        pt = ec.tla_pt(ints[2 * m:2 * m + 2])
        a, b = ec.tla_pt(ints[0:2]), ec.tla_pt(ints[2:4])
        exprs.append("(OnLine(%s, %s) = %s) /\\ (OnSeg(%s, %s, %s) = %s)" % (
            pt, ring, "TRUE" if o["online"][0] else "FALSE", pt, a, b, "TRUE" if o["onseg1"][0] else "FALSE"))
        sigs.append("locate|float|IsOnLine|" + c["fam"])
    return ec.apalache_obs(ctx, verdict, "OnLineX", exprs, cases, sigs, name, per_module=110)


PIPES["online-float"] = float_pipe


def fine_pool(ctx, n_pool, n_keep):
    """Suspicious-first sampling of the fine-grid family (float_cases, "fine-grid-on"): a large pool is run through the real
    code; triples built ON the segment for which it answers "not on the line" (and triples built one unit in the last place
    off it for which it answers "on") go to the model checker first, followed by a few unsuspicious ones. Prioritisation
    only: OnLine / OnSeg on exact integers (Apalache) is the verdict."""
    pool = []
    seed = ctx.seed * 11 + 4
    while len(pool) < n_pool:
        pool += [c for c in float_cases(seed, 2000) if c["fam"] == "fine-grid-on"]
        seed += 1
    pool = pool[:n_pool]
    obs = list(vlib.run_driver(ctx, "locate", [dict(ring=c["line"], n=0, qs=[c["p"]]) for c in pool], for_tlc=False))
    from fractions import Fraction as Fr
    sus, rest = [], []
    for c, o in zip(pool, obs):
        a, b = [[ec.parse_exact(v) for v in q] for q in c["line"][:2]]
        q = [ec.parse_exact(v) for v in c["p"]]
        on = (b[0] - a[0]) * (q[1] - a[1]) == (b[1] - a[1]) * (q[0] - a[0])
        got = o.get("onseg1", [None])[0]
        (sus if got != on else rest).append(c)
    ctx.coverage_extra["fine_grid_pool"] = dict(pool=len(pool), answers_that_look_wrong=len(sus), kept=min(n_keep, len(sus)) + min(4, len(rest)))
    return [dict(c, fam="fine-grid-on/screened") for c in sus[:n_keep]] + rest[:4]


def big_cases(seed, n):
    """Rings of 3..8 vertices on grids of 2^20 and 2^26 (cross products far beyond 32 bits, beyond 2^53 for the larger
    grid) with the same kinds of query points as the seeded TLC tier: on an edge, one step off it, level with a vertex,
    on the supporting line beyond the edge, a vertex, random."""
    r = random.Random(seed * 5 + 2)
    out = []
    for k in range(n):
        G = r.choice([1 << 20, 1 << 26])
        m = r.choice([3, 4, 5, 8])
        ring = [ec.rnd_pt(r, G) for _ in range(m)]
        if k % 4 == 0:
            ring[1] = [ring[0][0] + r.randrange(1, G + 1), ring[0][1]]
        i = r.randrange(m)
        a, b = ring[i], ring[(i + 1) % m]
        # a lattice point strictly inside an edge needs a common divisor: make one
        g = r.randrange(2, 1000)
        b2 = [a[0] + g * ((b[0] - a[0]) // g), a[1] + g * ((b[1] - a[1]) // g)]
        if b2 != a:
            ring[(i + 1) % m] = b = b2
        p = ec.lattice_on(r, a, b)
        qs = [p, [p[0] + r.choice([-1, 1]), p[1]], [p[0], p[1] + r.choice([-1, 1])], [a[0] - r.randrange(0, G), a[1]],
              [2 * b[0] - a[0], 2 * b[1] - a[1]], ring[0][:], ec.rnd_pt(r, G), ec.rnd_pt(r, G // 2)]
        out.append(dict(ring=ring, n=0, qs=qs, fam="2^%d" % (G.bit_length() - 1)))
    return out


def big_pipe(ctx, verdict, cases, name="locatex"):
    """Large-grid tier: Apalache evaluates ExactGeom!Locate / OnLine on exact integers; every variant the driver records
    (ring as given, reversed, rotated, duplicated vertices, four layouts with extra ordinates; IsPointInRing; IsOnLine)
    must give the specification's answer."""
    obs = list(vlib.run_driver(ctx, "locate", [dict(ring=c["ring"], n=0, qs=c["qs"]) for c in cases], for_tlc=False))
    exprs, sigs = [], []
    for c, o in zip(cases, obs):
        closed = c["ring"] + [c["ring"][0]]
        ring = "<<" + ", ".join(ec.tla_pt(q) for q in closed) + ">>"
        conj = []
        if o.get("ev", "ok") != "ok":
            conj.append("FALSE")
        for k, q in enumerate(c["qs"]):
            if o.get("ev", "ok") != "ok":
                break
            pt = ec.tla_pt(q)
            for got in sorted(set(o["loc"][k])):
                conj.append('Locate(%s, %s) = "%s"' % (pt, ring, got))
            for got in sorted(set(o["inringv"][k])):
                conj.append('(Locate(%s, %s) # "exterior") = %s' % (pt, ring, {"true": "TRUE", "false": "FALSE"}.get(got, '"panic"')))
            for got in sorted(set(o["onlinev"][k][:2])):
                conj.append('OnLine(%s, %s) = %s' % (pt, ring, {"true": "TRUE", "false": "FALSE"}.get(got, '"panic"')))
        exprs.append(" /\\ ".join(conj))
        sigs.append("locate|big|" + c["fam"])
    return ec.apalache_obs(ctx, verdict, "LocateX", exprs, cases, sigs, name, per_module=4 if ctx.quick else 25)


PIPES["locatex"] = big_pipe


def run(ctx, verdict):
    ec.family(ctx, verdict, "locate", nontrivial=lambda c: len({tuple(p) for p in c["ring"]}) >= 3)
    cases = seeded(ctx.seed, 1500 if ctx.quick else 20000)
    vlib.note_cases(ctx, cases, nontrivial=lambda c: len({tuple(p) for p in c["ring"]}) >= 3)
    ec.pipe("locate")(ctx, verdict, cases)
    fcases = float_cases(ctx.seed, 640 if ctx.quick else 8000) + fine_pool(ctx, 6000 if ctx.quick else 100000, 16 if ctx.quick else 120)
    vlib.note_cases(ctx, fcases)
    float_pipe(ctx, verdict, fcases)
    big = big_cases(ctx.seed, 16 if ctx.quick else 600)
    vlib.note_cases(ctx, big)
    big_pipe(ctx, verdict, big)
    ctx.coverage_extra["big_tier"] = dict(rings=len(big), queries=8 * len(big), grids=["2^20", "2^26"], checker="Apalache on ExactGeom!Locate / OnLine (exact integers)")
    ctx.coverage_extra["float_tier"] = dict(cases=len(fcases), checker="Apalache on ExactGeom!OnLine / OnSeg (exact integers)")
    ctx.coverage_extra["seeded"] = dict(rings=len(cases), grids=[6, 12, 30, 100, 1000, 4000], queries_per_ring="<= 48")
    ctx.assumptions += ["rings: every vertex sequence of 3..K points on the N x N grid (self-intersecting, repeated and "
                        "collinear vertices included), closed by the driver; each ring also reversed, rotated, with "
                        "duplicated vertices and in XYZ / XYZM / Layout(5) with junk extra ordinates (NaN, +-Inf)",
                        "seeded tier: rings of 3..8 vertices on grids up to 4000 (cross products stay within TLC's "
                        "32-bit integers) with query points on, next to and level with the edges"]
