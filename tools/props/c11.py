"""C11: point location against rings and lines is exact."""
import vlib
from props import exact_common as ec

PIPES = {"locate": ec.pipe("locate")}


def run(ctx, verdict):
    ec.family(ctx, verdict, "locate", nontrivial=lambda c: len({tuple(p) for p in c["ring"]}) >= 3)
    ctx.assumptions += ["rings: every vertex sequence of 3..K points on the N x N grid (self-intersecting, repeated and "
                        "collinear vertices included), closed by the driver; each ring also reversed, rotated, with "
                        "duplicated vertices and in XYZ / XYZM / Layout(5) with junk extra ordinates (NaN, +-Inf)"]
