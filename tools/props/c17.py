"""C17: queries, encoders and decoders are pure and safe to call concurrently."""
import json
import os
import re
import subprocess
import vlib

LEVEL = "model_checking"


def design_model(ctx):
    """TLC on the Calls design: read-only footprint => every interleaving returns the sequential results;
    the two controls (an operation that sorts in place) must be rejected, otherwise the model is vacuous."""
    cfg = "Calls_quick.cfg" if ctx.quick else "Calls_thorough.cfg"
    r = vlib.tlc(ctx, "Calls", cfg, workers=4, name="Calls/" + cfg)
    ctx.states += r["distinct"]
    ctx.transitions += r["generated"]
    for c in ("Calls_control.cfg", "Calls_control2.cfg", "Calls_control3.cfg", "Calls_control4.cfg"):
        rc = vlib.tlc(ctx, "Calls", c, workers=1, name="Calls/" + c, allow_violation=True)
        if rc["rc"] == 0 or not any("is violated" in l for l in rc["tail"]):
            raise vlib.Infra("vacuity control %s was accepted by TLC: the Calls model does not see in-place writes" % c)
    ctx.coverage_extra["design_model"] = dict(cfg=cfg, states=r["distinct"], controls_rejected=4)


RACE_HDR = re.compile(r"^WARNING: DATA RACE")
ACCESS = re.compile(r"^(Write|Previous write|Read|Previous read) at 0x[0-9a-f]+ by (main )?goroutine")
FRAME = re.compile(r"^\s{2}(\S+)\(")


def parse_race_logs(prefix):
    """-> list of dict(write_in=<innermost go-geom function of a writing access or ''>, harness=<bool>)."""
    out = []
    d = os.path.dirname(prefix)
    for fn in sorted(os.listdir(d)):
        if not fn.startswith(os.path.basename(prefix)):
            continue
        blocks = open(os.path.join(d, fn), errors="replace").read().split("==================")
        for b in blocks:
            if "WARNING: DATA RACE" not in b:
                continue
            lib, cur_is_write, any_write = "", False, False
            for line in b.splitlines():
                m = ACCESS.match(line)
                if m:
                    cur_is_write = "rite" in m.group(1)
                    any_write = any_write or cur_is_write
                    continue
                if line.startswith("Goroutine ") or line.strip() == "":
                    cur_is_write = cur_is_write and line.strip() != "" and not line.startswith("Goroutine ")
                    continue
                f = FRAME.match(line)
                if f and cur_is_write and not lib and f.group(1).startswith("github.com/twpayne/go-geom"):
                    lib = f.group(1)
            out.append(dict(write_in=lib, text=b.strip()[:1500]))
    return out


def run_calls(ctx, goroutines, rounds, control=False):
    drv = ctx.drive(race=True)
    pin = ctx.path("calls-%s.in" % ("control" if control else "run"))
    pout = pin.replace(".in", ".ndjson")
    open(pin, "w").write(json.dumps(dict(goroutines=goroutines, rounds=rounds, control=control)) + "\n")
    prefix = ctx.path("race-%s" % ("control" if control else "run"))
    env = dict(os.environ, GORACE="log_path=%s halt_on_error=0" % prefix)
    p = subprocess.run([drv, "calls", "-in", pin, "-out", pout, "-seed", str(ctx.seed)], capture_output=True, text=True,
                       timeout=1500, env=env)
    if p.returncode not in (0, 66):           # 66: the race runtime's exit status when reports were written
        raise vlib.Infra("calls driver failed rc=%s: %s" % (p.returncode, (p.stdout + p.stderr)[-1500:]))
    return pout, parse_race_logs(prefix)


def pipe(ctx, verdict, cases, name="calls"):
    c = cases[0]
    pout, races = run_calls(ctx, c["goroutines"], c["rounds"])
    events = vlib.read_ndjson(pout)
    n_lib = 0
    for r in races:
        if r["write_in"]:
            n_lib += 1
            events.append(dict(ev="race", gor=0, seq=0, op=r["write_in"], arg="-", res="-", pre="-", post="-"))
    # end-of-log marker: CallsTrace then demands that every argument of the log has had its final snapshot
    events.append(dict(ev="end", gor=0, seq=0, op="-", arg="-", res="-", pre="-", post="-"))
    initial = {e["arg"]: e["pre"] for e in events if e["ev"] == "init"}
    ctx.evaluations += len(events)
    viols = vlib.model_b(ctx, "CallsTrace", "Obs.cfg", events, name="CallsTrace", chunk=len(events) + 1)
    seen = set()
    for idx, v in viols:
        if v["sig"] in seen:
            continue
        seen.add(v["sig"])
        verdict.add(name, v["sig"], c, dict(event=events[idx], initial_snapshot=initial.get(events[idx]["arg"], "-"),
                                            races=[r["text"][:600] for r in races if r["write_in"]][:2]))
    ctx.coverage_extra["trace"] = dict(events=len(events), calls_sequential=sum(1 for e in events if e["ev"] == "seq"),
                                       calls_concurrent=sum(1 for e in events if e["ev"] == "conc"), goroutines=c["goroutines"],
                                       race_reports=len(races), race_reports_with_library_write=n_lib,
                                       operations=len({e["op"] for e in events if e["ev"] == "seq"}),
                                       arguments=len({e["arg"] for e in events if e["ev"] == "init"}),
                                       final_snapshots=sum(1 for e in events if e["ev"] == "final"),
                                       pairs_applicable=len({e["op"] + "@" + e["arg"] for e in events if e["ev"] == "seq" and e["res"] != "n/a"}),
                                       pairs_called_concurrently=len({e["op"] + "@" + e["arg"] for e in events if e["ev"] == "conc"}),
                                       results_error_class=sum(1 for e in events if e["ev"] == "seq" and e["res"].startswith("err:")),
                                       results_panic=sum(1 for e in events if e["ev"] == "seq" and e["res"].startswith("panic:")))
    ctx.samples += [e for e in events if e["ev"] == "conc"][:3]
    for e in events:
        if e["ev"] in ("seq", "conc"):
            ctx.distinct.add(e["op"] + "@" + e["arg"])
    return events


PIPES = {"calls": pipe}


def run(ctx, verdict):
    design_model(ctx)
    # the sensor must be alive: a deliberate in-place sort by the HARNESS has to show up in the race log
    _, races = run_calls(ctx, 8, 400, control=True)
    if not races:
        raise vlib.Infra("race detector control produced no report: the sensor is not working, nothing is claimed")
    if any(r["write_in"] for r in races) and not all(r["write_in"] for r in races):
        pass
    ctx.coverage_extra["sensor_control"] = dict(race_reports=len(races), attributed_to_library=sum(1 for r in races if r["write_in"]))
    pipe(ctx, verdict, [dict(goroutines=8 if ctx.quick else 32, rounds=600 if ctx.quick else 4000)])
    ctx.assumptions += ["data races are observed by Go's race detector (the sensor); a report counts only when a WRITING access "
                        "has a go-geom frame; the harness's own deliberate race (control run) proves the sensor is alive",
                        "purity is judged on bitwise digests of every argument (geometries and Bounds: every field, exported or not - "
                        "flat coordinates, ends, layout, anything cached; byte slices, strings, shared coordinates; GeoJSON Feature / "
                        "FeatureCollection / Geometry / CRS values, TreeSet and intersection Result: what their public API shows, "
                        "exported fields and accessor results) and of the exported package-level variables before and after "
                        "each sequential call; under concurrency one final snapshot per argument (every argument must have one)",
                        "malformed / truncated encodings are handed to every decoder: the recorded result is the error class "
                        "(dynamic type), texts are left open; a panic of a call is a recorded result too (C17 does not judge it)",
                        "no encoder OBJECT is shared between goroutines (every call makes its own *wkt.Encoder / igc.Encoder): the "
                        "statement promises concurrent calls on the same GEOMETRIES, an encoder value may own a scratch buffer",
                        "results that are JSON documents are compared as JSON values (decoded and re-marshalled with sorted keys): "
                        "the member order of an object is not part of the result; error results and panics are compared by their "
                        "dynamic type only, after a failed decode only the error class is recorded (not what the receiver holds)",
                        "concurrent pass: half free mix of (operation, argument) pairs, half one phase per operation (all goroutines "
                        "in the same operation at once), so that rarely taken paths (decoder error paths) meet each other",
                        "interleavings are those the Go scheduler produced in this run (8 / 32 goroutines); the TLA+ design model "
                        "covers all interleavings of 2-3 processes x 2 calls"]
