"""C13: convex hull is the exact convex hull of the input points."""
import random
import vlib
from props import exact_common as ec

PIPES = {"hull": ec.pipe("hull"), "setorder": ec.pipe("setorder", "setorder")}


def seeded(seed, n):
    r = random.Random(seed)
    out = []
    for k in range(n):
        grid = r.choice([3, 3, 4, 6, 16, 100, 8000])
        cnt = r.choice([1, 2, 3, 5, 8, 20, 49, 50, 51, 52, 60, 80, 120, 200])
        mode = r.choice(["any", "any", "collinear", "coincident", "few-distinct", "circle"])
        pts = []
        if mode == "coincident":
            p = [r.randrange(grid), r.randrange(grid)]
            pts = [p[:] for _ in range(cnt)]
        elif mode == "collinear":
            dx, dy = r.randrange(-3, 4), r.randrange(-3, 4)
            m = max(1, grid // 8)
            pts = [[grid + dx * t, grid + dy * t] for t in (r.randrange(-m, m + 1) for _ in range(cnt))]
        elif mode == "few-distinct":
            base = [[r.randrange(grid), r.randrange(grid)] for _ in range(r.choice([2, 3, 4]))]
            pts = [r.choice(base)[:] for _ in range(cnt)]
        elif mode == "circle":
            import math
            R = grid
            pts = [[int(round(R + R * math.cos(t))), int(round(R + R * math.sin(t)))] for t in
                   (r.random() * 6.2832 for _ in range(cnt))]
            pts += [[R, R]] * (cnt // 4)
        else:
            pts = [[r.randrange(grid), r.randrange(grid)] for _ in range(cnt)]
        out.append(dict(pts=pts[:200], l=r.choice(["XY", "XYZ", "XYM", "XYZM"])))
    return out


def run(ctx, verdict):
    enumerated = ec.family(ctx, verdict, "hull", nontrivial=lambda c: len({tuple(p) for p in c["pts"]}) >= 3)
    # the components the hull is assembled from (anchors: transform.UniqueCoords / TreeSet, sorting.FlatCoord)
    sub = enumerated if not ctx.quick else [c for i, c in enumerate(enumerated) if len(c["pts"]) <= 3 or i % 4 == 0]
    ec.pipe("setorder", "setorder")(ctx, verdict, sub)
    cases = seeded(ctx.seed, 300 if ctx.quick else 4000)
    vlib.note_cases(ctx, cases, nontrivial=lambda c: len({tuple(p) for p in c["pts"]}) >= 3)
    ec.pipe("hull")(ctx, verdict, cases)
    ctx.coverage_extra["seeded"] = dict(cases=len(cases), sizes="1..200 points (both sides of the 50-point reduction)",
                                        grids=[3, 4, 6, 16, 100, 8000])
