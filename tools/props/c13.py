"""C13: convex hull is the exact convex hull of the input points."""
import random
import vlib
from props import exact_common as ec

PIPES = {"hull": ec.pipe("hull"), "setorder": ec.pipe("setorder", "setorder")}          # "hullx" is added below


def seeded(seed, n):
    r = random.Random(seed)
    out = []
    for k in range(n):
        grid = r.choice([3, 3, 4, 6, 16, 100, 8000])
        cnt = r.choice([1, 2, 3, 5, 8, 20, 49, 50, 51, 52, 60, 80, 120, 200])
        mode = r.choice(["any", "any", "collinear", "coincident", "few-distinct", "circle"])
        pts = []
        if mode == "coincident":
            p = [r.randrange(grid), r.randrange(grid)]
            pts = [p[:] for _ in range(cnt)]
        elif mode == "collinear":
            dx, dy = r.randrange(-3, 4), r.randrange(-3, 4)
            m = max(1, grid // 8)
            pts = [[grid + dx * t, grid + dy * t] for t in (r.randrange(-m, m + 1) for _ in range(cnt))]
        elif mode == "few-distinct":
            base = [[r.randrange(grid), r.randrange(grid)] for _ in range(r.choice([2, 3, 4]))]
            pts = [r.choice(base)[:] for _ in range(cnt)]
        elif mode == "circle":
            import math
            R = grid
            pts = [[int(round(R + R * math.cos(t))), int(round(R + R * math.sin(t)))] for t in
                   (r.random() * 6.2832 for _ in range(cnt))]
            pts += [[R, R]] * (cnt // 4)
        else:
            pts = [[r.randrange(grid), r.randrange(grid)] for _ in range(cnt)]
        # anywhere in the plane, not only in the non-negative quadrant
        ox, oy = r.choice([(0, 0), (-grid, -grid), (-2 * grid, 0), (r.randrange(-grid, 1), r.randrange(-2 * grid, 1))])
        pts = [[x + ox, y + oy] for x, y in pts]
        out.append(dict(pts=pts[:200], l=r.choice(["XY", "XYZ", "XYM", "XYZM"])))
    return out


def skirt_cases(seed, n):
    """More than 50 points whose extreme points in the eight compass directions span an octagon, plus lattice points ON the
    octagon's edges and one step to either side of them: points just outside an edge are hull vertices (or lie on a hull
    edge) although they are nearly collinear with two extreme points - the class on which a discard-the-interior heuristic
    decides by the sign of a tiny determinant. (The octagon is computed here only to aim the inputs; the verdict is IsHullOf.)"""
    r = random.Random(seed * 31 + 17)
    out = []
    while len(out) < n:
        G = r.choice([40, 100, 100, 1000, 8000])
        m = r.choice([44, 52, 60, 75, 90])
        pts = [[r.randrange(G), r.randrange(G)] for _ in range(m)]
        keys = [lambda p: p[0], lambda p: p[0] - p[1], lambda p: -p[1], lambda p: -p[0] - p[1],
                lambda p: -p[0], lambda p: p[1] - p[0], lambda p: p[1], lambda p: p[0] + p[1]]
        ext = [min(pts, key=k) for k in keys]
        extra = []
        for i in range(8):
            a, b = ext[i], ext[(i + 1) % 8]
            if a == b:
                continue
            for _ in range(r.choice([1, 2, 3])):
                t = r.random()
                q = [int(round(a[0] + t * (b[0] - a[0]))), int(round(a[1] + t * (b[1] - a[1])))]
                if r.random() < 0.5:
                    q = ec.lattice_on(r, a, b)
                d = r.choice([[0, 0], [1, 0], [-1, 0], [0, 1], [0, -1], [1, 1], [-1, -1], [1, -1], [-1, 1]])
                q = [q[0] + d[0], q[1] + d[1]]
                if 0 <= q[0] < 3 * G and 0 <= q[1] < 3 * G:
                    extra.append(q)
        pts += extra
        r.shuffle(pts)
        ox, oy = r.choice([(0, 0), (-G, -G), (-G // 2, 0)])
        out.append(dict(pts=[[x + ox, y + oy] for x, y in pts][:200], l=r.choice(["XY", "XYZ", "XYM", "XYZM"])))
    return out


def big_cases(seed, n, maxpts):
    """Inputs on a grid of 2^20 around the origin (negative coordinates included): random clouds, points on a few lines
    (many collinear triples on the hull), near-degenerate thin clouds, on both sides of the 50-point reduction."""
    r = random.Random(seed * 7 + 3)
    G = 1 << 20
    out = []
    while len(out) < n:
        cnt = r.choice([3, 8, 20, 49, 51, 60, maxpts])
        cnt = min(cnt, maxpts)
        mode = r.choice(["cloud", "lines", "thin", "dups"])
        if mode == "cloud":
            pts = [[r.randrange(-G, G), r.randrange(-G, G)] for _ in range(cnt)]
        elif mode == "lines":
            a, b = [r.randrange(-G // 2, G // 2), r.randrange(-G // 2, G // 2)], [r.randrange(-999, 999), r.randrange(-999, 999)]
            c = [r.randrange(-999, 999), r.randrange(-999, 999)]
            pts = []
            for _ in range(cnt):
                t = r.randrange(-400, 400)
                d = r.choice([b, c])
                pts.append([a[0] + t * d[0], a[1] + t * d[1]])
        elif mode == "thin":
            dx, dy = r.randrange(1, 999), r.randrange(-999, 999)
            pts = [[t * dx + r.randrange(-1, 2), t * dy + r.randrange(-1, 2)] for t in (r.randrange(-1000, 1000) for _ in range(cnt))]
        else:
            base = [[r.randrange(-G, G), r.randrange(-G, G)] for _ in range(max(3, cnt // 4))]
            pts = [r.choice(base)[:] for _ in range(cnt)]
        out.append(dict(pts=pts, l=r.choice(["XY", "XYZ", "XYZM"]), fam=mode))
    return out


def big_pipe(ctx, verdict, cases, name="hullx"):
    """Large-grid tier: Apalache decides ExactGeom!IsHullOf (exact integers) on what both entry points returned."""
    obs = list(vlib.run_driver(ctx, "hull", cases, for_tlc=False))
    exprs, sigs = [], []
    for c, o in zip(cases, obs):
        P = "<<" + ", ".join(ec.tla_pt(p) for p in o["pts"]) + ">>"
        conj = []
        for via in ("flat", "geom"):
            h = o[via]
            if h["kind"] == "panic" or not h["inputsame"] or not h["hint"] or h["hl"] != c["l"] or (h["kind"] == "Polygon" and h["rings"] != 1):
                conj.append("FALSE")
                continue
            H = "<<" + ", ".join(ec.tla_pt(p) for p in h["h"]) + ">>"
            conj.append('IsHullOf("%s", %s, %s)' % (h["kind"], H, P))
        exprs.append(" /\\ ".join(conj))
        sigs.append("hull|big|" + c["fam"] + ("|>50" if len(c["pts"]) > 50 else ""))
    return ec.apalache_obs(ctx, verdict, "HullX", exprs, cases, sigs, name, per_module=2 if ctx.quick else 4, timeout=1700)


def run(ctx, verdict):
    enumerated = ec.family(ctx, verdict, "hull", nontrivial=lambda c: len({tuple(p) for p in c["pts"]}) >= 3)
    # the components the hull is assembled from (anchors: transform.UniqueCoords / TreeSet, sorting.FlatCoord)
    sub = enumerated if not ctx.quick else [c for i, c in enumerate(enumerated) if len(c["pts"]) <= 3 or i % 4 == 0]
    ec.pipe("setorder", "setorder")(ctx, verdict, sub)
    cases = seeded(ctx.seed, 300 if ctx.quick else 4000) + skirt_cases(ctx.seed, 80 if ctx.quick else 1500)
    vlib.note_cases(ctx, cases, nontrivial=lambda c: len({tuple(p) for p in c["pts"]}) >= 3)
    ec.pipe("hull")(ctx, verdict, cases)
    big = big_cases(ctx.seed, 6 if ctx.quick else 120, 30 if ctx.quick else 120)
    vlib.note_cases(ctx, big)
    big_pipe(ctx, verdict, big)
    ctx.coverage_extra["big_tier"] = dict(cases=len(big), grid=1 << 20, checker="Apalache on ExactGeom!IsHullOf (exact integers)")
    ctx.coverage_extra["seeded"] = dict(cases=len(cases), sizes="1..200 points (both sides of the 50-point reduction)",
                                        grids=[3, 4, 6, 16, 100, 8000])


PIPES["hullx"] = big_pipe
