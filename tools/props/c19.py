"""C19: IGC decoding is total; encode-then-decode keeps a track to format resolution."""
import base64
import datetime
import glob
import json
import os
import random
import vlib


def pipe(ctx, verdict, cases, name="igc"):
    obs = vlib.run_driver(ctx, "igc", cases)
    # quick: 16 chunks of ~20 000 light records - small heaps, so that all of them are decided side by side
    viols = vlib.model_b(ctx, "IGCObs", "Obs.cfg", obs, name="IGCObs", heap="1g" if ctx.quick else "3g")
    for idx, v in viols:
        o = obs[idx]
        verdict.add(name, v["sig"], cases[idx], dict(msg=str(o.get("msg", ""))[:200], text=str(o.get("text", ""))[:300]))
    return obs


PIPES = {"igc": pipe}


def mutated_samples(seed, n):
    """Byte streams: mutations of the repository's IGC sample files and of synthetic files with I records."""
    r = random.Random(seed)
    bases = []
    for f in sorted(glob.glob(os.path.join(vlib.REPO, "encoding/igc/testdata/*.igc")))[:6]:
        bases.append(open(f, "rb").read()[:6000])
    bases.append(b"AXXX001\r\nHFDTE250809\r\nI033638LAD3940LOD4141TDS\r\nB1234564730123N00830456EA00500006001234\r\n"
                 b"B1234574730123N00830456EA0050000600123\r\nB2359594730123S17959999WA-050000600999\r\nB0000014730123N00830456EA00500006001234\r\n")
    bases.append(b"\xef\xbb\xbfAXXX\nHFDTE311299\nB2359584730123N00830456EA0050000600\nB0000014730123N00830456EA0050000600\nI013636TDS\nB0000024730123N00830456EA00500006005\n")
    out = []
    while len(out) < n:
        b = bytearray(r.choice(bases))
        for _ in range(r.choice([1, 1, 2, 4, 8])):
            k = r.randrange(7)
            pos = r.randrange(len(b)) if b else 0
            if k == 0 and b:
                b[pos] = r.randrange(256)
            elif k == 1 and b:
                del b[pos:pos + r.randrange(1, 40)]
            elif k == 2:
                b[pos:pos] = bytes(r.choice([b"I", b"B", b"H", b"\n", b"-", b"99", b"I99", b"HFDTE", b"\r", b"A", b"\x13"]))
            elif k == 3 and b:
                e = b.find(b"\n", pos)
                b[pos:e if e > 0 else len(b)] = b""                 # truncate a record
            elif k == 4 and b:
                s = b.rfind(b"\n", 0, pos) + 1
                e = b.find(b"\n", pos)
                line = b[s:e if e > 0 else len(b)]
                b[pos:pos] = line                                     # splice a record into another
            elif k == 5 and b:
                # a letter inside a B record (late field errors: altitude, extension digits)
                bs = [i for i in range(len(b)) if b[i:i + 1] == b"B" and (i == 0 or b[i - 1:i] == b"\n")]
                if bs:
                    s0 = r.choice(bs)
                    b[min(len(b) - 1, s0 + r.randrange(24, 40))] = ord(r.choice("XZ-."))
            elif b:
                b = b[:pos]
        out.append(dict(fam="bytes", b64=base64.b64encode(bytes(b[:8000])).decode()))
    return out


# ---------------------------------------------------------------- seeded tracks (round-trip domain of the quantifier)
EPOCH = datetime.date(1970, 1, 1).toordinal()
LASTDAY = datetime.date(2069, 12, 31).toordinal() - EPOCH
LON, LAT = 180 * 6000000, 90 * 6000000


def dayno(y, m, d):
    return datetime.date(y, m, d).toordinal() - EPOCH


def _pos(r, lim, prev):
    """One coordinate in position units (1/6000000 degree) plus millionths of a unit: extremes, values next to a
    milli-minute boundary (x.9999999 minutes), tiny negatives, a random walk, uniform."""
    k = r.randrange(10)
    if k == 0:
        return r.choice([lim, -lim, 0, 1, -1, lim - 1, 1 - lim, lim - 100, 100 - lim]), 0
    if k == 1:      # an exact milli-minute, or a hair below / above it
        q = 100 * r.randrange(-lim // 100, lim // 100 + 1)
        e = r.choice([0, 0, -1, 1, -10000, -499999, 10000])
        return q, (0 if abs(q) == lim else e)
    if k == 2:      # negative values near zero
        return r.choice([-1, -99, -100, -101, 0, 0]), r.choice([0, -1, -400000])
    if k == 3:      # 59.999.. minutes of a degree
        d = r.randrange(0, lim // 6000000)
        q = d * 6000000 + r.choice([5999999, 5999900, 5999901, 5999899, 6000000 - 1])
        return r.choice([1, -1]) * q, r.choice([0, 499999, -1])
    if k <= 6 and prev is not None:
        q = max(-lim, min(lim, prev + r.randrange(-3000, 3001)))
        return q, (0 if abs(q) == lim else r.randrange(-500000, 500001))
    q = r.randrange(-lim, lim + 1)
    return q, (0 if abs(q) == lim else r.randrange(-500000, 500001))


ALTS = [0, 0, 1, 500, 9999, 10000, 10001, 99999, 100000, 123456, 2000000000, -1, -5, -100000, -2000000000]
NFIX = [1, 1, 2, 3, 4, 5, 8, 13, 30, 60, 120, 199, 200]
SPECIAL_STARTS = [(1999, 12, 31, 86399), (1999, 12, 31, 86390), (1970, 1, 1, 0), (2069, 12, 31, 86399), (2069, 12, 30, 86399),
                  (2000, 2, 28, 86399), (2000, 2, 29, 86399), (2038, 1, 19, 11647), (2024, 2, 29, 0), (2049, 12, 31, 86399),
                  (1969 + 31, 12, 31, 86399)]


def _start(r, year):
    """A starting instant in `year`: month ends, leap days, 31 Dec, near midnight."""
    k = r.randrange(6)
    if k == 0:
        m, d = 12, 31
    elif k == 1:
        m, d = 1, 1
    elif k == 2:
        m = r.randrange(1, 13)
        d = (datetime.date(year + (m == 12), m % 12 + 1, 1) - datetime.timedelta(days=1)).day      # last day of the month
    elif k == 3:
        leap = year % 4 == 0 and (year % 100 != 0 or year % 400 == 0)
        m, d = (2, 29) if leap else (2, 28)
    else:
        m = r.randrange(1, 13)
        d = r.randrange(1, 29)
    sec = r.choice([86399, 86399 - r.randrange(0, 120), 0, r.randrange(86400), r.randrange(86400)])
    return dayno(year, m, d), sec


def _track(r, day, sec, n, scheme, decreasing=False, outside=False):
    fixes, plon, plat = [], None, None
    t = day * 86400 + sec
    back_at = r.randrange(1, n) if decreasing and n > 1 else -1
    for i in range(n):
        if i > 0:
            sch = scheme if scheme != "mixed" else r.choice(["secs", "mins", "nextday", "gapdays", "months", "years", "hours"])
            if sch == "secs":
                t += r.choice([0, 1, 1, 2, 4, 10, 59, 60])
            elif sch == "mins":
                t += r.randrange(0, 3600)
            elif sch == "hours":
                t += r.randrange(3600, 86400)
            elif sch == "nextday":
                t += 86400                                             # the same time of day on the next day
            elif sch == "gapdays":
                t += 86400 * r.randrange(1, 40) + r.choice([0, 0, 1, r.randrange(-86399, 86400)])
            elif sch == "months":
                t += 86400 * r.choice([28, 29, 30, 31, 59, 61, 92]) + r.choice([0, r.randrange(-86399, 86400)])
            elif sch == "years":
                t += 86400 * r.choice([365, 366, 365 * 2, 1461, 3652, 3653]) + r.choice([0, r.randrange(-86399, 86400)])
            if i == back_at:
                t -= r.choice([1, 2, 60, 3600, 86399, r.randrange(1, 86400)])       # time going backwards by less than a day
        if t > LASTDAY * 86400 + 86399 or t < 0:
            if not fixes:
                t = max(0, min(t, LASTDAY * 86400 + 86399))
            else:
                break
        lonq, lone = _pos(r, LON, plon)
        latq, late = _pos(r, LAT, plat)
        plon, plat = lonq, latq
        if outside and r.random() < 0.3:
            lonq, lone = r.choice([1, -1]) * (LON + r.choice([1, 100, 6000000, 120000000])), 0
        if outside and r.random() < 0.3:
            latq, late = r.choice([1, -1]) * (LAT + r.choice([1, 100, 6000000, 540000000])), 0
        k = r.randrange(4)
        alt = r.choice(ALTS) if k == 0 else r.randrange(0, 10001) if k < 3 else r.randrange(-20000, 120001)
        altf = r.choice([0, 0, 0, 1, 500, 999, r.randrange(1000)])
        f = dict(lonq=lonq, latq=latq, alt=alt, t=[t // 86400, t % 86400])
        if lone:
            f["lone"] = lone
        if late:
            f["late"] = late
        if altf:
            f["altf"] = altf
        fixes.append(f)
    return dict(fam="tracks", track=fixes)


SCHEMES = ["secs", "mins", "hours", "nextday", "gapdays", "months", "years", "mixed", "secs", "mixed"]


def seeded_tracks(seed, sweeps, quick):
    """At least `sweeps` tracks starting in EVERY year 1970..2069, the special starts (century, leap days, ends of the
    window), some with decreasing times or positions outside the domain (decided for totality only by InDomain)."""
    r = random.Random(seed * 7919 + 19)
    out = []
    nfix = (lambda: r.choice(NFIX[:9] * 4 + NFIX)) if quick else (lambda: r.choice(NFIX + [r.randrange(1, 201)]))
    for sw in range(sweeps):
        for year in range(1970, 2070):
            day, sec = _start(r, year)
            out.append(_track(r, day, sec, nfix(), SCHEMES[(year + sw) % len(SCHEMES)]))
        for (y, m, d, sec) in SPECIAL_STARTS:
            for sch in ("secs", "nextday", "mixed"):
                out.append(_track(r, dayno(y, m, d), sec, nfix(), sch))
        for _ in range(12):
            day, sec = _start(r, r.randrange(1970, 2070))
            out.append(_track(r, day, sec, max(2, nfix()), r.choice(SCHEMES), decreasing=True))
        for _ in range(6):
            day, sec = _start(r, r.randrange(1970, 2070))
            out.append(_track(r, day, sec, nfix(), r.choice(SCHEMES), outside=True))
    out.append(dict(fam="tracks", track=[]))
    return out


# ---------------------------------------------------------------- seeded line-level files (headers, day roll-over)
HPAL = [("F", "PLT", "PILOTINCHARGE", True, "Bloggs Bill D"), ("F", "GTY", "GLIDERTYPE", True, "Schleicher ASH-25"),
        ("F", "GID", "GLIDERID", True, "ABCD-1234"), ("F", "DTM", "100GPSDATUM", True, "WGS-1984"),
        ("F", "RFW", "FIRMWAREVERSION", True, "6.4"), ("F", "FTY", "FRTYPE", True, "Manufacturer,Model"),
        ("F", "FXA", "", False, "035"), ("O", "SIT", "Site", True, "Talloires"), ("P", "TZN", "TIMEZONE", True, "+02"),
        ("F", "CID", "COMPETITIONID", True, "XYZ-78910"), ("F", "CCL", "", False, "15M"), ("F", "PLT", "", True, "x"),
        ("F", "CM2", "CREW2", True, ""), ("F", "GPS", "", False, "MarconiCanada,Superstar,12ch,10000m"),
        ("F", "PRS", "PRESSALTSENSOR", True, "Sensyn,XYZ1111,11000m"), ("F", "A00", "", False, "0")]


def H(h):
    return dict(k="H", src=h[0], key=h[1], extra=h[2], colon=h[3], value=h[4])


def HD(day, short=False):
    d = datetime.date.fromordinal(day + EPOCH)
    return dict(k="HDTE", dd=d.day, mm=d.month, yy=d.year % 100, short=short)


def B(sec, ln=35, ok=True):
    return dict(k="B", len=ln, sec=sec, ok=ok)


A, X, BLANK = dict(k="A"), dict(k="X"), dict(k="blank")
IRECS = [dict(k="I", n=1, ents=[[36, 37, "LAD"]]), dict(k="I", n=1, ents=[[36, 36, "TDS"]]),
         dict(k="I", n=2, ents=[[36, 37, "LAD"], [38, 39, "LOD"]]), dict(k="I", n=1, ents=[[38, 40, "TDS"]])]


def rollover_files():
    """Hand-written line-level flights (every run): several day roll-overs in one file, across month / year / century /
    window ends, date headers after a roll-over (current, next, stale), B records before any date header."""
    out = []
    ends = [(1999, 12, 31), (2069, 12, 31), (1970, 1, 31), (2024, 2, 28), (2023, 2, 28), (2000, 2, 28), (1970, 12, 31),
            (2038, 1, 18), (2049, 12, 31), (1985, 6, 30)] + [(2001 + 5 * m, m, 28) for m in range(1, 13)] + [(1971 + 7 * m, m, 30) for m in range(1, 13) if m != 2]
    for (y, m, d) in ends:
        d0 = dayno(y, m, d)
        out.append([A, HD(d0), B(86399), B(0), B(86399), B(0), B(0), B(43200), B(43199)])       # three roll-overs
        out.append([A, H(HPAL[0]), HD(d0), H(HPAL[6]), B(80000), B(100), B(50), B(40), B(39), B(86399), B(86398)])
        out.append([A, HD(d0), B(86399), B(10), HD(d0 + 1), B(20), B(5), HD(d0 + 2), B(6), HD(d0 + 3), B(6), B(7)])
        out.append([A, HD(d0), B(86399), B(10), HD(d0), B(20)])                                 # stale header after a roll-over
        out.append([A, HD(d0), B(86399), B(10), HD(d0 + 1), B(5), HD(d0), B(4), B(3)])
        out.append([A, B(100), B(50), HD(d0), B(10), B(5)])                                     # fixes before any date
        out.append([A, B(86399), B(0), B(86399), B(0)])
        out.append([A, HD(d0), B(0), B(0), B(86399), B(86399), B(0)])                           # equal times do not roll
    return [dict(fam="glines", lines=ls) for ls in out]


def seeded_glines(seed, n):
    r = random.Random(seed * 104729 + 7)
    out = rollover_files()
    while len(out) < n + 200:
        ls = [A]
        for _ in range(r.choice([0, 0, 1, 2, 5])):
            ls.append(H(r.choice(HPAL)))
        day = dayno(r.randrange(1970, 2070), r.randrange(1, 13), r.choice([1, 15, 27, 28]))
        day += r.choice([0, 0, 1, 2, 3])
        if r.random() < 0.9:
            ls.append(HD(day))
        sec = r.choice([0, 86399, 86390, r.randrange(86400)])
        messy = r.random() < 0.25
        for _ in range(r.choice([1, 2, 3, 5, 8, 20, 60])):
            k = r.randrange(20)
            if k < 12:
                sec = min(86399, sec + r.choice([0, 1, 1, 4, 60, 3600]))
            elif k < 16:
                sec = r.choice([0, 1, r.randrange(0, sec + 1)])                     # time of day goes backwards: day roll-over
                day += 1
            elif k == 16:
                ls.append(HD(day))                                                  # a (re-)emitted header for the day reached
            elif k == 17:
                ls.append(H(r.choice(HPAL)))
            elif k == 18:
                day += r.choice([1, 1, 2, 30, 365])
                ls.append(HD(day))
                sec = r.randrange(86400)
            elif messy:
                ls.append(r.choice([X, BLANK, HD(day, short=True), B(sec, 34), B(sec, 36), B(sec, 40, ok=False), A] + IRECS))
            ls.append(B(sec))
        out.append(dict(fam="glines", lines=ls))
    return out


# ---------------------------------------------------------------- byte-stream classes of the quantifier
def _b(data, parts=None):
    c = dict(fam="bytes", b64=base64.b64encode(bytes(data)).decode())
    if parts:
        c["parts"] = [dict(b64=base64.b64encode(bytes(p)).decode(), rep=n) for p, n in parts]
    return c


GOODB = b"B1234564730123N00830456EA0050000600"
HEAD = b"AXXX001\nHFDTE250809\n"


def _forged_i(r):
    """An I record: a contiguous, gapped, overlapping, reversed, over-announced or truncated extension table."""
    n = r.choice([0, 1, 1, 2, 3, 5, 9, 20, 99, r.randrange(100)])
    pos = 36
    ents = b""
    for _ in range(min(n, r.choice([n, n, n, max(0, n - 1), n + 1]), 30)):
        w = r.choice([1, 1, 2, 3, 5, 10, 60])
        start = pos if r.random() < 0.75 else r.choice([pos - 1, pos + 1, 0, 1, 35, 99, r.randrange(100)])
        stop = start + w - 1 if r.random() < 0.85 else r.choice([start - 1, 0, 99, r.randrange(100)])
        code = r.choice([b"LAD", b"LOD", b"TDS", b"TDS", b"FXA", b"ENL", b"SIU", b"tds", b"\x00\x00\x00", b"LA"])
        ents += b"%02d%02d" % (start % 100, stop % 100) + code
        pos = max(pos, stop % 100 + 1)
    line = b"I%02d" % n + ents
    k = r.randrange(8)
    if k == 0:
        line = line[:r.randrange(len(line) + 1)]
    elif k == 1 and len(line) > 3:
        i = r.randrange(1, len(line))
        line = line[:i] + r.choice([b"-", b"X", b" ", b"\xff", b"+"]) + line[i + 1:]
    elif k == 2:
        line = b"I" + r.choice([b"-1", b"-9", b"  ", b"1", b"", b"9A", b"00", b"99"]) + ents
    return line, pos - 1


def _brec(r, blen):
    """A B record around the announced length: truncated, exact, over-long, with non-digits in any column."""
    ln = r.choice([blen, blen, blen - 1, blen + 1, 35, 34, 36, 1, 2, 7, 15, 24, 99, 100, 300, r.randrange(0, 120)])
    fill = r.choice([b"0", b"9", b"5", b"-", b"A", b" ", b"\x00"])
    line = bytearray((GOODB + fill * 400)[:max(0, ln)])
    for _ in range(r.choice([0, 0, 0, 1, 1, 2, 6])):
        if line:
            line[r.randrange(len(line))] = r.choice(b"0123456789-NSEWAVXZ .\x00\xff+")
    if r.random() < 0.2 and len(line) >= 7:
        line[1:7] = r.choice([b"235959", b"000000", b"240000", b"236000", b"235960", b"-10000", b"000001"])
    return bytes(line)


def byte_classes(seed, n):
    r = random.Random(seed * 15485863 + 3)
    out = []
    # fixed members of every class
    fixed = [b"", b"\n", b"\r", b"\r\n", b"\x00", b"A", b"B", b"AXXX\nB", b"AXXX\nI", b"AXXX\nH", b"AXXX\nI0", b"AXXX\nI01", b"AXXX\nHF", b"AXXX\nHFDTE",
             HEAD.replace(b"\n", b"\r") + GOODB + b"\r" + GOODB + b"\r",                       # CR-only: one single line
             HEAD + GOODB + b"\r\r\n" + GOODB + b"\n\r" + GOODB + b"\r\n\n\n" + GOODB,          # mixed line endings
             HEAD + GOODB[:20] + b"\x00" + GOODB[21:] + b"\n" + b"\x00" * 35 + b"\nB" + b"\x00" * 34 + b"\n",
             b"HFDTE250809\n" + GOODB + b"\n" + GOODB + b"\n",                                   # no A record at all
             b"axxx\nHFDTE250809\n" + GOODB + b"\n", b"\x13AXXX\n" + GOODB + b"\n", b"xyz AXXX\n" + GOODB + b"\n",
             b"\xef\xbb\xbf\x13 AXXX\n" + GOODB + b"\n", b"ZZZ\nAXXX\n" + GOODB + b"\n", b"\xffAXXX\nHFDTE010170\n" + GOODB,
             HEAD + b"I013636TDS\n" + GOODB + b"5\n" + GOODB + b"\n" + GOODB + b"X\n" + GOODB + b"-\n",
             HEAD + b"I023637LAD3838LOD\n" + GOODB + b"-5-\n" + GOODB + b"--5\n" + GOODB + b"999\n",
             HEAD + b"I013699TDS\n" + GOODB + b"0" * 64 + b"\n" + GOODB + b"0" * 63 + b"\n",
             HEAD + b"I" + b"99" + b"".join(b"%02d%02dFXA" % (36 + i, 36 + i) for i in range(64)) + b"\n" + GOODB + b"1" * 64 + b"\n"]
    out += [_b(x) for x in fixed]
    for cut in range(0, 37):                                                                    # a good B record cut at every column
        out.append(_b(HEAD + GOODB[:cut] + b"\n" + GOODB + b"\n"))
    for col in range(1, 35):                                                                    # ... and damaged at every column
        out.append(_b(HEAD + GOODB[:col] + r.choice([b"X", b"-", b"\x00", b" "]) + GOODB[col + 1:] + b"\nI013636TDS\n" + GOODB[:col] + b"-" + GOODB[col + 1:] + b"7\n"))
    # long things (by repetition in the driver)
    out += [_b(HEAD, [(b"I013636TDS\n", 3000), (GOODB + b"1\n", 3)]), _b(HEAD, [(b"I00\n", 5000), (GOODB + b"\n", 2)]),
            _b(HEAD, [(b"I01\n", 2000)]), _b(HEAD, [(b"I013737TDS\n" + GOODB + b"\n", 1500)]),
            _b(HEAD + b"B", [(b"1", 70000), (b"\n" + GOODB + b"\n", 1)]), _b(HEAD + GOODB + b"\nH", [(b"F", 200000), (b"\n" + GOODB + b"\n", 1)]),
            _b(b"", [(b"x", 66000), (b"\nAXXX\n" + GOODB + b"\n", 1)]), _b(HEAD + b"I", [(b"9", 65000), (b"\n", 1)]),
            _b(HEAD, [(GOODB + b"\n", 4000)]), _b(b"", [(b"\n", 100000), (HEAD + GOODB, 1)]), _b(HEAD + GOODB, [(b"\x00", 300000)]),
            _b(HEAD, [(b"HFDTE320809\n", 2500)]), _b(HEAD, [(GOODB[:34] + b"\n", 4000)]), _b(HEAD, [(GOODB, 1800)]),
            _b(HEAD + b"I033638LAD3940LOD4141TDS\n", [(GOODB + b"99\n", 700), (GOODB + b"998877\n", 700)])]
    while len(out) < n:
        k = r.randrange(10)
        if k == 0:                                                                              # random bytes
            out.append(_b(r.randbytes(r.choice([1, 8, 35, 36, 200, 2000]))))
        elif k == 1:                                                                            # random bytes with record structure
            lines = [r.choice([b"A", b"B", b"H", b"I", b"", b"HF", b"HFDTE", b"I01", b"I02"]) + r.randbytes(r.choice([0, 2, 6, 7, 34, 35, 40, 99])).replace(b"\n", b"0")
                     for _ in range(r.randrange(1, 30))]
            out.append(_b(b"A\n" * r.randrange(2) + r.choice([b"\n", b"\r\n", b"\r"]).join(lines)))
        elif k <= 5:                                                                            # forged I tables, then B records around the announced length
            data = bytearray(r.choice([HEAD, HEAD, b"AXXX\n", b""]))
            blen = 35
            for _ in range(r.choice([1, 1, 2, 3, 6])):
                line, b2 = _forged_i(r)
                data += line + r.choice([b"\n", b"\n", b"\r\n"])
                blen = max(35, min(99, b2))
                for _ in range(r.choice([1, 2, 4])):
                    data += _brec(r, r.choice([blen, blen, 35, 99])) + b"\n"
            out.append(_b(data))
        elif k == 6:                                                                            # over-long and truncated B records
            out.append(_b(HEAD + b"\n".join(_brec(r, 35) for _ in range(r.randrange(1, 12)))))
        elif k == 7:                                                                            # line endings and NUL bytes
            recs = [b"AXXX001", b"HFDTE311299", GOODB, b"I013636TDS", GOODB + b"5", b"B235959" + GOODB[7:], b"B000001" + GOODB[7:], b"", b"\x00", GOODB[:r.randrange(36)]]
            data = b"".join(r.choice(recs) + r.choice([b"\n", b"\r\n", b"\r", b"\r\r\n", b"\n\r", b"\x00\n", b"\x0b", b"\x0c", b"\x1a", b"\xe2\x80\xa8"])
                            for _ in range(r.randrange(1, 25)))
            out.append(_b(data))
        elif k == 8:                                                                            # A record missing / late / after noise
            pre = r.choice([b"", b"axxx\n", b"HFDTE010100\n", b"\x13", b"\xef\xbb\xbf", b" ", b"noise ", b"NOISE ", b"1234", b"\x00", b"B\n", GOODB + b"\n"])
            a = r.choice([b"", b"AXXX\n", b"A\n", b"xA\n", b"AA\n"])
            out.append(_b(pre + a + b"HFDTE010100\n" + GOODB + b"\n" + r.choice([b"", b"AXXX\n" + GOODB + b"\n"])))
        else:                                                                                   # date headers of every shape
            hs = [b"HFDTE" + r.choice([b"", b"0", b"0101", b"010100", b"320100", b"011300", b"0101-1", b"-10100", b"01010", b"DATE:010100,01", b"DATE:0101", b":", b"::", b"010100   ", b"\xff\xff\xff\xff\xff\xff"]) for _ in range(3)]
            hs += [b"H" + r.randbytes(r.randrange(0, 12)).replace(b"\n", b":"), b"HODTE311269", b"HFDTE311269", b"HFDTE010170", b"H", b"HF", b"HFD", b"HFDT"]
            r.shuffle(hs)
            out.append(_b(b"AXXX\n" + b"".join(h + b"\n" + b"B235959" + GOODB[7:] + b"\nB000000" + GOODB[7:] + b"\n" for h in hs[:r.randrange(1, 7)])))
    return out


def run(ctx, verdict):
    tier = "quick" if ctx.quick else "thorough"
    ctx.coverage_extra["model_a"] = []
    from concurrent.futures import ThreadPoolExecutor

    def model(fam, workers):
        # vlib.model_a without its (unsynchronised) additions to the counters of ctx: those are made below, in this thread
        cfg = "IGC_%s_%s.cfg" % (fam, tier)
        cs = []
        r = vlib.tlc(ctx, "IGCModel", cfg, workers=workers, on=lambda tag, obj: cs.append(obj) if tag == "CASE" else None, heap="8g")
        vlib.log("[modelA] IGCModel/%s: %d generated, %d distinct, %d emitted, %.1fs" % (cfg, r["generated"], r["distinct"], len(cs), r["seconds"]))
        cs.sort(key=json.dumps)                            # TLC's workers emit in any order; its ToJson orders the fields
        return dict(cfg=cfg, cases=len(cs), states=r["distinct"], generated=r["generated"]), cs

    def seeded():
        q = ctx.quick
        return (seeded_tracks(ctx.seed, 1 if q else 300, q), seeded_glines(ctx.seed, 400 if q else 150000),
                byte_classes(ctx.seed, 700 if q else 400000), mutated_samples(ctx.seed, 3000 if q else 150000))
    # the three enumerations, the seeded generators and the driver build run side by side
    with ThreadPoolExecutor(max_workers=5) as ex:
        fl, ft, fr = ex.submit(model, "lines", 8), ex.submit(model, "tracks", 4), ex.submit(model, "rolls", 2 if ctx.quick else 4)
        fs, fd = ex.submit(seeded), ex.submit(ctx.drive)
        (ml, lines), (mt, tracks), (mr, rolls), (strk, sgl, sby, smut), _ = fl.result(), ft.result(), fr.result(), fs.result(), fd.result()
    for m in (ml, mt, mr):
        ctx.states += m["states"]
        ctx.transitions += m.pop("generated")
        ctx.coverage_extra["model_a"].append(m)
    ctx.coverage_extra["seeded"] = dict(tracks=len(strk), track_fixes=sum(len(c["track"]) for c in strk),
                                        track_start_years=len({datetime.date.fromordinal(c["track"][0]["t"][0] + EPOCH).year for c in strk if c["track"]}),
                                        line_files=len(sgl), byte_streams=len(sby), mutated=len(smut))
    cases = lines + tracks + rolls + strk + sgl
    # non-trivial = a round trip or a line sequence with at least one fix; the enumerated cases are distinct states of the model
    ctx.distinct.update(("lines", i) for i, c in enumerate(lines) if c["nfix"] > 0)
    ctx.distinct.update(("tracks", i) for i in range(len(tracks)))
    ctx.distinct.update(("rolls", i) for i in range(len(rolls)))
    ctx.distinct.update(vlib.digest(c) for c in strk + sgl)
    ctx.samples += [lines[0], tracks[0], strk[1], sgl[0]]
    cases += sby + smut
    random.Random(ctx.seed).shuffle(cases)            # every driver / TLC chunk gets the same mix of light and heavy records
    pipe(ctx, verdict, cases)
    ctx.assumptions += ["line-level family: records rendered by the driver from the model's abstract lines (fixed valid "
                        "position fields; extension columns padded with 0); timestamps are compared only once a valid date "
                        "header was seen; seeded line-level files (H records of a palette, long flights with several day "
                        "roll-overs) are decided by evaluating the decoder model in IGCObs; after a date header that names a day "
                        "before the last fix the instants are not judged",
                        "byte-stream family: seeded mutations (byte flips, deletions, truncated and spliced records, forged I "
                        "records) of synthetic files, and seeded classes (random bytes, forged I tables with B records around the "
                        "announced length, B records cut / damaged at every column, CR-only and mixed line endings, NUL bytes, "
                        "missing / late A record, thousands of I records, lines beyond 64 KiB): totality, whole fixes, error kind only",
                        "round trip: positions in units of 1/6000000 degree (seeded tracks: plus millionths of a unit), tolerance "
                        "1/60000 degree + 1 unit; fractional altitudes accept either neighbouring integer; decreasing times and "
                        "positions outside the domain: totality of Read only (nothing is demanded of the encoder there); altitudes "
                        "outside 0..10000 may come back clamped to 10000 or to 99999, negative ones as 0; the date headers a writer "
                        "emits are not judged; line level: one header per H record with a colon, key and value (source and key "
                        "compared), other H records may be returned, skipped or reported as errors; counts and instants are judged "
                        "only for files whose fixes, dated by the latest date header, never go backwards (no day roll-over inference)",
                        "an empty non-nil igc.Errors is not distinguished from nil (the statement does not say which)"]
