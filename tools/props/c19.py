"""C19: IGC decoding is total; encode-then-decode keeps a track to format resolution."""
import base64
import glob
import os
import random
import vlib


def pipe(ctx, verdict, cases, name="igc"):
    obs = vlib.run_driver(ctx, "igc", cases)
    viols = vlib.model_b(ctx, "IGCObs", "Obs.cfg", obs, name="IGCObs")
    for idx, v in viols:
        o = obs[idx]
        verdict.add(name, v["sig"], cases[idx], dict(msg=str(o.get("msg", ""))[:200], text=str(o.get("text", ""))[:300]))
    return obs


PIPES = {"igc": pipe}


def mutated_samples(seed, n):
    """Byte streams: mutations of the repository's IGC sample files and of synthetic files with I records."""
    r = random.Random(seed)
    bases = []
    for f in sorted(glob.glob(os.path.join(vlib.REPO, "encoding/igc/testdata/*.igc")))[:6]:
        bases.append(open(f, "rb").read()[:6000])
    bases.append(b"AXXX001\r\nHFDTE250809\r\nI033638LAD3940LOD4141TDS\r\nB1234564730123N00830456EA00500006001234\r\n"
                 b"B1234574730123N00830456EA0050000600123\r\nB2359594730123S17959999WA-050000600999\r\nB0000014730123N00830456EA00500006001234\r\n")
    bases.append(b"\xef\xbb\xbfAXXX\nHFDTE311299\nB2359584730123N00830456EA0050000600\nB0000014730123N00830456EA0050000600\nI013636TDS\nB0000024730123N00830456EA00500006005\n")
    out = []
    while len(out) < n:
        b = bytearray(r.choice(bases))
        for _ in range(r.choice([1, 1, 2, 4, 8])):
            k = r.randrange(7)
            pos = r.randrange(len(b)) if b else 0
            if k == 0 and b:
                b[pos] = r.randrange(256)
            elif k == 1 and b:
                del b[pos:pos + r.randrange(1, 40)]
            elif k == 2:
                b[pos:pos] = bytes(r.choice([b"I", b"B", b"H", b"\n", b"-", b"99", b"I99", b"HFDTE", b"\r", b"A", b"\x13"]))
            elif k == 3 and b:
                e = b.find(b"\n", pos)
                b[pos:e if e > 0 else len(b)] = b""                 # truncate a record
            elif k == 4 and b:
                s = b.rfind(b"\n", 0, pos) + 1
                e = b.find(b"\n", pos)
                line = b[s:e if e > 0 else len(b)]
                b[pos:pos] = line                                     # splice a record into another
            elif k == 5 and b:
                # a letter inside a B record (late field errors: altitude, extension digits)
                bs = [i for i in range(len(b)) if b[i:i + 1] == b"B" and (i == 0 or b[i - 1:i] == b"\n")]
                if bs:
                    s0 = r.choice(bs)
                    b[min(len(b) - 1, s0 + r.randrange(24, 40))] = ord(r.choice("XZ-."))
            elif b:
                b = b[:pos]
        out.append(dict(fam="bytes", b64=base64.b64encode(bytes(b[:8000])).decode()))
    return out


def run(ctx, verdict):
    tier = "quick" if ctx.quick else "thorough"
    cases = []
    ctx.coverage_extra["model_a"] = []
    for fam in ("lines", "tracks"):
        cfg = "IGC_%s_%s.cfg" % (fam, tier)
        out, r = vlib.model_a(ctx, "IGCModel", cfg, ["CASE"], workers=8)
        cs = sorted(out["CASE"], key=vlib.digest)
        ctx.coverage_extra["model_a"].append(dict(cfg=cfg, cases=len(cs), states=r["distinct"]))
        cases += cs
    vlib.note_cases(ctx, cases, nontrivial=lambda c: c["fam"] == "tracks" or c.get("nfix", 0) > 0)
    cases += mutated_samples(ctx.seed, 3000 if ctx.quick else 60000)
    pipe(ctx, verdict, cases)
    ctx.assumptions += ["line-level family: records rendered by the driver from the model's abstract lines (fixed valid "
                        "position fields; extension columns padded with 0); timestamps are compared only once a valid date "
                        "header was seen", "byte-stream family: seeded mutations (byte flips, deletions, truncated and spliced "
                        "records, forged I records) of the repository's sample files: totality and whole fixes only",
                        "round trip: positions in units of 1/6000000 degree, tolerance 1/60000 degree + 1 unit"]
