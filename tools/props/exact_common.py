"""Shared pipeline of the exact-geometry family (C10-C13, C15, C20):
model A (ExactModel, TLC) enumerates every input of a bounded family and checks the oracle's own laws ->
the Go driver runs the real functions -> model B (ExactObs, TLC) decides every recorded output.
The big-integer tier (Apalache) evaluates the same operators of ExactGeom.tla on float64 / large-grid inputs."""
import os
import random
from fractions import Fraction
import vlib

SUB = {"orient": "orientgrid", "locate": "locate", "segseg": "segseggrid", "hull": "hull", "dist2": "dist",
       "dist3": "dist", "rdp": "rdp", "rdpseq": "rdpseq"}


def pipe(mode, sub=None):
    def run_cases(ctx, verdict, cases, name=None):
        obs = vlib.run_driver(ctx, sub or SUB[mode], cases, per_call_ms=20000)
        if len(cases) < 4000:      # few but heavy observations (200-point hulls): spread them over all cores
            obs = list(obs)
        viols = vlib.model_b(ctx, "ExactObs", "Obs.cfg", obs, env={"MODE": mode}, name="ExactObs/" + mode,
                             heap="2g", chunk=max(10, (len(cases) + 15) // 16))
        for idx, v in viols:
            verdict.add(name or mode, v["sig"], cases[idx], dict(row=v["row"]))
        return obs
    return run_cases


def enumerate_cases(ctx, cfg, workers=8, timeout=1500):
    out, r = vlib.model_a(ctx, "ExactModel", cfg, ["CASE"], workers=workers, timeout=timeout)
    cases = sorted(out["CASE"], key=vlib.digest)
    ctx.coverage_extra.setdefault("model_a", []).append(dict(cfg=cfg, cases=len(cases), states=r["distinct"]))
    return cases


def family(ctx, verdict, mode, nontrivial=lambda c: True):
    cfg = "Exact_%s_%s.cfg" % (mode, "quick" if ctx.quick else "thorough")
    cases = enumerate_cases(ctx, cfg)
    vlib.note_cases(ctx, cases, nontrivial)
    pipe(mode)(ctx, verdict, cases)
    return cases


# ------------------------------------------------------------------ exact numbers
def parse_exact(s):
    """'m:e' -> Fraction (exact)."""
    m, e = s.split(":")
    m, e = int(m), int(e)
    return Fraction(m) * (Fraction(2) ** e)


def to_exact(f):
    """python float -> 'm:e' (exact)."""
    if f == 0:
        return "0:0"
    m, e = f.hex(), 0
    fr = Fraction(f)
    n, d = fr.numerator, fr.denominator
    e = 0
    while d > 1:
        d //= 2
        e -= 1
    while n % 2 == 0:
        n //= 2
        e += 1
    return "%d:%d" % (n, e)


def scale_ints(fracs):
    """Scale a list of Fractions (all dyadic) by the common power of two that makes them integers."""
    k = 0
    for f in fracs:
        d = f.denominator
        b = d.bit_length() - 1
        if (1 << b) != d:
            raise vlib.Infra("non-dyadic value in exact tier")
        k = max(k, b)
    return [int(f * (1 << k)) for f in fracs], k


def tla_int(n):
    return str(n) if n >= 0 else "(%d)" % n


def tla_pt(ints):
    return "<<" + ", ".join(tla_int(v) for v in ints) + ">>"


def apalache_obs(ctx, verdict, name, exprs, cases, sigs, pipe_name, group=20, per_module=400, timeout=1500):
    """exprs[k]: a TLA+ Boolean expression over ExactGeom operators that must hold for observation k.
    Failing observations are collected through the `bad` set (DESIGN 2.5)."""
    from concurrent.futures import ThreadPoolExecutor
    spec = open(os.path.join(ctx.specdir, "ExactGeom.tla")).read()
    chunks = [list(range(i, min(i + per_module, len(exprs)))) for i in range(0, len(exprs), per_module)]

    def one(args):
        ci, ks = args
        mod = "%s_%d" % (name, ci)
        lines = ["---- MODULE %s ----" % mod, "EXTENDS ExactGeom"]
        for k in ks:
            lines.append("O%d == %s" % (k, exprs[k]))
            lines.append("B%d == IF O%d THEN {} ELSE {%d}" % (k, k, k))
        groups = [ks[i:i + group] for i in range(0, len(ks), group)]
        for gi, g in enumerate(groups):
            lines.append("U%d == %s" % (gi, " \\cup ".join("B%d" % k for k in g)))
        lines += ["VARIABLE", "  \\* @type: Set(Int);", "  bad",
                  "Init == bad = " + " \\cup ".join("U%d" % gi for gi in range(len(groups))),
                  "Next == UNCHANGED bad", "Ok == bad = {}", "===="]
        return vlib.apalache(ctx, "\n".join(lines), mod, timeout=timeout, extra_files={"ExactGeom.tla": spec})
    failing = set()
    with ThreadPoolExecutor(max_workers=min(8 if ctx.quick else 5, len(chunks) or 1)) as ex:
        for bad in ex.map(one, list(enumerate(chunks))):
            failing |= bad
    ctx.validated += len(exprs)
    for k in sorted(failing):
        verdict.add(pipe_name, sigs[k], cases[k], dict(expr=exprs[k][:400]))
    return failing


# ------------------------------------------------------------------ seeded generators for the large-grid tiers
def _gcd(a, b):
    while b:
        a, b = b, a % b
    return abs(a)


def lattice_on(r, a, b):
    """A lattice point on the closed segment a-b (dimension-generic)."""
    d = [y - x for x, y in zip(a, b)]
    g = 0
    for v in d:
        g = _gcd(g, v)
    if g == 0:
        return list(a)
    k = r.randrange(0, g + 1)
    return [x + k * (v // g) for x, v in zip(a, d)]


def rnd_pt(r, G, dim=2):
    return [r.randrange(-G, G + 1) for _ in range(dim)]


def seg_pairs(seed, n, grids=(1 << 10, 1 << 16, 1 << 20), dim=2):
    """Biased pairs of segments [a, b, c, d] with a family label."""
    r = random.Random(seed)
    fams = ["random", "touch", "tee", "collinear-overlap", "collinear-touch", "collinear-apart", "parallel",
            "axis-cross", "near-parallel", "degenerate", "point-on-long", "near-long"]
    out = []
    while len(out) < n:
        G = r.choice(grids)
        fam = fams[len(out) % len(fams)]
        a, b = rnd_pt(r, G, dim), rnd_pt(r, G, dim)
        if a == b:
            continue
        d = [y - x for x, y in zip(a, b)]
        if fam == "random":
            c, e = rnd_pt(r, G, dim), rnd_pt(r, G, dim)
        elif fam == "touch":
            c, e = r.choice([a, b])[:], rnd_pt(r, G, dim)
        elif fam == "tee":
            c, e = lattice_on(r, a, b), rnd_pt(r, G, dim)
        elif fam in ("collinear-overlap", "collinear-touch", "collinear-apart"):
            g = 0
            for v in d:
                g = _gcd(g, v)
            u = [v // g for v in d]
            if fam == "collinear-overlap":
                k1, k2 = r.randrange(-g, 2 * g + 1), r.randrange(0, g + 1)
            elif fam == "collinear-touch":
                k1, k2 = r.choice([0, g]), r.randrange(-2 * g, 3 * g + 1)
            else:
                k1, k2 = g + 1 + r.randrange(0, g + 1), 2 * g + 2 + r.randrange(0, g + 1)
            c, e = [x + k1 * v for x, v in zip(a, u)], [x + k2 * v for x, v in zip(a, u)]
        elif fam == "parallel":
            off = rnd_pt(r, max(2, G // 64), dim)
            k = r.choice([1, 1, 2, -1])
            c = [x + o for x, o in zip(a, off)]
            e = [x + k * v for x, v in zip(c, d)]
        elif fam == "axis-cross":
            ax = r.randrange(2)
            b = a[:]
            b[ax] = a[ax] + r.randrange(1, 2 * G)
            m = [(x + y) // 2 for x, y in zip(a, b)]
            off = rnd_pt(r, G, dim)
            c = [x + o for x, o in zip(m, off)]
            e = [x - o + r.randrange(-3, 4) for x, o in zip(m, off)]
        elif fam == "near-parallel":
            a = [0] * dim
            a[0] = -G
            b = [0] * dim
            b[0] = G
            h = r.randrange(1, 9)
            c = [-G, -h] + [r.randrange(-3, 4) for _ in range(dim - 2)]
            e = [G, h + r.randrange(0, 2)] + [r.randrange(-3, 4) for _ in range(dim - 2)]
            sh = rnd_pt(r, G // 8 + 1, dim)
            a, b, c, e = [[x + s for x, s in zip(p, sh)] for p in (a, b, c, e)]
        elif fam == "degenerate":
            c = rnd_pt(r, G, dim)
            e = c[:]
            if r.randrange(3) == 0:
                c = e = lattice_on(r, a, b)
        elif fam == "point-on-long":
            c = lattice_on(r, a, b)
            e = c[:]
        else:  # near-long: a point one step off a long segment, as a zero-length or tiny second segment
            c = lattice_on(r, a, b)
            c[r.randrange(dim)] += r.choice([-1, 1])
            e = c[:] if r.randrange(2) else [x + r.randrange(-2, 3) for x in c]
        out.append(dict(fam=fam, seg=[a, b, c, e]))
    return out


def obs_ints(strs_in, strs_out):
    """Scale the exact 'm:e' strings of one observation (inputs, outputs) to integers by a common power of two."""
    fr = [parse_exact(s) for s in strs_in + strs_out]
    ints, k = scale_ints(fr)
    return ints[:len(strs_in)], ints[len(strs_in):], k
