"""Shared pipeline of the exact-geometry family (C10-C13, C15, C20):
model A (ExactModel, TLC) enumerates every input of a bounded family and checks the oracle's own laws ->
the Go driver runs the real functions -> model B (ExactObs, TLC) decides every recorded output.
The big-integer tier (Apalache) evaluates the same operators of ExactGeom.tla on float64 / large-grid inputs."""
import os
import random
from fractions import Fraction
import vlib

SUB = {"orient": "orientgrid", "locate": "locate", "segseg": "segseggrid", "hull": "hull", "dist2": "dist",
       "dist3": "dist", "rdp": "rdp"}


def pipe(mode, sub=None):
    def run_cases(ctx, verdict, cases, name=None):
        obs = vlib.run_driver(ctx, sub or SUB[mode], cases, per_call_ms=20000)
        if len(cases) < 4000:      # few but heavy observations (200-point hulls): spread them over all cores
            obs = list(obs)
        viols = vlib.model_b(ctx, "ExactObs", "Obs.cfg", obs, env={"MODE": mode}, name="ExactObs/" + mode,
                             heap="2g", chunk=max(10, (len(cases) + 15) // 16))
        for idx, v in viols:
            verdict.add(name or mode, v["sig"], cases[idx], dict(row=v["row"]))
        return obs
    return run_cases


def enumerate_cases(ctx, cfg, workers=8, timeout=1500):
    out, r = vlib.model_a(ctx, "ExactModel", cfg, ["CASE"], workers=workers, timeout=timeout)
    cases = sorted(out["CASE"], key=vlib.digest)
    ctx.coverage_extra.setdefault("model_a", []).append(dict(cfg=cfg, cases=len(cases), states=r["distinct"]))
    return cases


def family(ctx, verdict, mode, nontrivial=lambda c: True):
    cfg = "Exact_%s_%s.cfg" % (mode, "quick" if ctx.quick else "thorough")
    cases = enumerate_cases(ctx, cfg)
    vlib.note_cases(ctx, cases, nontrivial)
    pipe(mode)(ctx, verdict, cases)
    return cases


# ------------------------------------------------------------------ exact numbers
def parse_exact(s):
    """'m:e' -> Fraction (exact)."""
    m, e = s.split(":")
    m, e = int(m), int(e)
    return Fraction(m) * (Fraction(2) ** e)


def to_exact(f):
    """python float -> 'm:e' (exact)."""
    if f == 0:
        return "0:0"
    m, e = f.hex(), 0
    fr = Fraction(f)
    n, d = fr.numerator, fr.denominator
    e = 0
    while d > 1:
        d //= 2
        e -= 1
    while n % 2 == 0:
        n //= 2
        e += 1
    return "%d:%d" % (n, e)


def scale_ints(fracs):
    """Scale a list of Fractions (all dyadic) by the common power of two that makes them integers."""
    k = 0
    for f in fracs:
        d = f.denominator
        b = d.bit_length() - 1
        if (1 << b) != d:
            raise vlib.Infra("non-dyadic value in exact tier")
        k = max(k, b)
    return [int(f * (1 << k)) for f in fracs], k


def tla_int(n):
    return str(n) if n >= 0 else "(%d)" % n


def tla_pt(ints):
    return "<<" + ", ".join(tla_int(v) for v in ints) + ">>"


def apalache_obs(ctx, verdict, name, exprs, cases, sigs, pipe_name, group=20, per_module=400, timeout=1500):
    """exprs[k]: a TLA+ Boolean expression over ExactGeom operators that must hold for observation k.
    Failing observations are collected through the `bad` set (DESIGN 2.5)."""
    from concurrent.futures import ThreadPoolExecutor
    spec = open(os.path.join(ctx.specdir, "ExactGeom.tla")).read()
    chunks = [list(range(i, min(i + per_module, len(exprs)))) for i in range(0, len(exprs), per_module)]

    def one(args):
        ci, ks = args
        mod = "%s_%d" % (name, ci)
        lines = ["---- MODULE %s ----" % mod, "EXTENDS ExactGeom"]
        for k in ks:
            lines.append("O%d == %s" % (k, exprs[k]))
            lines.append("B%d == IF O%d THEN {} ELSE {%d}" % (k, k, k))
        groups = [ks[i:i + group] for i in range(0, len(ks), group)]
        for gi, g in enumerate(groups):
            lines.append("U%d == %s" % (gi, " \\cup ".join("B%d" % k for k in g)))
        lines += ["VARIABLE", "  \\* @type: Set(Int);", "  bad",
                  "Init == bad = " + " \\cup ".join("U%d" % gi for gi in range(len(groups))),
                  "Next == UNCHANGED bad", "Ok == bad = {}", "===="]
        return vlib.apalache(ctx, "\n".join(lines), mod, timeout=timeout, extra_files={"ExactGeom.tla": spec})
    failing = set()
    with ThreadPoolExecutor(max_workers=min(6, len(chunks) or 1)) as ex:
        for bad in ex.map(one, list(enumerate(chunks))):
            failing |= bad
    ctx.validated += len(exprs)
    for k in sorted(failing):
        verdict.add(pipe_name, sigs[k], cases[k], dict(expr=exprs[k][:400]))
    return failing
