"""C14: centroids, ring direction and signed area match exact geometry."""
import vlib


def pipe(ctx, verdict, cases, name="centroid"):
    obs = vlib.run_driver(ctx, "centroid", cases)
    viols = vlib.model_b(ctx, "SumsObs", "Obs.cfg", obs, env={"MODE": "centroid"}, name="SumsObs/centroid")
    for idx, v in viols:
        verdict.add(name, v["sig"], cases[idx], dict(row=v["row"]))
    return obs


G15 = 1 << 15


def big_cases(seed, n):
    """Polygons with integer vertices on a grid of 2^15 (slivers: 2^20): thin slivers of tiny non-zero area (triangles and convex quads),
    ordinary triangles / convex polygons, a shell with a hole, two members; every ring in a random direction and from a
    random start vertex. All intermediate values of a float64 evaluation are exact integers for such input."""
    import math
    import random
    r = random.Random(seed)

    def ring(vs):
        vs = list(vs)
        if r.randrange(2):
            vs.reverse()
        k = r.randrange(len(vs))
        vs = vs[k:] + vs[:k]
        return vs + [vs[0]]

    def area2(vs):
        return sum(vs[i - 1][0] * vs[i][1] - vs[i][0] * vs[i - 1][1] for i in range(len(vs)))

    def convex(cx, cy, rad, m):
        angs = sorted(r.uniform(0, 2 * math.pi) for _ in range(m))
        vs = []
        for a in angs:
            p = [cx + int(rad * math.cos(a)), cy + int(rad * math.sin(a))]
            if p not in vs:
                vs.append(p)
        return vs if len(vs) >= 3 and area2(vs) != 0 else None

    out = []
    fams = ["sliver3", "sliver3", "sliver4", "tri", "convex", "hole", "two", "star"]
    while len(out) < n:
        fam = fams[len(out) % len(fams)]
        # slivers live on a grid of 2^20: every triangle of the fan is thin, so its doubled area is a small integer and all
        # products stay exact; the other families on 2^15
        G = (1 << 20) if fam.startswith("sliver") else G15
        ox, oy = r.randrange(-G // 4, G // 4), r.randrange(-G // 4, G // 4)
        L = r.randrange(G // 4, G // 2)
        if fam == "sliver3":                       # two far vertices one step apart: doubled area of a few units
            h = r.randrange(-3, 4)
            vs = [[ox, oy], [ox + L, oy + h + r.choice([1, 2])], [ox + L + r.choice([1, 2, 3]), oy + h + r.choice([1, 2])]]
            if r.randrange(2):
                vs = [[y, x] for x, y in vs]
            polys = [[vs]]
        elif fam == "sliver4":                     # a long parallelogram of height 1..2 along a slanted direction
            dx, dy = L, r.randrange(-L // 3, L // 3)
            e = r.choice([[0, 1], [1, 0], [1, 1], [0, 2]])
            vs = [[ox, oy], [ox + dx, oy + dy], [ox + dx + e[0], oy + dy + e[1]], [ox + e[0], oy + e[1]]]
            polys = [[vs]]
        elif fam == "tri":
            vs = [[r.randrange(-G15, G15), r.randrange(-G15, G15)] for _ in range(3)]
            polys = [[vs]]
        elif fam == "convex":
            vs = convex(ox, oy, L, r.choice([4, 5, 7, 12]))
            polys = [[vs]] if vs else None
        elif fam == "hole":
            sh = convex(ox, oy, L, 8)
            ho = convex(ox, oy, max(3, L // 16), 5)
            polys = [[sh, ho]] if sh and ho and abs(area2(sh)) > 64 * abs(area2(ho)) and min(
                (x - ox) ** 2 + (y - oy) ** 2 for x, y in sh) > (L // 4) ** 2 else None
        elif fam == "star":                        # star-shaped (simple, not convex): increasing angles, alternating radii
            m = r.choice([6, 8, 10, 14])
            angs = sorted(r.uniform(0, 2 * math.pi) for _ in range(m))
            vs = []
            for i, a_ in enumerate(angs):
                rad = L if i % 2 == 0 else max(4, L // r.choice([2, 3, 7]))
                q = [ox + int(rad * math.cos(a_)), oy + int(rad * math.sin(a_))]
                if q not in vs:
                    vs.append(q)
            gaps = [angs[(i + 1) % m] - angs[i] + (2 * math.pi if i == m - 1 else 0) for i in range(m)]
            polys = [[vs]] if len(vs) == m and max(gaps) < 3.0 else None
        else:
            a = convex(ox - L, oy, L // 3, 5)
            b = [[ox + L, oy], [ox + 2 * L, oy + r.choice([1, 2])], [ox + 2 * L + 1, oy + r.choice([1, 2, 3])]]
            polys = [[a], [b]] if a else None
        if not polys or any(area2(rg) == 0 for pg in polys for rg in pg) or max(abs(v) for pg in polys for rg in pg for q in rg for v in q) > G:
            continue
        out.append(dict(kind="poly", polys=[[ring(rg) for rg in pg] for pg in polys], off=[0, 0], fam=fam))
    return out


def big_pipe(ctx, verdict, cases, name="centroidx"):
    """Numeric clause on large grids: Apalache decides CentroidBig!CentroidOK on exact integers for every entry point."""
    import os
    from props import exact_common as ec
    from props import c18
    obs = list(vlib.run_driver(ctx, "centroid", cases, for_tlc=False))
    names = ["PolygonsCentroid", "MultiPolygonCentroid", "Centroid(MultiPolygon)", "Centroid(Polygon)"]
    exprs, sigs, owners = [], [], []
    for ci, (c, o) in enumerate(zip(cases, obs)):
        rings = [rg for pg in c["polys"] for rg in pg]
        shell = [j == 0 for pg in c["polys"] for j, _ in enumerate(pg)]
        sc = max(1, max(abs(v) for rg in rings for q in rg for v in q))
        rs = "<<" + ", ".join("<<" + ", ".join(ec.tla_pt(q) for q in rg) + ">>" for rg in rings) + ">>"
        ix = "<<" + ", ".join("<<" + ", ".join(str(i) for i in range(2, len(rg) + 1)) + ">>" for rg in rings) + ">>"
        sh = "<<" + ", ".join("TRUE" if b else "FALSE" for b in shell) + ">>"
        ks = "<<" + ", ".join(str(i + 1) for i in range(len(rings))) + ">>"
        conj = []
        if o.get("ev", "ok") != "ok":
            conj = ["FALSE"]
        for ri, row in enumerate(o.get("res", [])):
            if row["pan"] or row["x"]["t"] != "num" or row["y"]["t"] != "num":
                conj.append("FALSE")
                continue
            ints, k = ec.scale_ints([ec.parse_exact(row["x"]["x"]), ec.parse_exact(row["y"]["x"])])
            conj.append("CentroidOK(%s, %s, %s, %s, %s, %s, %d, %d)" % (rs, ix, sh, ks, ec.tla_int(ints[0]), ec.tla_int(ints[1]), 1 << k, sc))
        # direction and signed area of every ring (all rings of this tier are simple)
        for rg, ro in zip(rings, o.get("rings", [])):
            if ro["pan"] or ro["sa2"]["x"] in ("nan", "+inf", "-inf", "panic"):
                conj.append("FALSE")
                continue
            ints, k = ec.scale_ints([ec.parse_exact(ro["sa2"]["x"])])
            conj.append("RingOK(<<%s>>, <<%s>>, %s, %s, %d, %d)" % (", ".join(ec.tla_pt(q) for q in rg), ", ".join(str(i) for i in range(2, len(rg) + 1)),
                                                                    "TRUE" if ro["ccw"] else "FALSE", ec.tla_int(ints[0]), 1 << k, sc))
        exprs.append(" /\\ ".join(conj) if conj else "TRUE")
        sigs.append("centroid|big|" + c["fam"] + "|outside-2^-30-of-scale")
    spec = open(os.path.join(ctx.specdir, "CentroidBig.tla")).read()
    return c18.apalache_decimal(ctx, verdict, exprs, cases, sigs, name, spec, per_module=10 if ctx.quick else 40, extends="CentroidBig", modprefix="CenObs")


PIPES = {"centroid": pipe, "centroidx": big_pipe}


def run(ctx, verdict):
    cfg = "Sums_centroid_quick.cfg" if ctx.quick else "Sums_centroid_thorough.cfg"
    out, r = vlib.model_a(ctx, "SumsModel", cfg, ["CASE"], workers=12)
    cases = sorted(out["CASE"], key=vlib.digest)
    vlib.note_cases(ctx, cases)
    ctx.coverage_extra["model_a"] = [dict(cfg=cfg, cases=len(cases), states=r["distinct"])]
    pipe(ctx, verdict, cases)
    big = big_cases(ctx.seed, 70 if ctx.quick else 1400)
    vlib.note_cases(ctx, big)
    big_pipe(ctx, verdict, big)
    ctx.coverage_extra["numeric_tier"] = dict(cases=len(big), grid=G15, checker="Apalache on CentroidBig!CentroidOK (exact integers)")
    ctx.assumptions += ["large-grid tier: seeded polygons with integer vertices up to 2^15 (slivers of doubled area 1..50 with vertices up to 2^20, "
                        "triangles, convex polygons, a hole, two members), area-weighted centroid of every entry point within "
                        "2^-30 x scale of the exact rational centroid (Apalache)"]
    ctx.assumptions += ["polygons are assembled by the model from a catalogue of 5 simple shells (convex, concave, flat "
                        "top, unique top vertex) x both directions x every start vertex x subsets of 2 holes in both "
                        "directions x up to 2 members x offsets up to 1e5; validity (simple rings, holes strictly "
                        "inside) is checked by TLC on the catalogue itself",
                        "centroids compared in 2^-8 fixed point relative to the offset (tolerance 2/256); ring direction "
                        "and signed area compared exactly"]
