"""C14: centroids, ring direction and signed area match exact geometry."""
import vlib


def pipe(ctx, verdict, cases, name="centroid"):
    obs = vlib.run_driver(ctx, "centroid", cases)
    viols = vlib.model_b(ctx, "SumsObs", "Obs.cfg", obs, env={"MODE": "centroid"}, name="SumsObs/centroid")
    for idx, v in viols:
        verdict.add(name, v["sig"], cases[idx], dict(row=v["row"]))
    return obs


PIPES = {"centroid": pipe}


def run(ctx, verdict):
    cfg = "Sums_centroid_quick.cfg" if ctx.quick else "Sums_centroid_thorough.cfg"
    out, r = vlib.model_a(ctx, "SumsModel", cfg, ["CASE"], workers=12)
    cases = sorted(out["CASE"], key=vlib.digest)
    vlib.note_cases(ctx, cases)
    ctx.coverage_extra["model_a"] = [dict(cfg=cfg, cases=len(cases), states=r["distinct"])]
    pipe(ctx, verdict, cases)
    ctx.assumptions += ["polygons are assembled by the model from a catalogue of 5 simple shells (convex, concave, flat "
                        "top, unique top vertex) x both directions x every start vertex x subsets of 2 holes in both "
                        "directions x up to 2 members x offsets up to 1e5; validity (simple rings, holes strictly "
                        "inside) is checked by TLC on the catalogue itself",
                        "centroids compared in 2^-8 fixed point relative to the offset (tolerance 2/256); ring direction "
                        "and signed area compared exactly"]
