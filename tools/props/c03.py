"""C03: WKB/EWKB emit the standard byte layout and decode back to the same geometry."""
import vlib


def pipe(ctx, verdict, cases, name="wkbenc"):
    obs = vlib.run_driver(ctx, "wkbenc", cases)
    viols = vlib.model_b(ctx, "WKBObs", "Obs.cfg", obs, name="WKBObs")
    for idx, v in viols:
        verdict.add(name, v["sig"], cases[idx], dict(flavor=v["flavor"], t=v["t"]))


PIPES = {"wkbenc": pipe}


def run(ctx, verdict):
    cfg = "WKB_quick.cfg" if ctx.quick else "WKB_thorough.cfg"
    out, r = vlib.model_a(ctx, "WKBModel", cfg, ["CASE"], workers=8)
    cases = sorted(out["CASE"], key=vlib.digest)
    vlib.note_cases(ctx, cases, nontrivial=lambda c: c["g"]["body"] != [])
    ctx.coverage_extra["model_a"] = [dict(cfg=cfg, cases=len(cases), states=r["distinct"])]
    pipe(ctx, verdict, cases)
    ctx.assumptions += ["SRIDs from a palette {none, 1, 4326, 2^31, 2^32-1}; ordinates from a palette of float64 bit "
                        "patterns incl. non-canonical NaNs; reader schedules: chunk sizes 1/2/3/7/mixed/as-asked, "
                        "data-with-EOF, zero-length deliveries; writer failing at every byte position"]
