"""C03: WKB/EWKB emit the standard byte layout and decode back to the same geometry."""
import vlib

MEM = 6 << 30      # address-space limit of the driver: an encoder's garbage, decoded again, must not take the machine down


def pipe(ctx, verdict, cases, name="wkbenc"):
    obs = vlib.run_driver(ctx, "wkbenc", cases, mem=MEM)
    viols = vlib.model_b(ctx, "WKBObs", "Obs.cfg", obs, name="WKBObs")
    for idx, v in viols:
        verdict.add(name, v["sig"], cases[idx], dict(flavor=v["flavor"], t=v["t"]))


PIPES = {"wkbenc": pipe}


def long_cases(ctx):
    """Coordinate arrays far longer than any internal chunk or buffer (hundreds to thousands of ordinates, lengths on both
    sides of powers of two), FOLLOWED by more data: another ring, another member, and - in the stream rules - another
    geometry. Decided like every other case (reference encoder / decoder in WKBObs)."""
    import random
    r = random.Random(ctx.seed * 17 + 4)
    lens = [300] if ctx.quick else [129, 257, 300, 513, 1025]        # (TLC needs ~30 s per kilobyte-sized geometry)
    out = []

    def coords(n, s):
        return [[r.randrange(1, 100) for _ in range(s)] for _ in range(n)]
    for n in lens:
        l = r.choice(["XY", "XYZ", "XYM", "XYZM"])
        s = {"XY": 2, "XYZ": 3, "XYM": 3, "XYZM": 4}[l]
        ls = dict(t="LS", l=l, srid=[], body=coords(n, s))
        short = dict(t="LS", l=l, srid=[], body=coords(2, s))
        ring = coords(n, s)
        ring.append(ring[0][:])
        gs = [ls,
              dict(t="MLS", l=l, srid=[], body=[ls, short]),
              dict(t="PG", l=l, srid=[], body=[ring, coords(3, s) + [[1] * s]]),
              dict(t="GC", l=l, srid=[], body=[dict(t="MPT", l=l, srid=[], body=[dict(t="PT", l=l, srid=[], body=c) for c in coords(min(n, 300), s)]), short])]
        for g in (gs[:2] if ctx.quick else gs):
            out.append(dict(g=g, order=r.choice(["NDR", "XDR"]), flavor=r.choice(["wkb", "ewkb"])))
    return out


def run(ctx, verdict):
    cfg = "WKB_quick.cfg" if ctx.quick else "WKB_thorough.cfg"
    out, r = vlib.model_a(ctx, "WKBModel", cfg, ["CASE"], workers=8)
    cases = sorted(out["CASE"], key=vlib.digest)
    vlib.note_cases(ctx, cases, nontrivial=lambda c: c["g"]["body"] != [])
    ctx.coverage_extra["model_a"] = [dict(cfg=cfg, cases=len(cases), states=r["distinct"])]
    pipe(ctx, verdict, cases)
    lc = long_cases(ctx)
    vlib.note_cases(ctx, lc)
    ctx.coverage_extra["long_arrays"] = dict(cases=len(lc), max_points=max(len(c["g"]["body"]) for c in lc if c["g"]["t"] == "LS"))
    pipe(ctx, verdict, lc, name="wkbenc")
    ctx.assumptions += ["SRIDs from a palette {none, 1, 4326, 2^31, 2^32-1}; ordinates from a palette of float64 bit "
                        "patterns incl. non-canonical NaNs; reader schedules: chunk sizes 1/2/3/7/mixed/as-asked, "
                        "data-with-EOF, zero-length deliveries; writer failing at every byte position",
                        "geometries without an encoding (Layout(5), Layout(6), non-collections without layout): no encoder may "
                        "panic, each must refuse or hand out bytes that decode back to the geometry (WKBObs!Refused)",
                        "SRIDs on MEMBERS of a collection (EWKB): the formats put the SRID on the outermost geometry only, so what "
                        "becomes of a member's own SRID is left open (compared with member SRIDs stripped, WKB!StripM); the "
                        "outermost SRID must round-trip and all variants must agree with Marshal",
                        "SQL wrappers: Scan of the NDR and the XDR encoding, Value() after Scan and of a directly populated wrapper "
                        "(Value() takes no byte order: the standard encoding in either order is accepted); a wrapper of the wrong type "
                        "must report an error (any error, not a panic / success / NULL); "
                        "Scan(nil), Scan(string), Scan(int64): no panic, refused or NULL (or a well-formed geometry)",
                        "a decoded geometry is always compared without the SRIDs of its members (WKB!StripMS): only the outermost SRID is promised",
                        "every geometry handed out by Read / hex Decode / Scan is structurally well formed (FlatGeom!WellFormedObj)"]
