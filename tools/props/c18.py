"""C18: decimal-digit limits round correctly and keep output well formed."""
import os
import random
import re
import struct
import vlib
from props import exact_common as ec

LIT = re.compile(r"^(-?)(\d+)(?:\.(\d+))?$")
# the standard signed-numeric grammar with an exponent (valid JSON, valid WKT for a standard reader): such a literal is not
# malformed; the digit-count / rounding clause is not applied to it (a fractional digit of the mantissa is not a fractional
# digit of the value), it is counted in the coverage report instead
EXPLIT = re.compile(r"^(-?)(\d+)(?:\.(\d+))?[eE]([+-]?\d+)$")
NOT_JUDGED = "exponent literals not judged"
BY_VALUE = "exponent literals judged by value only"


def exp_lit(ctx, x, lit, d):
    """A literal with an exponent: the expression Decimal!ExpLitOK for it (distance to the exact value x = 'm:e' only), or
    None when its power of ten is beyond what the checker's constant folder takes (then it is counted as not judged)."""
    mm = EXPLIT.match(lit)
    sign, ip, fp, ex = mm.group(1), mm.group(2), mm.group(3) or "", int(mm.group(4))
    digits = int(ip + fp) * (-1 if sign else 1)
    p = ex - len(fp)                     # value = digits * 10^p
    if p > 400 or p < -600:
        ctx.coverage_extra[NOT_JUDGED] = ctx.coverage_extra.get(NOT_JUDGED, 0) + 1
        return None
    if p >= 0:
        digits, nf = digits * 10 ** p, 0
    else:
        nf = -p
    m, e = x.split(":")
    m, e = int(m), int(e)
    while m != 0 and abs(m) < (1 << 52) and e > -1074:      # 53-bit mantissa: 2^e is the unit in the last place
        m, e = m * 2, e - 1
    k1, k2, k3 = split3(abs(e))
    ctx.coverage_extra[BY_VALUE] = ctx.coverage_extra.get(BY_VALUE, 0) + 1
    return "ExpLitOK(%s, %d, %d, %d, %s, %d, %s, %d, %d)" % (ec.tla_int(m), k1, k2, k3, "TRUE" if e < 0 else "FALSE", d, ec.tla_int(digits),
                                                             min(nf, 300), max(nf - 300, 0))
PALETTE = [0.0, -0.0, 0.1, 0.5, 1.5, 2.5, -2.5, 0.125, 0.375, 0.0625, 1e-7, -1e-7, 5e-324, 1.7976931348623157e308, 123456789.125,
           0.999999999, 9.9999995, 99.5, 0.05, 0.049999999999999996, 1e15 + 0.5, 2.0 ** 53, 1e21, 1e22, 0.000123456,
           12345.678905, 1.0000000000000002, 0.30000000000000004, 1e-15, 4.9999999999999995e-16, 5e-16, 100.0, 1000000.0,
           -99.99999999999999, 0.9999999999999999, 2.675, 1.005, 8.345, 655.36, 1e-300]


def structure_pipe(mode):
    def run_cases(ctx, verdict, cases, name=None):
        obs = vlib.run_driver(ctx, "digits", cases)
        viols = vlib.model_b(ctx, "DigitsObs", "Obs.cfg", obs, env={"MODE": mode}, name="DigitsObs/" + mode)
        for idx, v in viols:
            verdict.add(name or ("digits-" + mode), v["sig"], cases[idx], dict())
        return obs
    return run_cases


def split3(k):
    a = min(k, 500)
    b = min(k - a, 500)
    return a, b, k - a - b


def num_pipe(ctx, verdict, cases, name="digits-nums"):
    """Every literal the encoders wrote for a value, next to the exact value: Apalache decides Decimal!RoundOK."""
    obs = list(vlib.run_driver(ctx, "digits", cases, for_tlc=False))
    exprs, sigs, flat_cases = [], [], []
    for c, o in zip(cases, obs):
        d = c["d"]
        if o["ev"] != "ok":
            exprs.append("FALSE")
            sigs.append("digits|" + o["ev"])
            flat_cases.append(c)
            continue
        for v, row in zip(c["vals"], o["rows"]):
            m, e = row["x"].split(":")
            m, e = int(m), int(e)
            k1, k2, k3 = split3(abs(e))
            parts, why = [], "rounding"
            for lit in row["lits"]:
                mm = LIT.match(lit["t"])
                if not mm and EXPLIT.match(lit["t"]):
                    ex = exp_lit(ctx, row["x"], lit["t"], d)
                    if ex:
                        parts.append(ex)
                    continue
                if not mm:
                    parts, why = ["FALSE"], "malformed-number|" + lit["src"]
                    break
                sign, ip, fp = mm.group(1), mm.group(2), mm.group(3) or ""
                digits = int(ip + fp) * (-1 if sign else 1)
                last = int(fp[-1]) if fp else -1
                parts.append("RoundOK(%s, %d, %d, %d, %s, %d, %s, %d, %d, %d)" % (
                    ec.tla_int(m), k1, k2, k3, "TRUE" if e < 0 else "FALSE", d, ec.tla_int(digits), len(fp), last, max(d - len(fp), 0)))
            exprs.append(" /\\ ".join(parts) or "TRUE")
            sigs.append("digits|%s|d=%s" % (why, "0" if d == 0 else ">0"))
            flat_cases.append(dict(kind="nums", d=d, vals=[v]))
    spec = open(os.path.join(ctx.specdir, "Decimal.tla")).read()
    return apalache_decimal(ctx, verdict, exprs, flat_cases, sigs, name, spec)


# ---------------------------------------------------------------- numbers in every geometry shape
# (type, layout, structure): structure = positions per part, nested as the type nests; a collection lists members
SHAPES = [("PT", "XY", None), ("PT", "XYZM", None), ("LS", "XYZ", 3), ("PG", "XYM", [2, 2]), ("MPT", "XY", 3), ("MLS", "XYZM", [2, 1]),
          ("MPG", "XYZ", [[2], [1, 1]]), ("GC", "XY", [("PT", "XY", None), ("LS", "XY", 2)]), ("LS", "XYZM", 2), ("PG", "XY", [3]),
          ("MPT", "XYZ", 2), ("PT", "XYM", None), ("MPT", "XYM", 2), ("GC", "XYZ", [("MPT", "XYZ", 1), ("PG", "XYZ", [1])]), ("MLS", "XY", [2]),
          ("MPG", "XYZM", [[1]]), ("PT", "XYZ", None), ("LS", "XYM", 2), ("GC", "XYZM", [("PT", "XYZM", None), ("GC", "XYZM", [("LS", "XYZM", 1)])])]
STRIDE = dict(XY=2, XYZ=3, XYM=3, XYZM=4)


def shape_positions(shape):
    t, l, st = shape
    if t == "PT":
        return 1
    if t in ("LS", "MPT"):
        return st
    if t in ("PG", "MLS"):
        return sum(st)
    if t == "MPG":
        return sum(sum(p) for p in st)
    return sum(shape_positions(m) for m in st)


def shape_tree(shape, pos):
    """geometry tree of the shape, taking positions from the iterator pos"""
    t, l, st = shape
    take = lambda k: [next(pos) for _ in range(k)]
    if t == "PT":
        body = next(pos)
    elif t in ("LS", "MPT"):
        body = take(st)
    elif t in ("PG", "MLS"):
        body = [take(k) for k in st]
    elif t == "MPG":
        body = [[take(k) for k in p] for p in st]
    else:
        body = [shape_tree(m, pos) for m in st]
    return dict(t=t, l=l, body=body)


def xnum(v):
    return "-0" if v == 0 and str(v).startswith("-") else ec.to_exact(v)


def shape_cases(vals, d, rot):
    """All of vals, in order, as the ordinates of geometries of the shapes in rotation (starting at shape rot).  Within one
    geometry every column (x, y, z, m) is sorted, so that by construction the bounding box is the first position's
    ordinates followed by the last position's; a geometry that needs more values than are left takes them from the start."""
    out, i, k = [], 0, rot
    while i < len(vals):
        shape = SHAPES[k % len(SHAPES)]
        k += 1
        n, st = shape_positions(shape), STRIDE[shape[1]]
        chunk = [vals[(i + j) % len(vals)] for j in range(n * st)]
        i += n * st
        cols = [sorted(chunk[c::st]) for c in range(st)]
        pos = [[xnum(cols[c][p]) for c in range(st)] for p in range(n)]
        out.append(dict(kind="shapes", d=d, g=shape_tree(shape, iter(pos))))
    return out


def round_ok(x, lit, d):
    """Decimal!RoundOK for one literal as written against the exact value x = 'm:e' (None: not a plain decimal)"""
    m, e = x.split(":")
    m, e = int(m), int(e)
    k1, k2, k3 = split3(abs(e))
    mm = LIT.match(lit)
    if not mm:
        return None
    sign, ip, fp = mm.group(1), mm.group(2), mm.group(3) or ""
    digits = int(ip + fp) * (-1 if sign else 1)
    last = int(fp[-1]) if fp else -1
    return "RoundOK(%s, %d, %d, %d, %s, %d, %s, %d, %d, %d)" % (
        ec.tla_int(m), k1, k2, k3, "TRUE" if e < 0 else "FALSE", d, ec.tla_int(digits), len(fp), last, max(d - len(fp), 0))


def shape_pipe(ctx, verdict, cases, name="digits-shapes"):
    """Every literal of the WKT text and of the GeoJSON document (coordinates and bounding box, options in both orders) of
    geometries of every type and layout, each next to the exact ordinate it renders: Apalache decides Decimal!RoundOK.
    One obligation per ordinate: all literals written for it.  Per geometry two more: an encode error with a box requested
    and the arity of the box, both relative to what the same encoder does without a digit limit (Decimal!BBoxEncodeOK,
    Decimal!BBoxArityOK).  A literal with an exponent is well formed; only its distance to the value is judged (Decimal!ExpLitOK)."""
    obs = list(vlib.run_driver(ctx, "digits", cases, for_tlc=False))
    exprs, sigs, flat_cases = [], [], []
    ctx.coverage_extra.setdefault(NOT_JUDGED, 0)
    ctx.coverage_extra.setdefault(BY_VALUE, 0)
    for c, o in zip(cases, obs):
        d, g = c["d"], c["g"]
        dd = "0" if d == 0 else ">0"

        def fail(why):
            exprs.append("FALSE")
            sigs.append("digits|" + why)
            flat_cases.append(c)
        if o["ev"] != "ok":
            fail(o["ev"])
            continue
        x = o["x"]
        st = STRIDE[g["l"]]
        per = [[] for _ in x]            # per ordinate: (source, literal)
        srcs = [("wkt", o["wkt"]["err"], o["wkt"]["lits"])]
        boxes = []
        if g["l"] != "XYM":                # GeoJSON has no XYM: outside the property's quantifier
            # structure with a box requested, against what the same encoder does WITHOUT a digit limit (o["ref"]): decided by
            # Decimal!BBoxEncodeOK / BBoxArityOK; this code only writes the recorded facts down as arguments
            ref, coll = o["ref"], g["t"] == "GC"
            tb = lambda b: "TRUE" if b else "FALSE"
            enc, ari = [], []
            for jj in o["gj"]:
                enc.append("BBoxEncodeOK(%s, %s, %s)" % (tb(jj["err"] != ""), tb(coll), tb(ref["err"] != "")))
                if not jj["err"]:
                    srcs.append(("geojson-" + jj["order"], "", jj["coords"]))
                    ari.append("BBoxArityOK(%d, %d, %d)" % (len(jj["bbox"]), -1 if ref["err"] else ref["nbbox"], st))
                    boxes.append(jj)
            exprs.append(" /\\ ".join(enc))
            sigs.append("digits|geojson|encode-error")
            flat_cases.append(c)
            if ari:
                exprs.append(" /\\ ".join(ari))
                sigs.append("digits|bbox|arity")
                flat_cases.append(c)
            if len(boxes) < len(o["gj"]):
                # refused with a box: the coordinates are those written under the digit limit alone
                srcs.append(("geojson-D", o["plain"]["err"], o["plain"]["coords"]))
        bad = False
        for src, err, lits in srcs:
            if err:
                fail("%s|encode-error" % src.split("-")[0])
                bad = True
            elif len(lits) != len(x):
                fail("%s|number-of-ordinates" % src.split("-")[0])
                bad = True
            else:
                for k, t in enumerate(lits):
                    per[k].append((src, t))
        if bad:
            continue
        for jj in boxes:
            # columns are sorted: a box over the first nb dimensions is the first position's ordinates, then the last position's
            nb = len(jj["bbox"]) // 2
            if len(jj["bbox"]) % 2 or not 2 <= nb <= st:
                ctx.coverage_extra["bbox literals not judged"] = ctx.coverage_extra.get("bbox literals not judged", 0) + len(jj["bbox"])
                continue
            for k, t in enumerate(jj["bbox"]):
                per[k if k < nb else len(x) - st + (k - nb)].append(("bbox-" + jj["order"], t))
        for k, lits in enumerate(per):
            parts, why = [], "rounding"
            for src, t in lits:
                e = round_ok(x[k], t, d)
                if e is None and EXPLIT.match(t):
                    ex = exp_lit(ctx, x[k], t, d)
                    if ex:
                        parts.append(ex)
                    continue
                if e is None:
                    parts, why = ["FALSE"], "malformed-number|" + src.split("-")[0]
                    break
                parts.append(e)
            exprs.append(" /\\ ".join(parts) or "TRUE")
            sigs.append("digits|%s|d=%s" % (why, dd))
            flat_cases.append(c)
    spec = open(os.path.join(ctx.specdir, "Decimal.tla")).read()
    return apalache_decimal(ctx, verdict, exprs, flat_cases, sigs, name, spec)


def apalache_decimal(ctx, verdict, exprs, cases, sigs, name, spec, per_module=400, group=20, extends="Decimal", modprefix="DecObs"):
    from concurrent.futures import ThreadPoolExecutor
    chunks = [list(range(i, min(i + per_module, len(exprs)))) for i in range(0, len(exprs), per_module)]

    def one(args):
        ci, ks = args
        mod = "%s_%d" % (modprefix, ci)
        lines = ["---- MODULE %s ----" % mod, "EXTENDS " + extends]
        for k in ks:
            lines.append("O%d == %s" % (k, exprs[k]))
            lines.append("B%d == IF O%d THEN {} ELSE {%d}" % (k, k, k))
        groups = [ks[i:i + group] for i in range(0, len(ks), group)]
        for gi, g in enumerate(groups):
            lines.append("U%d == %s" % (gi, " \\cup ".join("B%d" % k for k in g)))
        lines += ["VARIABLE", "  \\* @type: Set(Int);", "  bad",
                  "Init == bad = " + " \\cup ".join("U%d" % gi for gi in range(len(groups))),
                  "Next == UNCHANGED bad", "Ok == bad = {}", "===="]
        return vlib.apalache(ctx, "\n".join(lines), mod, timeout=1500, extra_files={extends + ".tla": spec})
    failing = set()
    with ThreadPoolExecutor(max_workers=min(8 if ctx.quick else 5, len(chunks) or 1)) as ex:
        for bad in ex.map(one, list(enumerate(chunks))):
            failing |= bad
    ctx.validated += len(exprs)
    for k in sorted(failing):
        verdict.add(name, sigs[k], cases[k], dict(expr=exprs[k][:300]))
    return failing


def seeded_values(seed, n):
    r = random.Random(seed)
    out = []
    while len(out) < n:
        k = r.randrange(7)
        if k == 6:                        # shortest decimal of exactly 15 / 16 / 17 significant digits (just below a power of ten,
            v = 10.0 ** r.randrange(-8, 12)           # and 16-digit mantissas above 2^53)
            v = r.choice([v * (1 - 2.0 ** -53), v * (1 - 2.0 ** -52), v * 0.95 * (1 + r.randrange(1, 99) * 2.0 ** -52),
                          v * r.uniform(0.9007199254740993, 0.9999999999999999), v * (1 + 2.0 ** -52)])
            out.append(v if r.randrange(2) else -v)
            continue
        if k == 0:
            v = r.uniform(-1000, 1000)
        elif k == 1:                      # a decimal tie at some digit, as close as float64 gets
            v = (r.randrange(-10 ** 6, 10 ** 6) + 0.5) / 10 ** r.randrange(0, 9)
        elif k == 2:                      # just below / above a power of ten
            v = 10.0 ** r.randrange(-12, 16) * (1 + r.choice([-1, 1]) * 2.0 ** -r.randrange(30, 53))
        elif k == 3:
            v = struct.unpack("<d", struct.pack("<Q", r.getrandbits(64)))[0]
            if v != v or v in (float("inf"), float("-inf")):
                continue
        elif k == 4:
            v = r.randrange(-10 ** 9, 10 ** 9) / 1000.0
        else:
            v = r.uniform(-1, 1) * 10.0 ** r.randrange(-20, 3)
        out.append(v)
    return out


PIPES = {"digits-wkt": structure_pipe("wkt"), "digits-geojson": structure_pipe("geojson"), "digits-nums": num_pipe, "digits-shapes": shape_pipe}


def run(ctx, verdict):
    tier = "quick" if ctx.quick else "thorough"
    ds = [0, 3, 15] if ctx.quick else list(range(0, 16))
    out, r = vlib.model_a(ctx, "WKTRenderModel", "WKTRender_%s.cfg" % tier, ["CASE"], workers=4)
    trees = sorted(out["CASE"], key=vlib.digest)
    wcases = [dict(kind="wkt", g=c["g"], ds=ds) for c in trees]
    out2, r2 = vlib.model_a(ctx, "GeoJSONModel", "GeoJSON_geom_%s.cfg" % tier, ["CASE"], workers=4)
    gcases = [dict(kind="geojson", g=c["g"], ds=ds) for c in sorted(out2["CASE"], key=vlib.digest)
              if c["g"]["t"] == "GC" or c["g"]["l"] in ("XY", "XYZ", "XYZM")]
    ctx.coverage_extra["model_a"] = [dict(cfg="WKTRender_%s.cfg" % tier, trees=len(wcases)),
                                     dict(cfg="GeoJSON_geom_%s.cfg" % tier, geojson_geometries=len(gcases))]
    vlib.note_cases(ctx, wcases + gcases)
    structure_pipe("wkt")(ctx, verdict, wcases)
    structure_pipe("geojson")(ctx, verdict, gcases)
    vals = PALETTE + seeded_values(ctx.seed, 40 if ctx.quick else 1500)
    ncases = []
    for d in range(0, 16):
        vs = vals if not ctx.quick or d in (0, 1, 2, 3, 7, 15) else PALETTE
        ncases += shape_cases(vs, d, 5 * d)
    shape_pipe(ctx, verdict, ncases)
    ctx.coverage_extra["numeric_tier"] = dict(values=len(vals), digit_limits="0..15", geometries=len(ncases), shapes=["%s %s" % (t, l) for t, l, _ in SHAPES],
                                              literals="WKT text, GeoJSON coordinates and bbox with the options in both orders",
                                              checker="Apalache on Decimal!RoundOK (exact integers)")
    ctx.assumptions += ["structure: every tree of the WKT model (tokens, and what the library's own parser reads back) and every XY / XYZ / "
                        "XYZM geometry and collection of the GeoJSON model (also empty ones and multipoints with an empty member; a "
                        "bounding box is demanded for non-empty non-collections), digit limits %s, GeoJSON options in both orders" % ds,
                        "numbers: a palette of %d values (ties, powers of ten, tiny, huge, -0) plus seeded floats x d in 0..15, placed as "
                        "the ordinates of points, linestrings, polygons, multi-geometries and collections in all four layouts; every "
                        "literal of the WKT text, of the GeoJSON coordinates and of the bounding box (both option orders) is parsed by "
                        "a regular expression into sign / digits / fraction and decided exactly by Apalache against the ordinate it "
                        "renders (columns are sorted within a geometry, so the box is the first and the last position)" % len(PALETTE),
                        "left open: how many dimensions a bounding box has (it must be what the same encoder writes without a digit "
                        "limit), a collection refused with a box both with and without the limit, literals written with an exponent "
                        "(well formed; the clauses on fractional digits and trailing zeros are not applied to them, the distance to "
                        "the exact value is: half a unit of the d-th place or half an ulp, Decimal!ExpLitOK; see '%s' / '%s')" % (BY_VALUE, NOT_JUDGED)]
