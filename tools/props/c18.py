"""C18: decimal-digit limits round correctly and keep output well formed."""
import os
import random
import re
import struct
import vlib
from props import exact_common as ec

LIT = re.compile(r"^(-?)(\d+)(?:\.(\d+))?$")
PALETTE = [0.0, -0.0, 0.1, 0.5, 1.5, 2.5, -2.5, 0.125, 0.375, 0.0625, 1e-7, -1e-7, 5e-324, 1.7976931348623157e308, 123456789.125,
           0.999999999, 9.9999995, 99.5, 0.05, 0.049999999999999996, 1e15 + 0.5, 2.0 ** 53, 1e21, 1e22, 0.000123456,
           12345.678905, 1.0000000000000002, 0.30000000000000004, 1e-15, 4.9999999999999995e-16, 5e-16, 100.0, 1000000.0,
           -99.99999999999999, 0.9999999999999999, 2.675, 1.005, 8.345, 655.36, 1e-300]


def structure_pipe(mode):
    def run_cases(ctx, verdict, cases, name=None):
        obs = vlib.run_driver(ctx, "digits", cases)
        viols = vlib.model_b(ctx, "DigitsObs", "Obs.cfg", obs, env={"MODE": mode}, name="DigitsObs/" + mode)
        for idx, v in viols:
            verdict.add(name or ("digits-" + mode), v["sig"], cases[idx], dict())
        return obs
    return run_cases


def split3(k):
    a = min(k, 500)
    b = min(k - a, 500)
    return a, b, k - a - b


def num_pipe(ctx, verdict, cases, name="digits-nums"):
    """Every literal the encoders wrote for a value, next to the exact value: Apalache decides Decimal!RoundOK."""
    obs = list(vlib.run_driver(ctx, "digits", cases, for_tlc=False))
    exprs, sigs, flat_cases = [], [], []
    for c, o in zip(cases, obs):
        d = c["d"]
        if o["ev"] != "ok":
            exprs.append("FALSE")
            sigs.append("digits|" + o["ev"])
            flat_cases.append(c)
            continue
        for v, row in zip(c["vals"], o["rows"]):
            m, e = row["x"].split(":")
            m, e = int(m), int(e)
            k1, k2, k3 = split3(abs(e))
            parts, why = [], "rounding"
            for lit in row["lits"]:
                mm = LIT.match(lit["t"])
                if not mm:
                    parts, why = ["FALSE"], "malformed-number|" + lit["src"]
                    break
                sign, ip, fp = mm.group(1), mm.group(2), mm.group(3) or ""
                digits = int(ip + fp) * (-1 if sign else 1)
                last = int(fp[-1]) if fp else -1
                parts.append("RoundOK(%s, %d, %d, %d, %s, %d, %s, %d, %d, %d)" % (
                    ec.tla_int(m), k1, k2, k3, "TRUE" if e < 0 else "FALSE", d, ec.tla_int(digits), len(fp), last, max(d - len(fp), 0)))
            exprs.append(" /\\ ".join(parts))
            sigs.append("digits|%s|d=%s" % (why, "0" if d == 0 else ">0"))
            flat_cases.append(dict(kind="nums", d=d, vals=[v]))
    spec = open(os.path.join(ctx.specdir, "Decimal.tla")).read()
    return apalache_decimal(ctx, verdict, exprs, flat_cases, sigs, name, spec)


def apalache_decimal(ctx, verdict, exprs, cases, sigs, name, spec, per_module=400, group=20, extends="Decimal", modprefix="DecObs"):
    from concurrent.futures import ThreadPoolExecutor
    chunks = [list(range(i, min(i + per_module, len(exprs)))) for i in range(0, len(exprs), per_module)]

    def one(args):
        ci, ks = args
        mod = "%s_%d" % (modprefix, ci)
        lines = ["---- MODULE %s ----" % mod, "EXTENDS " + extends]
        for k in ks:
            lines.append("O%d == %s" % (k, exprs[k]))
            lines.append("B%d == IF O%d THEN {} ELSE {%d}" % (k, k, k))
        groups = [ks[i:i + group] for i in range(0, len(ks), group)]
        for gi, g in enumerate(groups):
            lines.append("U%d == %s" % (gi, " \\cup ".join("B%d" % k for k in g)))
        lines += ["VARIABLE", "  \\* @type: Set(Int);", "  bad",
                  "Init == bad = " + " \\cup ".join("U%d" % gi for gi in range(len(groups))),
                  "Next == UNCHANGED bad", "Ok == bad = {}", "===="]
        return vlib.apalache(ctx, "\n".join(lines), mod, timeout=1500, extra_files={extends + ".tla": spec})
    failing = set()
    with ThreadPoolExecutor(max_workers=min(8 if ctx.quick else 5, len(chunks) or 1)) as ex:
        for bad in ex.map(one, list(enumerate(chunks))):
            failing |= bad
    ctx.validated += len(exprs)
    for k in sorted(failing):
        verdict.add(name, sigs[k], cases[k], dict(expr=exprs[k][:300]))
    return failing


def seeded_values(seed, n):
    r = random.Random(seed)
    out = []
    while len(out) < n:
        k = r.randrange(6)
        if k == 0:
            v = r.uniform(-1000, 1000)
        elif k == 1:                      # a decimal tie at some digit, as close as float64 gets
            v = (r.randrange(-10 ** 6, 10 ** 6) + 0.5) / 10 ** r.randrange(0, 9)
        elif k == 2:                      # just below / above a power of ten
            v = 10.0 ** r.randrange(-12, 16) * (1 + r.choice([-1, 1]) * 2.0 ** -r.randrange(30, 53))
        elif k == 3:
            v = struct.unpack("<d", struct.pack("<Q", r.getrandbits(64)))[0]
            if v != v or v in (float("inf"), float("-inf")):
                continue
        elif k == 4:
            v = r.randrange(-10 ** 9, 10 ** 9) / 1000.0
        else:
            v = r.uniform(-1, 1) * 10.0 ** r.randrange(-20, 3)
        out.append(v)
    return out


def has_coords(g):
    def walk(b):
        if isinstance(b, list) and b and all(isinstance(x, int) for x in b):
            return b != [-1]
        return any(walk(x) for x in b) if isinstance(b, list) else False
    return walk(g["body"])


def flat_has_nil(g):
    return g["t"] == "MPT" and any(x == [-1] for x in g["body"])


PIPES = {"digits-wkt": structure_pipe("wkt"), "digits-geojson": structure_pipe("geojson"), "digits-nums": num_pipe}


def run(ctx, verdict):
    tier = "quick" if ctx.quick else "thorough"
    ds = [0, 3, 15] if ctx.quick else list(range(0, 16))
    out, r = vlib.model_a(ctx, "WKTRenderModel", "WKTRender_%s.cfg" % tier, ["CASE"], workers=4)
    trees = sorted(out["CASE"], key=vlib.digest)
    wcases = [dict(kind="wkt", g=c["g"], ds=ds) for c in trees]
    out2, r2 = vlib.model_a(ctx, "GeoJSONModel", "GeoJSON_geom_%s.cfg" % tier, ["CASE"], workers=4)
    gcases = [dict(kind="geojson", g=c["g"], ds=ds) for c in sorted(out2["CASE"], key=vlib.digest)
              if c["g"]["t"] != "GC" and c["g"]["l"] in ("XY", "XYZ", "XYZM") and has_coords(c["g"]) and not flat_has_nil(c["g"])]
    ctx.coverage_extra["model_a"] = [dict(cfg="WKTRender_%s.cfg" % tier, trees=len(wcases)),
                                     dict(cfg="GeoJSON_geom_%s.cfg" % tier, geometries_with_bbox=len(gcases))]
    vlib.note_cases(ctx, wcases + gcases)
    structure_pipe("wkt")(ctx, verdict, wcases)
    structure_pipe("geojson")(ctx, verdict, gcases)
    vals = PALETTE + seeded_values(ctx.seed, 40 if ctx.quick else 1500)
    ncases = []
    for d in range(0, 16):
        vs = vals if not ctx.quick or d in (0, 1, 2, 3, 7, 15) else PALETTE
        for i in range(0, len(vs), 20):
            ncases.append(dict(kind="nums", d=d, vals=[ec.to_exact(v) for v in vs[i:i + 20]]))
    num_pipe(ctx, verdict, ncases)
    ctx.coverage_extra["numeric_tier"] = dict(values=len(vals), digit_limits="0..15", checker="Apalache on Decimal!RoundOK (exact integers)")
    ctx.assumptions += ["structure: every tree of the WKT model and every bbox-capable geometry of the GeoJSON model, digit "
                        "limits %s, GeoJSON options in both orders" % ds,
                        "numbers: a palette of %d values (ties, powers of ten, tiny, huge, -0) plus seeded floats x d in 0..15; "
                        "each literal as written is parsed by a regular expression into sign / digits / fraction and decided "
                        "exactly by Apalache" % len(PALETTE)]
