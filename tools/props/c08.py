"""C08: bounds are the tight per-dimension box for every geometry and layout mix."""
import vlib


def pipe(ctx, verdict, cases, name="bounds"):
    obs = vlib.run_driver(ctx, "bounds", cases)
    viols = vlib.model_b(ctx, "BoundsObs", "Obs.cfg", obs, name="BoundsObs")
    for idx, v in viols:
        o = obs[idx]
        verdict.add(name, v["sig"], cases[idx], dict(row=v["row"], pan=str(o.get("b", {}).get("pan", ""))[:160]))
    return obs


PIPES = {"bounds": pipe}


def run(ctx, verdict):
    tier = "quick" if ctx.quick else "thorough"
    cases = []
    ctx.coverage_extra["model_a"] = []
    for fam in ("extend", "gc", "overlap"):
        cfg = "Bounds_%s_%s.cfg" % (fam, tier)
        out, r = vlib.model_a(ctx, "BoundsModel", cfg, ["CASE"], workers=8)
        cs = sorted(out["CASE"], key=vlib.digest)
        ctx.coverage_extra["model_a"].append(dict(cfg=cfg, cases=len(cs), states=r["distinct"]))
        cases += cs
    vlib.note_cases(ctx, cases, nontrivial=lambda c: c["fam"] != "extend" or len(c["gs"]) > 0)
    pipe(ctx, verdict, cases)
    ctx.assumptions += ["ordinates are integers 0..4 (min/max only compare, magnitudes are irrelevant); no NaN (excluded by "
                        "the property); overlap tests on boxes with min <= max in every dimension plus the canonical empty "
                        "box of NewBounds - partially inverted finite boxes written through Set are outside 'those boxes'"]
