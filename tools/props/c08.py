"""C08: bounds are the tight per-dimension box for every geometry and layout mix."""
from concurrent.futures import ThreadPoolExecutor

import vlib


def pipe(ctx, verdict, cases, name="bounds"):
    obs = vlib.run_driver(ctx, "bounds", cases)
    viols = vlib.model_b(ctx, "BoundsObs", "Obs.cfg", obs, name="BoundsObs")
    for idx, v in viols:
        o = obs[idx]
        verdict.add(name, v["sig"], cases[idx], dict(row=v["row"], pan=str(o.get("b", {}).get("pan", "") or o.get("pan", ""))[:160]))
    return obs


PIPES = {"bounds": pipe}

# extend: Extend histories of leaves; extgc: Extend called directly with collection trees; gc: GeometryCollection.Bounds;
# geo: one geometry of every Go type (Bounds, Bounds.Polygon, GeoJSON bbox); set: Set / SetCoords inside a history;
# overlap / ovpt: Overlaps and OverlapsPoint for boxes of all layouts under every layout argument
FAMILIES = ("extend", "extgc", "gc", "geo", "set", "overlap", "ovpt")


def tally(ctx, obs):
    """What the recorder actually exercised (coverage bookkeeping; no verdict is taken here)."""
    types, bbox, poly, loose = {}, dict(emitted=0, error=0, absent=0), dict(ring=0, empty=0), 0
    for o in obs:
        c = o.get("case", {})
        for t in o.get("tys", []) + ([o["ty"]] if "ty" in o else []):
            types[t] = types.get(t, 0) + 1
        for k in ("bbox", "bbd"):
            if k in o:
                b = o[k]
                bbox["emitted" if b.get("has") else "error" if b.get("err") else "absent"] += 1
        if "poly" in o:
            poly["ring" if o["poly"].get("fc") else "empty"] += 1
        if c.get("fam") in ("overlap", "ovpt") and o.get("pan"):
            loose += 1
    ctx.coverage_extra["go_types_observed"] = types
    ctx.coverage_extra["geojson_bbox"] = bbox
    ctx.coverage_extra["bounds_polygon"] = poly
    ctx.coverage_extra["overlap_calls_that_panicked (box smaller than the layout argument: unspecified)"] = loose
    want = {"Point", "MultiPoint", "LineString", "LinearRing", "MultiLineString", "Polygon", "MultiPolygon", "GeometryCollection"}
    if not want <= set(types):
        raise vlib.Infra("C08: the recorder did not build every geometry type: missing %s" % sorted(want - set(types)))
    if bbox["emitted"] == 0:
        raise vlib.Infra("C08: no GeoJSON bbox was observed at all: the bbox rule would be vacuous")
    if poly["ring"] == 0:
        raise vlib.Infra("C08: no Bounds.Polygon ring was observed at all: the polygon rule would be vacuous")


def run(ctx, verdict):
    tier = "quick" if ctx.quick else "thorough"
    # closed-interval arithmetic of the overlap tests, proved for ALL integers (TLAPS)
    vlib.tlapm(ctx, "BoundsProofs", ["Intervals"])
    cases = []
    ctx.coverage_extra["model_a"] = []

    def gen(fam):
        cfg = "Bounds_%s_%s.cfg" % (fam, tier)
        out, r = vlib.model_a(ctx, "BoundsModel", cfg, ["CASE"], workers=8 if fam == "extend" else 2, name="BoundsModel-" + fam,
                                heap="8g" if fam == "extend" else "2g")
        return cfg, sorted(out["CASE"], key=vlib.digest), r

    with ThreadPoolExecutor(max_workers=len(FAMILIES)) as ex:
        for cfg, cs, r in ex.map(gen, FAMILIES):
            if not cs:
                raise vlib.Infra("C08: model A emitted no case for %s" % cfg)
            ctx.coverage_extra["model_a"].append(dict(cfg=cfg, cases=len(cs), states=r["distinct"]))
            cases += cs
    # the same Extend histories started from the first geometry's OWN Bounds() instead of NewBounds(NoLayout).Extend(it):
    # the statement makes no difference between the two ("bounds of a geometry", "extending bounds")
    via = [dict(c, viaown=True) for c in cases if c["fam"] == "extend" and c.get("l0") == "No" and len(c["gs"]) >= 2 and "gc" not in c["gs"][0]]
    ctx.coverage_extra["extend_histories_started_from_own_bounds"] = len(via)
    cases += via
    vlib.note_cases(ctx, cases, nontrivial=lambda c: c["fam"] != "extend" or len(c["gs"]) > 0)
    obs = pipe(ctx, verdict, cases)
    tally(ctx, obs)
    ctx.assumptions += ["ordinates are integers 0..4 (min/max only compare, magnitudes are irrelevant); no NaN (excluded by "
                        "the property); overlap tests on boxes with min <= max in every dimension, or the interval "
                        "(+Inf,-Inf) NewBounds leaves in a dimension - partially inverted finite boxes written through Set "
                        "are outside 'those boxes'; Set / SetCoords only with as many ordinates as the current layout has "
                        "and min <= max",
                        "left open on purpose: Overlaps / OverlapsPoint when a box has fewer dimensions than the layout "
                        "argument (any outcome), by position or by name when the box only covers the argument (XYM asked "
                        "of XYZM: either answer); Bounds.Polygon of a box with an empty dimension (no panic); a GeoJSON "
                        "bbox that is not emitted, an encoding error, the bbox of a geometry without coordinates",
                        "left open on purpose (BoundsObs!Fits): whether a member WITHOUT coordinates promotes the layout of a box "
                        "(any layout between the join over the coordinate-bearing leaves and the join over all of them), the "
                        "layout / min / max of a box that never met a coordinate (only IsEmpty() = true is demanded), the exact "
                        "content of a dimension no coordinate was fed into (any empty interval), and IsEmpty() of a box of which "
                        "some but not all dimensions hold a coordinate"]
