"""C02: multi-part geometries behave as lists of their parts under any Push history."""
import vlib
from props import geomops_common as gc

PIPES = {"geomops": gc.pipe("C02")}


def run(ctx, verdict):
    cfg = "GeomOps_C02_quick.cfg" if ctx.quick else "GeomOps_C02_thorough.cfg"
    gc.explore(ctx, verdict, "C02", cfg)
    ctx.assumptions += ["ordinates are opaque tokens instantiated from a palette of 128 float64 bit patterns (rotated by seed)",
                        "histories bounded by MaxLen of the configuration; parts from the model's alphabet"]
