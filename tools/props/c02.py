"""C02: multi-part geometries behave as lists of their parts under any Push history."""
import vlib
from props import geomops_common as gc

PIPES = {"geomops": gc.pipe("C02")}


STRIDE = {"No": 0, "XY": 2, "XYZ": 3, "XYM": 3, "XYZM": 4, "L5": 5, "L6": 6}


def C(s, j):
    return [10 * j + i for i in range(1, s + 1)]


def value(k, s, j):
    """a value of kind k and stride s built from the coordinates j, j+1, ... (distinguishable between the two objects)"""
    if k == "PT":
        return C(s, j)
    if k in ("LS", "LR"):
        return [C(s, j), C(s, j + 1)]
    if k in ("PG", "MLS"):
        return [[C(s, j), C(s, j + 1)], [], [C(s, j + 2)]]
    if k == "MPT":
        return [C(s, j), C(s, j + 1)]
    return [[[C(s, j), C(s, j + 1)]], [], [[C(s, j + 2)], []]]


def swap_cases(ctx):
    """Swap exchanges the two values COMPLETELY: the objects are created with different layouts (different strides, or the
    same stride with another meaning), hold different coordinates and SRIDs; after Swap, and after a mutation of one of them
    and a second Swap, every projection must be the other one's."""
    pairs = [("XY", "XYZ"), ("XYZ", "XYM"), ("XYZM", "XY"), ("L5", "XYM"), ("XY", "No")]
    if not ctx.quick:
        pairs += [("XYM", "XYZM"), ("L6", "L5"), ("No", "XYZ"), ("XYZ", "XY")]
    cases = []
    for k in ("PT", "LS", "LR", "PG", "MPT", "MLS", "MPG"):
        for l1, l2 in pairs:
            s1, s2 = STRIDE[l1], STRIDE[l2]
            h = []
            if s1:
                h.append(dict(op="setcoords", to=1, v=value(k, s1, 1)))
            if s2:
                h.append(dict(op="setcoords", to=2, v=value(k, s2, 5)))
            for srids in ([(1, 4326)], [(2, 3857)], [(1, 4326), (2, 3857)]):
                hist = h + [dict(op="srid", to=t, srid=v) for t, v in srids] + [dict(op="swap")]
                hist += [dict(op="reverse", to=1), dict(op="swap"), dict(op="reverse", to=2)]
                cases.append(dict(k=k, l=l1, l2=l2, hist=hist))
    return cases


def pushbad_cases(ctx):
    """A part of ANOTHER layout is refused and leaves the receiver unchanged - also when the stride is the same (XYZ / XYM),
    when the part has no layout at all, or more dimensions than four."""
    wrong = {"XY": ["XYZ", "XYM", "No", "L5"], "XYZ": ["XYM", "XY", "XYZM", "No"], "XYM": ["XYZ", "XYZM"],
             "XYZM": ["XYZ", "L5", "No"], "L5": ["L6", "XYZM", "No"], "No": ["XY"]}
    cases = []
    for k in ("PG", "MPT", "MLS", "MPG"):
        for l, ws in wrong.items():
            s = STRIDE[l]
            for w in ws:
                for empty in (False, True):
                    if STRIDE[w] == 0 and not empty:
                        continue
                    pre = [dict(op="setcoords", to=1, v=value(k, s, 1))] if s else []
                    cases.append(dict(k=k, l=l, hist=pre + [dict(op="pushbad", to=1, wl=w, empty=empty),
                                                            dict(op="pushbad", to=2, wl=w, empty=empty), dict(op="reverse", to=1)]))
    return cases


def run(ctx, verdict):
    cfg = "GeomOps_C02_quick.cfg" if ctx.quick else "GeomOps_C02_thorough.cfg"
    gc.explore(ctx, verdict, "C02", cfg)
    extra = swap_cases(ctx) + pushbad_cases(ctx)
    vlib.note_cases(ctx, extra)
    ctx.coverage_extra["swap_and_misfit_cases"] = len(extra)
    gc.pipe("C02")(ctx, verdict, extra)
    ctx.assumptions += ["ordinates are opaque tokens instantiated from a palette of 128 float64 bit patterns (rotated by seed)",
                        "histories bounded by MaxLen of the configuration; parts from the model's alphabet"]
