"""C16: Clone returns an equal geometry that shares no storage."""
import vlib
from props import geomops_common as gc

PIPES = {"geomops": gc.pipe("C16")}


def run(ctx, verdict):
    cfg = "GeomOps_C16_quick.cfg" if ctx.quick else "GeomOps_C16_thorough.cfg"
    gc.explore(ctx, verdict, "C16", cfg)
    ctx.assumptions += ["ordinates are opaque tokens instantiated from a palette of 128 float64 bit patterns (rotated by seed)",
                        "independence is judged on everything the public API shows (FlatCoords, Ends, Endss, Coords, parts, SRID, layout)"]
