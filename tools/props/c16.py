"""C16: Clone returns an equal geometry that shares no storage."""
import vlib
from props import geomops_common as gc

PIPES = {"geomops": gc.pipe("C16")}


def bounds_pipe(ctx, verdict, cases, name="boundsclone"):
    obs = vlib.run_driver(ctx, "bounds", cases)
    viols = vlib.model_b(ctx, "BoundsObs", "Obs.cfg", obs, name="BoundsObs/clone")
    for idx, v in viols:
        verdict.add(name, v["sig"], cases[idx], dict(row=v["row"]))
    return obs


PIPES["boundsclone"] = bounds_pipe


def run(ctx, verdict):
    cfg = "GeomOps_C16_quick.cfg" if ctx.quick else "GeomOps_C16_thorough.cfg"
    # design laws of the storage notion the clone rule uses (Go slice ranges, append in place / elsewhere)
    vlib.tlapm(ctx, "StorageProofs", ["Storage"])      # Meet = a common address, symmetric, views (TLAPS, all integer addresses)
    r = vlib.tlc(ctx, "StorageModel", "StorageModel.cfg", workers=2, name="StorageModel")
    ctx.states += r["distinct"]
    ctx.transitions += r["generated"]
    gc.explore(ctx, verdict, "C16", cfg, case_extra=dict(sto=True))
    if not ctx.quick:      # thorough: histories of 4 actions over four layouts (above), of 3 actions over all seven layouts
        gc.explore(ctx, verdict, "C16", "GeomOps_C16_thorough_all.cfg", case_extra=dict(sto=True))
    # geom.Bounds and geom.Coord are cloneable too (Bounds specification, family "clone")
    out, r = vlib.model_a(ctx, "BoundsModel", "Bounds_clone_%s.cfg" % ("quick" if ctx.quick else "thorough"), ["CASE"], workers=8)
    bcases = sorted(out["CASE"], key=vlib.digest)
    ctx.coverage_extra.setdefault("model_a", []).append(dict(cfg="Bounds_clone", cases=len(bcases)))
    bounds_pipe(ctx, verdict, bcases)
    ctx.assumptions += ["ordinates are opaque tokens instantiated from a palette of 128 float64 bit patterns (rotated by seed)",
                        "independence is judged on everything the public API shows (FlatCoords, Ends, Endss, Coords, parts, SRID, layout)",
                        "shared storage right after Clone is judged on the capacity ranges of every slice the two values hold (read by "
                        "reflection, addresses replaced by their ranks): Storage!Disjoint"]
