"""Shared pipeline of C01 / C02 / C16: TLC enumerates every transition of the GeomOps state graph
(model A), the Go driver replays each behaviour on real geometry values, TLC decides (model B)."""
import random
import vlib


def pipe(mode):
    def run_batch(ctx, verdict, cases, name):
        obs = vlib.run_driver(ctx, "geomops", cases)
        viols = vlib.model_b(ctx, "GeomOpsObs", "Obs.cfg", obs, env={"MODE": mode}, name="GeomOpsObs/" + mode, timeout=3600)
        for idx, v in viols:
            verdict.add(name, v["sig"], cases[idx], dict(step=v["step"], obs_step=(
                obs[idx].get("steps") or [None])[max(0, v["step"] - 1)] if v["step"] else obs[idx].get("ev")))
        return obs

    def run_cases(ctx, verdict, cases, name="geomops"):
        # replayed and decided in batches: the recorded projections of a million behaviours do not fit in memory at once
        B = 150000
        if len(cases) <= B:
            return run_batch(ctx, verdict, cases, name)
        first = None
        for i in range(0, len(cases), B):
            obs = run_batch(ctx, verdict, cases[i:i + B], name)
            first = first if first is not None else obs
        return first
    return run_cases


def random_histories(ctx, cases, n, lo, hi):
    """Long histories that exhaustive exploration cannot reach: random sequences over the actions TLC used for the
    same kind and layout (so every action has a shape the model and the driver know). Decided like every other
    behaviour: model B folds Apply over the whole history."""
    import json
    rnd = random.Random(ctx.seed)
    acts = {}
    for c in cases:
        key = (c["k"], c["l"])
        bag = acts.setdefault(key, {})
        for a in c["hist"]:
            bag.setdefault(json.dumps(a, sort_keys=True), a)
    keys = sorted(acts)
    out = []
    for _ in range(n):
        k, l = rnd.choice(keys)
        pool = list(acts[(k, l)].values())
        out.append(dict(k=k, l=l, hist=[rnd.choice(pool) for _ in range(rnd.randrange(lo, hi + 1))]))
    return out


def explore(ctx, verdict, mode, cfg, timeout=1500, case_extra=None):
    out, r = vlib.model_a(ctx, "MCGeomOps", cfg, ["EDGE"], timeout=timeout)
    cases = out["EDGE"]
    cases.sort(key=lambda c: vlib.digest(c))
    rh = random_histories(ctx, cases, 3000 if ctx.quick else 20000, 6, 14)
    ctx.coverage_extra["random_histories"] = dict(count=len(rh), length="6..14")
    cases = cases + rh
    if case_extra:
        cases = [dict(c, **case_extra) for c in cases]
    # vacuity guard: every kind, layout and action of the configuration occurs in the replayed behaviours
    seen_ops, seen_kl = {}, set()
    for c in cases:
        seen_kl.add((c["k"], c["l"]))
        for a in c["hist"]:
            seen_ops[a["op"]] = seen_ops.get(a["op"], 0) + 1
    ctx.coverage_extra["actions_exercised"] = dict(sorted(seen_ops.items()))
    ctx.coverage_extra["kinds_x_layouts"] = len(seen_kl)
    need = {"C01": {"setcoords", "push", "clone", "reverse", "swap"}, "C02": {"push", "pushbad", "reverse", "swap", "clone"},
            "C16": {"clone", "push", "write", "wend", "transform", "reverse", "setcoords"}}[mode]
    if not need <= set(seen_ops):
        raise vlib.Infra("vacuous exploration: actions never exercised: %s" % sorted(need - set(seen_ops)))
    vlib.note_cases(ctx, cases, nontrivial=lambda c: any(a["op"] in ("push", "setcoords") for a in c["hist"]))
    pipe(mode)(ctx, verdict, cases)
    ctx.coverage_extra.setdefault("model_a", []).append(dict(cfg=cfg, states=r["distinct"], transitions=r["generated"],
                                                             behaviours_replayed=len(cases)))
    return cases
