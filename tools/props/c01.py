"""C01: flat-coordinate representation stays well formed and lossless."""
import vlib
from props import geomops_common as gc

PIPES = {"geomops": gc.pipe("C01")}


STRIDE = {"No": 0, "XY": 2, "XYZ": 3, "XYM": 3, "XYZM": 4, "L5": 5, "L6": 6}


def C(s, j, d=0):
    """the j-th distinguishable coordinate of stride s, d ordinates too long (d > 0) or too short (d < 0)"""
    return [10 * j + i for i in range(1, s + d + 1)]


def wrong_length_values(k, s):
    """Values for SetCoords in which at least one coordinate has the wrong length: one too long, one too short, two whose
    length errors CANCEL (so that the total number of ordinates is a multiple of the stride), at the first / a middle /
    the last position, in the first or a later line / ring / polygon."""
    lines = []
    for d in ([1, -1, 2] if s >= 2 else [1, 2]):
        if s + d < 0:
            continue
        lines += [[C(s, 1, d)], [C(s, 1), C(s, 2, d)], [C(s, 1, d), C(s, 2), C(s, 3)], [C(s, 1), C(s, 2, d), C(s, 3)]]
    if s >= 1:
        lines += [[C(s, 1, 1), C(s, 2, -1)], [C(s, 1, -1), C(s, 2, 1)], [C(s, 1, 1), C(s, 2), C(s, 3, -1)],
                  [C(s, 1), C(s, 2, -1), C(s, 3, 1)]]
    if s >= 2:
        lines += [[C(s, 1, s), C(s, 2, -s)] + [C(s, 3)], [C(s, 1, 2), C(s, 2, -2)] if s > 2 else [C(s, 1, 2), C(s, 2, -2), C(s, 3)]]
    good = [C(s, 1), C(s, 2)] if s else []
    if k == "PT":
        return [C(s, 1, d) for d in (1, -1, 2) if s + d > 0] + ([C(s, 1, s)] if s else [])
    if k in ("LS", "LR"):
        return lines
    if k in ("PG", "MLS"):
        out = [[l] for l in lines] + [[good, l] for l in lines] + [[[], l, good] for l in lines[:6]]
        if s >= 1:      # the errors cancel ACROSS two lines / rings
            out += [[[C(s, 1, 1)], [C(s, 2, -1)]], [[C(s, 1), C(s, 2, 1)], [C(s, 1, -1), C(s, 2)]]]
        return out
    if k == "MPT":
        out = [[C(s, 1, d)] for d in (1, -1) if s + d > 0] + [[C(s, 1), C(s, 2, 1)], [C(s, 1, 1), C(s, 2, -1)] if s > 1 else [C(s, 1, 1)]]
        return out
    if k == "MPG":
        out = [[[l]] for l in lines] + [[[good], [good, l]] for l in lines[:8]] + [[[], [l], [good]] for l in lines[:6]]
        if s >= 1:
            out += [[[[C(s, 1, 1)]], [[C(s, 2, -1)]]], [[[C(s, 1, 1)], [C(s, 2, -1)]]]]
        return out
    return []


def setbad_cases(ctx):
    """The stride-mismatch clause: every kind x layout, the wrong-length value set on a fresh object and on one that already
    holds coordinates. Decided by GeomOpsObs (MODE C01): error class "stride", every projection well formed."""
    good = {"PT": lambda s: C(s, 3), "LS": lambda s: [C(s, 1), C(s, 2)], "LR": lambda s: [C(s, 1), C(s, 2)],
            "PG": lambda s: [[C(s, 1), C(s, 2)], []], "MLS": lambda s: [[C(s, 1), C(s, 2)], []],
            "MPT": lambda s: [C(s, 1), C(s, 2)], "MPG": lambda s: [[[C(s, 1), C(s, 2)]], []]}
    layouts = ["XY", "XYZM", "L5", "No"] if ctx.quick else ["No", "XY", "XYZ", "XYM", "XYZM", "L5", "L6"]
    cases = []
    for k in ("PT", "LS", "LR", "PG", "MLS", "MPT", "MPG"):
        for l in layouts:
            s = STRIDE[l]
            for v in wrong_length_values(k, s):
                cases.append(dict(k=k, l=l, hist=[dict(op="setbad", to=1, v=v)]))
                if s:
                    cases.append(dict(k=k, l=l, hist=[dict(op="setcoords", to=2, v=good[k](s)), dict(op="setbad", to=2, v=v)]))
    return cases


def run(ctx, verdict):
    cfg = "GeomOps_C01_quick.cfg" if ctx.quick else "GeomOps_C01_thorough.cfg"
    gc.explore(ctx, verdict, "C01", cfg)
    cases = setbad_cases(ctx)
    vlib.note_cases(ctx, cases)
    ctx.coverage_extra["stride_mismatch_cases"] = len(cases)
    gc.pipe("C01")(ctx, verdict, cases, name="geomops")
