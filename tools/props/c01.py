"""C01: flat-coordinate representation stays well formed and lossless."""
import vlib
from props import geomops_common as gc

PIPES = {"geomops": gc.pipe("C01")}


def run(ctx, verdict):
    cfg = "GeomOps_C01_quick.cfg" if ctx.quick else "GeomOps_C01_thorough.cfg"
    gc.explore(ctx, verdict, "C01", cfg)
