"""C10: orientation predicate returns the exact sign."""
import math
import random
import struct
import vlib
from props import exact_common as ec


def ulps(f, k):
    """f moved by k units in the last place (f finite, non-zero, result same sign)."""
    b = struct.unpack("<q", struct.pack("<d", f))[0]
    return struct.unpack("<d", struct.pack("<q", b + k if f > 0 else b - k))[0]


def float_cases(seed, n):
    """Near-collinear float triples (the region where the floating-point filter hands over to the
    extended-precision fallback), as exact 'm:e' strings. Families are fixed formulas over integer
    parameters; the parameters are drawn from the seed."""
    r = random.Random(seed)
    out = []
    u = 2.0 ** -53
    while len(out) < n:
        fam = ["classic", "collinear-ulp", "random-ulp", "scaled", "exact-collinear", "mixed-magnitude"][len(out) % 6]
        if fam == "classic":
            i, j = r.randrange(0, 64), r.randrange(0, 64)
            pts = [(0.5 + i * u, 0.5 + j * u), (12.0, 12.0), (24.0, 24.0)]
        elif fam == "mixed-magnitude":
            # three points t*(p, q) of one line through the origin (or a lattice point) whose parameters t differ by
            # up to 2^200, one ordinate moved by an ulp: the exact determinant needs far more than 128 bits
            p, q = r.randrange(1, 1 << 20), r.randrange(-(1 << 20), 1 << 20)
            ts = [r.randrange(1, 1 << 30) * 2.0 ** r.choice([-100, -70, -40, -10, 0, 10, 40, 70, 100]) for _ in range(3)]
            if r.randrange(4) == 0:
                ts[0] = 0.0
            pts = [[t * p, t * q] for t in ts]
            if r.randrange(5):
                i, w = r.randrange(3), r.randrange(2)
                if pts[i][w] != 0:
                    pts[i][w] = ulps(pts[i][w], r.choice([-2, -1, 1, 2]))
            pts = [tuple(x) for x in pts]
        elif fam in ("collinear-ulp", "scaled", "exact-collinear"):
            x0, y0 = r.randrange(-1000, 1000), r.randrange(-1000, 1000)
            dx, dy = r.randrange(-50, 51), r.randrange(-50, 51)
            if dx == 0 and dy == 0:
                continue
            s, t = r.randrange(1, 2000), r.randrange(-2000, 4000)
            # "scaled": the whole range of magnitudes the property allows (1e-100 .. 1e100), with weight on both ends where a
            # product of products under- or overflows although no product of differences does
            sc = 2.0 ** (r.choice([-322, -310, -300, -290, -200, -60, 0, 60, 200, 290, 300, 310, 312]) if fam == "scaled" else r.randrange(-12, 3))
            a = (x0 * sc, y0 * sc)
            b = ((x0 + s * dx) * sc, (y0 + s * dy) * sc)
            c = [(x0 + t * dx) * sc, (y0 + t * dy) * sc]
            if fam != "exact-collinear":
                k = r.choice([-4, -3, -2, -1, 1, 2, 3, 4])
                w = r.randrange(2)
                if c[w] == 0:
                    continue
                c[w] = ulps(c[w], k)
            pts = [a, b, tuple(c)]
        else:
            a = (1 + r.random(), 1 + r.random())
            b = (1 + r.random(), 1 + r.random())
            t = r.random() * 3 - 1
            c = [a[0] + t * (b[0] - a[0]), a[1] + t * (b[1] - a[1])]
            c[r.randrange(2)] = ulps(c[r.randrange(2)], r.randrange(-3, 4) or 1)
            pts = [a, b, tuple(c)]
        rot = r.randrange(3)
        pts = pts[rot:] + pts[:rot]
        out.append(dict(fam=fam, pts=[[ec.to_exact(p[0]), ec.to_exact(p[1])] for p in pts]))
    return out


def float_pipe(ctx, verdict, cases, name="orientx"):
    obs = list(vlib.run_driver(ctx, "orientx", cases, for_tlc=False))
    exprs, sigs, reuse = [], [], []
    for c, o in zip(cases, obs):
        if o["ev"] != "ok":
            exprs.append("FALSE")
            sigs.append("orient|float|" + o["ev"])
            continue
        fr = [ec.parse_exact(v) for p in o["x"] for v in p]
        ints, _ = ec.scale_ints(fr)
        A, B, C = ec.tla_pt(ints[0:2]), ec.tla_pt(ints[2:4]), ec.tla_pt(ints[4:6])
        got1 = "<<" + ", ".join(ec.tla_int(x[0]) for x in o["res"]) + ">>"
        got2 = "<<" + ", ".join(ec.tla_int(x[1]) for x in o["res"]) + ">>"
        exprs.append("OrientPerms(%s, %s, %s, %s) /\\ OrientPerms(%s, %s, %s, %s)" % (A, B, C, got1, A, B, C, got2))
        zeros = sum(1 for x in o["res"] if x[0] == 0)
        sigs.append("orient|float|%s|%s" % (c["fam"], "some-collinear" if zeros else "sign"))
        # the same triple handed over in three coordinate slices that every case overwrites in place (first and last call of the
        # case): the answer is for the values they hold now, not for what an earlier call saw in that storage
        reuse.append(("Orient(%s, %s, %s) = %s /\\ Orient(%s, %s, %s) = %s"
                      % (A, B, C, ec.tla_int(o["reuse"][0]), A, B, C, ec.tla_int(o["reuse"][1])), c))
    # vacuity guard (not a verdict): how many of the triples does a plain float64 evaluation of the determinant get wrong?
    # Those are the ones that need the filter's hand-over to extended precision; a generator that drifted into
    # well-conditioned territory would leave the exact stage unexercised.
    hard = 0
    for o in obs:
        if o["ev"] != "ok":
            continue
        fx = [[float(ec.parse_exact(v)) for v in p] for p in o["x"]]
        ex = [[ec.parse_exact(v) for v in p] for p in o["x"]]
        fdet = (fx[1][0] - fx[0][0]) * (fx[2][1] - fx[0][1]) - (fx[1][1] - fx[0][1]) * (fx[2][0] - fx[0][0])
        edet = (ex[1][0] - ex[0][0]) * (ex[2][1] - ex[0][1]) - (ex[1][1] - ex[0][1]) * (ex[2][0] - ex[0][0])
        if (fdet > 0) != (edet > 0) or (fdet < 0) != (edet < 0):
            hard += 1
    ctx.coverage_extra["float_triples_a_plain_float_determinant_gets_wrong"] = hard
    if len(obs) >= 100 and hard * 20 < len(obs):
        raise vlib.Infra("only %d of %d float triples are ill-conditioned: the extended-precision stage is hardly exercised" % (hard, len(obs)))
    bad = ec.apalache_obs(ctx, verdict, "OrientX", exprs, cases, sigs, name)
    ec.apalache_obs(ctx, verdict, "OrientXReuse", [e for e, _ in reuse], [c for _, c in reuse],
                    ["orient|float|coordinates-overwritten-in-place"] * len(reuse), name)
    ctx.coverage_extra["float_triples_in_reused_storage"] = len(reuse)
    return bad


PIPES = {"orient": ec.pipe("orient"), "orientx": float_pipe}


def run(ctx, verdict):
    # the design laws for ALL integer points (TLAPS): antisymmetry, cyclic and translation invariance, collinear iff zero
    vlib.tlapm(ctx, "ExactGeomProofs", ["ExactGeom"])
    ec.family(ctx, verdict, "orient", nontrivial=lambda c: c["a"] != c["b"])
    n = 480 if ctx.quick else 6000
    cases = float_cases(ctx.seed, n)
    vlib.note_cases(ctx, cases)
    float_pipe(ctx, verdict, cases)
    ctx.coverage_extra["float_tier"] = dict(observations=n, checker="Apalache 0.58 on ExactGeom!Orient with exact integers",
                                            families=["classic", "collinear-ulp", "random-ulp", "scaled", "exact-collinear", "mixed-magnitude"])
    ctx.assumptions += ["grid tier exhaustive for the configured N; float tier is a seeded sample of near-collinear "
                        "triples (5 families, magnitudes 2^-300..2^300), each decided exactly by Apalache",
                        "float64 -> integer scaling by a common power of two is exact (python Fractions)"]
