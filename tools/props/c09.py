"""C09: length and area are the exact measures up to rounding, additive, and total."""
import vlib


def pipe(ctx, verdict, cases, name="measure"):
    obs = vlib.run_driver(ctx, "measure", cases)
    viols = vlib.model_b(ctx, "SumsObs", "Obs.cfg", obs, env={"MODE": "measure"}, name="SumsObs/measure")
    for idx, v in viols:
        o = obs[idx]
        verdict.add(name, v["sig"], cases[idx], dict(row=v["row"], pan=o.get("whole", {}).get("pan", "")[:200]))
    return obs


PIPES = {"measure": pipe}


def run(ctx, verdict):
    cfg = "Sums_measure_quick.cfg" if ctx.quick else "Sums_measure_thorough.cfg"
    out, r = vlib.model_a(ctx, "SumsModel", cfg, ["CASE"], workers=8)
    cases = sorted(out["CASE"], key=vlib.digest)
    vlib.note_cases(ctx, cases, nontrivial=lambda c: c["v"] != [])
    ctx.coverage_extra["model_a"] = [dict(cfg=cfg, cases=len(cases), states=r["distinct"])]
    pipe(ctx, verdict, cases)
    ctx.assumptions += ["structure tier: every shape is assembled from a catalogue of rings / lines whose edges have "
                        "integer length and whose vertices are small integers, so Area and Length are exact in float64 "
                        "and compared exactly; a wrongly bridged or skipped part changes the result by a non-zero amount",
                        "the rounding-error clause (ordinates up to 2^200) is not decided by this tier"]
