"""C09: length and area are the exact measures up to rounding, additive, and total."""
import vlib


def pipe(ctx, verdict, cases, name="measure"):
    obs = vlib.run_driver(ctx, "measure", cases)
    viols = vlib.model_b(ctx, "SumsObs", "Obs.cfg", obs, env={"MODE": "measure"}, name="SumsObs/measure")
    for idx, v in viols:
        o = obs[idx]
        verdict.add(name, v["sig"], cases[idx], dict(row=v["row"], pan=o.get("whole", {}).get("pan", "")[:200]))
    return obs


def big_cases(seed, n):
    """Rings with arbitrary float64 ordinates: far from the origin relative to their size, at magnitudes up to 2^200,
    with products that are not representable; 1-3 rings per polygon, 1-2 polygons."""
    import random
    from props import exact_common as ec
    r = random.Random(seed)
    out = []
    for k in range(n):
        scale = 2.0 ** r.choice([-40, 0, 0, 20, 60, 150, 199])
        far = r.choice([0.0, 1.0, 1e3, 1e6, 1e9]) * scale
        polys = []
        for _ in range(r.choice([1, 1, 2])):
            rings = []
            for _ in range(r.choice([1, 1, 2, 3])):
                m = r.choice([3, 4, 5, 8, 20])
                bx, by = far * r.uniform(0.5, 1.5), far * r.uniform(-1.5, 1.5)
                pts = [[bx + r.uniform(0, 1) * scale, by + r.uniform(0, 1) * scale] for _ in range(m)]
                pts.append(pts[0][:])
                if max(abs(v) for p in pts for v in p) >= 2.0 ** 200:
                    pts = [[v / 4 for v in p] for p in pts]
                rings.append([[ec.to_exact(v) for v in p] for p in pts])
            polys.append(rings)
        out.append(dict(polys=polys, l=r.choice(["XY", "XYZ", "XYM", "XYZM"])))
    return out


def big_pipe(ctx, verdict, cases, name="measurex"):
    """Numeric clause: Apalache decides MeasureBig!AreaOK on exact integers for the whole geometry and each polygon."""
    import os
    from props import exact_common as ec
    from props import c18
    obs = list(vlib.run_driver(ctx, "measurex", cases, for_tlc=False))
    exprs, sigs, cases_out = [], [], []
    for c, o in zip(cases, obs):
        cases_out.append(c)
        if o["ev"] != "ok" or o["area"] == "panic" or "panic" in o["parts"]:
            exprs.append("FALSE")
            sigs.append("measure|numeric|panic")
            continue
        flat = [v for p in o["x"] for ring in p for q in ring for v in q]
        ints, k = ec.scale_ints([ec.parse_exact(v) for v in flat])
        pos, conj = 0, []

        def poly_expr(rings_x, got):
            nonlocal pos
            coords, idx, i = [], [], 0
            for ring in rings_x:
                for j, _ in enumerate(ring):
                    coords.append(ec.tla_pt(ints[pos:pos + 2]))
                    pos += 2
                    i += 1
                    if j > 0:
                        idx.append(i)
            g = ec.parse_exact(got)
            gi, gk = ec.scale_ints([g])
            return coords, idx, gi[0], 1 << gk
        all_coords, all_idx, off = [], [], 0
        for pi, p in enumerate(o["x"]):
            coords, idx, gn, gd = poly_expr(p, o["parts"][pi])
            if idx:
                conj.append("AreaOK(<<%s>>, <<%s>>, %s, %d, %d, %d)" % (", ".join(coords), ", ".join(map(str, idx)), ec.tla_int(gn), gd, 4 ** k, len(coords)))
            all_idx += [i + off for i in idx]
            all_coords += coords
            off += len(coords)
        g = ec.parse_exact(o["area"])
        gi, gk = ec.scale_ints([g])
        conj.append("AreaOK(<<%s>>, <<%s>>, %s, %d, %d, %d)" % (", ".join(all_coords), ", ".join(map(str, all_idx)), ec.tla_int(gi[0]), 1 << gk, 4 ** k, len(all_coords)))
        exprs.append(" /\\ ".join(conj))
        sigs.append("measure|numeric|area-outside-rounding-bound")
        # ---- Length(): witnesses floor(sqrt(D * 4^64)) per edge, checked by the specification (MeasureBig!LengthOK)
        import math
        M = 1 << 64
        lconj, pos2 = [], 0
        flat_pts = [ints[i:i + 2] for i in range(0, len(ints), 2)]
        ring_spans = []                                   # (polygon index, ring index, first position, one past last) - 0-based
        for pi, p in enumerate(o["x"]):
            for ri, ring in enumerate(p):
                ring_spans.append((pi, ri, pos2, pos2 + len(ring)))
                pos2 += len(ring)

        def length_expr(spans, got):
            pts, idx, wit = [], [], []
            for (_, _, a, b) in spans:
                for j in range(a, b):
                    pts.append(flat_pts[j])
                    if j > a:
                        d = (flat_pts[j][0] - flat_pts[j - 1][0]) ** 2 + (flat_pts[j][1] - flat_pts[j - 1][1]) ** 2
                        wit.append(math.isqrt(d * M * M))
                        idx.append(len(pts))
                    else:
                        wit.append(0)
            gl, glk = ec.scale_ints([ec.parse_exact(got)])
            return "LengthOK(<<%s>>, <<%s>>, <<%s>>, %s, %d, %d, %d, %d)" % (
                ", ".join(ec.tla_pt(q) for q in pts), ", ".join(map(str, idx)), ", ".join(map(str, wit)), ec.tla_int(gl[0]), 1 << glk, 1 << k, M, len(pts))
        lens = o.get("lens", {})
        if any(":" not in v for v in lens.values()):          # panic, nan, +-inf: not a length
            lconj.append("FALSE")
        else:
            lconj.append(length_expr(ring_spans, lens["mp"]))
            for pi in range(len(o["x"])):
                lconj.append(length_expr([sp for sp in ring_spans if sp[0] == pi], lens["pg%d" % pi]))
            for sp in ring_spans[:2]:
                lconj.append(length_expr([sp], lens["lr%d.%d" % (sp[0], sp[1])]))
                lconj.append(length_expr([sp], lens["ls%d.%d" % (sp[0], sp[1])]))
        exprs.append(" /\\ ".join(lconj))
        sigs.append("measure|numeric|length-outside-rounding-bound")
        cases_out.append(c)
    spec = open(os.path.join(ctx.specdir, "MeasureBig.tla")).read()
    return c18.apalache_decimal(ctx, verdict, exprs, cases_out, sigs, name, spec, per_module=6 if ctx.quick else 20, extends="MeasureBig", modprefix="MeasObs")


PIPES = {"measure": pipe, "measurex": big_pipe}


def run(ctx, verdict):
    cfg = "Sums_measure_quick.cfg" if ctx.quick else "Sums_measure_thorough.cfg"
    out, r = vlib.model_a(ctx, "SumsModel", cfg, ["CASE"], workers=8)
    cases = sorted(out["CASE"], key=vlib.digest)
    vlib.note_cases(ctx, cases, nontrivial=lambda c: c["v"] != [])
    ctx.coverage_extra["model_a"] = [dict(cfg=cfg, cases=len(cases), states=r["distinct"])]
    pipe(ctx, verdict, cases)
    big = big_cases(ctx.seed, 32 if ctx.quick else 1200)
    vlib.note_cases(ctx, big)
    big_pipe(ctx, verdict, big)
    ctx.coverage_extra["numeric_tier"] = dict(cases=len(big), checker="Apalache on MeasureBig!AreaOK (exact integers, fold over the edges)")
    ctx.assumptions += ["structure tier: every shape is assembled from a catalogue of rings / lines whose edges have "
                        "integer length and whose vertices are small integers, so Area and Length are exact in float64 "
                        "and compared exactly; a wrongly bridged or skipped part changes the result by a non-zero amount",
                        "numeric tier: seeded rings with arbitrary float64 ordinates up to 2^200, far from the origin, Area() of every polygon and of the whole within (n+8)*2^-52*sum|trapezoid terms|/2 (Apalache); Length() of the whole, every polygon and the first rings (as LinearRing and LineString) within (n+8)*2^-52*L + n*2^-64 units of the exact sum of square roots, through per-edge floor-square-root witnesses that the specification checks (MeasureBig!LengthOK)"]
