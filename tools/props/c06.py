"""C06: WKT parser is total and accepts only consistent geometries."""
import vlib
from props import wkt_common as w

PIPES = {"wkt": w.pipe}

QUICK = ["WKT_absrej5.cfg", "WKT_full9.cfg", "WKT_rings.cfg", "WKT_coll.cfg", "WKT_multi.cfg", "WKT_lines.cfg", "WKT_nest.cfg"]


THOROUGH = ["WKT_full10.cfg", "WKT_rings16.cfg", "WKT_coll13.cfg", "WKT_multi16.cfg", "WKT_lines.cfg", "WKT_nest15.cfg",
            "WKT_absrej7.cfg", "WKT_abs.cfg"]


def run(ctx, verdict):
    cases = []
    for cfg in (QUICK if ctx.quick else THOROUGH):
        cs = w.enumerate_strings(ctx, cfg)
        if "absrej" in cfg:
            # non-grammatical token sequences have no unambiguous text (adjacent numbers / keywords glue):
            # only totality and the verdict are compared for them
            for c in cs:
                c["weak"] = True
        cases += cs
    vlib.note_cases(ctx, cases, nontrivial=lambda c: len(c["toks"]) > 3)
    w.pipe(ctx, verdict, cases)
