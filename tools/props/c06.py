"""C06: WKT parser is total and accepts only consistent geometries."""
import vlib
from props import wkt_common as w

PIPES = {"wkt": w.pipe}

QUICK = ["WKT_absrej5.cfg", "WKT_full9.cfg", "WKT_rings.cfg", "WKT_coll.cfg", "WKT_multi.cfg", "WKT_lines.cfg", "WKT_nest.cfg"]


THOROUGH = ["WKT_full10.cfg", "WKT_rings16.cfg", "WKT_coll13.cfg", "WKT_multi16.cfg", "WKT_lines.cfg", "WKT_nest15.cfg",
            "WKT_absrej7.cfg", "WKT_abs.cfg"]


def tree_strings(ctx):
    """Layer 4: long grammatical strings that enumeration cannot reach (three and more polygons, nested collections of
    multi-geometries): the canonical and the parenthesised rendering of every tree of the WKTRender model, plus seeded
    token-level mutations of them (drop / duplicate / swap a token, change the arity of a point, change a keyword's
    dimension suffix). Decided like every other string: model B folds the parser model over the tokens."""
    import random
    out, r = vlib.model_a(ctx, "WKTRenderModel", "WKTRender_quick.cfg" if ctx.quick else "WKTRender_thorough.cfg", ["CASE"], workers=4)
    rnd = random.Random(ctx.seed)
    cases = []
    for c in sorted(out["CASE"], key=vlib.digest):
        for toks in (c["toks"], c["toks2"]):
            base = toks + [["EOF"]]
            cases.append(dict(toks=base))
            if len(toks) < 4:
                continue
            for _ in range(2 if ctx.quick else 6):
                t = [list(x) if isinstance(x, list) else x for x in toks]
                k = rnd.randrange(len(t))
                m = rnd.randrange(5)
                if m == 0:
                    del t[k]
                elif m == 1:
                    t.insert(k, t[k])
                elif m == 2 and k + 1 < len(t):
                    t[k], t[k + 1] = t[k + 1], t[k]
                elif m == 3:
                    ps = [i for i, x in enumerate(t) if x[0] == "P"]
                    if not ps:
                        continue
                    i = rnd.choice(ps)
                    vec = list(t[i][2])
                    vec = vec[:-1] if (rnd.randrange(2) and len(vec) > 1) else vec + [vec[0]]
                    t[i] = ["P", len(vec), vec]
                else:
                    ks = [i for i, x in enumerate(t) if x[0] == "KW"]
                    i = rnd.choice(ks)
                    t[i] = ["KW", t[i][1], rnd.choice(["B", "Z", "M", "ZM"])]
                cases.append(dict(toks=t + [["EOF"]], weak=True))
    ctx.coverage_extra.setdefault("model_a", []).append(dict(cfg="WKTRender trees as strings", strings=len(cases)))
    return cases


def run(ctx, verdict):
    cases = tree_strings(ctx)
    for cfg in (QUICK if ctx.quick else THOROUGH):
        cs = w.enumerate_strings(ctx, cfg)
        if "absrej" in cfg:
            # non-grammatical token sequences have no unambiguous text (adjacent numbers / keywords glue):
            # only totality and the verdict are compared for them
            for c in cs:
                c["weak"] = True
        cases += cs
    vlib.note_cases(ctx, cases, nontrivial=lambda c: len(c["toks"]) > 3)
    w.pipe(ctx, verdict, cases)
