"""C06: WKT parser is total and accepts only consistent geometries."""
import vlib
from props import wkt_common as w

PIPES = {"wkt": w.pipe}

QUICK = ["WKT_absrej5.cfg", "WKT_full9.cfg", "WKT_rings.cfg", "WKT_coll.cfg", "WKT_multi.cfg", "WKT_lines.cfg", "WKT_nest.cfg"]


THOROUGH = ["WKT_full10.cfg", "WKT_rings16.cfg", "WKT_coll13.cfg", "WKT_multi16.cfg", "WKT_lines.cfg", "WKT_nest15.cfg",
            "WKT_absrej7.cfg", "WKT_abs.cfg"]


def tree_strings(ctx):
    """Layer 4: long grammatical strings that enumeration cannot reach (three and more polygons, nested collections of
    multi-geometries): the canonical and the parenthesised rendering of every tree of the WKTRender model, plus seeded
    token-level mutations of them (drop / duplicate / swap a token, change the arity of a point, change a keyword's
    dimension suffix). Decided like every other string: model B folds the parser model over the tokens."""
    import random
    out, r = vlib.model_a(ctx, "WKTRenderModel", "WKTRender_quick.cfg" if ctx.quick else "WKTRender_thorough.cfg", ["CASE"], workers=4)
    rnd = random.Random(ctx.seed)
    cases = []
    for c in sorted(out["CASE"], key=vlib.digest):
        for toks in (c["toks"], c["toks2"]):
            base = toks + [["EOF"]]
            cases.append(dict(toks=base))
            if len(toks) < 4:
                continue
            for _ in range(2 if ctx.quick else 6):
                t = [list(x) if isinstance(x, list) else x for x in toks]
                k = rnd.randrange(len(t))
                m = rnd.randrange(5)
                if m == 0:
                    del t[k]
                elif m == 1:
                    t.insert(k, t[k])
                elif m == 2 and k + 1 < len(t):
                    t[k], t[k + 1] = t[k + 1], t[k]
                elif m == 3:
                    ps = [i for i, x in enumerate(t) if x[0] == "P"]
                    if not ps:
                        continue
                    i = rnd.choice(ps)
                    vec = list(t[i][2])
                    vec = vec[:-1] if (rnd.randrange(2) and len(vec) > 1) else vec + [vec[0]]
                    t[i] = ["P", len(vec), vec]
                else:
                    ks = [i for i, x in enumerate(t) if x[0] == "KW"]
                    i = rnd.choice(ks)
                    t[i] = ["KW", t[i][1], rnd.choice(["B", "Z", "M", "ZM"])]
                cases.append(dict(toks=t + [["EOF"]], weak=True))
    ctx.coverage_extra.setdefault("model_a", []).append(dict(cfg="WKTRender trees as strings", strings=len(cases)))
    return cases


def corpus_strings(ctx):
    """Layer 5: the inputs of the library's OWN tests. The package's test suite is run from /repo's working tree with
    the verif tag and VERIF_WKT_CORPUS set: the hook's "begin" event appends every string handed to wkt.Unmarshal
    to a scratch file. Each distinct string (plus seeded word-level mutations) is then parsed by the driver with the
    full hook trace and decided by the parser model like an enumerated string - the assertions of the specification
    are applied to the executions the repository's tests already exercise."""
    import json, os, random, re, subprocess
    path = os.path.join(ctx.scratch, "wkt_corpus.ndjson")
    env = dict(os.environ, VERIF_WKT_CORPUS=path, GOFLAGS="-mod=mod", GOPROXY="off", GOSUMDB="off", GOTOOLCHAIN="local")
    p = subprocess.run(["go", "test", "-tags", "verif", "-vet=off", "-count=1", "./encoding/wkt/"], cwd=vlib.REPO, env=env,
                       capture_output=True, text=True, timeout=600)
    strs = []
    if os.path.exists(path):
        seen = set()
        for l in open(path):
            try:
                s = json.loads(l)
            except ValueError:
                continue
            if isinstance(s, str) and s not in seen and len(s) < 4000:
                seen.add(s)
                strs.append(s)
    if len(strs) < 50:
        raise vlib.Infra("WKT corpus harvest from the library's own tests returned %d strings (hook missing or tests do not build): %s"
                         % (len(strs), (p.stdout + p.stderr)[-300:]))
    rnd = random.Random(ctx.seed * 31 + 5)
    cases = [dict(text=s, corpus=True) for s in strs]
    for s in strs:
        words = re.findall(r"[(),]|[^\s(),]+", s)
        if len(words) < 4:
            continue
        for _ in range(2 if ctx.quick else 8):
            w = list(words)
            k = rnd.randrange(len(w))
            m = rnd.randrange(4)
            if m == 0:
                del w[k]
            elif m == 1:
                w.insert(k, w[k])
            elif m == 2 and k + 1 < len(w):
                w[k], w[k + 1] = w[k + 1], w[k]
            else:
                nums = [i for i, x in enumerate(w) if re.fullmatch(r"-?[0-9.]+(e-?[0-9]+)?", x, re.I)]
                if not nums:
                    continue
                w[rnd.choice(nums)] = rnd.choice(["0", "1", "-2.5", "1e21", "3"])
            cases.append(dict(text=" ".join(w), corpus=True, weak=True))
    # byte-level layer ("for any input string"): bytes inserted, deleted, replaced or duplicated anywhere in a corpus string
    # (control bytes, NUL, high bytes and multi-byte runes, signs, dots, exponent letters, parentheses), and the numerals on
    # which lexers differ put in place of a number. Decided like the other strings: by the harness's own tokens when it
    # knows every word, else by the real lexer's tokens (verdict / totality / stability only).
    edge = ["1e999", "-1e999", "1e-999", ".5", "5.", "-.5", "1.e3", "1e+3", "1E3", "--1", "1e", "e1", "0x10", "1_000", "Inf", "NaN", "+1",
            "1..2", "1-2", "\u0661\u0662", "1\u00a02", "00012", "-0", "1e0e0", "9007199254740993", "0.1e-320"]
    alphabet = ["\x00", "\x01", "\x7f", "\xc3", "\u00e9", "\u2028", "\ufeff", " ", "\t", "\n", "\r", "(", ")", ",", "+", "-", ".", "e", "E", "Z", "M", "0", "9", "#", "'"]
    nb = 0
    for s in strs:
        for _ in range(2 if ctx.quick else 12):
            m = rnd.randrange(5)
            if not s:
                continue
            k = rnd.randrange(len(s))
            if m == 0:
                t = s[:k] + rnd.choice(alphabet) + s[k:]
            elif m == 1:
                t = s[:k] + s[k + 1:]
            elif m == 2:
                t = s[:k] + rnd.choice(alphabet) + s[k + 1:]
            elif m == 3:
                j = min(len(s), k + rnd.randrange(1, 6))
                t = s[:j] + s[k:j] + s[j:]
            else:
                nums = list(re.finditer(r"-?[0-9][0-9.]*(e-?[0-9]+)?", s, re.I))
                if not nums:
                    continue
                mm = rnd.choice(nums)
                t = s[:mm.start()] + rnd.choice(edge) + s[mm.end():]
            cases.append(dict(text=t, corpus=True, weak=True))
            nb += 1
    ctx.coverage_extra.setdefault("model_a", []).append(dict(cfg="byte-level mutations of corpus strings", strings=nb))
    ctx.coverage_extra.setdefault("model_a", []).append(dict(cfg="corpus of the library's own tests (hook begin event)",
                                                             harvested=len(strs), strings=len(cases), tests_passed=p.returncode == 0))
    return cases


def run(ctx, verdict):
    cases = tree_strings(ctx) + corpus_strings(ctx)
    for cfg in (QUICK if ctx.quick else THOROUGH):
        cs = w.enumerate_strings(ctx, cfg)
        if "absrej" in cfg:
            # non-grammatical token sequences have no unambiguous text (adjacent numbers / keywords glue):
            # only totality and the verdict are compared for them
            for c in cs:
                c["weak"] = True
        cases += cs
    vlib.note_cases(ctx, cases, nontrivial=lambda c: len(c.get("toks") or c.get("text", "").split()) > 3)
    obs = w.pipe(ctx, verdict, cases)
    idx = [i for i, c in enumerate(cases) if c.get("corpus") and not c.get("weak")]
    full = sum(1 for i in idx if obs[i].get("hastoks"))
    acc = sum(1 for i in idx if obs[i].get("vclass") == "acc")
    ctx.coverage_extra.setdefault("model_b", []).append(dict(what="corpus strings decided with the harness's own tokens (tree, events, lexer tokens compared)",
                                                             strings=len(idx), with_own_tokens=full, accepted=acc))
    if idx and full * 2 < len(idx):
        raise vlib.Infra("only %d of %d corpus strings were tokenised by the harness: the corpus layer is vacuous" % (full, len(idx)))
