"""C05: WKT output round-trips and reads the same in an independent WKT reader."""
import vlib


def pipe(ctx, verdict, cases, name="wktenc"):
    obs = vlib.run_driver(ctx, "wktenc", cases)
    viols = vlib.model_b(ctx, "WKTEncObs", "Obs.cfg", obs, name="WKTEncObs")
    for idx, v in viols:
        verdict.add(name, v["sig"], cases[idx], dict(text=v["text"]))


def number_pipe(ctx, verdict, cases, name="wktnum"):
    """The number clause: with no digit limit every ordinate is written as a plain decimal that an independent reader
    maps back to the same float64 - decided exactly by Apalache (Decimal!ParsesBack) on the literal as written; the
    library's own parser must return the same bits (recorded by the driver as the exact value of the re-parsed point)."""
    import os
    import re
    from props import c18, exact_common as ec
    lit = re.compile(r"^(-?)(\d+)(?:\.(\d+))?$")
    # a literal with an exponent is standard WKT as well (the property itself lists exponent notation among the spellings); it is
    # not compared by Decimal!ParsesBack (no exponent arithmetic there) - the library's own parser must still return the bits
    explit = re.compile(r"^-?(\d+\.?\d*|\.\d+)[eE][+-]?\d+$")
    nexp = 0
    obs = list(vlib.run_driver(ctx, "digits", cases, for_tlc=False))
    exprs, sigs, flat = [], [], []
    for c, o in zip(cases, obs):
        for v, row in zip(c["vals"], o.get("rows", [])):
            m, e = row["x"].split(":")
            m, e = int(m), int(e)
            # normalise to a 53-bit mantissa so that 2^k is the unit in the last place (0 stays 0)
            while m != 0 and abs(m) < (1 << 52) and e > -1074:
                m, e = m * 2, e - 1
            k1, k2, k3 = c18.split3(abs(e))
            parts, why = [], "does-not-parse-back"
            for l in row["lits"]:
                if l["src"] != "wkt":
                    continue
                mm = lit.match(l["t"])
                if not mm and explit.match(l["t"]):
                    nexp += 1
                    parts.append("TRUE")
                    continue
                if not mm:
                    parts, why = ["FALSE"], "malformed-number"
                    break
                sign, ip, fp = mm.group(1), mm.group(2), mm.group(3) or ""
                digits = int(ip + fp) * (-1 if sign else 1)
                parts.append("ParsesBack(%s, %d, %d, %d, %s, %s, %d, %d)" % (ec.tla_int(m), k1, k2, k3, "TRUE" if e < 0 else "FALSE", ec.tla_int(digits), min(len(fp), 300), max(0, len(fp) - 300)))
                if m < 0 and not sign or (m == 0 and row["x"] == "0:0" and sign):
                    parts.append("FALSE")
                    why = "sign-lost"
            # the library's own parser returns the same bits ("both return a geometry equal ... in every coordinate bit")
            if parts and parts != ["FALSE"] and "ownbits" in row:
                parts.append('"%s" = "%s"' % (",".join(row["ownbits"]), ",".join([row["inbits"]] * len(row["ownbits"]))))
            exprs.append(" /\\ ".join(parts) if parts else "FALSE")
            sigs.append("wktnum|" + why)
            flat.append(dict(kind="nums", d=-1, vals=[v]))
    ctx.coverage_extra["exponent_literals_not_compared_by_the_reference_reader"] = nexp
    spec = open(os.path.join(ctx.specdir, "Decimal.tla")).read()
    return c18.apalache_decimal(ctx, verdict, exprs, flat, sigs, name, spec, per_module=400)


PIPES = {"wktenc": pipe, "wktnum": number_pipe}


def run(ctx, verdict):
    cfg = "WKTRender_quick.cfg" if ctx.quick else "WKTRender_thorough.cfg"
    out, r = vlib.model_a(ctx, "WKTRenderModel", cfg, ["CASE"], workers=4)
    cases = sorted(out["CASE"], key=vlib.digest)
    vlib.note_cases(ctx, cases, nontrivial=lambda c: len(c["toks"]) > 2)
    ctx.coverage_extra["model_a"] = [dict(cfg=cfg, trees=len(cases), states=r["distinct"])]
    pipe(ctx, verdict, cases)
    from props import c18, exact_common as ec
    vals = [v for v in c18.PALETTE if v == v] + c18.seeded_values(ctx.seed + 3, 200 if ctx.quick else 5000)
    ncases = [dict(kind="nums", d=-1, vals=[ec.to_exact(v) for v in vals[i:i + 20]]) for i in range(0, len(vals), 20)]
    number_pipe(ctx, verdict, ncases)
    ctx.coverage_extra["number_clause"] = dict(values=len(vals), checker="Apalache on Decimal!ParsesBack")
