"""C05: WKT output round-trips and reads the same in an independent WKT reader."""
import vlib


def pipe(ctx, verdict, cases, name="wktenc"):
    obs = vlib.run_driver(ctx, "wktenc", cases)
    viols = vlib.model_b(ctx, "WKTEncObs", "Obs.cfg", obs, name="WKTEncObs")
    for idx, v in viols:
        verdict.add(name, v["sig"], cases[idx], dict(text=v["text"]))


PIPES = {"wktenc": pipe}


def run(ctx, verdict):
    cfg = "WKTRender_quick.cfg" if ctx.quick else "WKTRender_thorough.cfg"
    out, r = vlib.model_a(ctx, "WKTRenderModel", cfg, ["CASE"], workers=4)
    cases = sorted(out["CASE"], key=vlib.digest)
    vlib.note_cases(ctx, cases, nontrivial=lambda c: len(c["toks"]) > 2)
    ctx.coverage_extra["model_a"] = [dict(cfg=cfg, trees=len(cases), states=r["distinct"])]
    pipe(ctx, verdict, cases)
