"""C04: binary decoders are total, allocation-bounded and canonical on arbitrary bytes.

Inputs: (1) WKBMutModel (TLC): every truncation, byte substitutions over the header / count / SRID region, type-word
forgeries, concatenations of valid encodings x element-limit settings; (2) seeded generators below (ctx.seed): random
byte strings, splices of two valid encodings at random cut points, multi-byte flips and 32-bit count forgeries anywhere
in an encoding, deeply nested GEOMETRYCOLLECTION headers, and arbitrary STRINGS for the hex wrappers (odd length,
non-hex characters, either letter case).  Every input - whatever produced it - is decided by WKBDecObs, which evaluates
the reference decoder WKB!Decode on its bytes.  Python only generates inputs and plumbs data."""
import json
import os
import random
import tempfile
from concurrent.futures import ThreadPoolExecutor

import vlib

MEM = 6 << 30      # address-space limit of each decode process: a forged count must not take the machine down

WRAPS = ["ANY", "PT", "LS", "PG", "MPT", "MLS", "MPG", "GC"]
LIMS_ON = [[0, 0, 0], [2, 2, 2], [1, 3, 2], [3, 1, 5], [16, 1, 0], [5, 5, 1], [64, 64, 64]]
LIMS_OFF = [[-1, -1, -1], [-1, -1, -1], [-1, 2, -1], [3, -1, 5], [2, 2, -1]]
U32S = [0, 1, 2, 3, 5, 64, 65, 255, 256, 65535, 65536, (1 << 31) - 1, 1 << 31, (1 << 32) - 1]


def pipe(ctx, verdict, cases, name="wkbdec"):
    # (go-geom's decoder and encoder take time quadratic in the nesting depth of collections - GeometryCollection.Empty()
    # and Layout() walk the whole subtree at every level: 0.2 s at depth 10000, 4 s at 40000.  The property demands
    # termination, not speed: the nesting generator stops at depth 8000 and the deadline of a call is generous.)
    obs = vlib.run_driver(ctx, "wkbdec", cases, mem=MEM, per_call_ms=8000)
    viols = vlib.model_b(ctx, "WKBDecObs", "Obs.cfg", obs, name="WKBDecObs")
    for idx, v in viols:
        try:
            o = obs[idx]
        except RecursionError:          # a deeply nested result: the verdict stands, the detail is dropped
            o = {}
        verdict.add(name, v["sig"], cases[idx], dict(alloc=o.get("alloc"), err=o.get("err"), ev=o.get("ev"), msg=o.get("msg", "")[:200]))
    return obs


PIPES = {"wkbdec": pipe}


# ------------------------------------------------------------------------------------------- seeded generators
def u32(v, xdr):
    b = [(v >> 24) & 255, (v >> 16) & 255, (v >> 8) & 255, v & 255]
    return b if xdr else b[::-1]


def type_word(tid, dim, srid, flavor, xdr):
    if flavor == "ewkb":
        return u32(tid | (0x80000000 if dim in (1, 3) else 0) | (0x40000000 if dim in (2, 3) else 0) | (0x20000000 if srid else 0), xdr)
    return u32(tid + 1000 * dim, xdr)


def nest(depth, flavor, xdr, inner, srid_every=0):
    """depth nested GEOMETRYCOLLECTION headers (one member each) around `inner`."""
    out = []
    for k in range(depth):
        s = flavor == "ewkb" and srid_every and k % srid_every == 0
        out += [0 if xdr else 1] + type_word(7, 0, s, flavor, xdr) + (u32(4326, xdr) if s else []) + u32(1, xdr)
    o = [0 if xdr else 1]
    if inner == "empty":
        out += o + type_word(7, 0, False, flavor, xdr) + u32(0, xdr)
    elif inner == "point":
        out += o + type_word(1, 0, False, flavor, xdr) + [64, 1, 0, 0, 0, 0, 0, 0] * 2
    elif inner == "badtype":
        out += o + type_word(99, 0, False, flavor, xdr)
    elif inner == "count":               # the innermost collection claims members that are not there
        out += o + type_word(7, 0, False, flavor, xdr) + u32(3, xdr)
    # "trunc": nothing - the input ends where the innermost member should start
    return out


def guess_wrap(b, flavor, rnd):
    """the wrapper of the type id the bytes show (half of the time), else any wrapper of the flavour."""
    ws = WRAPS[1:] if flavor == "ewkb" else WRAPS
    if len(b) >= 5 and rnd.random() < 0.5:
        w = WRAPS[(b[5 - 1] if b[0] == 0 else b[1]) % 8]
        if w in ws:
            return w
    return rnd.choice(ws)


def hex_strings(b, rnd):
    h = "".join("%02x" % v for v in b)
    mixed = "".join(ch.upper() if rnd.random() < 0.5 else ch for ch in h)
    out = [h, h.upper(), mixed, h[:-1], h + rnd.choice("0aF"), "0x" + h, "\\x" + h, " " + h, h + "\n", h + " "]
    for _ in range(3):
        if h:
            p = rnd.randrange(len(h))
            out.append(h[:p] + rnd.choice(["g", "G", "x", "z", " ", "-", ":", "\x00", "\x7f", "é", "€", "/", "@", "`"]) + h[p + 1:])
    return out


def candidates(ctx, bases, n):
    """n seeded candidates dict(bytes, flavor, nan, [hexcodes]); limits / route are chosen after the domain pass."""
    rnd = random.Random(ctx.seed * 1000003 + 4)
    out = []
    small = [0, 0, 0, 0, 1, 1, 2, 3, 255]

    def base():
        return rnd.choice(bases)
    while len(out) < n:
        k = rnd.random()
        a = base()
        c = dict(flavor=a["flavor"], nan=a["nan"])
        if k < 0.10:                        # random bytes
            c["bytes"] = [rnd.randrange(256) for _ in range(rnd.randrange(0, 73))]
        elif k < 0.30:                      # random bytes behind a plausible header, small alphabet (counts stay readable)
            xdr = rnd.random() < 0.5
            b = [0 if xdr else 1] + type_word(rnd.randrange(0, 9), rnd.choice([0, 0, 1, 2, 3, 4]), rnd.random() < 0.3, a["flavor"], xdr)
            b += [rnd.choice(small) if rnd.random() < 0.85 else rnd.randrange(256) for _ in range(rnd.randrange(0, 90))]
            c["bytes"] = b
        elif k < 0.55:                      # splice / insertion of two valid encodings at random cut points
            b2 = base()
            if rnd.random() < 0.7:
                for _ in range(8):
                    if b2["flavor"] == a["flavor"]:
                        break
                    b2 = base()
            x, y = a["bytes"], b2["bytes"]
            i, j = rnd.randrange(len(x) + 1), rnd.randrange(len(y) + 1)
            if rnd.random() < 0.6:
                c["bytes"] = x[:i] + y[j:]
            else:
                j2 = rnd.randrange(j, len(y) + 1)
                c["bytes"] = x[:i] + y[j:j2] + x[i:]
        elif k < 0.75:                      # multi-byte flips anywhere in the encoding
            b = list(a["bytes"])
            for _ in range(rnd.randrange(2, 7)):
                p = rnd.randrange(len(b))
                b[p] = b[p] ^ (1 << rnd.randrange(8)) if rnd.random() < 0.6 else rnd.randrange(256)
            c["bytes"] = b
        elif k < 0.90:                      # a 32-bit word forged anywhere (count fields behind the first 48 bytes too)
            b = list(a["bytes"])
            for _ in range(rnd.choice([1, 1, 2])):
                if len(b) >= 4:
                    p = rnd.randrange(len(b) - 3)
                    b[p:p + 4] = u32(rnd.choice(U32S), rnd.random() < 0.5)
            c["bytes"] = b
        else:                               # arbitrary strings for the hex wrappers
            b = list(a["bytes"])
            if rnd.random() < 0.3:
                b = b[:rnd.randrange(len(b) + 1)]
            for s in rnd.sample(hex_strings(b, rnd) + ["", "0", "g", "zz"], 4):
                out.append(dict(flavor=a["flavor"], nan=a["nan"], bytes=[], hexcodes=[ord(ch) for ch in s]))
            continue
        out.append(c)
    return out


def nests(ctx, depths, ref_max=2000):
    """nested collection headers; inputs longer than ref_max bytes are marked "noref" (WKBDecObs!NoRef: too deep for TLC to
    evaluate the reference decoder in reasonable time - totality, well-formedness and stability are still demanded)."""
    rnd = random.Random(ctx.seed * 1000003 + 5)
    out = []
    for d in depths:
        for flavor in ("wkb", "ewkb"):
            for inner in ("empty", "point", "trunc", "badtype", "count"):
                xdr = rnd.random() < 0.5
                b = nest(d, flavor, xdr, inner, srid_every=rnd.choice([0, 1, 7]))
                # every count field is 1 (or 3): backed by input, so the limits may be off; <<0,0,0>> stops EWKB at the
                # first collection and lets WKB (whose collections have no limit) through to the bottom
                for lim in ([-1, -1, -1], [2, 2, 2], [0, 0, 0]):
                    via = rnd.choice(["", "", "hex", "sql"])
                    # nest = number of nested headers (WKBDecObs!Nested: beyond 32 levels acceptance is not demanded)
                    c = dict(bytes=b, flavor=flavor, nan=False, lim=lim, via=via, multi=True, nest=d,
                             wrap=("GC" if rnd.random() < 0.7 else guess_wrap(b, flavor, rnd)) if via == "sql" else "", hexcodes=[])
                    if len(b) > ref_max:
                        c["noref"] = True
                    out.append(c)
    return out


def honoured_counts(ctx, n):
    """Count fields that do NOT exceed their limit, next to sizeable real data: a polygon whose first ring has 40-400 points
    and whose ring count claims up to the level-2 limit; a multi-geometry whose first member is sizeable and whose member
    count claims up to the level-3 limit; a line whose point count claims the level-1 limit. Nothing here may be rejected
    as too large - but the memory must stay "bounded by the input length plus the configured limits": a reservation of
    count x (size of the first element) is a product. Marked noref (kilobyte-sized inputs): totality, well-formedness,
    stability and the memory bound are demanded; the limits are 1024-4096 per level."""
    rnd = random.Random(ctx.seed * 7919 + 11)
    out = []
    for _ in range(n):
        flavor = rnd.choice(["wkb", "ewkb"])
        xdr = rnd.random() < 0.5
        dim = rnd.choice([0, 0, 1, 3])
        stride = {0: 2, 1: 3, 2: 3, 3: 4}[dim]
        o = [0 if xdr else 1]
        lim = [rnd.choice([1024, 4096]) for _ in range(3)]

        def pts(k):
            b = u32(k, xdr)
            for _ in range(k * stride):
                b += [64, rnd.randrange(256), 0, 0, 0, 0, 0, 0] if xdr else [0, 0, 0, 0, 0, 0, rnd.randrange(256), 64]
            return b
        big = rnd.choice([40, 100, 400])
        kind = rnd.choice(["rings", "rings", "members", "points"])
        if kind == "rings":                       # POLYGON: ring count forged, first ring real, then the input ends (or one more ring)
            b = o + type_word(3, dim, False, flavor, xdr) + u32(rnd.choice([lim[1], lim[1] - 1, lim[1] // 2]), xdr) + pts(big)
            if rnd.random() < 0.5:
                b += pts(4)
        elif kind == "members":                   # MULTIPOLYGON: member count forged, first member a real polygon with one big ring
            b = o + type_word(6, dim, False, flavor, xdr) + u32(rnd.choice([lim[2], lim[2] // 2]), xdr)
            b += o + type_word(3, dim, False, flavor, xdr) + u32(1, xdr) + pts(big)
        else:                                     # LINESTRING: point count forged to the limit, 3 real points
            b = o + type_word(2, dim, False, flavor, xdr) + u32(lim[0], xdr) + pts(3)[4:]
        via = rnd.choice(["", "", "hex", "sql"])
        out.append(dict(bytes=b, flavor=flavor, nan=False, lim=lim, via=via, noref=True, multi=True,
                        wrap=guess_wrap(b, flavor, rnd) if via == "sql" else "", hexcodes=[]))
    return out


def many_members(ctx, n):
    """Long HONEST inputs: a multi-geometry (or a polygon, or a collection) with 500-1500 small real members and every
    count far below its limit (4096 per level). Nothing is forged, nothing may be refused - and the memory stays "bounded by
    the input length plus the configured limits": a decoder that copies everything accumulated so far for every member
    allocates a multiple of members x input. Marked noref (tens of kilobytes)."""
    rnd = random.Random(ctx.seed * 104729 + 5)
    out = []
    kinds = ["mls", "mpt", "mpg", "rings", "gc", "longline", "longring"]
    for i in range(n):
        flavor = rnd.choice(["wkb", "ewkb"])
        xdr = rnd.random() < 0.5
        dim = rnd.choice([0, 0, 1, 3])
        stride = {0: 2, 1: 3, 2: 3, 3: 4}[dim]
        o = [0 if xdr else 1]
        kind = kinds[i % len(kinds)]
        # (the decoded geometry stays below the 8192 ordinates at which the driver records a placeholder instead of the tree)
        per = dict(mls=3, mpt=1, mpg=8, rings=8, gc=2, longline=1, longring=1)[kind] * stride
        m = min(rnd.choice([500, 1000, 1500]), 7000 // per)

        def pts(k, count=True):
            b = u32(k, xdr) if count else []
            for _ in range(k * stride):
                b += [64, rnd.randrange(256), 0, 0, 0, 0, 0, 0] if xdr else [0, 0, 0, 0, 0, 0, rnd.randrange(256), 64]
            return b

        def ring():
            first = pts(1, False)
            return u32(4, xdr) + first + pts(2, False) + first
        if kind in ("longline", "longring"):
            # ONE coordinate array of several hundred positions (beyond any fixed-size chunk an encoder or decoder may work
            # in), every ordinate different from the others: the canonical re-encoding must give the same tree again
            npts = rnd.choice([257, 300, 513, 700, 1025]) if stride == 2 else rnd.choice([171, 257, 400])
            body = u32(npts, xdr)
            first = []
            for k in range(npts * stride):
                v = [64, (k >> 8) & 255, k & 255, rnd.randrange(256), 0, 0, 0, 0]
                if kind == "longring" and k >= (npts - 1) * stride:
                    v = first[k - (npts - 1) * stride]
                elif k < stride:
                    first.append(v)
                body += v if xdr else v[::-1]
            if kind == "longline":
                b = o + type_word(2, dim, False, flavor, xdr) + body
            else:
                b = o + type_word(3, dim, False, flavor, xdr) + u32(1, xdr) + body
        elif kind == "mls":
            b = o + type_word(5, dim, False, flavor, xdr) + u32(m, xdr)
            for _ in range(m):
                b += o + type_word(2, dim, False, flavor, xdr) + pts(rnd.choice([2, 2, 3]))
        elif kind == "mpt":
            b = o + type_word(4, dim, False, flavor, xdr) + u32(m, xdr)
            for _ in range(m):
                b += o + type_word(1, dim, False, flavor, xdr) + pts(1, False)
        elif kind == "mpg":
            m //= 2
            b = o + type_word(6, dim, False, flavor, xdr) + u32(m, xdr)
            for _ in range(m):
                b += o + type_word(3, dim, False, flavor, xdr) + u32(1, xdr) + ring()
        elif kind == "rings":
            m //= 2
            b = o + type_word(3, dim, False, flavor, xdr) + u32(m, xdr)
            for _ in range(m):
                b += ring()
        else:
            b = o + type_word(7, dim if flavor == "wkb" else 0, False, flavor, xdr) + u32(m, xdr)
            for j in range(m):
                if j % 2:
                    b += o + type_word(1, dim, False, flavor, xdr) + pts(1, False)
                else:
                    b += o + type_word(2, dim, False, flavor, xdr) + pts(2)
        out.append(dict(bytes=b, flavor=flavor, nan=False, lim=[4096, 4096, 4096], via=rnd.choice(["", "", "hex"]), noref=True,
                        multi=True, wrap="", hexcodes=[]))
    return out


def domain_pass(ctx, cands):
    """TLC (WKBDecObs!NextDom) evaluates the reference decoder with all limits off on every candidate and reports the
    largest count field it meets: the property's domain with a limit disabled is 'counts backed by actual input'."""
    mx = [None] * len(cands)
    size = max(200, (len(cands) + vlib.NCPU - 1) // vlib.NCPU)
    parts = [(o, cands[o:o + size]) for o in range(0, len(cands), size)]

    def one(part):
        off, cs = part
        f = tempfile.NamedTemporaryFile("w", suffix=".ndjson", dir=ctx.scratch, delete=False)
        for c in cs:
            f.write(json.dumps(dict(bytes=c["bytes"], flavor=c["flavor"], nan=c["nan"], via="hexstr" if "hexcodes" in c else "",
                                    hexcodes=c.get("hexcodes", [])), separators=(",", ":")) + "\n")
        f.close()

        def on(tag, obj):
            if tag == "DOM":
                mx[off + obj["i"] - 1] = obj["mx"]
        vlib.tlc(ctx, "WKBDecObs", "WKBDom.cfg", env=dict(TRACEFILE=f.name), on=on, name="WKBDecObs/domain", heap="2g")
        os.unlink(f.name)
    with ThreadPoolExecutor(max_workers=min(vlib.NCPU, len(parts))) as ex:
        list(ex.map(one, parts))
    if any(m is None for m in mx):
        raise vlib.Infra("domain pass did not report every candidate")
    return mx


def seeded(ctx, bases):
    """every seeded case carries multi=True: an input with SEVERAL defects, on which the ORDER in which a decoder meets them is
    its own affair (WKBDecObs!Multi: "limit-not-reported" is demanded of the single-defect inputs of WKBMutModel only)."""
    n = 4000 if ctx.quick else 60000
    cands = candidates(ctx, bases, n)
    mx = domain_pass(ctx, cands)
    rnd = random.Random(ctx.seed * 1000003 + 6)
    out, off = [], 0
    for c, m in zip(cands, mx):
        lims = [rnd.choice(LIMS_ON)]
        if m <= 64:                          # counts backed by input: also explored with limits disabled
            lims.append(rnd.choice(LIMS_OFF))
            off += 1
        for lim in lims:
            if "hexcodes" in c:
                out.append(dict(bytes=[], flavor=c["flavor"], nan=c["nan"], lim=lim, via="hexstr", wrap="", hexcodes=c["hexcodes"],
                                multi=True))
                continue
            via = rnd.choice(["", "", "hex", "sql", "sql"])
            if via == "sql" and c["nan"]:
                via = ""
            out.append(dict(bytes=c["bytes"], flavor=c["flavor"], nan=c["nan"], lim=lim, via=via, multi=True,
                            wrap=guess_wrap(c["bytes"], c["flavor"], rnd) if via == "sql" else "", hexcodes=[]))
    deep = nests(ctx, [50, 150, 500, 5000]) if ctx.quick else nests(ctx, [50, 150, 400, 1000, 2000, 5000, 8000], ref_max=13500)
    ctx.coverage_extra["seeded"] = dict(candidates=len(cands), with_a_limit_disabled=off, cases=len(out), nested=len(deep),
                                        seed=ctx.seed)
    return out + deep


def run(ctx, verdict):
    cfg = "WKBMut_quick.cfg" if ctx.quick else "WKBMut_thorough.cfg"
    out, r = vlib.model_a(ctx, "WKBMutModel", cfg, ["CASE"], workers=16)
    cases = out["CASE"]
    outb, rb = vlib.model_a(ctx, "WKBMutModel", "WKBMut_base.cfg", ["BASE"], workers=1)
    bases = sorted(outb["BASE"], key=vlib.digest)
    if not bases:
        raise vlib.Infra("no valid encodings from WKBMut_base.cfg")
    many = many_members(ctx, 14 if ctx.quick else 140)
    ctx.coverage_extra["many_member_inputs"] = dict(count=len(many), bytes_max=max(len(c["bytes"]) for c in many))
    extra = seeded(ctx, bases) + honoured_counts(ctx, 60 if ctx.quick else 2000) + many
    cases = sorted(cases + extra, key=vlib.digest)
    vlib.note_cases(ctx, cases, nontrivial=lambda c: len(c["bytes"]) > 5 or len(c["hexcodes"]) > 10)
    ctx.coverage_extra["model_a"] = [dict(cfg=cfg, cases=len(out["CASE"]), states=r["distinct"]),
                                     dict(cfg="WKBMut_base.cfg", cases=len(bases), states=rb["distinct"])]
    pipe(ctx, verdict, cases)
    ctx.assumptions += ["seeded inputs (VERIF_SEED): random bytes, splices / insertions of two valid encodings, 2-6 byte flips, forged "
                        "32-bit words anywhere, nested collection headers to depth %s, arbitrary strings for the hex wrappers; "
                        "a limit is disabled only for inputs whose count fields (reference decoder, limits off) are <= 64"
                        % ("5000 (reference decoder up to 150)" if ctx.quick else "8000 (reference decoder up to 1000)"),
                        "seeded inputs carry several defects: that an over-limit count is answered with geometry-too-large and no other "
                        "error is demanded of the single-mutation inputs of WKBMutModel only (never accepted: demanded of all inputs); "
                        "inputs nested deeper than 32 collection levels may be refused; stability and equality with the reference "
                        "decoder are judged without the SRIDs of members"]
