"""C04: binary decoders are total, allocation-bounded and canonical on arbitrary bytes."""
import random
import vlib

MEM = 6 << 30      # address-space limit of each decode process: a forged count must not take the machine down


def pipe(ctx, verdict, cases, name="wkbdec"):
    obs = vlib.run_driver(ctx, "wkbdec", cases, mem=MEM, per_call_ms=4000)
    viols = vlib.model_b(ctx, "WKBDecObs", "Obs.cfg", obs, name="WKBDecObs")
    for idx, v in viols:
        o = obs[idx]
        verdict.add(name, v["sig"], cases[idx], dict(alloc=o.get("alloc"), err=o.get("err"), ev=o.get("ev"), msg=o.get("msg", "")[:200]))
    return obs


PIPES = {"wkbdec": pipe}


def run(ctx, verdict):
    cfg = "WKBMut_quick.cfg" if ctx.quick else "WKBMut_thorough.cfg"
    out, r = vlib.model_a(ctx, "WKBMutModel", cfg, ["CASE"], workers=16)
    cases = sorted(out["CASE"], key=vlib.digest)
    vlib.note_cases(ctx, cases, nontrivial=lambda c: len(c["bytes"]) > 5)
    ctx.coverage_extra["model_a"] = [dict(cfg=cfg, cases=len(cases), states=r["distinct"])]
    pipe(ctx, verdict, cases)
