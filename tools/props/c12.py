"""C12: segment intersection is classified exactly and located accurately."""
import vlib
from props import exact_common as ec


def float_pairs(seed, n):
    """Pairs of segments with float64 ordinates (as exact 'm:e' strings) in the region where a floating-point evaluation of
    the orientation tests is unreliable: an endpoint computed ALONG the other segment (so it lies within an ulp of it, on
    one side or exactly on it), both endpoints computed along it (nearly collinear), one-decimal ordinates that are
    collinear in decimal arithmetic, a shared endpoint, and the same at magnitudes 2^-100 / 2^100."""
    import random
    r = random.Random(seed * 11 + 1)
    out = []
    fams = ["near-touch", "near-collinear", "decimal", "shared-end", "near-touch-scaled"]

    def along(a, b, t):
        return [a[0] + t * (b[0] - a[0]), a[1] + t * (b[1] - a[1])]
    while len(out) < n:
        fam = fams[len(out) % len(fams)]
        a = [1 + r.random(), 1 + r.random()]
        b = [1 + r.random(), 1 + r.random()]
        if fam == "near-touch" or fam == "near-touch-scaled":
            c = along(a, b, r.choice([r.random(), 0.5, 0.25, 1.0 / 3]))
            e = [r.random() * 3, r.random() * 3]
        elif fam == "near-collinear":
            c, e = along(a, b, r.uniform(-0.5, 1.5)), along(a, b, r.uniform(-0.5, 1.5))
        elif fam == "decimal":
            k = [r.randrange(0, 40) for _ in range(4)]
            dx, dy = r.randrange(1, 6), r.randrange(-5, 6)
            x0, y0 = r.randrange(0, 30), r.randrange(0, 30)
            a, b = [(x0 + k[0] * dx) / 10.0, (y0 + k[0] * dy) / 10.0], [(x0 + k[1] * dx) / 10.0, (y0 + k[1] * dy) / 10.0]
            c, e = [(x0 + k[2] * dx) / 10.0, (y0 + k[2] * dy) / 10.0], [(x0 + k[3] * dx) / 10.0, (y0 + k[3] * dy) / 10.0]
            if r.randrange(2):
                e = [r.randrange(0, 60) / 10.0, r.randrange(0, 60) / 10.0]
        else:
            c, e = b[:], [r.random() * 3, r.random() * 3]
        if fam.endswith("scaled"):
            sc = 2.0 ** r.choice([-100, 100])
            a, b, c, e = [[v * sc for v in p] for p in (a, b, c, e)]
        if a == b or c == e:
            continue
        out.append(dict(fam="float/" + fam, nr=False, seg=[[ec.to_exact(v) for v in p] for p in (a, b, c, e)]))
    return out


def float_pool(ctx, n_pool, n_keep):
    """A large pool of float pairs (near-touch and near-collinear, all four quadrants of signs so that the products inside
    the orientation filter take both signs) is run through the real code; an apparent class is computed in the orchestrator
    with exact fractions, and the pairs where any argument order reports another class are handed to the model checker
    (prioritisation only - SegSegOK on exact integers decides)."""
    from fractions import Fraction as F
    pool = float_pairs(ctx.seed + 31, n_pool)
    import random
    r = random.Random(ctx.seed * 3 + 8)
    for c in pool:                                   # move half of them to other quadrants / mirror them
        sx, sy = r.choice([1, 1, -1]), r.choice([1, 1, -1])
        ox, oy = r.choice([0, 0, -2.5, -1000.0]), r.choice([0, 0, -2.5, 1000.0])
        seg = [[ec.parse_exact(v) for v in p] for p in c["seg"]]
        c["seg"] = [[ec.to_exact(float(p[0]) * sx + ox), ec.to_exact(float(p[1]) * sy + oy)] for p in seg]
    obs = vlib.run_driver(ctx, "segseglist", [dict(segs=[c["seg"]]) for c in pool], for_tlc=False)

    def orient(a, b, c):
        d = (b[0] - a[0]) * (c[1] - a[1]) - (b[1] - a[1]) * (c[0] - a[0])
        return (d > 0) - (d < 0)

    def inbox(p, a, b):
        return min(a[0], b[0]) <= p[0] <= max(a[0], b[0]) and min(a[1], b[1]) <= p[1] <= max(a[1], b[1])

    def meets(a, b, c, d):
        o1, o2, o3, o4 = orient(a, b, c), orient(a, b, d), orient(c, d, a), orient(c, d, b)
        if o1 * o2 < 0 and o3 * o4 < 0:
            return True
        return (o1 == 0 and inbox(c, a, b)) or (o2 == 0 and inbox(d, a, b)) or (o3 == 0 and inbox(a, c, d)) or (o4 == 0 and inbox(b, c, d))
    sus = []
    for c, o in zip(pool, obs):
        rows = o.get("rows", [])
        if not rows:
            sus.append(c)
            continue
        P = [[F(ec.parse_exact(v)) for v in p] for p in rows[0]["x"]]
        want = meets(*P)
        if any((row.get("t") != "none") != want for row in rows):
            sus.append(c)
    ctx.coverage_extra["float_pool"] = dict(pool=len(pool), apparent_class_mismatches=len(sus), kept=min(n_keep, len(sus)))
    return [dict(c, fam=c["fam"] + "/screened") for c in sus[:n_keep]]


def big_pipe(ctx, verdict, cases, name="segsegx"):
    """Large-grid tier: the driver runs each pair in all 8 argument symmetries; Apalache decides every row with
    ExactGeom!SegSegOK on exact integers (class, exact endpoints, crossing point within the forward-error bound)."""
    drv = [dict(segs=[c["seg"]]) for c in cases]
    obs = list(vlib.run_driver(ctx, "segseglist", drv, for_tlc=False))
    exprs, sigs = [], []
    sym_exprs, sym_cases = [], []
    for c, o in zip(cases, obs):
        parts = []
        if o["ev"] != "ok":
            parts = ["FALSE"]
        rows = o.get("rows", [])
        if ctx.quick:                  # 5 of the 8 symmetries (identity, first / second reversed, swapped, swapped + both reversed)
            rows = [rows[j] for j in (0, 1, 2, 4, 7)] if len(rows) == 8 else rows
        # "the answer does not depend on the order of the two segments or the direction of either": the class and the SET of
        # reported points are the same in every symmetry (integer-grid families; points are named by small integers, one per
        # distinct exact value, the classes by 0..2 - the equalities are evaluated by the model checker like everything else)
        if not c["fam"].startswith("float/") and len(rows) > 1 and all(r["ev"] == "ok" for r in rows):
            ids = {}
            def pid(p, ids=ids):
                return ids.setdefault(tuple(v["x"] for v in p), len(ids) + 1)
            ans = ["<<%d, {%s}>>" % (("none", "point", "overlap").index(r["t"]) if r["t"] in ("none", "point", "overlap") else 9,
                                      ", ".join(str(pid(p)) for p in r["p"])) for r in rows]
            sym_exprs.append(" /\\ ".join("%s = %s" % (ans[0], a) for a in ans[1:]))
            sym_cases.append(c)
        for row in rows:
            if row["ev"] != "ok" or any(v["t"] not in ("num", "big") for p in row["p"] for v in p):   # "big": finite, beyond the fixed-point field
                parts.append("FALSE")
                continue
            sin = [v for p in row["x"] for v in p]
            sout = [v["x"] for p in row["p"] for v in p]
            i_in, i_out, k = ec.obs_ints(sin, sout)
            pts = [ec.tla_pt(i_in[2 * j:2 * j + 2]) for j in range(4)]
            ps = "<<" + ", ".join(ec.tla_pt(i_out[2 * j:2 * j + 2]) for j in range(len(i_out) // 2)) + ">>"
            sc = max(1, max(abs(v) for v in i_in))
            if c["fam"].startswith("float/"):           # float tier: classification, common endpoint, overlap ends - no accuracy claim
                parts.append('SegSegClassOK(%s, %s, %s, %s, "%s", %s)' % (pts[0], pts[1], pts[2], pts[3], row["t"], ps))
            else:
                parts.append('SegSegOK(%s, %s, %s, %s, "%s", %s, %d)' % (pts[0], pts[1], pts[2], pts[3], row["t"], ps, sc))
            # Result.HasIntersection goes with the reported class
            if row.get("has") != (row["t"] != "none"):
                parts.append("FALSE")
            nr_ok = row["nr"] == (row["t"] != "none")
            if not nr_ok and c.get("nr", True):      # (not judged in the float tier: "on exactly representable inputs")
                # the non-robust strategy must agree on "intersect at all" for exactly representable input:
                # stated against the spec's class so that a wrong robust class cannot mask it
                parts.append('((SegSegClass(%s, %s, %s, %s) # "none") = %s)' % (pts[0], pts[1], pts[2], pts[3],
                                                                                "TRUE" if row["nr"] else "FALSE"))
        exprs.append(" /\\ ".join(parts) if parts else "TRUE")
        sigs.append("segseg|big|" + c["fam"])
    bad = ec.apalache_obs(ctx, verdict, "SegSegX", exprs, cases, sigs, name, per_module=12)
    ec.apalache_obs(ctx, verdict, "SegSegSym", sym_exprs, sym_cases,
                    ["segseg|big|answer-depends-on-order-or-direction|" + c["fam"] for c in sym_cases], name, per_module=400)
    ctx.coverage_extra["pairs_compared_across_symmetries"] = ctx.coverage_extra.get("pairs_compared_across_symmetries", 0) + len(sym_exprs)
    return bad


def crossing_error(seg, row):
    """Prioritisation only (never a verdict): how far a reported single point is from the crossing of the two
    lines, relative to the segment size, computed with exact fractions. Rows that look worst are sent to the
    model checker first; the verdict is Apalache's evaluation of SegSegOK."""
    from fractions import Fraction as F
    if row.get("t") != "point" or len(row.get("p", [])) != 1 or any(v["t"] != "num" for v in row["p"][0]):
        return 0.0
    a, b, c, d = [[ec.parse_exact(v) for v in p] for p in row["x"]]
    den = (b[0] - a[0]) * (d[1] - c[1]) - (b[1] - a[1]) * (d[0] - c[0])
    if den == 0:
        return 0.0
    rn = (a[1] - c[1]) * (d[0] - c[0]) - (a[0] - c[0]) * (d[1] - c[1])
    x = a[0] + rn * (b[0] - a[0]) / den
    y = a[1] + rn * (b[1] - a[1]) / den
    gx, gy = [ec.parse_exact(v["x"]) for v in row["p"][0]]
    size = max(abs(v) for p in (a, b, c, d) for v in p) or 1
    return float(max(abs(gx - x), abs(gy - y)) / size)


def screened(ctx, n_pool, n_keep):
    """A large pool of crossing pairs is run through the real code; the n_keep with the largest apparent error
    are kept for the model checker (suspicious-first sampling)."""
    pool = [c for c in ec.seg_pairs(ctx.seed + 77, n_pool, grids=(1 << 16, 1 << 20)) if c["fam"] in
            ("axis-cross", "near-parallel", "random", "tee") and c["seg"][2] != c["seg"][3]]
    obs = list(vlib.run_driver(ctx, "segseglist", [dict(segs=[c["seg"]]) for c in pool], for_tlc=False))
    scored, asym = [], []
    for c, o in zip(pool, obs):
        rows = o.get("rows", [])
        e = max([crossing_error(c["seg"], row) for row in rows] or [0.0])
        scored.append((e, c))
        # pairs whose eight argument symmetries do not report the same class and points go to the model checker first as well
        if len({(r.get("t"), tuple(sorted(tuple(v["x"] for v in p) for p in r.get("p", [])))) for r in rows}) > 1:
            asym.append(c)
    scored.sort(key=lambda t: -t[0])
    ctx.coverage_extra["screened_pool"] = dict(pool=len(pool), kept=n_keep, worst_apparent_relative_error=scored[0][0] if scored else 0,
                                               pairs_with_differing_symmetries=len(asym))
    return ([dict(c, fam=c["fam"] + "/screened") for _, c in scored[:n_keep]]
            + [dict(c, fam=c["fam"] + "/screened-asymmetric") for c in asym[:max(4, n_keep // 4)]])


def tee_pool(ctx, n, n_keep):
    """T junctions on the largest grids (an endpoint of the second segment lies strictly inside the first one): the point
    the real code reports is compared with that endpoint in the orchestrator; pairs where any of the 8 argument orders
    reports something else are handed to the model checker, worst first. Prioritisation only: SegSegOK (which allows a
    computed point within 2^-30 x scale of the endpoint, and nothing further away) is evaluated by Apalache."""
    import random
    r = random.Random(ctx.seed * 13 + 5)
    pool = []
    while len(pool) < n:
        G = r.choice([1 << 19, 1 << 20])
        c = ec.rnd_pt(r, G // 2, 2)
        u = ec.rnd_pt(r, r.choice([1 << 4, 1 << 8, 1 << 11]), 2)
        if u == [0, 0]:
            continue
        k1, k2 = r.randrange(1, 1 << r.choice([2, 5, 8])), r.randrange(1, 1 << r.choice([2, 5, 8]))
        a = [x - k1 * v for x, v in zip(c, u)]
        b = [x + k2 * v for x, v in zip(c, u)]
        e = ec.rnd_pt(r, G, 2)
        if e == c or max(abs(v) for v in a + b) > 2 * G:
            continue
        pool.append(dict(fam="tee/2^20", seg=[a, b, c, e]))
    obs = vlib.run_driver(ctx, "segseglist", [dict(segs=[c["seg"]]) for c in pool], for_tlc=False)
    scored, differing = [], 0
    for c, o in zip(pool, obs):
        worst = 0.0
        for row in o.get("rows", []):
            if row.get("t") != "point" or len(row.get("p", [])) != 1 or any(v["t"] != "num" for v in row["p"][0]):
                worst = max(worst, 1.0)          # not even a single point: let the model checker look at it
                continue
            gx, gy = [ec.parse_exact(v["x"]) for v in row["p"][0]]
            tx, ty = c["seg"][2]
            if gx != tx or gy != ty:
                worst = max(worst, float(max(abs(gx - tx), abs(gy - ty))))
        if worst > 0:
            differing += 1
            scored.append((worst, c))
    scored.sort(key=lambda t: -t[0])
    ctx.coverage_extra["tee_pool"] = dict(pool=len(pool), pairs_with_a_row_off_the_endpoint=differing, kept=min(n_keep, len(scored)),
                                          worst_distance=scored[0][0] if scored else 0)
    return [dict(c, fam="tee/2^20/screened") for _, c in scored[:n_keep]]


PIPES = {"segseg": ec.pipe("segseg"), "segsegx": big_pipe}


def run(ctx, verdict):
    # direction / order independence of OnSeg, Collinear4 and SegsMeet for ALL integer points (TLAPS)
    vlib.tlapm(ctx, "ExactGeomProofs", ["ExactGeom"])
    ec.family(ctx, verdict, "segseg")
    cases = [c for c in ec.seg_pairs(ctx.seed, 132 if ctx.quick else 900) if c["seg"][2] != c["seg"][3]]
    cases += screened(ctx, 6000 if ctx.quick else 60000, 24 if ctx.quick else 150)
    cases += tee_pool(ctx, 40000 if ctx.quick else 400000, 12 if ctx.quick else 60)
    cases += float_pairs(ctx.seed, 40 if ctx.quick else 600)
    cases += float_pool(ctx, 6000 if ctx.quick else 120000, 12 if ctx.quick else 60)
    vlib.note_cases(ctx, cases)
    big_pipe(ctx, verdict, cases)
    ctx.coverage_extra["big_tier"] = dict(pairs=len(cases), rows=8 * len(cases), grids=[1 << 10, 1 << 16, 1 << 20],
                                          checker="Apalache on ExactGeom!SegSegOK")
    ctx.assumptions += ["every ordered pair of non-degenerate segments of the N x N grid (all 8 argument symmetries "
                        "are members of the enumeration); crossing points compared in 2^-10 fixed point in the TLC tier",
                        "large-grid tier: seeded biased pairs (touching, T, collinear overlap/touch/apart, parallel, "
                        "axis-parallel crossings, near-parallel) on grids up to 2^20 and float64 pairs within an ulp of touching / "
                        "collinear (class and points only; the non-robust clause is judged on integer input), crossing point within "
                        "2^-30*scale + 2^-45*l1*l2*(l1+l2)/|den| of the exact rational point"]
