"""C12: segment intersection is classified exactly and located accurately."""
import vlib
from props import exact_common as ec

PIPES = {"segseg": ec.pipe("segseg")}


def run(ctx, verdict):
    ec.family(ctx, verdict, "segseg")
    ctx.assumptions += ["every ordered pair of non-degenerate segments of the N x N grid (all 8 argument symmetries "
                        "are members of the enumeration); crossing points compared in 2^-10 fixed point (gross-error "
                        "tier), shared endpoints and overlap endpoints compared exactly"]
