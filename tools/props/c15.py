"""C15: 2D and 3D distance functions return the true minimum distance."""
import math
import random
from fractions import Fraction as F
import vlib
from props import exact_common as ec

FN = {"x2": ["xy.DistanceFromLineToLine", "xy.DistanceFromLineToLine(swapped)", "xy.DistanceFromPointToLine(c;ab)",
             "xy.DistanceFromPointToLine(a;cd)", "xy.PerpendicularDistanceFromPointToLine(c;ab)",
             "xy.DistanceFromPointToLineString(c;a-b-d)", "xy.DistanceFromPointToLineString(c;d-b-a)"],
      "x3": ["xyz.DistanceLineToLine", "xyz.DistanceLineToLine(swapped)", "xyz.DistancePointToLine(c;ab)",
             "xyz.DistancePointToLine(a;cd)", "xyz.Distance(a,c)", "xyz.Distance(d,b)"]}
# candidate SETS (no CHOOSE: see the comment at SqDistSegSeg2Set in ExactGeom.tla)
SPEC = {"x2": ["SqDistSegSeg2Set(%(a)s, %(b)s, %(c)s, %(d)s)", "SqDistSegSeg2Set(%(c)s, %(d)s, %(a)s, %(b)s)",
               "{SqDistPtSeg2(%(c)s, %(a)s, %(b)s)}", "{SqDistPtSeg2(%(a)s, %(c)s, %(d)s)}",
               "{SqDistPtLine2(%(c)s, %(a)s, %(b)s)}",
               "{SqDistPtSeg2(%(c)s, %(a)s, %(b)s), SqDistPtSeg2(%(c)s, %(b)s, %(d)s)}",
               "{SqDistPtSeg2(%(c)s, %(a)s, %(b)s), SqDistPtSeg2(%(c)s, %(b)s, %(d)s)}"],
        "x3": ["SqDistSegSeg3Set(%(a)s, %(b)s, %(c)s, %(d)s)", "SqDistSegSeg3Set(%(c)s, %(d)s, %(a)s, %(b)s)",
               "{SqDistPtSeg3(%(c)s, %(a)s, %(b)s)}", "{SqDistPtSeg3(%(a)s, %(c)s, %(d)s)}",
               "{<<Dot3(Sub3(%(c)s, %(a)s), Sub3(%(c)s, %(a)s)), 1>>}", "{<<Dot3(Sub3(%(d)s, %(b)s), Sub3(%(d)s, %(b)s)), 1>>}"]}


def big_pipe(ctx, verdict, cases, name="distx"):
    """Large-grid tier: Apalache decides |got - sqrt(num/den)| <= 1e-9 * scale on exact integers."""
    drv = [dict(op=c["op"], segs=[c["seg"]]) for c in cases]
    obs = list(vlib.run_driver(ctx, "distx", drv, for_tlc=False))
    exprs, sigs = [], []
    for c, o in zip(cases, obs):
        parts, why = [], "wrong-value"
        rows = o.get("rows", [])
        if o["ev"] != "ok" or len(rows) != 1:
            parts = ["FALSE"]
            why = o["ev"]
        else:
            row = rows[0]
            sin = [v for p in row["x"] for v in p]
            bad = [r["t"] for r in row["r"] if r["t"] not in ("num", "big")]
            if bad:
                parts, why = ["FALSE"], bad[0]
            else:
                i_in, i_out, k = ec.obs_ints(sin, [r["x"] for r in row["r"]])
                dim = len(row["x"][0])
                P = dict(zip("abcd", [ec.tla_pt(i_in[dim * j:dim * j + dim]) for j in range(4)]))
                sc = max(1, max(abs(v) for v in i_in))
                for j, g in enumerate(i_out):
                    parts.append("DistExactOKSet(%s, %d, 1000000000, %s)" % (ec.tla_int(g), sc, SPEC[c["op"]][j] % P))
        exprs.append(" /\\ ".join(parts))
        sigs.append("dist|big|%s|%s|%s" % (c["op"], c["fam"].split("/")[0], why))
    return ec.apalache_obs(ctx, verdict, "DistX", exprs, cases, sigs, name, per_module=8 if ctx.quick else 16)


def apparent_error(c, o):
    """Prioritisation only (never a verdict): relative deviation of the recorded results from the exact distance,
    computed with fractions and a float sqrt; the worst-looking cases go to the model checker first."""
    rows = o.get("rows", [])
    if o["ev"] != "ok" or len(rows) != 1:
        return 1e9
    row = rows[0]
    if any(r["t"] not in ("num", "big") for r in row["r"]):
        return 1e9
    P = [[ec.parse_exact(v) for v in p] for p in row["x"]]

    def dot(u, v):
        return sum(x * y for x, y in zip(u, v))

    def sub(u, v):
        return [x - y for x, y in zip(u, v)]

    def ptseg(p, a, b):
        ab, ap = sub(b, a), sub(p, a)
        l2, t = dot(ab, ab), dot(ap, ab)
        if l2 == 0 or t <= 0:
            return dot(ap, ap)
        if t >= l2:
            return dot(sub(p, b), sub(p, b))
        return dot(ap, ap) - t * t / l2
    a, b, cc, d = P
    want = [None, None, ptseg(cc, a, b), ptseg(a, cc, d)]
    size = float(max(abs(v) for p in P for v in p) or 1)
    worst = 0.0
    for j in (2, 3):
        got = float(ec.parse_exact(row["r"][j]["x"]))
        worst = max(worst, abs(got - math.sqrt(float(want[j]))) / size)
    if len(a) == 2 and len(row["r"]) > 4 and a != b:        # the perpendicular distance to the LINE through a and b
        ab, ac = sub(b, a), sub(cc, a)
        cr = ab[0] * ac[1] - ab[1] * ac[0]
        got = float(ec.parse_exact(row["r"][4]["x"]))
        worst = max(worst, abs(got - math.sqrt(float(cr * cr / dot(ab, ab)))) / size)
    g0, g1 = float(ec.parse_exact(row["r"][0]["x"])), float(ec.parse_exact(row["r"][1]["x"]))
    worst = max(worst, abs(g0 - g1) / size)                      # asymmetry of the segment-segment result
    lo = min(math.sqrt(float(ptseg(a, cc, d))), math.sqrt(float(ptseg(b, cc, d))), math.sqrt(float(ptseg(cc, a, b))),
             math.sqrt(float(ptseg(d, a, b))))
    worst = max(worst, (g0 - lo) / size)                          # larger than the best endpoint distance
    return worst


def far_on_line(seed, n, dim):
    """c exactly on (or one step off) the LINE through a and b, far away from a: |ab| of a few hundred to a few thousand,
    c = a + t (b - a) with t up to the edge of the 2^16 / 2^20 grid - the class on which a formula that subtracts two
    squared lengths loses everything (the distance is 0 or tiny, the operands are 2^40)."""
    r = random.Random(seed * 97 + dim)
    out = []
    while len(out) < n:
        G = r.choice([1 << 14, 1 << 16, 1 << 20])
        a = [r.randrange(-G, G) for _ in range(dim)]
        u = [r.randrange(-3000, 3001) for _ in range(dim)]
        if not any(u):
            continue
        b = [x + y for x, y in zip(a, u)]
        tmax = min((G - abs(x)) // max(1, abs(y)) if y else 1 << 30 for x, y in zip(a, u))
        if tmax < 4:
            continue
        t = r.choice([-1, 1]) * r.randrange(max(2, tmax // 2), tmax + 1)
        c = [x + t * y for x, y in zip(a, u)]
        if r.random() < 0.4:
            c[r.randrange(dim)] += r.choice([-1, 1])
        d = [x + r.randrange(-50, 51) for x in c]
        if d == c:
            d[0] += 1
        if max(abs(v) for p in (a, b, c, d) for v in p) > (1 << 20) + 4000:
            continue
        out.append(dict(seg=[a, b, c, d], fam="far-on-line"))
    return out


def screened(ctx, op, n_pool, n_keep):
    dim = 2 if op == "x2" else 3
    pool = [dict(c, op=op) for c in ec.seg_pairs(ctx.seed + 5 + dim, n_pool, grids=(1 << 12, 1 << 16, 1 << 20), dim=dim)]
    pool += [dict(c, op=op) for c in far_on_line(ctx.seed, n_pool // 2, dim)]
    obs = list(vlib.run_driver(ctx, "distx", [dict(op=op, segs=[c["seg"]]) for c in pool], for_tlc=False))
    scored = sorted(((apparent_error(c, o), i) for i, (c, o) in enumerate(zip(pool, obs))), key=lambda t: -t[0])
    ctx.coverage_extra.setdefault("screened_pool", []).append(
        dict(op=op, pool=len(pool), kept=n_keep, worst_apparent_relative_error=scored[0][0] if scored else 0))
    return [dict(pool[i], fam=pool[i]["fam"] + "/screened") for _, i in scored[:n_keep]]


PIPES = {"dist2": ec.pipe("dist2"), "dist3": ec.pipe("dist3"), "distx": big_pipe}


def run(ctx, verdict):
    ec.family(ctx, verdict, "dist2")
    ec.family(ctx, verdict, "dist3")
    if ctx.quick:
        # the 3x3x3 lattice: every (a,b) against a seeded sample of (c,d)
        r = random.Random(ctx.seed)
        cases = []
        for i in range(27):
            for j in range(27):
                a = [i // 9, (i // 3) % 3, i % 3]
                b = [j // 9, (j // 3) % 3, j % 3]
                cases.append(dict(op="d3", a=a, b=b, n=3, cd=[[r.randrange(27), r.randrange(27)] for _ in range(24)]))
        ec.pipe("dist3")(ctx, verdict, cases)
    n = 36 if ctx.quick else 300
    big = []
    for op, dim in (("x2", 2), ("x3", 3)):
        big += [dict(c, op=op) for c in ec.seg_pairs(ctx.seed + dim, n, grids=(1 << 10, 1 << 16, 1 << 20), dim=dim)]
        big += [dict(c, op=op) for c in far_on_line(ctx.seed + 9, 6 if ctx.quick else 60, dim)]
        big += screened(ctx, op, 4000 if ctx.quick else 60000, 12 if ctx.quick else 150)
    vlib.note_cases(ctx, big)
    big_pipe(ctx, verdict, big)
    ctx.coverage_extra["big_tier"] = dict(cases=len(big), checker="Apalache on ExactGeom!SqDist* with tolerance 1e-9*scale")
    ctx.assumptions += ["TLC tier: every configuration of the 3x3 grid (2-D) and of the 2x2x2 / sampled 3x3x3 lattice, "
                        "results in 2^-8 fixed point; large-grid tier: seeded biased configurations (touching, T, collinear, "
                        "parallel, near-parallel, point on / next to a long segment, degenerate) on grids up to 2^20 plus "
                        "suspicious-first screening of a larger pool, tolerance 1e-9 x largest ordinate"]
