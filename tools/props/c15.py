"""C15: 2D and 3D distance functions return the true minimum distance."""
import random
import vlib
from props import exact_common as ec

PIPES = {"dist2": ec.pipe("dist2"), "dist3": ec.pipe("dist3")}


def run(ctx, verdict):
    ec.family(ctx, verdict, "dist2")
    ec.family(ctx, verdict, "dist3")
    if ctx.quick:
        # the 3x3x3 lattice: every (a,b) against a seeded sample of (c,d)
        r = random.Random(ctx.seed)
        cases = []
        for i in range(27):
            for j in range(27):
                a = [i // 9, (i // 3) % 3, i % 3]
                b = [j // 9, (j // 3) % 3, j % 3]
                cases.append(dict(op="d3", a=a, b=b, n=3, cd=[[r.randrange(27), r.randrange(27)] for _ in range(24)]))
        ec.pipe("dist3")(ctx, verdict, cases)
