"""C07: GeoJSON round-trips geometries, features and collections; decoding is total."""
import json
import random
import vlib

UNKNOWN = ["x", "?"]          # the JSON value of the input bytes is not known to the generator: only totality is demanded
GEOM_TYPES = ("Point", "LineString", "Polygon", "MultiPoint", "MultiLineString", "MultiPolygon", "GeometryCollection")


def pipe(ctx, verdict, cases, name="geojson"):
    obs = vlib.run_driver(ctx, "geojson", cases)
    viols = vlib.model_b(ctx, "GeoJSONObs", "Obs.cfg", obs, name="GeoJSONObs")
    for idx, v in viols:
        o = obs[idx]
        verdict.add(name, v["sig"], cases[idx], dict(text=str(o.get("text", ""))[:300], err=str(o.get("err", o.get("backerr", "")))[:200],
                                                     pan=str(o.get("pan", ""))[:200]))
    return obs


PIPES = {"geojson": pipe}


# ---------------------------------------------------------------- rendering tagged JSON trees (specs/GeoJSON.tla) to bytes
def esc(s, r, p):
    out = []
    for ch in s:
        if r is not None and r.random() < p:
            out.append("\\u%04x" % ord(ch))
        else:
            out.append(json.dumps(ch)[1:-1])
    return '"' + "".join(out) + '"'


def spell_int(k, r):
    """another spelling of the same number (RFC 8259 number grammar)"""
    c = r.randrange(9)
    if c == 0:
        return "%d.0" % k
    if c == 1:
        return "%d.000" % k
    if c == 2:
        return "%de0" % k
    if c == 3:
        return "%dE+0" % k
    if c == 4 and k != 0:
        return "%d0e-1" % k
    if c == 5 and k != 0:
        return "%d00E-2" % k
    if c == 6 and k % 10 == 0 and k != 0:
        return "%de1" % (k // 10)
    return str(k)


def render(j, r=None, hook=None, path=()):
    """Text of a tagged tree.  r: random spelling (white space, member order, numbers, string escapes) - the value the
    text denotes stays the same.  hook(path, j, members) may rewrite the list of rendered (key, value) texts of an object."""
    def ws():
        return "" if r is None else r.choice(["", "", "", " ", "\n", "\t ", "  "])
    t = j[0]
    if t == "null":
        return "null"
    if t == "b":
        return "true" if j[1] else "false"
    if t == "n":
        return str(j[1]) if r is None else spell_int(j[1], r)
    if t == "x":
        return j[1]
    if t == "s":
        return esc(j[1], r, 0.15)
    if t == "a":
        return "[" + ws() + ("," + ws()).join(render(e, r, hook, path + (i,)) + ws() for i, e in enumerate(j[1])) + "]"
    if t == "o":
        mem = [(esc(k, r, 0.1), render(v, r, hook, path + (k,))) for k, v in j[1]]
        if r is not None:
            r.shuffle(mem)
        if hook:
            mem = hook(path, j, mem)
        return "{" + ws() + ("," + ws()).join(k + ws() + ":" + ws() + v + ws() for k, v in mem) + "}"
    raise vlib.Infra("bad tagged JSON %r" % (j,))


def nodes(j, path=()):
    yield path, j
    if j[0] == "a":
        for i, e in enumerate(j[1]):
            yield from nodes(e, path + (i,))
    elif j[0] == "o":
        for i, (k, v) in enumerate(j[1]):
            yield from nodes(v, path + (i,))


def replaced(j, path, new):
    if not path:
        return new
    i = path[0]
    if j[0] == "a":
        return ["a", j[1][:i] + [replaced(j[1][i], path[1:], new)] + j[1][i + 1:]]
    return ["o", j[1][:i] + [[j[1][i][0], replaced(j[1][i][1], path[1:], new)]] + j[1][i + 1:]]


def with_member(o, key, val):
    """object with member key set to val (keys stay sorted and unique, as the specification's Obj wants them)"""
    mem = [kv for kv in o[1] if kv[0] != key] + [[key, val]]
    return ["o", sorted(mem, key=lambda kv: kv[0])]


def member(o, key):
    for k, v in o[1]:
        if k == key:
            return v
    return None


def is_geom_obj(j):
    t = member(j, "type") if j[0] == "o" else None
    return t is not None and t[0] == "s" and t[1] in GEOM_TYPES


def is_feature_obj(j):
    t = member(j, "type") if j[0] == "o" else None
    return t is not None and t[0] == "s" and t[1] == "Feature"


PT = ["o", [["coordinates", ["a", [["n", 1], ["n", 2]]]], ["type", ["s", "Point"]]]]
VALUES = [["null"], ["b", True], ["b", False], ["n", 0], ["n", 1], ["n", 7], ["s", ""], ["s", "x"], ["s", "Point"], ["s", "Feature"], ["a", []],
          ["o", []], ["a", [["n", 1]]], ["a", [["n", 1], ["n", 2]]], ["a", [["a", [["n", 1], ["n", 2]]]]], ["a", [["null"]]], PT,
          ["a", [PT]], ["x", "1.5"], ["x", "-1"], ["x", "1e400"], ["a", [["n", 1], ["n", 2], ["n", 3], ["n", 4]]],
          ["a", [["n", 1], ["n", 2], ["n", 3], ["n", 4], ["n", 5], ["n", 6]]], ["o", [["type", ["s", "Feature"]]]]]
NUMBERS = ["0.1", "1.5", "-2.75", "-1", "-0", "-0.0", "1e2", "1E+2", "2.5e-3", "1e21", "1e22", "1e308", "1e309", "-1e309", "1E400", "1e-400",
           "4.9e-324", "5e-324", "2e-324", "1.7976931348623157e308", "1.7976931348623159e308", "123456789012345678901234567890",
           "9007199254740993", "0.000000000000000000001", "0.30000000000000004", "1e0000000000000000000001", "1e99999999999999999999",
           "100000000000000000000000000000000000000000000000000000000000000000000000000000000000000000000000000000000000000000000000000000"
           "0000000000000000000000000000000000000000000000000000000000000000000000000000000000000000000000000000000000000000000000000000000"
           "00000000000000000000000000000000000000000000000000000000000000000000000", "12.50", "2147483648", "-2147483649", "4294967296"]
# ids a float64 carries exactly enough (<= 15 significant digits): their value must survive; the others only must not break anything
IDS = ["12", "0", "7", "-7", "1.5", "-0.25", "1e21", "1E+21", "1e-7", "2.5e-3", "12.50", "1.0", "100", "1e2", "123456789012345", "0.1", "-0",
       "999999999999999", "1e300", "1e-300", "0.000001", "0.0000001", "1e20", "123456.789", "9007199254740993", "1e400", "1e-400",
       "12345678901234567890", "0.1234567890123456789"]
NONJSON = [b"", b" ", b"\n", b"\xef\xbb\xbf{}", b"nul", b"nulll", b"NaN", b"Infinity", b"-Infinity", b"undefined", b"{'type':'Point'}", b"{", b"}", b"[", b"]",
           b"{}x", b"{} {}", b"{}{}", b"[1,2", b"{\"type\":}", b"{\"type\"}", b"{\"type\":\"Point\",}", b"{,}", b"[,]", b"[1,,2]", b"\"", b"\"abc", b"\\",
           b"{\"type\":\"Point\",\"coordinates\":[1,2]} // c", b"/* c */ {}", b"{\"type\":\"Point\",\"coordinates\":[01,2]}", b"{\"type\":\"Point\",\"coordinates\":[+1,2]}",
           b"{\"type\":\"Point\",\"coordinates\":[.5,2]}", b"{\"type\":\"Point\",\"coordinates\":[1.,2]}", b"{\"type\":\"Point\",\"coordinates\":[0x10,2]}",
           b"{\"type\":\"Point\",\"coordinates\":[1e,2]}", b"{\"type\":\"Point\",\"coordinates\":[NaN,2]}", b"{\"type\":\"Point\",\"coordinates\":[Infinity,2]}",
           b"{\"type\":\"Po\xffint\",\"coordinates\":[1,2]}", b"{\"type\":\"Po\x00int\"}", b"{\"type\":\"Point\\", b"{\"type\":\"\\ud800\"}", b"{\"type\":\"\\u12\"}",
           b"\x00", b"\xff\xfe{\x00}\x00", b"true", b"false", b"0", b"-", b"1e5", b"\"Point\"", b"[]", b"[[]]", b"{}", b"{\"\":\"\"}", b"{\"type\":\"Point\"}\x00",
           b"{\"type\":\"Feature\",\"geometry\":{\"type\":\"Point\",\"coordinates\":[1,2]},\"properties\":{\"a\":1e999}}",
           b"{\"type\":\"Feature\",\"geometry\":{\"type\":\"Point\",\"coordinates\":[1,2]},\"properties\":null,\"id\":{}}",
           b"{\"type\":\"FeatureCollection\",\"features\":[null,null]}", b"{\"type\":\"FeatureCollection\",\"features\":{}}",
           b"{\"type\":\"FeatureCollection\",\"features\":[{\"type\":\"FeatureCollection\",\"features\":[]}]}",
           b"{\"type\":\"GeometryCollection\",\"geometries\":[null]}", b"{\"type\":\"GeometryCollection\",\"geometries\":[{}]}",
           b"{\"type\":\"GeometryCollection\",\"coordinates\":[1,2]}", b"{\"type\":\"Point\",\"geometries\":[]}"]
CRS = [["o", [["properties", ["o", [["name", ["s", "EPSG:4326"]]]]], ["type", ["s", "name"]]]], ["n", 5], ["null"], ["s", "EPSG:4326"], ["a", []],
       ["o", []], ["o", [["type", ["n", 5]]]], ["o", [["properties", ["a", []]], ["type", ["s", "name"]]]], ["o", [["properties", ["null"]]]]]
BBOX = [["a", [["n", 1], ["n", 2], ["n", 1], ["n", 2]]], ["a", [["n", 1], ["n", 2], ["n", 3], ["n", 1], ["n", 2], ["n", 3]]], ["a", []], ["null"], ["s", "x"],
        ["n", 4], ["a", [["n", 1]]], ["a", [["s", "x"], ["n", 2], ["n", 3], ["n", 4]]], ["o", []], ["a", [["null"], ["null"], ["null"], ["null"]]]]


def case_variant(k, r):
    c = r.randrange(4)
    if c == 0:
        return k.upper()
    if c == 1:
        return k.capitalize()
    if c == 2:
        return "".join(ch.upper() if r.random() < 0.5 else ch for ch in k)
    return k[:-1] + k[-1].upper()


def raw_cases(seed, bases, n):
    """n seeded byte-level inputs for the three decoders.  bases: (kind, tagged document) pairs of the model (model
    families "dec", "fdec" and the encoder images "enc")."""
    r = random.Random(seed * 7919 + 17)
    out = []

    def add(cat, kind, data, doc=UNKNOWN):
        out.append(dict(fam="dec", kind=kind, doc=doc, hex=data.hex(), cat=cat))

    for b in NONJSON:
        for kind in ("geom", "feature", "fc"):
            add("nonjson", kind, b)
    # deep nesting: arrays, collections inside collections, property maps
    for k in [2, 7, 50, 500, 9998, 10001, 100000]:
        for kind in ("geom", "feature", "fc"):
            out.append(dict(fam="dec", kind=kind, doc=UNKNOWN, cat="nest", rep=dict(pre="[", mid="", post="]", n=k)))
            out.append(dict(fam="dec", kind=kind, doc=UNKNOWN, cat="nest", rep=dict(pre="[", mid="1,2", post="]", n=k)))
            out.append(dict(fam="dec", kind=kind, doc=UNKNOWN, cat="nest", rep=dict(pre='{"a":', mid="1", post="}", n=k)))
    stock = [b for b in bases]
    std = [b for b in bases if b[2]]
    weights = dict(respell=5, truncate=3, bytemut=5, dupkey=2, casekey=2, numbers=3, foreign=2, wrongtype=4, numid=2, random=1, gcnest=0.3)
    cats = list(weights)
    while len(out) < n:
        cat = r.choices(cats, [weights[c] for c in cats])[0]
        kind, doc, _ = r.choice(std if r.random() < 0.6 and std else stock)
        if cat == "respell":
            add(cat, kind, render(doc, r).encode(), doc)
        elif cat == "truncate":
            t = render(doc, r if r.random() < 0.5 else None).encode()
            if len(t) > 1:
                add(cat, kind, t[:r.randrange(1, len(t))])
        elif cat == "bytemut":
            t = bytearray(render(doc, r if r.random() < 0.3 else None).encode())
            for _ in range(r.choice([1, 1, 2, 3])):
                if not t:
                    break
                p = r.randrange(len(t))
                nb = r.choice(b'{}[],:"0123456789.eE+-\\ tfnul') if r.random() < 0.7 else r.randrange(256)
                c = r.randrange(3)
                if c == 0:
                    t[p] = nb
                elif c == 1:
                    del t[p]
                else:
                    t.insert(p, nb)
            add(cat, kind, bytes(t))
        elif cat in ("dupkey", "casekey"):
            objs = [p for p, j in nodes(doc) if j[0] == "o" and j[1]]
            if not objs:
                continue
            target = r.choice(objs)

            def hook(path, j, mem, target=target, cat=cat):
                # path of render() uses keys, nodes() uses indices: identify the object by identity of its member list
                if j is not hook.node:
                    return mem
                i = r.randrange(len(mem))
                k, v = mem[i]
                if cat == "dupkey":
                    other = v if r.random() < 0.4 else render(r.choice(VALUES), r)
                    mem = list(mem)
                    mem.insert(r.randrange(len(mem) + 1), (k, other))
                    return mem
                key = json.loads(k)
                nk = json.dumps(case_variant(key, r)) if key else k
                mem = list(mem)
                if r.random() < 0.5:
                    mem[i] = (nk, v)                                   # only the variant spelling
                else:
                    mem.insert(r.randrange(len(mem) + 1), (nk, v if r.random() < 0.5 else render(r.choice(VALUES), r)))
                return mem
            node = doc
            for i in target:
                node = node[1][i] if node[0] == "a" else node[1][i][1]
            hook.node = node
            add(cat, kind, render(doc, r if r.random() < 0.5 else None, hook).encode())
        elif cat == "numbers":
            nums = [p for p, j in nodes(doc) if j[0] == "n"]
            if not nums:
                continue
            d2 = doc
            for p in r.sample(nums, min(len(nums), r.choice([1, 1, 2]))):
                d2 = replaced(d2, p, ["x", r.choice(NUMBERS)])
            add(cat, kind, render(d2, r if r.random() < 0.3 else None).encode(), d2)
        elif cat == "foreign":
            gs = [p for p, j in nodes(doc) if is_geom_obj(j)]
            if not gs:
                continue
            p = r.choice(gs)
            node = doc
            for i in p:
                node = node[1][i] if node[0] == "a" else node[1][i][1]
            c = r.randrange(3)
            if c != 1:
                node = with_member(node, "bbox", r.choice(BBOX))
            if c != 0:
                node = with_member(node, "crs", r.choice(CRS))
            d2 = replaced(doc, p, node)
            add(cat, kind, render(d2, r if r.random() < 0.3 else None).encode(), d2)
        elif cat == "wrongtype":
            ps = [p for p, _ in nodes(doc)]
            d2 = replaced(doc, r.choice(ps), r.choice(VALUES))
            add(cat, kind, render(d2, r if r.random() < 0.3 else None).encode(), d2)
        elif cat == "numid":
            fs = [p for p, j in nodes(doc) if is_feature_obj(j)]
            if not fs:
                continue
            d2 = doc
            for p in r.sample(fs, r.randrange(1, len(fs) + 1)):
                node = d2
                for i in p:
                    node = node[1][i] if node[0] == "a" else node[1][i][1]
                lit = r.choice(IDS) if r.random() < 0.6 else seeded_id(r)
                tok = ["n", int(lit)] if lit.isdigit() and len(lit) < 9 and r.random() < 0.5 else ["x", lit]
                d2 = replaced(d2, p, with_member(node, "id", tok))
            add(cat, kind, render(d2, r if r.random() < 0.5 else None).encode(), d2)
        elif cat == "random":
            add(cat, kind, bytes(r.randrange(256) for _ in range(r.randrange(1, 40))))
        elif cat == "gcnest":
            k = r.choice([3, 20, 120, 300])
            pre, post = '{"type":"GeometryCollection","geometries":[', ']}'
            mid = r.choice(['{"type":"Point","coordinates":[1,2]}', "", "null", '{"type":"Point","coordinates":[1]}', "7"])
            if kind == "geom":
                out.append(dict(fam="dec", kind=kind, doc=UNKNOWN, cat=cat, rep=dict(pre=pre, mid=mid, post=post, n=k)))
            else:
                add(cat, kind, ('{"type":"Feature","properties":null,"geometry":' + pre * k + mid + post * k + "}").encode())
    return out


def seeded_id(r):
    """a number literal with at most 15 significant digits, in a random spelling"""
    digits = str(r.randrange(1, 10 ** r.randrange(1, 16)))
    c = r.randrange(4)
    sign = "-" if r.random() < 0.3 else ""
    if c == 0:
        return sign + digits
    if c == 1 and len(digits) > 1:
        p = r.randrange(1, len(digits))
        return sign + digits[:p] + "." + digits[p:]
    if c == 2:
        return sign + "0." + "0" * r.randrange(0, 6) + digits
    return sign + digits[0] + ("." + digits[1:] if len(digits) > 1 else "") + r.choice(["e", "E"]) + r.choice(["", "+", "-"]) + str(r.randrange(0, 250))


def run(ctx, verdict):
    tier = "quick" if ctx.quick else "thorough"
    cases = []
    ctx.coverage_extra["model_a"] = []
    bases = []
    fams = ("geom", "feat", "dec", "fdec", "enc")
    from concurrent.futures import ThreadPoolExecutor
    with ThreadPoolExecutor(max_workers=len(fams)) as ex:      # five small explorations side by side
        results = list(ex.map(lambda fam: vlib.model_a(ctx, "GeoJSONModel", "GeoJSON_%s_%s.cfg" % (fam, tier), ["CASE"], workers=2), fams))
    for fam, (out, r) in zip(fams, results):
        cs = sorted(out["CASE"], key=vlib.digest)
        ctx.coverage_extra["model_a"].append(dict(cfg="GeoJSON_%s_%s.cfg" % (fam, tier), cases=len(cs), states=r["distinct"]))
        cases += cs
        if fam in ("dec", "fdec", "enc"):
            bases += [(c["kind"], c["doc"], fam == "enc") for c in cs]
    raws = raw_cases(ctx.seed, bases, 4000 if ctx.quick else 300000)
    cats = {}
    for c in raws:
        cats[c["cat"]] = cats.get(c["cat"], 0) + 1
    ctx.coverage_extra["byte_level_inputs"] = dict(seed=ctx.seed, cases=len(raws), by_class=cats)
    cases += raws
    vlib.note_cases(ctx, cases)
    pipe(ctx, verdict, cases)
    ctx.assumptions += ["numbers are small integer tokens (number formatting belongs to C18); the emitted JSON is read by "
                        "encoding/json into a generic tree, which is independent of go-geom",
                        "decoder documents: the bounded universe of the model (wrong kinds at every level, ragged arrays, nulls, "
                        "unknown and missing members), the encoder images of every model geometry / feature / collection, and "
                        "seeded byte strings (other spellings of the same value, truncations, byte edits, non-JSON, duplicate and "
                        "case-variant keys, huge / fractional numbers, deep nesting, bbox / crs members, wrong types, numeric ids); "
                        "each is given to Unmarshal and (*Geometry).Decode, or to json.Unmarshal and the UnmarshalJSON method",
                        "what must come back is fixed only for standard documents (and documents standard apart from a numeric "
                        "id with at most 15 significant digits); for every other input: no panic, no hang, error or well-formed result",
                        "carve-outs of the property (empty geometry -> default layout, XYM -> XYZ, non-XY geometry with an "
                        "empty first component, multipoint with an empty member) are encoded in RoundTrips/Canon; for a geometry holding "
                        "a multipoint with an empty member only 'no panic' (and a well-formed decoder result) is demanded",
                        "left open: the spelling of a number (the recorder tags numbers by value: 1, 1.0 and 1e0 are the same token), "
                        "null versus empty-object properties after a round trip"]
