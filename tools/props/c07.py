"""C07: GeoJSON round-trips geometries, features and collections; decoding is total."""
import vlib


def pipe(ctx, verdict, cases, name="geojson"):
    obs = vlib.run_driver(ctx, "geojson", cases)
    viols = vlib.model_b(ctx, "GeoJSONObs", "Obs.cfg", obs, name="GeoJSONObs")
    for idx, v in viols:
        o = obs[idx]
        verdict.add(name, v["sig"], cases[idx], dict(text=str(o.get("text", ""))[:300], err=str(o.get("err", o.get("backerr", "")))[:200],
                                                     pan=str(o.get("pan", ""))[:200]))
    return obs


PIPES = {"geojson": pipe}


def run(ctx, verdict):
    tier = "quick" if ctx.quick else "thorough"
    cases = []
    ctx.coverage_extra["model_a"] = []
    for fam in ("geom", "feat", "dec", "fdec"):
        cfg = "GeoJSON_%s_%s.cfg" % (fam, tier)
        out, r = vlib.model_a(ctx, "GeoJSONModel", cfg, ["CASE"], workers=8)
        cs = sorted(out["CASE"], key=vlib.digest)
        ctx.coverage_extra["model_a"].append(dict(cfg=cfg, cases=len(cs), states=r["distinct"]))
        cases += cs
    vlib.note_cases(ctx, cases)
    pipe(ctx, verdict, cases)
    ctx.assumptions += ["numbers are small integer tokens (number formatting belongs to C18); the emitted JSON is read by "
                        "encoding/json into a generic tree, which is independent of go-geom",
                        "decoder documents come from the bounded universe of the model (wrong kinds at every level, ragged "
                        "arrays, nulls, unknown and missing members); byte strings that are not JSON are rejected by "
                        "encoding/json before go-geom sees them",
                        "carve-outs of the property (empty geometry -> default layout, XYM -> XYZ, non-XY geometry with an "
                        "empty first component, multipoint with an empty member) are encoded in RoundTrips/Canon"]
