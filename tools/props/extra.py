"""EXTRA: behaviour beyond the listed properties (specs/Extras.tla). Not a registered property check."""
import vlib

LEVEL = "model_checking"


def pipe(ctx, verdict, cases, name="extras"):
    obs = vlib.run_driver(ctx, "extras", cases)
    viols = vlib.model_b(ctx, "ExtrasObs", "Obs.cfg", obs, name="ExtrasObs")
    for idx, v in viols:
        verdict.add(name, v["sig"], cases[idx], dict())
    return obs


PIPES = {"extras": pipe}


def run(ctx, verdict):
    out, r = vlib.model_a(ctx, "ExtrasModel", "Extras.cfg", ["CASE"], workers=4)
    cases = sorted(out["CASE"], key=vlib.digest)
    vlib.note_cases(ctx, cases)
    pipe(ctx, verdict, cases)
