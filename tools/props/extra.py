"""EXTRA: behaviour beyond the listed properties (specs/Extras.tla). Not a registered property check."""
import vlib

LEVEL = "model_checking"


def pipe(ctx, verdict, cases, name="extras"):
    obs = vlib.run_driver(ctx, "extras", cases)
    viols = vlib.model_b(ctx, "ExtrasObs", "Obs.cfg", obs, name="ExtrasObs")
    for idx, v in viols:
        verdict.add(name, v["sig"], cases[idx], dict())
    return obs


def kml_pipe(ctx, verdict, cases, name="kml"):
    obs = vlib.run_driver(ctx, "kml", cases)
    viols = vlib.model_b(ctx, "KMLObs", "Obs.cfg", obs, name="KMLObs")
    for idx, v in viols:
        verdict.add(name, v["sig"], cases[idx], dict())
    return obs


PIPES = {"extras": pipe, "kml": kml_pipe}


def run(ctx, verdict):
    out, r = vlib.model_a(ctx, "ExtrasModel", "Extras.cfg", ["CASE"], workers=4)
    cases = sorted(out["CASE"], key=vlib.digest)
    vlib.note_cases(ctx, cases)
    pipe(ctx, verdict, cases)
    # the KML renderer over the geometry trees of the WKT render model (specs/KML.tla)
    out, r = vlib.model_a(ctx, "KMLModel", "KML_quick.cfg" if ctx.quick else "KML_thorough.cfg", ["CASE"], workers=4)
    kcases = sorted(out["CASE"], key=vlib.digest)
    # layouts the WKT trees do not have: more than four ordinates (the first three are written), no layout at all
    kcases += [dict(g=dict(t="LS", l="L5", body=[[1, 2, 3, 4, 5], [6, 7, 8, 1, 2]])), dict(g=dict(t="PT", l="L6", body=[1, 2, 3, 4, 5, 6])),
               dict(g=dict(t="LS", l="No", body=[])), dict(g=dict(t="PG", l="No", body=[])), dict(g=dict(t="MPT", l="No", body=[]))]
    vlib.note_cases(ctx, kcases)
    kml_pipe(ctx, verdict, kcases)
    ctx.coverage_extra["kml_trees"] = len(kcases)
