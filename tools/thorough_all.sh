#!/bin/sh
# usage: tools/thorough_all.sh [parallel] [checks...]   every thorough tier on the unchanged tree, a few at a time
PAR=${1:-3}; shift
LIST=${*:-C03 C05 C07 C08 C17 C10 C20 C19 C18 C06 C04 C15 C11 C12 C14 C13 C09 C02 C01 C16}
for c in $LIST; do echo $c; done | xargs -P "$PAR" -I{} sh -c 's=$(date +%s); ./check {} --tier thorough > thorough-{}.log 2>&1; rc=$?; echo "{} rc=$rc $(( $(date +%s) - s ))s $(grep -m1 "VIOLATION\|INFRA" thorough-{}.log | cut -c1-160)"'
