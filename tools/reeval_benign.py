#!/usr/bin/env python3
"""usage: tools/reeval_benign.py [parallel] [prefix]
Re-runs every stored BENIGN change (benign/Cxx-k) against the current checks - the ones its meta.json lists - in scratch
worktrees of /repo's HEAD. Every run must stay silent (exit 0)."""
import json, os, subprocess, sys
from concurrent.futures import ThreadPoolExecutor
ROOT = os.path.dirname(os.path.dirname(os.path.abspath(__file__)))
par = int(sys.argv[1]) if len(sys.argv) > 1 else 4
prefix = sys.argv[2] if len(sys.argv) > 2 else "C"
names = sorted(d for d in os.listdir(os.path.join(ROOT, "benign")) if d.startswith(prefix))


def one(name):
    prop, k = name.split("-")
    meta = json.load(open(os.path.join(ROOT, "benign", name, "meta.json")))
    cs = sorted({c.split("/")[0] for c in meta.get("checks", {})}) or [prop]
    p = subprocess.run([sys.executable, os.path.join(ROOT, "tools/eval_benign.py"), prop, k, "--as", name, "--noconfirm", "--checks", ",".join(cs)],
                       capture_output=True, text=True, cwd=ROOT)
    rcs = [l.split("rc=")[1][:1] for l in p.stdout.splitlines() if l.startswith("check ") and "rc=" in l]
    bad = not rcs or any(x != "0" for x in rcs)
    return "%s: %s rc=%s%s" % (name, ",".join(cs), ",".join(rcs), ("   <-- ALARM / ERROR\n" + p.stdout[-1500:]) if bad else "")


with ThreadPoolExecutor(max_workers=par) as ex:
    for line in ex.map(one, names):
        print(line, flush=True)
