#!/usr/bin/env python3
"""Re-creates the add-only verif hook call sites in encoding/wkt/lex.go (used to rebase seeded patches that
were written against the un-hooked file). usage: wkt_hook_insert.py <lex.go>"""
import re, sys
p = sys.argv[1]; L = open(p).read().split('\n')
out = []; fn = None
def emit(indent, ev, arg, ok): return f'{indent}verifEmit(l, "{ev}", {arg}, {ok})'
vals = {'validateStrideAndSetDefaultLayoutIfNoLayout': 'fmt.Sprint(stride)', 'validateNonEmptyGeometryAllowed': '""',
        'validateAndSetLayoutIfNoLayout': 'layoutName(layout)', 'validateBaseGeometryTypeAllowed': '""',
        'validateBaseTypeEmptyAllowed': '""', 'validateAndPushLayoutStackFrame': 'layoutName(layout)',
        'validateAndPopLayoutStackFrame': '""', 'isValidLineString': '""', 'isValidPolygonRing': '""'}
for i, line in enumerate(L):
    m = re.match(r'func \(l \*wktLex\) (\w+)\(', line)
    if m: fn = m.group(1)
    ind = re.match(r'\s*', line).group(0); s = line.strip()
    if 'verifEmit' in s: out.append(line); continue
    prev = L[i-1].strip() if i else ''
    if 'verifEmit' in prev: out.append(line); continue
    if fn == 'Lex':
        if s == 'return eof' and prev == 'case eof:': out.append(emit(ind, 'tok', '"EOF"', 'true'))
        elif s == 'return int(l.next())': out.append(emit(ind, 'tok', 'string(c)', 'true'))
        elif s == 'return eof' and prev == 'l.setLexError("character")': out.append(emit(ind, 'tok', '"LEXERR"', 'false'))
    if fn == 'keyword' and s == 'return ret': out.append(emit(ind, 'tok', 'b.String()', 'ret != eof'))
    if fn == 'num':
        if s == 'return eof': out.append(emit(ind, 'tok', '"LEXERR"', 'false'))
        if s == 'return NUM': out.append(emit(ind, 'tok', '"NUM"', 'true'))
    if fn in vals and s in ('return true', 'return false'): out.append(emit(ind, fn, vals[fn], s.split()[1]))
    if fn == 'isValidPoint' and s == 'return false':
        out.append(emit(ind, 'validateStrideAndSetDefaultLayoutIfNoLayout', 'fmt.Sprint(stride)', 'false'))
    out.append(line)
open(p, 'w').write('\n'.join(out))
