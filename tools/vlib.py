"""Shared machinery for the go-geom TLA+ verification checks (python3 stdlib only).

Roles (DESIGN.md section 2):
  * tlc()/apalache(): run a model checker in a scratch copy of /verif/specs under a timeout
  * model A  : TLC enumerates cases/behaviours, emitted as  <<"TAG", "<json>">>  lines
  * harness  : the Go driver (built from /repo's working tree with -tags verif) executes them
  * model B  : TLC (or Apalache) evaluates the property predicates of the spec on the recorded
               observations and prints <<"VIOL", json>> / <<"SUMMARY", json>>
  * verdicts : only from model-B results on observations recorded from the real code;
               anything else that goes wrong is Infra -> exit 2
"""
import atexit
import hashlib
import json
import os
import re
import shutil
import subprocess
import sys
import tempfile
import time

ROOT = os.path.dirname(os.path.dirname(os.path.abspath(__file__)))
SPECS = os.environ.get("VERIF_SPECS") or os.path.join(ROOT, "specs")
HARNESS = os.environ.get("VERIF_HARNESS") or os.path.join(ROOT, "harness")
REPO = os.environ.get("VERIF_REPO", "/repo")
# evaluation of seeded / benign changes runs the checks against a scratch copy of the library (VERIF_REPO) and must not
# overwrite the evidence of the unchanged tree: VERIF_OUT redirects evidence/ and replays/
OUT = os.environ.get("VERIF_OUT", None)
CP = "/opt/veriftools/tla/tla2tools.jar:/opt/veriftools/tla/CommunityModules-deps.jar"
NCPU = os.cpu_count() or 4


class Infra(Exception):
    """Anything that is not a verdict about go-geom: tool failure, timeout, spec bug (exit 2)."""


def log(*a):
    print(*a, file=sys.stderr, flush=True)


def goenv():
    e = dict(os.environ)
    e.update(GOFLAGS="-mod=mod", GOPROXY="off", GOSUMDB="off", GOTOOLCHAIN="local",
             CGO_ENABLED=e.get("CGO_ENABLED", "0"))
    return e


class Ctx:
    def __init__(self, prop, tier, seed):
        self.prop, self.tier, self.seed = prop, tier, seed
        self.t0 = time.time()
        base = os.environ.get("TMPDIR", "/tmp")
        self.scratch = tempfile.mkdtemp(prefix="verif-%s-" % prop, dir=base)
        atexit.register(shutil.rmtree, self.scratch, True)
        self.specdir = os.path.join(self.scratch, "specs")
        shutil.copytree(SPECS, self.specdir)
        self.states = 0          # distinct states over all model-checking runs
        self.transitions = 0     # states generated (= transitions examined)
        self.validated = 0       # observations / behaviours of the real code decided by the spec
        self.evaluations = 0
        self.distinct = set()    # hashes of distinct non-trivial cases
        self.samples = []
        self.runs = []           # per checker run: name, states, seconds, ...
        self.notes = []
        self.assumptions = []
        self.coverage_extra = {}
        self._drive = None
        self._drive_race = None
        self.quick = tier == "quick"

    def path(self, name):
        return os.path.join(self.scratch, name)

    # ---------------------------------------------------------------- harness
    def drive(self, race=False):
        """Build the Go driver from /repo's current working tree (hooks on)."""
        attr = "_drive_race" if race else "_drive"
        if getattr(self, attr):
            return getattr(self, attr)
        hdir = os.path.join(self.scratch, "harness-race" if race else "harness")
        shutil.copytree(HARNESS, hdir)
        shutil.copy(os.path.join(REPO, "go.sum"), os.path.join(hdir, "go.sum"))
        gomod = open(os.path.join(hdir, "go.mod")).read().replace("=> /repo", "=> " + REPO)
        open(os.path.join(hdir, "go.mod"), "w").write(gomod)
        out = os.path.join(self.scratch, "drive-race" if race else "drive")
        cmd = ["go", "build", "-tags", "verif", "-o", out]
        env = goenv()
        if race:
            cmd.insert(2, "-race")
            env["CGO_ENABLED"] = "1"
        cmd.append("./cmd/drive")
        t = time.time()
        p = subprocess.run(cmd, cwd=hdir, env=env, capture_output=True, text=True, timeout=900)
        if p.returncode != 0:
            raise Infra("harness build failed:\n" + p.stdout + p.stderr)
        log("[build] drive%s %.1fs" % (" -race" if race else "", time.time() - t))
        setattr(self, attr, out)
        return out


# -------------------------------------------------------------------- TLC
_STAT = re.compile(r"^(\d+) states generated, (\d+) distinct states found, (\d+) states left on queue")
_TUP = re.compile(r'^<<"([A-Za-z0-9_]+)", "(.*)">>$')


class jvm_slot:
    """A machine-wide cap on the number of model-checker JVMs that run at the same time (several checks started side by
    side would otherwise be killed by the kernel for lack of memory - seen as exit 137 / -9). One slot per ~9 GB of RAM, at
    least 3; slots are lock files in the system's temporary directory (created on demand, nothing depends on their content)."""
    N = None

    def __enter__(self):
        import fcntl
        import random as _r
        if jvm_slot.N is None:
            try:
                gb = os.sysconf("SC_PAGE_SIZE") * os.sysconf("SC_PHYS_PAGES") / 2 ** 30
            except (ValueError, OSError):
                gb = 32
            jvm_slot.N = int(os.environ.get("VERIF_JVM_SLOTS") or max(3, int(gb // 9)))
        d = os.path.join(tempfile.gettempdir(), "verif-jvm-slots")
        os.makedirs(d, exist_ok=True)
        while True:
            for k in _r.sample(range(jvm_slot.N), jvm_slot.N):
                f = open(os.path.join(d, "slot%d" % k), "w")
                try:
                    fcntl.flock(f, fcntl.LOCK_EX | fcntl.LOCK_NB)
                    self.f = f
                    return self
                except OSError:
                    f.close()
            time.sleep(0.3 + _r.random())

    def __exit__(self, *a):
        self.f.close()
        return False


def tlc(ctx, module, cfg, **kw):
    with jvm_slot():
        return _tlc(ctx, module, cfg, **kw)


def _tlc(ctx, module, cfg, *, workers=1, env=None, timeout=900, on=None, heap="6g",
        simulate=None, depth=None, seed=None, deadlock=False, name=None, allow_violation=False):
    """Run TLC on specs/<module>.tla with specs/<cfg>. `on(tag, obj)` receives every
    <<"TAG", "<json>">> line. Returns dict(generated, distinct, rc, tail)."""
    meta = tempfile.mkdtemp(prefix="meta-", dir=ctx.scratch)
    cmd = ["java", "-XX:+UseParallelGC", "-XX:ParallelGCThreads=%d" % (2 if workers == 1 else min(8, workers)), "-Xmx" + heap, "-Xss512m", "-cp", CP, "tlc2.TLC",
           "-workers", str(workers), "-metadir", meta, "-noGenerateSpecTE", "-config", cfg]
    if not deadlock:
        cmd.append("-deadlock")       # TLC: this flag DISABLES deadlock checking
    if simulate:
        cmd += ["-simulate", simulate]
        if depth:
            cmd += ["-depth", str(depth)]
    if seed is not None:
        cmd += ["-seed", str(seed)]
    cmd.append(module + ".tla")
    e = dict(os.environ)
    e.pop("JAVA_TOOL_OPTIONS", None)
    if env:
        e.update(env)
    t = time.time()
    p = subprocess.Popen(cmd, cwd=ctx.specdir, env=e, stdout=subprocess.PIPE, stderr=subprocess.STDOUT,
                         text=True, bufsize=1 << 20)
    tail, res = [], dict(generated=0, distinct=0, rc=None)
    deadline = t + timeout
    try:
        for line in p.stdout:
            line = line.rstrip("\n")
            m = _TUP.match(line) if line.startswith('<<"') else None
            if m:
                if on:
                    try:
                        on(m.group(1), json.loads(json.loads('"' + m.group(2) + '"')))
                    except json.JSONDecodeError as ex:
                        raise Infra("unparsable emission from %s: %s (%s)" % (module, line[:300], ex))
                continue
            s = _STAT.match(line)
            if s:
                res["generated"], res["distinct"] = int(s.group(1)), int(s.group(2))
            tail.append(line)
            if len(tail) > 400:
                del tail[:200]
            if time.time() > deadline:
                p.kill()
                raise Infra("TLC timeout (%ds) on %s/%s" % (timeout, module, cfg))
        p.wait(timeout=max(1, deadline - time.time()))
    except subprocess.TimeoutExpired:
        p.kill()
        raise Infra("TLC timeout (%ds) on %s/%s" % (timeout, module, cfg))
    finally:
        if p.poll() is None:
            p.kill()
        shutil.rmtree(meta, True)
    res["rc"] = p.returncode
    res["tail"] = tail
    res["seconds"] = round(time.time() - t, 1)
    ctx.runs.append(dict(run=name or (module + "/" + cfg), generated=res["generated"],
                         distinct=res["distinct"], seconds=res["seconds"], rc=p.returncode))
    if p.returncode != 0 and not allow_violation:
        errs = []
        for k, l in enumerate(tail):
            if l.startswith("Error:") or "Exception" in l:
                errs += tail[k:k + 4]
        raise Infra("TLC exit %s on %s/%s:\n%s\n...\n%s" % (p.returncode, module, cfg, "\n".join(errs[:16]), "\n".join(tail[-8:])))
    return res


def model_a(ctx, module, cfg, tags, *, workers=None, timeout=900, env=None, name=None, heap="8g",
            simulate=None, depth=None, seed=None):
    """Exhaustive exploration that must itself be clean (design invariants hold); collects
    emitted cases per tag. Adds states/transitions to the coverage counters."""
    out = {t: [] for t in tags}

    def on(tag, obj):
        if tag in out:
            out[tag].append(obj)
    r = tlc(ctx, module, cfg, workers=workers or min(NCPU, 16), on=on, timeout=timeout, env=env,
            name=name, heap=heap, simulate=simulate, depth=depth, seed=seed)
    ctx.states += r["distinct"]
    ctx.transitions += r["generated"]
    log("[modelA] %s/%s: %d generated, %d distinct, %s emitted, %.1fs" % (
        module, cfg, r["generated"], r["distinct"], {k: len(v) for k, v in out.items()}, r["seconds"]))
    return out, r


def write_ndjson(path, recs):
    with open(path, "w") as f:
        for r in recs:
            f.write(json.dumps(r, separators=(",", ":")) + "\n")


def read_ndjson(path):
    with open(path) as f:
        return [json.loads(l) for l in f if l.strip()]


def _check_tlc_json(v, where):
    if v is None:
        raise Infra("null in trace (%s): the TLC Json reader rejects it" % where)
    if isinstance(v, bool) or isinstance(v, str):
        return
    if isinstance(v, int):
        if not -2147483648 <= v <= 2147483647:
            raise Infra("integer %d outside int32 in trace (%s): TLC would wrap it" % (v, where))
        return
    if isinstance(v, float):
        raise Infra("non-integer number in trace (%s)" % where)
    if isinstance(v, list):
        for x in v:
            _check_tlc_json(x, where)
        return
    if isinstance(v, dict):
        for x in v.values():
            _check_tlc_json(x, where)
        return
    raise Infra("bad JSON value in trace (%s)" % where)


_STR = re.compile(r'"(?:[^"\\]|\\.)*"')
_BADNUM = re.compile(r'null|\d{10,}|\d\.\d|\d[eE][+-]?\d')


def validate_line_for_tlc(line, where):
    """Cheap check of one raw ndjson line: no null, no non-integers, no integer beyond 9 digits."""
    m = None
    for m in _BADNUM.finditer(_STR.sub('""', line)):
        if m.group(0).isdigit() and len(m.group(0)) == 10 and int(m.group(0)) <= 2147483647:
            m = None
            continue
        break
    if m:
        raise Infra("value %r in trace (%s) cannot be read faithfully by the TLC Json module" % (m.group(0), where))


class Obs:
    """Observations kept on disk as ndjson chunk files (one per driver process); parsed on demand."""

    def __init__(self, files, for_tlc=True):
        self.files = files
        self.counts = []
        for f in files:
            n = 0
            with open(f) as fh:
                for line in fh:
                    n += 1
                    if for_tlc:
                        validate_line_for_tlc(line, f)
            self.counts.append(n)
        self._cache = {}

    def __len__(self):
        return sum(self.counts)

    def __getitem__(self, i):
        for k, n in enumerate(self.counts):
            if i < n:
                if k not in self._cache:
                    self._cache = {k: open(self.files[k]).read().split("\n")}
                return json.loads(self._cache[k][i])
            i -= n
        raise IndexError(i)

    def __iter__(self):
        for f in self.files:
            with open(f) as fh:
                for line in fh:
                    if line.strip():
                        yield json.loads(line)


def validate_for_tlc(recs, where="obs"):
    for i, r in enumerate(recs):
        _check_tlc_json(r, "%s[%d]" % (where, i))


def model_b(ctx, module, cfg, recs, *, env=None, timeout=1200, chunk=None, name=None, heap="3g"):
    """Observation checking: TLC evaluates the spec's predicates on every record.
    Returns list of (global_index, viol_json). Verifies that every record was consumed."""
    if len(recs) == 0:
        return []
    n = len(recs)
    if isinstance(recs, Obs):
        parts, off = [], 0
        for f, c in zip(recs.files, recs.counts):
            if c:
                parts.append((off, f, c))
            off += c
    else:
        validate_for_tlc(recs, module)
        if chunk is None:
            chunk = max(200, (n + NCPU - 1) // NCPU)
        parts = []
        for i in range(0, n, chunk):
            f = tempfile.NamedTemporaryFile("w", suffix=".ndjson", dir=ctx.scratch, delete=False)
            for r in recs[i:i + chunk]:
                f.write(json.dumps(r, separators=(",", ":")) + "\n")
            f.close()
            parts.append((i, f.name, len(recs[i:i + chunk])))
    viols = []
    t = time.time()
    from concurrent.futures import ThreadPoolExecutor

    def one(part):
        off, fname, cnt = part
        got, summ = [], []

        def on(tag, obj):
            if tag == "VIOL":
                got.append((off + obj["i"] - 1, obj))
            elif tag == "SUMMARY":
                summ.append(obj)
        e = dict(env or {})
        e["TRACEFILE"] = fname
        r = tlc(ctx, module, cfg, workers=1, env=e, on=on, timeout=timeout, name=name or module, heap=heap)
        if len(summ) != 1 or summ[0]["n"] != cnt or summ[0]["bad"] != len(got):
            raise Infra("model B %s did not consume its chunk: summary=%s records=%d viol=%d\n%s" % (
                module, summ, cnt, len(got), "\n".join(r["tail"][-30:])))
        if "div" in summ[0]:            # diagnostics of the module (never a verdict), summed over the chunks
            ctx.coverage_extra["diagnostic_divergences_" + (name or module)] = ctx.coverage_extra.get("diagnostic_divergences_" + (name or module), 0) + summ[0]["div"]
        return got, r
    # memory-aware: at most ~24 GB of TLC heaps at once
    par = max(1, min(NCPU, len(parts), int(24 // max(1, int(heap.rstrip('g') or 3)))))
    with ThreadPoolExecutor(max_workers=par) as ex:
        for got, r in ex.map(one, parts):
            viols += got
            ctx.transitions += r["generated"]
    ctx.validated += n
    log("[modelB] %s: %d observations, %d violating, %.1fs" % (module, n, len(viols), time.time() - t))
    viols.sort(key=lambda x: x[0])
    return viols


# -------------------------------------------------------------------- TLAPS
def tlapm(ctx, module, deps, *, timeout=600):
    """Check the proofs of specs/proofs/<module>.tla with the TLA+ proof system in a scratch directory (the modules it
    EXTENDS, `deps`, are copied next to it from specs/). The theorems are laws of the specification for ALL integers -
    the unbounded counterpart of what TLC checks on small grids. Anything but "All N obligations proved" is an
    infrastructure error (exit 2): it says something about the specification, never about the code."""
    d = tempfile.mkdtemp(prefix="tlaps-", dir=ctx.scratch)
    shutil.copy(os.path.join(ctx.specdir, "proofs", module + ".tla"), d)
    for m in deps:
        shutil.copy(os.path.join(ctx.specdir, m + ".tla"), d)
    t = time.time()
    try:
        p = subprocess.run(["tlapm", "--threads", str(min(8, NCPU)), module + ".tla"], cwd=d, capture_output=True, text=True, timeout=timeout)
    except subprocess.TimeoutExpired:
        raise Infra("tlapm %s: timeout after %ds" % (module, timeout))
    out = p.stdout + p.stderr
    m = re.search(r"All (\d+) obligations? proved", out)
    if p.returncode != 0 or not m:
        raise Infra("tlapm %s: %s" % (module, out[-600:]))
    n = int(m.group(1))
    log("[tlapm] %s: all %d obligations proved, %.1fs" % (module, n, time.time() - t))
    ctx.coverage_extra.setdefault("tlaps", []).append(dict(module="proofs/" + module + ".tla", obligations_proved=n,
                                                           theorems=re.findall(r"^THEOREM (\w+)", open(os.path.join(d, module + ".tla")).read(), re.M)))
    return n


# -------------------------------------------------------------------- Apalache
def apalache(ctx, tla_text, modname, *, inv="Ok", timeout=900, name=None, extra_files=None):
    """Check a generated, typed observation module with Apalache (--length=0).
    Returns the set of failing observation indices found in the counter-example (empty = all hold)."""
    d = tempfile.mkdtemp(prefix="apa-", dir=ctx.scratch)
    open(os.path.join(d, modname + ".tla"), "w").write(tla_text)
    for fn, txt in (extra_files or {}).items():
        open(os.path.join(d, fn), "w").write(txt)
    cmd = ["apalache-mc", "check", "--length=0", "--inv=" + inv, "--out-dir=" + os.path.join(d, "out"),
           "--run-dir=" + os.path.join(d, "run"), modname + ".tla"]
    t = time.time()
    e = dict(os.environ)
    e.pop("JAVA_TOOL_OPTIONS", None)
    e["JVM_ARGS"] = "-Xmx4g -Xss64m"          # several Apalache processes run side by side
    try:
        with jvm_slot():
            t = time.time()
            p = subprocess.run(cmd, cwd=d, env=e, capture_output=True, text=True, timeout=timeout)
    except subprocess.TimeoutExpired:
        raise Infra("Apalache timeout (%ds) on %s" % (timeout, modname))
    sec = round(time.time() - t, 1)
    out = p.stdout + p.stderr
    ctx.runs.append(dict(run=name or ("apalache/" + modname), seconds=sec, rc=p.returncode))
    bad = None
    if "The outcome is: NoError" in out:
        bad = set()
    elif "The outcome is: Error" in out and p.returncode == 12:
        # counter-example: read the ITF file and take the value of `bad`
        itf = None
        for root, _, files in os.walk(os.path.join(d, "run")):
            for fn in files:
                if fn.endswith(".itf.json") and "violation" in fn:
                    itf = os.path.join(root, fn)
        if itf is None:
            raise Infra("Apalache reported a violation but no ITF file was found\n" + out[-2000:])
        j = json.load(open(itf))
        st = j["states"][0]
        v = st.get("bad")
        bad = set(int(x["#bigint"]) if isinstance(x, dict) and "#bigint" in x else int(x) for x in v["#set"])
        if not bad:
            raise Infra("Apalache violation with empty bad set\n" + out[-2000:])
    else:
        errs = [l for l in out.splitlines() if " E@" in l or "rror" in l][:12]
        keep = os.path.join(OUT or ROOT, "replays", "apalache-failed-%s.tla" % modname)
        try:
            os.makedirs(os.path.dirname(keep), exist_ok=True)
            shutil.copy(os.path.join(d, modname + ".tla"), keep)
        except OSError:
            keep = "(not kept)"
        raise Infra("Apalache failed (rc=%s) on %s (module kept at %s):\n%s" % (p.returncode, modname, keep, "\n".join(errs) or out[-1500:]))
    shutil.rmtree(d, True)
    log("[apalache] %s: %s, %.1fs" % (modname, "all hold" if not bad else "%d failing" % len(bad), sec))
    return bad


# -------------------------------------------------------------------- harness runs
def _limit_as(nbytes):
    def f():
        import resource
        resource.setrlimit(resource.RLIMIT_AS, (nbytes, nbytes))
    return f


def _run_driver_one(ctx, drv, sub, cases, timeout, extra, per_call_ms, env, mem=None):
    fin = tempfile.NamedTemporaryFile("w", suffix=".cases", dir=ctx.scratch, delete=False)
    for c in cases:
        fin.write(json.dumps(c, separators=(",", ":")) + "\n")
    fin.close()
    fout = fin.name + ".obs"
    skip, restarts = 0, 0
    open(fout, "w").close()
    while True:
        cmd = [drv, sub, "-in", fin.name, "-out", fout, "-skip", str(skip), "-seed", str(ctx.seed),
               "-callms", str(per_call_ms)] + (extra or [])
        e = dict(os.environ)
        if env:
            e.update(env)
        try:
            p = subprocess.run(cmd, capture_output=True, text=True, timeout=timeout, env=e,
                               preexec_fn=_limit_as(mem) if mem else None)
        except subprocess.TimeoutExpired:
            raise Infra("driver %s timed out after %ds" % (sub, timeout))
        if p.returncode == 0:
            break
        if mem and p.returncode not in (3, 64) and restarts < 5000:
            # the process died while executing a case (out of memory, fatal error): that IS an observation
            restarts += 1
            skip = sum(1 for _ in open(fout))
            if skip < len(cases):
                stop = False
                with open(fout, "a") as fh:
                    fh.write(json.dumps(dict(case=cases[skip], ev="crash", msg=(p.stderr or "")[:300]),
                                        separators=(",", ":")) + "\n")
                    if restarts >= 25:
                        # enough evidence from this chunk: the remaining cases are recorded as not run
                        for c in cases[skip + 1:]:
                            fh.write(json.dumps(dict(case=c, ev="notrun"), separators=(",", ":")) + "\n")
                        stop = True
                if stop:
                    break
                skip += 1
                continue
        if p.returncode == 3 and restarts < 200:
            restarts += 1
            skip = sum(1 for _ in open(fout))
            continue
        raise Infra("driver %s failed rc=%s:\n%s" % (sub, p.returncode, (p.stdout + p.stderr)[-3000:]))
    os.unlink(fin.name)
    n = sum(1 for _ in open(fout))
    if n != len(cases):
        raise Infra("driver %s returned %d observations for %d cases" % (sub, n, len(cases)))
    return fout, restarts, p.stderr


def run_driver(ctx, sub, cases, *, race=False, timeout=1800, extra=None, per_call_ms=4000, env=None, jobs=None,
               mem=None, for_tlc=True):
    """Execute `cases` (list of JSON objects) with driver subcommand `sub`; returns observations in order.
    A call that does not return within per_call_ms is recorded by the driver as {"ev":"hang"} and
    the driver exits 3; we restart it after that case (a hang is an observation, not an infra error).
    Large batches are split over several driver processes."""
    drv = ctx.drive(race)
    t = time.time()
    if jobs is None:
        jobs = 1 if len(cases) < 4000 else NCPU
    if jobs <= 1:
        f, restarts, _ = _run_driver_one(ctx, drv, sub, cases, timeout, extra, per_call_ms, env, mem)
        files = [f]
    else:
        from concurrent.futures import ThreadPoolExecutor
        size = (len(cases) + jobs - 1) // jobs
        chunks = [cases[i:i + size] for i in range(0, len(cases), size)]
        files, restarts = [], 0
        with ThreadPoolExecutor(max_workers=jobs) as ex:
            for f, r, _ in ex.map(lambda ch: _run_driver_one(ctx, drv, sub, ch, timeout, extra, per_call_ms, env, mem), chunks):
                files.append(f)
                restarts += r
    obs = Obs(files, for_tlc)
    ctx.evaluations += len(cases)
    log("[drive] %s: %d cases, %.1fs%s" % (sub, len(cases), time.time() - t,
                                           (", %d hang restarts" % restarts) if restarts else ""))
    return obs


# -------------------------------------------------------------------- findings / verdict
def load_known(prop):
    path = os.path.join(ROOT, "findings", "known.jsonl")
    known, fixed = {}, {}
    if os.path.exists(path):
        for l in open(path):
            l = l.strip()
            if not l or l.startswith("#"):
                continue
            j = json.loads(l)
            if j.get("property") != prop:
                continue
            (known if j.get("status") == "known" else fixed)[j["sig"]] = j
    return known, fixed


def digest(obj):
    return hashlib.sha1(json.dumps(obj, sort_keys=True).encode()).hexdigest()[:16]


class Verdict:
    """Collects violations from all pipelines of a check and turns them into the exit code."""

    def __init__(self, ctx):
        self.ctx = ctx
        self.items = []     # dict(pipe, sig, case, detail)

    def add(self, pipe, sig, case, detail=None):
        self.items.append(dict(pipe=pipe, sig=sig, case=case, detail=detail))

    def finish(self, level="model_checking", explanation=None):
        ctx = self.ctx
        known, _fixed = load_known(ctx.prop)
        seen_known, new = {}, []
        for it in self.items:
            if it["sig"] in known:
                seen_known.setdefault(it["sig"], []).append(it)
            else:
                new.append(it)
        for sig, its in sorted(seen_known.items()):
            print("KNOWN-FINDING: property=%s %s (%d observations; %s)" % (
                ctx.prop, sig, len(its), known[sig].get("what", "")))
        rc = 0
        if new:
            os.makedirs(os.path.join(OUT or ROOT, "replays"), exist_ok=True)
            by_sig = {}
            for it in new:
                by_sig.setdefault((it["pipe"], it["sig"]), []).append(it)
            for (pipe, sig), its in sorted(by_sig.items()):
                rp = os.path.join(OUT or ROOT, "replays", "%s-%s-%s.json" % (ctx.prop, pipe, digest(sig)))
                json.dump(dict(property=ctx.prop, pipe=pipe, sig=sig, tier=ctx.tier, seed=ctx.seed,
                               count=len(its), cases=[i["case"] for i in its[:20]],
                               details=[i["detail"] for i in its[:5]]), open(rp, "w"), indent=1)
                print("VIOLATION property=%s replay=%s" % (ctx.prop, rp))
                print("  sig=%s count=%d first=%s" % (sig, len(its), json.dumps(its[0]["detail"])[:600]))
            rc = 1
        write_evidence(ctx, level, len(new), sorted(seen_known), explanation)
        return rc


def write_evidence(ctx, level, violations, known_seen, explanation=None):
    cov = dict(
        states=ctx.states, transitions=ctx.transitions,
        traces_validated_against_impl=ctx.validated,
        evaluations=max(ctx.evaluations, ctx.validated),
        distinct_nontrivial=len(ctx.distinct),
        rule=ctx.coverage_extra.pop("rule", "cases are enumerated by TLC from the bounded model (or seeded "
                                    "generators where stated); distinct = distinct case digests; "
                                    "non-trivial = the case exercises at least one non-empty geometry/part"),
        samples=ctx.samples[:6] or ["(none)"],
        checker_runs=ctx.runs[-60:],
        known_findings_seen=known_seen,
    )
    if explanation:
        cov["explanation"] = explanation
    cov.update(ctx.coverage_extra)
    ev = dict(property_id=ctx.prop, tier=ctx.tier, seed=ctx.seed, level=level, coverage=cov,
              assumptions=ctx.assumptions, wall_s=round(time.time() - ctx.t0, 1), violations=violations,
              notes=ctx.notes)
    os.makedirs(os.path.join(OUT or ROOT, "evidence"), exist_ok=True)
    with open(os.path.join(OUT or ROOT, "evidence", ctx.prop + ".json"), "w") as f:
        json.dump(ev, f, indent=1)


def note_cases(ctx, cases, nontrivial=lambda c: True, nsamples=2):
    for c in cases:
        if nontrivial(c):
            ctx.distinct.add(digest(c))
    for c in cases[:nsamples]:
        if len(ctx.samples) < 8:
            ctx.samples.append(c)
