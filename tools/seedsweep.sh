#!/bin/sh
# usage: tools/seedsweep.sh "<seeds>" [props...] - runs the quick tier of every check with several seeds on the current tree
SEEDS=${1:-"2 3 7 11"}; shift
PROPS=${@:-"C01 C02 C03 C04 C05 C06 C07 C08 C09 C10 C11 C12 C13 C14 C15 C16 C17 C18 C19 C20"}
for s in $SEEDS; do for p in $PROPS; do
  VERIF_SEED=$s ./check $p --tier quick > /tmp/sweep.$$.out 2>/tmp/sweep.$$.err; rc=$?
  echo "seed=$s $p rc=$rc $(grep -E '^VIOLATION|sig=' /tmp/sweep.$$.out | head -2 | tr '\n' ' ' | cut -c1-200) $( [ $rc -eq 2 ] && tail -2 /tmp/sweep.$$.err | tr '\n' ' ' | cut -c1-200)"
done; done
rm -f /tmp/sweep.$$.*
