#!/bin/sh
# Offline setup: build the Go driver once against /repo (proves the toolchain and module cache are usable)
# and parse every specification with SANY.
set -e
cd "$(dirname "$0")/.."
export GOFLAGS=-mod=mod GOPROXY=off GOSUMDB=off GOTOOLCHAIN=local CGO_ENABLED=0
T=$(mktemp -d "${TMPDIR:-/tmp}/verif-setup.XXXXXX")
trap 'rm -rf "$T"' EXIT
cp -r harness "$T/harness"
cp /repo/go.sum "$T/harness/go.sum"
(cd "$T/harness" && go build -tags verif -o "$T/drive" ./cmd/drive)
cp specs/*.tla "$T/"
fail=0
for f in "$T"/*.tla; do
  case "$f" in *.tmpl.tla) continue;; esac
  if grep -q '^EXTENDS.*Apalache' "$f"; then
    # Apalache-only module (uses Apalache.tla, which is not on TLC's path): type-check it with Apalache instead
    if ! (cd "$T" && apalache-mc typecheck "$(basename "$f")" >"$T/apa.out" 2>&1); then
      echo "apalache typecheck failed on $f"; tail -5 "$T/apa.out"; fail=1
    fi
    continue
  fi
  if ! (cd "$T" && java -cp /opt/veriftools/tla/tla2tools.jar:/opt/veriftools/tla/CommunityModules-deps.jar tla2sany.SANY "$(basename "$f")" >"$T/sany.out" 2>&1); then
    echo "SANY failed on $f"; tail -5 "$T/sany.out"; fail=1
  fi
done
mkdir -p evidence replays
[ $fail -eq 0 ] && echo "setup ok"
exit $fail
