#!/bin/sh
# usage: tools/confirm_seed.sh <scratch worktree> <k>
# Confirms a sub-agent's seeded change myself: applies _seed/k/patch.diff in the scratch worktree, builds, runs the
# complete existing test suite, runs the demonstration (must fail), reverts, runs it again (must pass).
W=$1; K=$2; S=$W/_seed/$K
export GOFLAGS=-mod=mod GOPROXY=off GOSUMDB=off GOTOOLCHAIN=local
cd "$W" || exit 9
git checkout -q -- . 2>/dev/null
DEMO=$(ls $S/*_test.go 2>/dev/null | head -1)
[ -z "$DEMO" ] && { echo "no demo test in $S"; ls $S; exit 9; }
PKG=$(grep -m1 '^package ' "$DEMO" | awk '{print $2}')
BASE=${PKG%_test}
DIR=$(go list -f '{{.Name}} {{.Dir}}' ./... 2>/dev/null | awk -v b="$BASE" '$1==b {print $2; exit}')
[ -z "$DIR" ] && { echo "cannot place demo package $PKG"; exit 9; }
git apply "$S/patch.diff" || { echo "patch does not apply"; exit 9; }
go build ./... || { echo "BUILD FAILS"; git checkout -q -- .; exit 9; }
go test -vet=off -count=1 ./... > /tmp/confirm.$$.txt 2>&1; T=$?
cp "$DEMO" "$DIR/zz_seed_demo_test.go"
(cd "$DIR" && go test -vet=off -count=1 -run 'Seed|Demo|.' . > /tmp/confirm.$$.with 2>&1); WITH=$?
git checkout -q -- .
(cd "$DIR" && go test -vet=off -count=1 . > /tmp/confirm.$$.without 2>&1); WITHOUT=$?
rm -f "$DIR/zz_seed_demo_test.go"
echo "seed $W/$K: suite-with-change rc=$T demo-with rc=$WITH demo-without rc=$WITHOUT (placed in ${DIR#$W/})"
[ $T -ne 0 ] && grep -v '^ok\|no test files' /tmp/confirm.$$.txt | head -5
[ $WITHOUT -ne 0 ] && tail -5 /tmp/confirm.$$.without
rm -f /tmp/confirm.$$.*
[ $T -eq 0 ] && [ $WITH -ne 0 ] && [ $WITHOUT -eq 0 ] && { echo CONFIRMED; exit 0; }
echo NOT-CONFIRMED; exit 1
