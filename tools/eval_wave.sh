#!/bin/sh
# usage: tools/eval_wave.sh <offset> <parallel> Cxx...   evaluates _seed/1,2 of /tmp/wt/Cxx as seeded/Cxx-(k+offset);
# properties in parallel, the two changes of one property one after the other (they share a scratch worktree)
OFF=$1; PAR=$2; shift 2
mkdir -p /tmp/evalwave
for p in "$@"; do echo "$p $OFF"; done | \
  xargs -P "$PAR" -L 1 sh -c 'cd /verif; for k in 1 2; do n=$0-$((k+$1)); python3 tools/eval_seed.py $0 $k --as $n > /tmp/evalwave/$n.log 2>&1; echo "$n: $(grep "CONFIRMED\|rc=" /tmp/evalwave/$n.log | grep -v "^seed" | tr "\n" " ")"; done'
