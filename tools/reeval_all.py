#!/usr/bin/env python3
"""usage: tools/reeval_all.py [parallel] [prefix]
Re-runs every stored seeded change (seeded/Cxx-k) against the current checks - the checks its meta.json lists as catching
it - in scratch worktrees of /repo's HEAD (tools/eval_seed.py). One line per change; /repo and /verif/evidence untouched."""
import json, os, subprocess, sys
from concurrent.futures import ThreadPoolExecutor
ROOT = os.path.dirname(os.path.dirname(os.path.abspath(__file__)))
par = int(sys.argv[1]) if len(sys.argv) > 1 else 4
prefix = sys.argv[2] if len(sys.argv) > 2 else "C"
names = sorted(d for d in os.listdir(os.path.join(ROOT, "seeded")) if d.startswith(prefix))


def one(name):
    prop, k = name.split("-")
    meta = json.load(open(os.path.join(ROOT, "seeded", name, "meta.json")))
    cs = sorted({c.split("/")[0] for c, r in meta.get("checks", {}).items() if r.get("rc") == 1}) or [prop]
    p = subprocess.run([sys.executable, os.path.join(ROOT, "tools/eval_seed.py"), prop, k, "--as", name, "--noconfirm", "--checks", ",".join(cs)],
                       capture_output=True, text=True, cwd=ROOT)
    rcs = [l.split("rc=")[1][:1] for l in p.stdout.splitlines() if l.startswith("check ") and "rc=" in l]
    return "%s: %s rc=%s%s" % (name, ",".join(cs), ",".join(rcs), "" if rcs and all(x == "1" for x in rcs) else "   <-- NOT CAUGHT / ERROR")


with ThreadPoolExecutor(max_workers=par) as ex:
    for line in ex.map(one, names):
        print(line, flush=True)
