---- MODULE GeoJSONObs ----
(* model B for C07: the real encoder's JSON (parsed by encoding/json into a generic tree, independent of go-geom)
   and the real decoders' results on every document, decided against the GeoJSON specification. *)
EXTENDS GeoJSON, Json, IOUtils
FG == INSTANCE FlatGeom
Recs == ndJsonDeserialize(IOEnv.TRACEFILE)
OK == [ok |-> TRUE, sig |-> ""]
Viol(s) == [ok |-> FALSE, sig |-> s]
WFAll(wf) == \A k \in DOMAIN wf : wf[k].k \in FG!Kinds /\ FG!WellFormedObj(wf[k])
CanonF(f) == [f EXCEPT !.geom = IF @ = NOGEOM THEN NOGEOM ELSE Canon(@)]
VGeom(r) ==
  LET g == r.case.g IN
  CASE r.pan # "" -> Viol("geojson|encode-or-decode|panic")
    [] r.encerr # "" -> Viol("geojson|Marshal|error|" \o g.t)
    [] r.json # EncGeom(g) -> Viol("geojson|Marshal|json-differs|" \o g.t)
    [] RoundTrips(g) /\ r.backerr # "" -> Viol("geojson|roundtrip|error|" \o g.t)
    [] RoundTrips(g) /\ r.back # Canon(g) -> Viol("geojson|roundtrip|differs|" \o g.t)
    [] r.backerr = "" /\ ~WFAll(r.wf) -> Viol("geojson|Unmarshal|ill-formed|" \o g.t)
    [] OTHER -> OK
VFeat(r) ==
  LET f == r.case.f IN
  CASE r.pan # "" -> Viol("geojson|feature|panic")
    [] r.encerr # "" -> Viol("geojson|feature|Marshal-error")
    [] r.json # EncFeature(f) -> Viol("geojson|feature|json-differs")
    [] r.backerr # "" -> Viol("geojson|feature|roundtrip-error")
    [] r.back.id # f.id -> Viol("geojson|feature|id")
    [] r.back.bbox # f.bbox -> Viol("geojson|feature|bbox")
    [] r.back.props # f.props -> Viol("geojson|feature|properties")
    [] r.back.geom # CanonF(f).geom -> Viol("geojson|feature|geometry")
    [] OTHER -> OK
VFc(r) ==
  LET fc == r.case.fc IN
  CASE r.pan # "" -> Viol("geojson|featurecollection|panic")
    [] r.encerr # "" -> Viol("geojson|featurecollection|Marshal-error")
    [] r.json # EncFC(fc) -> Viol("geojson|featurecollection|json-differs")
    [] r.backerr # "" -> Viol("geojson|featurecollection|roundtrip-error")
    [] r.back.bbox # fc.bbox -> Viol("geojson|featurecollection|bbox")
    [] r.back.features # [i \in DOMAIN fc.features |-> CanonF(fc.features[i])] -> Viol("geojson|featurecollection|features")
    [] OTHER -> OK
\* For an arbitrary JSON document the property demands totality and a well-formed result - whether a malformed
\* document is accepted or rejected, and how odd members (a null ordinate, a numeric id) are read, is left to the
\* implementation.  WHAT must come back is fixed only for standard documents: those the specification's decoder
\* accepts and whose value re-encodes to exactly the same document (the image of the encoder on the round-trip domain).
StdFeat(f) == "nil" \notin DOMAIN f /\ (f.geom = NOGEOM \/ RoundTrips(f.geom))
Standard(kind, doc, d) ==
  /\ d.ok
  /\ CASE kind = "geom" -> d.v # NOGEOM /\ RoundTrips(d.v) /\ EncGeom(d.v) = doc
        [] kind = "feature" -> StdFeat(d.v) /\ EncFeature(d.v) = doc
        [] OTHER -> (\A i \in DOMAIN d.v.features : StdFeat(d.v.features[i])) /\ EncFC(d.v) = doc
VDec(r) ==
  LET kind == r.case.kind
      d == CASE kind = "geom" -> DecGeom(r.case.doc) [] kind = "feature" -> DecFeature(r.case.doc) [] OTHER -> DecFC(r.case.doc)
      std == Standard(kind, r.case.doc, d) IN
  CASE r.pan # "" -> Viol("geojson|decode|" \o kind \o "|panic")
    [] r.ok /\ ~WFAll(r.wf) -> Viol("geojson|decode|" \o kind \o "|ill-formed")
    [] std /\ ~r.ok -> Viol("geojson|decode|" \o kind \o "|rejects-standard-document")
    [] std /\ kind = "geom" /\ r.g # d.v -> Viol("geojson|decode|geom|value-differs")
    [] std /\ kind # "geom" /\ r.f # d.v -> Viol("geojson|decode|" \o kind \o "|value-differs")
    [] OTHER -> OK
Verdict(r) ==
  IF r.ev # "ok" THEN Viol("geojson|" \o r.ev)
  ELSE CASE r.case.fam = "geom" -> VGeom(r) [] r.case.fam = "feat" -> VFeat(r) [] r.case.fam = "fc" -> VFc(r) [] OTHER -> VDec(r)
VARIABLES i, bad
Init == i = 1 /\ bad = 0
Next == /\ i <= Len(Recs)
        /\ LET v == Verdict(Recs[i]) IN
           /\ IF v.ok THEN TRUE ELSE PrintT(<<"VIOL", ToJson([i |-> i, sig |-> v.sig])>>)
           /\ bad' = IF v.ok THEN bad ELSE bad + 1
        /\ i' = i + 1
Done == i = Len(Recs) + 1 => PrintT(<<"SUMMARY", ToJson([n |-> Len(Recs), bad |-> bad])>>)
====
