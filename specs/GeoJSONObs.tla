---- MODULE GeoJSONObs ----
(* model B for C07: the real encoder's JSON (parsed by encoding/json into a generic tree, independent of go-geom)
   and the real decoders' results on every document, decided against the GeoJSON specification. *)
EXTENDS GeoJSON, Json, IOUtils
FG == INSTANCE FlatGeom
Recs == ndJsonDeserialize(IOEnv.TRACEFILE)
OK == [ok |-> TRUE, sig |-> ""]
Viol(s) == [ok |-> FALSE, sig |-> s]
WFAll(wf) == \A k \in DOMAIN wf : wf[k].k \in FG!Kinds /\ FG!WellFormedObj(wf[k])
CanonF(f) == [f EXCEPT !.geom = IF @ = NOGEOM THEN NOGEOM ELSE Canon(@)]
\* comparing two geometry / feature values whose shapes may differ: TLC refuses to compare an ordinate with a sequence,
\* so the type is looked at first (a result of another type is a difference, not an evaluation error)
RECURSIVE SameG(_, _)
SameG(a, b) == /\ a.t = b.t /\ a.l = b.l
               /\ IF a.t = "GC" THEN Len(a.body) = Len(b.body) /\ \A i \in DOMAIN a.body : SameG(a.body[i], b.body[i])
                  ELSE a.body = b.body
\* "a MultiPoint with an empty member cannot be read back" (carve-out of the quantifier): a geometry that holds such a multipoint,
\* at any depth, is outside the property's domain - how its empty member is written (null, an empty array) and whether the encoder
\* accepts it at all is left open.  For it: no panic, and whatever the decoder accepts of the emitted text is well formed.
RECURSIVE Carved(_)
Carved(g) == IF g.t = "GC" THEN \E k \in DOMAIN g.body : Carved(g.body[k]) ELSE HasNilMember(g)
VGeom(r) ==
  LET g == r.case.g  dom == ~Carved(g) IN
  CASE r.pan # "" -> Viol("geojson|encode-or-decode|panic")
    [] dom /\ r.encerr # "" -> Viol("geojson|Marshal|error|" \o g.t)
    [] dom /\ r.json # EncGeom(g) -> Viol("geojson|Marshal|json-differs|" \o g.t)
    [] RoundTrips(g) /\ r.backerr # "" -> Viol("geojson|roundtrip|error|" \o g.t)
    [] RoundTrips(g) /\ ~SameG(r.back, Canon(g)) -> Viol("geojson|roundtrip|differs|" \o g.t)
    [] r.backerr = "" /\ ~WFAll(r.wf) -> Viol("geojson|Unmarshal|ill-formed|" \o g.t)
    \* the same through geojson.Encode and (*Geometry).Decode
    [] dom /\ r.encerr2 # "" -> Viol("geojson|Encode|error|" \o g.t)
    [] dom /\ r.json2 # EncGeom(g) -> Viol("geojson|Encode|json-differs|" \o g.t)
    [] RoundTrips(g) /\ r.backerr2 # "" -> Viol("geojson|Encode-Decode|error|" \o g.t)
    [] RoundTrips(g) /\ ~SameG(r.back2, Canon(g)) -> Viol("geojson|Encode-Decode|differs|" \o g.t)
    [] r.backerr2 = "" /\ ~WFAll(r.wf2) -> Viol("geojson|Decode|ill-formed|" \o g.t)
    [] OTHER -> OK
\* properties: a null member and an empty object are the same "no properties" (nil versus empty is not promised)
NoProps(p) == p[1] = "null" \/ (p[1] = "o" /\ p[2] = <<>>)
SameProps(a, b) == IF NoProps(a) THEN NoProps(b) ELSE a = b
FeatBack(back, f, api) ==
  CASE back.id # f.id -> Viol("geojson|feature|id" \o api)
    [] back.bbox # f.bbox -> Viol("geojson|feature|bbox" \o api)
    [] ~SameProps(back.props, f.props) -> Viol("geojson|feature|properties" \o api)
    [] ~SameG(back.geom, CanonF(f).geom) -> Viol("geojson|feature|geometry" \o api)
    [] OTHER -> OK
VFeat(r) ==
  LET f == r.case.f IN
  CASE r.pan # "" -> Viol("geojson|feature|panic")
    [] r.encerr # "" -> Viol("geojson|feature|Marshal-error")
    [] r.json # EncFeature(f) -> Viol("geojson|feature|json-differs")
    [] r.backerr # "" -> Viol("geojson|feature|roundtrip-error")
    [] ~FeatBack(r.back, f, "").ok -> FeatBack(r.back, f, "")
    \* the same through Feature.MarshalJSON / Feature.UnmarshalJSON called directly
    [] r.encerr2 # "" -> Viol("geojson|feature|MarshalJSON-error")
    [] r.json2 # EncFeature(f) -> Viol("geojson|feature|MarshalJSON|json-differs")
    [] r.backerr2 # "" -> Viol("geojson|feature|UnmarshalJSON|roundtrip-error")
    [] OTHER -> FeatBack(r.back2, f, "|UnmarshalJSON")
SameFeats(back, fs) == Len(back) = Len(fs) /\ \A i \in DOMAIN fs : "nil" \notin DOMAIN back[i] /\ FeatBack(back[i], fs[i], "").ok
VFc(r) ==
  LET fc == r.case.fc IN
  CASE r.pan # "" -> Viol("geojson|featurecollection|panic")
    [] r.encerr # "" -> Viol("geojson|featurecollection|Marshal-error")
    [] r.json # EncFC(fc) -> Viol("geojson|featurecollection|json-differs")
    [] r.backerr # "" -> Viol("geojson|featurecollection|roundtrip-error")
    [] r.back.bbox # fc.bbox -> Viol("geojson|featurecollection|bbox")
    [] ~SameFeats(r.back.features, fc.features) -> Viol("geojson|featurecollection|features")
    [] r.encerr2 # "" -> Viol("geojson|featurecollection|MarshalJSON-error")
    [] r.json2 # EncFC(fc) -> Viol("geojson|featurecollection|MarshalJSON|json-differs")
    [] r.backerr2 # "" -> Viol("geojson|featurecollection|UnmarshalJSON|roundtrip-error")
    [] r.back2.bbox # fc.bbox -> Viol("geojson|featurecollection|UnmarshalJSON|bbox")
    [] ~SameFeats(r.back2.features, fc.features) -> Viol("geojson|featurecollection|UnmarshalJSON|features")
    [] OTHER -> OK
\* For an arbitrary input the property demands totality and a well-formed result - whether a malformed
\* document is accepted or rejected, and how odd members (a null ordinate, foreign members, keys in another letter
\* case, duplicate keys) are read, is left to the implementation.  WHAT must come back is fixed only for standard
\* documents: those the specification's decoder accepts and whose value re-encodes to exactly the same document (the
\* image of the encoder on the round-trip domain).  case.doc is the JSON value the input bytes denote when the
\* generator knows it (a rendering of a tree that differs from the canonical one only in white space, member order and
\* the spelling of numbers and strings); <<"x", ...>> when it does not (mutated bytes): then only totality is demanded.
RECURSIVE NoRaw(_)
NoRaw(j) == CASE j[1] = "x" -> FALSE
              [] j[1] = "a" -> \A i \in DOMAIN j[2] : NoRaw(j[2][i])
              [] j[1] = "o" -> \A i \in DOMAIN j[2] : NoRaw(j[2][i][2])
              [] OTHER -> TRUE
StdFeat(f) == "nil" \notin DOMAIN f /\ (f.geom = NOGEOM \/ RoundTrips(f.geom))
Standard(kind, doc, d) ==
  /\ d.ok /\ NoRaw(doc)         \* number literals beyond the small integer tokens: formatting is not this property's subject
  /\ CASE kind = "geom" -> d.v # NOGEOM /\ RoundTrips(d.v) /\ EncGeom(d.v) = doc
        [] kind = "feature" -> StdFeat(d.v) /\ EncFeature(d.v) = doc
        [] OTHER -> (\A i \in DOMAIN d.v.features : StdFeat(d.v.features[i])) /\ EncFC(d.v) = doc
Dec(kind, doc) == CASE kind = "geom" -> DecGeom(doc) [] kind = "feature" -> DecFeature(doc) [] OTHER -> DecFC(doc)
\* ---- numeric ids.  "Features ... keep their id ... across a round trip", "all Feature ids (string, number, absent)":
\* for a document that is standard apart from the numbers its features carry as ids, decoding must succeed, everything but
\* the id is what the standard document without the id gives, and the document the encoder makes of the result carries
\* an id - as a JSON number or as a string, the library's Feature.ID being a string - that denotes the same number.
\* Both numbers are recorded in a canonical spelling (sign, significant digits, power of ten); a number with more than
\* 15 significant digits or outside the range of a float64 is not held to that (JSON numbers are doubles to most readers).
IsNumTok(j) == j[1] \in {"n", "x"}
HasNumId(fd) == IsObj(fd) /\ Has(fd, "id") /\ IsNumTok(Get(fd, "id"))
DropId(fd) == Obj(SelectSeq(fd[2], LAMBDA kv : kv[1] # "id"))
DropNumId(fd) == IF HasNumId(fd) THEN DropId(fd) ELSE fd
OnMembers(doc, F(_)) ==          \* F applied to every member document of a FeatureCollection document
  IF IsObj(doc) /\ Has(doc, "features") /\ Get(doc, "features")[1] = "a"
  THEN Obj([i \in DOMAIN doc[2] |-> IF doc[2][i][1] = "features"
                                      THEN <<"features", Arr([k \in DOMAIN doc[2][i][2][2] |-> F(doc[2][i][2][2][k])])>>
                                      ELSE doc[2][i]])
  ELSE doc
DropNumIds(kind, doc) == CASE kind = "feature" -> DropNumId(doc) [] kind = "fc" -> OnMembers(doc, DropNumId) [] OTHER -> doc
DropAnyId(fd) == IF IsObj(fd) /\ Has(fd, "id") THEN DropId(fd) ELSE fd
DropIds(kind, doc) == CASE kind = "feature" -> DropAnyId(doc) [] kind = "fc" -> OnMembers(doc, DropAnyId) [] OTHER -> doc
Members(kind, doc) == IF kind = "feature" THEN <<doc>> ELSE Get(doc, "features")[2]      \* of a document that is Standard once its numeric ids are dropped
SameF(a, b) == "nil" \notin DOMAIN a /\ a.id = b.id /\ a.bbox = b.bbox /\ SameProps(a.props, b.props) /\ SameG(a.geom, b.geom)
\* the same leniency for documents: a Feature document whose "properties" member is an empty object is read as one with null
NormP(fd) == IF IsObj(fd) /\ Has(fd, "properties") /\ NoProps(Get(fd, "properties"))
             THEN Obj([k \in DOMAIN fd[2] |-> IF fd[2][k][1] = "properties" THEN <<"properties", Null>> ELSE fd[2][k]])
             ELSE fd
NormProps(kind, doc) == CASE kind = "feature" -> NormP(doc) [] kind = "fc" -> OnMembers(doc, NormP) [] OTHER -> doc
SameV(kind, a, b) == IF kind = "feature" THEN SameF(a, b)
                     ELSE a.bbox = b.bbox /\ Len(a.features) = Len(b.features) /\ \A k \in DOMAIN b.features : SameF(a.features[k], b.features[k])
Blank(f) == IF "id" \in DOMAIN f THEN [f EXCEPT !.id = ""] ELSE f
BlankNumIds(kind, doc, v) ==       \* the decoded value with the ids of the members that carry a number blanked
  IF kind = "feature" THEN Blank(v)
  ELSE IF Len(v.features) # Len(Members(kind, doc)) THEN v
  ELSE [v EXCEPT !.features = [k \in DOMAIN @ |-> IF HasNumId(Members(kind, doc)[k]) THEN Blank(@[k]) ELSE @[k]]]
InDouble(a) == a.k = "n" /\ a.nd <= 15 /\ a.mag >= -300 /\ a.mag <= 300
\* A numeric id comes back as the same number: as a JSON number, or as a string that spells it. The string is the text that was
\* read, or a plain decimal; an exponent spelling the document did not use is a different key for anything that looks the id up
\* ("1234567" read, "1.234567e+06" kept), except where every common printer switches to exponents (JavaScript: >= 1e21, < 1e-6).
IdSpelling(a, b) == b.k = "s" => (b.form = "plain" \/ b.s = a.lit \/ a.mag > 21 \/ a.mag < -5)
IdKept(a, b) == b.k \in {"s", "n"} /\ b.num = a.num /\ IdSpelling(a, b)
IdsInDouble(kind, doc, idin) ==
  /\ Len(idin) = Len(Members(kind, doc))
  /\ \A k \in DOMAIN idin : HasNumId(Members(kind, doc)[k]) => InDouble(idin[k])
IdsKept(kind, doc, idin, reid) ==
  /\ Len(reid) = Len(idin)
  /\ \A k \in DOMAIN idin : HasNumId(Members(kind, doc)[k]) => IdKept(idin[k], reid[k])
\* one decoding entry point's record against the specification
VRun(r, x, kind, d, std, doc2, d2, std2) ==
  LET tag == "geojson|decode|" \o kind \o "|"  api == "|" \o x.api IN
  CASE x.pan # "" -> Viol(tag \o "panic" \o api)
    [] x.ok /\ ~WFAll(x.wf) -> Viol(tag \o "ill-formed" \o api)
    [] std /\ ~x.ok -> Viol(tag \o "rejects-standard-document" \o api)
    [] std /\ kind = "geom" /\ ~SameG(x.g, d.v) -> Viol(tag \o "value-differs" \o api)
    [] std /\ kind # "geom" /\ ~SameV(kind, x.f, d.v) -> Viol(tag \o "value-differs" \o api)
    [] std /\ x.re # "" -> Viol(tag \o "re-encode-error" \o api)
    [] std /\ NormProps(kind, x.rejson) # NormProps(kind, r.case.doc) -> Viol(tag \o "re-encoded-differs" \o api)
    [] std2 /\ ~x.ok -> Viol(tag \o "rejects-numeric-id" \o api)
    [] std2 /\ ~SameV(kind, BlankNumIds(kind, r.case.doc, x.f), d2.v) -> Viol(tag \o "numeric-id|value-differs" \o api)
    [] std2 /\ x.re # "" -> Viol(tag \o "numeric-id|re-encode-error" \o api)
    [] std2 /\ NormProps(kind, DropIds(kind, x.rejson)) # NormProps(kind, DropIds(kind, r.case.doc)) -> Viol(tag \o "numeric-id|re-encoded-differs" \o api)
    [] std2 /\ ~IdsKept(kind, r.case.doc, r.idin, x.reid) -> Viol(tag \o "numeric-id|id-not-kept" \o api)
    [] OTHER -> OK
VDec(r) ==
  LET kind == r.case.kind
      doc == r.case.doc
      d == Dec(kind, doc)
      std == Standard(kind, doc, d)
      doc2 == DropNumIds(kind, doc)
      d2 == Dec(kind, doc2)
      std2 == doc2 # doc /\ Standard(kind, doc2, d2) /\ IdsInDouble(kind, doc, r.idin)
      vs == [k \in DOMAIN r.runs |-> VRun(r, r.runs[k], kind, d, std, doc2, d2, std2)] IN
  IF \A k \in DOMAIN vs : vs[k].ok THEN OK ELSE vs[CHOOSE k \in DOMAIN vs : ~vs[k].ok /\ \A j \in DOMAIN vs : j < k => vs[j].ok]
\* A result is a value: the bytes an encoder handed out still hold what they held at the return when the same entry point has
\* been called again (the driver keeps the previous result of every entry point alive and lists the ones that changed).
Overwritten(r) == IF "overwritten" \in DOMAIN r THEN r.overwritten ELSE <<>>
Verdict(r) ==
  IF r.ev # "ok" THEN Viol("geojson|" \o r.ev)
  ELSE IF Overwritten(r) # <<>> THEN Viol("geojson|result-overwritten-by-a-later-call|" \o Overwritten(r)[1])
  ELSE CASE r.case.fam = "geom" -> VGeom(r) [] r.case.fam = "feat" -> VFeat(r) [] r.case.fam = "fc" -> VFc(r) [] OTHER -> VDec(r)
VARIABLES i, bad
Init == i = 1 /\ bad = 0
Next == /\ i <= Len(Recs)
        /\ LET v == Verdict(Recs[i]) IN
           /\ IF v.ok THEN TRUE ELSE PrintT(<<"VIOL", ToJson([i |-> i, sig |-> v.sig])>>)
           /\ bad' = IF v.ok THEN bad ELSE bad + 1
        /\ i' = i + 1
Done == i = Len(Recs) + 1 => PrintT(<<"SUMMARY", ToJson([n |-> Len(Recs), bad |-> bad])>>)
====
