---- MODULE WKBObs ----
(* model B for C03: what the real encoders / decoders / stream functions / hex and SQL wrappers did on a
   geometry of the model, decided against the reference encoder Enc and the reference decoder Decode. *)
EXTENDS WKB, Json, IOUtils
Recs == ndJsonDeserialize(IOEnv.TRACEFILE)
Min2(a, c) == IF a <= c THEN a ELSE c
DFlavor(f) == IF f = "ewkb" THEN "ewkb" ELSE "wkb"
Nibbles(bs) == Cat([i \in DOMAIN bs |-> <<bs[i] \div 16, bs[i] % 16>>])
WrapOf(t) == t                                  \* wrapper names equal type names; "ANY" accepts everything

Clause(r) ==
  LET g == r.case.g  fl == r.case.flavor
      sym == Enc(g, r.case.order, fl)
      want == Concrete(sym, r.img)
      n == Len(want)
      canon == Canon(g, fl)
      ndr == Concrete(Enc(g, "NDR", fl), r.img) IN
  CASE r.ev # "ok" -> r.ev
    [] sym = <<>> -> (IF r.enc.ok THEN "encoded-the-unencodable" ELSE "ok")
    [] ~r.enc.ok -> "encode-error"
    [] r.enc.bytes # want -> "bytes-differ"
    [] ~r.dec.ok -> "decode-error:" \o r.dec.err
    [] r.dec.g # canon -> "decode-differs"
    [] r.dec.consumed # n -> "decode-consumed"
    [] LET d == Decode(want, DFlavor(fl), fl = "wkbnan", <<-1, -1, -1>>) IN
       ~(d.ok /\ d.pos = n /\ d.g = ConcG(canon, r.img)) -> "reference-decoder-disagrees"
    [] \E k \in DOMAIN r.wr : r.wr[k].err # (r.wr[k].f < n) -> "writer-error-not-reported"
    [] \E k \in DOMAIN r.wr : r.wr[k].n # Min2(r.wr[k].f, n) -> "writer-byte-count"
    [] \E k \in DOMAIN r.wrs : r.wrs[k].bytes # SubSeq(want, 1, Min2(r.wrs[k].f, n)) -> "writer-not-a-prefix"
    [] \E k \in DOMAIN r.rd : ~r.rd[k].zero /\
          ~(r.rd[k].ok1 /\ r.rd[k].ok2 /\ r.rd[k].d1 = r.digest /\ r.rd[k].d2 = r.digest
            /\ r.rd[k].c1 = n /\ r.rd[k].c2 = 2 * n) -> "stream-read"
    [] \E k \in DOMAIN r.rd : r.rd[k].zero /\
          ~(r.rd[k].ok1 /\ r.rd[k].ok2 /\ r.rd[k].d1 = r.digest /\ r.rd[k].d2 = r.digest
            /\ r.rd[k].c1 = n /\ r.rd[k].c2 = 2 * n) -> "stream-read-zero-length-delivery"
    \* (the letter case of the hex digits is not prescribed: both cases must DEcode, next clause)
    [] ~(r.hex.ok /\ r.hex.nib = Nibbles(want)) -> "hex-encode"
    [] r.hex.dlow # r.digest \/ r.hex.dup # r.digest -> "hex-decode"
    [] \E k \in DOMAIN r.sql : LET e == r.sql[k] IN
          \/ e.str # "error"
          \/ (IF e.w = "ANY" \/ e.w = g.t
              THEN ~(e.scan = "none" /\ e.valok /\ e.val = ndr)
              ELSE e.scan # "wrongtype") -> "sql-wrapper"
    [] OTHER -> "ok"
VARIABLES i, bad
Init == i = 1 /\ bad = 0
Next == /\ i <= Len(Recs)
        /\ LET r == Recs[i]  c == Clause(r) IN
           /\ IF c = "ok" THEN TRUE
              ELSE PrintT(<<"VIOL", ToJson([i |-> i, sig |-> "wkb|" \o c, flavor |-> r.case.flavor, t |-> r.case.g.t])>>)
           /\ bad' = IF c = "ok" THEN bad ELSE bad + 1
        /\ i' = i + 1
Done == i = Len(Recs) + 1 => PrintT(<<"SUMMARY", ToJson([n |-> Len(Recs), bad |-> bad])>>)
====
