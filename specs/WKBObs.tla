---- MODULE WKBObs ----
(* model B for C03: what the real encoders / decoders / stream functions / hex and SQL wrappers did on a
   geometry of the model, decided against the reference encoder Enc and the reference decoder Decode. *)
EXTENDS WKB, Json, IOUtils
FG == INSTANCE FlatGeom
Recs == ndJsonDeserialize(IOEnv.TRACEFILE)
Min2(a, c) == IF a <= c THEN a ELSE c
DFlavor(f) == IF f = "ewkb" THEN "ewkb" ELSE "wkb"
Nibbles(bs) == Cat([i \in DOMAIN bs |-> <<bs[i] \div 16, bs[i] % 16>>])
WrapOf(t) == t                                  \* wrapper names equal type names; "ANY" accepts everything

\* every geometry a decoder handed out in this case (Read, Unmarshal, hex Decode, Scan), as the Go API shows it
IllFormed(r) == \E k \in DOMAIN r.wf : ~(r.wf[k].k \in FG!Kinds /\ FG!WellFormedObj(r.wf[k]))
\* the geometry has no encoding and Marshal refused it: every other encoder (stream, hex, Value of a directly populated
\* wrapper) must not panic, and must refuse too or hand out bytes that decode back to the geometry
Refused(r, canon) ==
  IF \E k \in DOMAIN r.ne : r.ne[k].ev # "ok" THEN "panic-on-unencodable"
  ELSE IF \E k \in DOMAIN r.ne : r.ne[k].ok /\ ~(r.ne[k].dec.ok /\ r.ne[k].dec.g = canon) THEN "encoded-the-unencodable"
  ELSE "ok"
\* a source that is not a byte slice (nil, a string, an integer): no panic; refused, taken as NULL, or a geometry (then in r.wf)
OtherSrc(v) == v \in {"error", "null", "geom"}
\* Value() takes no byte order: the standard encoding in EITHER order is "the same encoding" (std = {NDR image, XDR image}).
\* A wrapper of the wrong type "reports an error": any error ("wrongtype" = wkbcommon.ErrUnexpectedType, "error" = any other),
\* not a panic, not success, not NULL.
SqlEntry(e, g, std, digest) ==
  /\ OtherSrc(e.str) /\ OtherSrc(e.int) /\ OtherSrc(e.nil)
  /\ IF e.w = "ANY" \/ e.w = g.t
     THEN /\ e.scan = "none" /\ e.valok /\ e.val \in std /\ e.d = digest            \* the NDR encoding is accepted ...
          /\ e.xscan = "none" /\ e.xvalok /\ e.xval \in std /\ e.xd = digest        \* ... and so is the XDR encoding
     ELSE e.scan \in {"wrongtype", "error"} /\ e.xscan \in {"wrongtype", "error"}

\* A result is a value: the bytes an encoder handed out still hold what they held at the return when the same entry point has
\* been called again (the driver keeps the previous result of every entry point alive and lists the ones that changed).
Overwritten(r) == IF "overwritten" \in DOMAIN r THEN r.overwritten ELSE <<>>
Clause(r) ==
  LET g == r.case.g  fl == r.case.flavor
      sym == Enc(g, r.case.order, fl)
      \* member SRIDs in EWKB are left open (see WKB!StripM): the bytes are then judged by what the reference DECODER
      \* reads from them, and the stream / hex / SQL variants by their agreement with Marshal
      open == fl = "ewkb" /\ HasMemberSrid(g)
      canon == Canon(g, fl)
      \* a decoded tree is ALWAYS compared without its members' SRIDs (only the outermost SRID is promised; canon has none)
      M(x) == IF open THEN StripM(x) ELSE StripMS(x)
      want == IF open THEN r.enc.bytes ELSE Concrete(sym, r.img)
      n == Len(want)
      ndr == IF open THEN r.ndr ELSE Concrete(Enc(g, "NDR", fl), r.img)
      xdr == IF open THEN r.xdr ELSE Concrete(Enc(g, "XDR", fl), r.img)
      RefReads(bs) == LET d == Decode(bs, DFlavor(fl), fl = "wkbnan", <<-1, -1, -1>>) IN
                      d.ok /\ d.pos = Len(bs) /\ M(d.g) = ConcG(canon, r.img) IN
  CASE r.ev # "ok" -> r.ev
    [] Overwritten(r) # <<>> -> "result-overwritten-by-a-later-call:" \o Overwritten(r)[1]
    [] IllFormed(r) -> "ill-formed-result"
    [] sym = <<>> -> (IF ~r.enc.ok THEN Refused(r, canon)
                     ELSE IF r.dec.ok /\ r.dec.g = canon THEN "ok" ELSE "encoded-the-unencodable")
    [] ~r.enc.ok -> (IF open THEN "ok" ELSE "encode-error")          \* (open: whether such a geometry is encodable at all)
    [] r.enc.bytes # want -> "bytes-differ"
    [] ~r.dec.ok -> "decode-error:" \o r.dec.err
    [] M(r.dec.g) # canon -> "decode-differs"
    [] r.dec.consumed # n -> "decode-consumed"
    [] ~RefReads(want) -> (IF open THEN "bytes-differ:member-srid" ELSE "reference-decoder-disagrees")
    [] open /\ ~(RefReads(ndr) /\ RefReads(xdr)) -> "bytes-differ:member-srid"
    [] \E k \in DOMAIN r.wr : r.wr[k].err # (r.wr[k].f < n) -> "writer-error-not-reported"
    [] \E k \in DOMAIN r.wr : r.wr[k].n # Min2(r.wr[k].f, n) -> "writer-byte-count"
    [] \E k \in DOMAIN r.wrs : r.wrs[k].bytes # SubSeq(want, 1, Min2(r.wrs[k].f, n)) -> "writer-not-a-prefix"
    [] \E k \in DOMAIN r.rd : ~r.rd[k].zero /\
          ~(r.rd[k].ok1 /\ r.rd[k].ok2 /\ r.rd[k].d1 = r.digest /\ r.rd[k].d2 = r.digest
            /\ r.rd[k].c1 = n /\ r.rd[k].c2 = 2 * n) -> "stream-read"
    [] \E k \in DOMAIN r.rd : r.rd[k].zero /\
          ~(r.rd[k].ok1 /\ r.rd[k].ok2 /\ r.rd[k].d1 = r.digest /\ r.rd[k].d2 = r.digest
            /\ r.rd[k].c1 = n /\ r.rd[k].c2 = 2 * n) -> "stream-read-zero-length-delivery"
    \* (the letter case of the hex digits is not prescribed: both cases must DEcode, next clause)
    [] ~(r.hex.ok /\ r.hex.nib = Nibbles(want)) -> "hex-encode"
    [] r.hex.dlow # r.digest \/ r.hex.dup # r.digest -> "hex-decode"
    [] \E k \in DOMAIN r.sql : ~SqlEntry(r.sql[k], g, {ndr, xdr}, r.digest) -> "sql-wrapper"
    \* Value() of a wrapper populated directly (not by Scan) is the standard encoding too (either byte order)
    [] \E k \in DOMAIN r.sqlv : ~(r.sqlv[k].ev = "ok" /\ r.sqlv[k].ok /\ r.sqlv[k].val \in {ndr, xdr}) -> "sql-value"
    [] OTHER -> "ok"
VARIABLES i, bad
Init == i = 1 /\ bad = 0
Next == /\ i <= Len(Recs)
        /\ LET r == Recs[i]  c == Clause(r) IN
           /\ IF c = "ok" THEN TRUE
              ELSE PrintT(<<"VIOL", ToJson([i |-> i, sig |-> "wkb|" \o c, flavor |-> r.case.flavor, t |-> r.case.g.t])>>)
           /\ bad' = IF c = "ok" THEN bad ELSE bad + 1
        /\ i' = i + 1
Done == i = Len(Recs) + 1 => PrintT(<<"SUMMARY", ToJson([n |-> Len(Recs), bad |-> bad])>>)
====
