SPECIFICATION Spec
INVARIANT ResultsAreValues
CONSTANTS
  NProc = 2
  AllowWrite = FALSE
  AllowAlias = FALSE
  AllowPool = TRUE
  MaxCalls = 2
