INIT Init
NEXT Next
INVARIANT Laws Emit
CONSTANTS
  Family = "ovpt"
  MaxLen = 0
  Rich = FALSE
