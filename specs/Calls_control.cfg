SPECIFICATION Spec
INVARIANT SequentialResults
CONSTANTS
  NProc = 2
  AllowWrite = TRUE
  MaxCalls = 2
