SPECIFICATION Spec
INVARIANT SequentialResults
CONSTANTS
  NProc = 2
  AllowWrite = TRUE
  AllowAlias = FALSE
  AllowPool = FALSE
  MaxCalls = 2
