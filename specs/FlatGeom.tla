---- MODULE FlatGeom ----
(* The intended flat-coordinate representation of go-geom's geometry types (C01), stated on values:
   what flat/ends/endss MUST be for a nested coordinate value, and what the value of a representation is.
   Written from the documented representation (INTERNALS.md: "ends are cumulative offsets into one flat
   array"), not from the Go loops.  Variable-free: read by TLC exploration, by the observation checker
   and by the other modules.

   ordinate  = opaque token (a natural number; the harness instantiates tokens with float64 bit patterns)
   coord     = Seq(ordinate)          NIL = a nil multipoint member
   kinds     : "PT" "LS" "LR" (value = Seq(coord), PT: coord or <<>>), "PG" "MLS" (Seq(Seq(coord))),
               "MPT" (Seq(coord or NIL)), "MPG" (Seq(Seq(Seq(coord))))
   layouts   : "No" "XY" "XYZ" "XYM" "XYZM" "L5" "L6" *)
EXTENDS Integers, Sequences, FiniteSets, SequencesExt

NIL == <<-1>>
Kinds   == {"PT", "LS", "LR", "PG", "MPT", "MLS", "MPG"}
Layouts == {"No", "XY", "XYZ", "XYM", "XYZM", "L5", "L6"}
Stride(l) == CASE l = "No" -> 0 [] l = "XY" -> 2 [] l = "XYZ" -> 3 [] l = "XYM" -> 3
               [] l = "XYZM" -> 4 [] l = "L5" -> 5 [] l = "L6" -> 6 [] OTHER -> -1

Flatten(ss) == FoldLeft(LAMBDA acc, s : acc \o s, <<>>, ss)
LastOr(s, d) == IF s = <<>> THEN d ELSE s[Len(s)]

\* ---------------------------------------------------------------- value -> representation
Deflate1(cs) == Flatten(cs)
RECURSIVE Ends2(_, _)
Ends2(c2, off) == IF c2 = <<>> THEN <<>>
                  ELSE LET e == off + Len(Deflate1(Head(c2))) IN <<e>> \o Ends2(Tail(c2), e)
RECURSIVE Endss3(_, _)
Endss3(c3, off) == IF c3 = <<>> THEN <<>>
                   ELSE LET es == Ends2(Head(c3), off) IN <<es>> \o Endss3(Tail(c3), LastOr(es, off))
RECURSIVE EndsMP(_, _)
EndsMP(cs, off) == IF cs = <<>> THEN <<>>
                   ELSE LET e == IF Head(cs) = NIL THEN off ELSE off + Len(Head(cs)) IN <<e>> \o EndsMP(Tail(cs), e)

Rep(flat, ends, endss) == [flat |-> flat, ends |-> ends, endss |-> endss]
Deflate(k, v) ==
  CASE k = "PT"            -> Rep(v, <<>>, <<>>)
    [] k \in {"LS", "LR"}  -> Rep(Deflate1(v), <<>>, <<>>)
    [] k \in {"PG", "MLS"} -> Rep(Flatten([i \in DOMAIN v |-> Deflate1(v[i])]), Ends2(v, 0), <<>>)
    [] k = "MPT"           -> Rep(Flatten([i \in DOMAIN v |-> IF v[i] = NIL THEN <<>> ELSE v[i]]), EndsMP(v, 0), <<>>)
    [] k = "MPG"           -> Rep(Flatten([i \in DOMAIN v |-> Flatten([j \in DOMAIN v[i] |-> Deflate1(v[i][j])])]),
                                  <<>>, Endss3(v, 0))

\* ---------------------------------------------------------------- representation -> value
Chunk(flat, a, b, s) == IF s = 0 THEN <<>> ELSE [n \in 1..((b - a) \div s) |-> SubSeq(flat, a + (n-1)*s + 1, a + n*s)]
RECURSIVE Inflate2(_, _, _, _)
Inflate2(flat, off, ends, s) ==
  IF ends = <<>> THEN <<>>
  ELSE <<Chunk(flat, off, Head(ends), s)>> \o Inflate2(flat, Head(ends), Tail(ends), s)
RECURSIVE Inflate3(_, _, _, _)
Inflate3(flat, off, endss, s) ==
  IF endss = <<>> THEN <<>>
  ELSE LET es == Head(endss) IN <<Inflate2(flat, off, es, s)>> \o Inflate3(flat, LastOr(es, off), Tail(endss), s)
InflateMP(flat, ends) ==
  [i \in DOMAIN ends |-> LET b == IF i = 1 THEN 0 ELSE ends[i-1] IN
                         IF ends[i] = b THEN NIL ELSE SubSeq(flat, b + 1, ends[i])]
Inflate(k, r, s) ==
  CASE k = "PT"            -> r.flat
    [] k \in {"LS", "LR"}  -> Chunk(r.flat, 0, Len(r.flat), s)
    [] k \in {"PG", "MLS"} -> Inflate2(r.flat, 0, r.ends, s)
    [] k = "MPT"           -> InflateMP(r.flat, r.ends)
    [] k = "MPG"           -> Inflate3(r.flat, 0, r.endss, s)

\* ---------------------------------------------------------------- well-formedness (the C01 predicate)
EndsOK(all, n, s) ==
  /\ \A i \in DOMAIN all : /\ all[i] >= 0
                           /\ (s > 0 => all[i] % s = 0)
                           /\ (i > 1 => all[i-1] <= all[i])
  /\ IF all = <<>> THEN n = 0 ELSE all[Len(all)] = n
WellFormedRep(k, s, r) ==
  LET n == Len(r.flat) IN
  /\ s >= 0
  /\ (s = 0 => n = 0)
  /\ (s > 0 => n % s = 0)
  /\ CASE k = "PT"            -> n \in {0, s} /\ r.ends = <<>> /\ r.endss = <<>>
       [] k \in {"LS", "LR"}  -> r.ends = <<>> /\ r.endss = <<>>
       [] k \in {"PG", "MLS"} -> EndsOK(r.ends, n, s) /\ r.endss = <<>>
       [] k = "MPT"           -> /\ EndsOK(r.ends, n, s) /\ r.endss = <<>>
                                 /\ \A i \in DOMAIN r.ends :
                                      (r.ends[i] - (IF i = 1 THEN 0 ELSE r.ends[i-1])) \in {0, s}
       [] k = "MPG"           -> EndsOK(Flatten(r.endss), n, s) /\ r.ends = <<>>
\* an object as the Go API shows it: [k, l, stride, flat, ends, endss]
WellFormedObj(o) == o.stride = Stride(o.l) /\ WellFormedRep(o.k, o.stride, Rep(o.flat, o.ends, o.endss))

\* ---------------------------------------------------------------- coordinate-length check of SetCoords
CoordsOf(k, v) ==                                  \* all coords of a value, as a sequence
  CASE k = "PT"            -> IF v = <<>> THEN <<>> ELSE <<v>>
    [] k \in {"LS", "LR"}  -> v
    [] k \in {"PG", "MLS"} -> Flatten(v)
    [] k = "MPT"           -> SelectSeq(v, LAMBDA c : c # NIL)
    [] k = "MPG"           -> Flatten([i \in DOMAIN v |-> Flatten(v[i])])
StrideOK(k, v, s) == \A i \in DOMAIN CoordsOf(k, v) : Len(CoordsOf(k, v)[i]) = s

\* ---------------------------------------------------------------- parts (the C02 accessor semantics)
PartKind(k) == CASE k = "PG" -> "LR" [] k = "MLS" -> "LS" [] k = "MPT" -> "PT" [] k = "MPG" -> "PG"
\* the value the i-th part accessor must show (an empty multipoint member reads as the empty point <<>>)
PartVal(k, v, i) == IF k = "MPT" /\ v[i] = NIL THEN <<>> ELSE v[i]
NumParts(k, v) == Len(v)

\* ---------------------------------------------------------------- reversal of every part (C02)
ReverseVal(k, v) ==
  CASE k \in {"LS", "LR"}  -> Reverse(v)
    [] k \in {"PG", "MLS"} -> [i \in DOMAIN v |-> Reverse(v[i])]
    [] k = "MPG"           -> [i \in DOMAIN v |-> [j \in DOMAIN v[i] |-> Reverse(v[i][j])]]
    [] OTHER               -> v                       \* PT, MPT: every part is a single vertex
====
