---- MODULE ExactSums ----
(* Exact measures and centroids (C09, C14): sums over coordinate sequences in integer arithmetic.
   Written from the textbook definitions - the shoelace sum over consecutive vertex pairs, the polyline
   length, the mean / length-weighted / area-weighted centroid - NOT from the trapezoid-relative-to-x0 or
   fan-of-triangles forms the Go code uses, so that agreement is between two different formulas.
   Coordinate sequences are sequences of <<x, y>> (further ordinates, if any, are ignored).
   Lengths: the catalogues of the models only contain segments of integer length; ISqrt is partial. *)
EXTENDS ExactGeom, FiniteSetsExt

RECURSIVE SumTo(_, _)
SumTo(f, n) == IF n = 0 THEN 0 ELSE f[n] + SumTo(f, n - 1)
SumSeq(s) == SumTo(s, Len(s))
ISqrt(n) == CHOOSE r \in 0..n : r * r = n                     \* only applied to perfect squares
IsSquare(n) == \E r \in 0..n : r * r = n
SegIdx(cs) == 1..(IF Len(cs) = 0 THEN 0 ELSE Len(cs) - 1)

\* ---- C09 --------------------------------------------------------------------------------------------
\* doubled signed area of a coordinate sequence taken as a closed ring (first = last): counter-clockwise positive
Area2(cs) == SumSeq([i \in SegIdx(cs) |-> cs[i][1] * cs[i+1][2] - cs[i+1][1] * cs[i][2]])
SqLens(cs) == [i \in SegIdx(cs) |-> Dot2(Sub2(cs[i+1], cs[i]), Sub2(cs[i+1], cs[i]))]
AllIntLens(cs) == \A i \in SegIdx(cs) : IsSquare(SqLens(cs)[i])
Length(cs) == SumSeq([i \in SegIdx(cs) |-> ISqrt(SqLens(cs)[i])])
\* measures of the nested values: a polygon is a sequence of rings, a multi-polygon a sequence of polygons
Area2P(rings) == SumSeq([i \in DOMAIN rings |-> Area2(rings[i])])
Area2MP(polys) == SumSeq([i \in DOMAIN polys |-> Area2P(polys[i])])
LengthP(rings) == SumSeq([i \in DOMAIN rings |-> Length(rings[i])])
LengthMP(polys) == SumSeq([i \in DOMAIN polys |-> LengthP(polys[i])])

\* ---- C14 --------------------------------------------------------------------------------------------
\* centroid numerators of a closed ring: centroid = <<CxN, CyN>> / (3 * Area2)
CxN(cs) == SumSeq([i \in SegIdx(cs) |-> (cs[i][1] + cs[i+1][1]) * (cs[i][1] * cs[i+1][2] - cs[i+1][1] * cs[i][2])])
CyN(cs) == SumSeq([i \in SegIdx(cs) |-> (cs[i][2] + cs[i+1][2]) * (cs[i][1] * cs[i+1][2] - cs[i+1][1] * cs[i][2])])
\* a polygon = shell followed by holes, each ring in EITHER direction: the shell counts with |area|, a hole with -|area|
RingW(rings, i) == IF i = 1 THEN Sign(Area2(rings[i])) ELSE -Sign(Area2(rings[i]))
PolyA2(rings) == SumSeq([i \in DOMAIN rings |-> RingW(rings, i) * Area2(rings[i])])
PolyCx(rings) == SumSeq([i \in DOMAIN rings |-> RingW(rings, i) * CxN(rings[i])])
PolyCy(rings) == SumSeq([i \in DOMAIN rings |-> RingW(rings, i) * CyN(rings[i])])
\* length-weighted numerators of a polyline: centroid = <<LxN, LyN>> / (2 * Length)
LxN(cs) == SumSeq([i \in SegIdx(cs) |-> ISqrt(SqLens(cs)[i]) * (cs[i][1] + cs[i+1][1])])
LyN(cs) == SumSeq([i \in SegIdx(cs) |-> ISqrt(SqLens(cs)[i]) * (cs[i][2] + cs[i+1][2])])
\* centroid of a sequence of polygons as <<xnum, ynum, den>>: area-weighted; length-weighted over all rings when the area is 0
AreaCentroid(polys) ==
  LET A == SumSeq([p \in DOMAIN polys |-> PolyA2(polys[p])]) IN
  IF A # 0 THEN <<SumSeq([p \in DOMAIN polys |-> PolyCx(polys[p])]), SumSeq([p \in DOMAIN polys |-> PolyCy(polys[p])]), 3 * A>>
  ELSE <<SumSeq([p \in DOMAIN polys |-> SumSeq([r \in DOMAIN polys[p] |-> LxN(polys[p][r])])]),
         SumSeq([p \in DOMAIN polys |-> SumSeq([r \in DOMAIN polys[p] |-> LyN(polys[p][r])])]),
         2 * SumSeq([p \in DOMAIN polys |-> LengthP(polys[p])])>>
LineCentroid(lines) ==
  <<SumSeq([l \in DOMAIN lines |-> LxN(lines[l])]), SumSeq([l \in DOMAIN lines |-> LyN(lines[l])]),
    2 * SumSeq([l \in DOMAIN lines |-> Length(lines[l])])>>
PointCentroid(ps) == <<SumSeq([i \in DOMAIN ps |-> ps[i][1]]), SumSeq([i \in DOMAIN ps |-> ps[i][2]]), Len(ps)>>

\* ---- helpers on rings
Closed(vs) == Append(vs, vs[1])
RotBy(vs, k) == [i \in DOMAIN vs |-> vs[((i + k - 1) % Len(vs)) + 1]]
RevS(s) == [i \in DOMAIN s |-> s[Len(s) + 1 - i]]
Shift(cs, o) == [i \in DOMAIN cs |-> <<cs[i][1] + o[1], cs[i][2] + o[2]>>]
\* a closed ring is simple: no two non-adjacent edges meet, adjacent ones meet in their shared vertex only
SimpleRing(r) ==
  LET n == Len(r) - 1 IN
  /\ n >= 3
  /\ \A i, j \in 1..n : i < j =>
       LET adj == j = i + 1 \/ (i = 1 /\ j = n) IN
       IF adj THEN ~Collinear4(r[i], r[i+1], r[j], r[j+1]) \/ SegSegClass(r[i], r[i+1], r[j], r[j+1]) # "overlap"
       ELSE ~SegsMeet(r[i], r[i+1], r[j], r[j+1])
====
