---- MODULE WKTEncObs ----
(* model B for C05: for every geometry tree g of the model,
   (1) the encoder's text, split into tokens by the harness's own tokenizer, is exactly Render(g) - and
       the specification's reference reader reads Render(g) back to g (invariant RenderParses of model A),
       which is the "independent WKT reader" of the property;
   (2) the library's own parser reads the encoder's text back to g (type, dimensionality, structure
       incl. EMPTY members, every coordinate bit - value identifiers are assigned by bit pattern);
   (3) every spelling variant of Render(g) / of the parenthesised rendering parses to g. *)
EXTENDS WKTRender, Json, IOUtils
Recs == ndJsonDeserialize(IOEnv.TRACEFILE)
ReadsAs(o, g) == o.vclass = "acc" /\ o.l = g.l /\ o.tree = Strip(g)
\* A result is a value: the bytes an encoder handed out still hold what they held at the return when the same entry point has
\* been called again (the driver keeps the previous result of every entry point alive and lists the ones that changed).
Overwritten(r) == IF "overwritten" \in DOMAIN r THEN r.overwritten ELSE <<>>
Clause(r) ==
  LET g == r.case.g IN
  CASE r.ev # "ok" -> r.ev
    [] Overwritten(r) # <<>> -> "result-overwritten-by-a-later-call"
    \* an Encoder value with a history (it has just refused another geometry half way) writes what a new one writes
    [] "histsame" \in DOMAIN r /\ ~r.histsame -> "encoder-value-with-history-writes-differently"
    [] ~r.encok -> "encode-error"
    \* the independent reader (the parser specification) must read the encoder's tokens back to g; WHICH standard
    \* rendering the encoder picks (bare or parenthesised multipoint members, ...) is not prescribed
    [] ~ParsesBack(g, r.enctoks) -> "encoder-tokens"
    [] ~ReadsAs(r.own, g) -> "own-parser-roundtrip"
    [] \E k \in DOMAIN r.sp : ~ReadsAs(r.sp[k], g) -> "spelling-variant"
    [] OTHER -> "ok"
VARIABLES i, bad
Init == i = 1 /\ bad = 0
Next == /\ i <= Len(Recs)
        /\ LET r == Recs[i]  c == Clause(r) IN
           /\ IF c = "ok" THEN TRUE
              ELSE PrintT(<<"VIOL", ToJson([i |-> i, sig |-> "wktenc|" \o c \o "|" \o r.case.g.t, text |-> r.text])>>)
           /\ bad' = IF c = "ok" THEN bad ELSE bad + 1
        /\ i' = i + 1
Done == i = Len(Recs) + 1 => PrintT(<<"SUMMARY", ToJson([n |-> Len(Recs), bad |-> bad])>>)
====
