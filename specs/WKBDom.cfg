INIT Init
NEXT NextDom
