---- MODULE Bounds ----
(* C08: the intended meaning of geom.Bounds, stated on NAMED dimensions (x, y, z, m) rather than on array
   positions, so that "Z stays with Z and M with M" and order independence are part of the definition.
   A geometry is [l |-> layout, cs |-> sequence of coords]; ordinates are small integers.
   INF stands for +Inf, -INF for -Inf (the recorder maps the float infinities to these). *)
EXTENDS Integers, Sequences, FiniteSets

INF == 99
Dims(l) == CASE l = "XY" -> <<"x", "y">> [] l = "XYZ" -> <<"x", "y", "z">> [] l = "XYM" -> <<"x", "y", "m">>
             [] l = "XYZM" -> <<"x", "y", "z", "m">> [] OTHER -> <<>>
DimSet(l) == {Dims(l)[i] : i \in DOMAIN Dims(l)}
LayoutOf(ds) == CASE ds = {} -> "No" [] ds = {"x", "y"} -> "XY" [] ds = {"x", "y", "z"} -> "XYZ"
                  [] ds = {"x", "y", "m"} -> "XYM" [] OTHER -> "XYZM"
Join(l1, l2) == LayoutOf(DimSet(l1) \cup DimSet(l2))           \* smallest layout covering both
JoinAll(l0, ls) == LayoutOf(DimSet(l0) \cup UNION {DimSet(ls[i]) : i \in DOMAIN ls})
\* values of the dimension named d over a geometry
Vals(g, d) == {g.cs[i][k] : i \in DOMAIN g.cs, k \in {k \in DOMAIN Dims(g.l) : Dims(g.l)[k] = d}}
SetMin(S) == IF S = {} THEN INF ELSE CHOOSE v \in S : \A w \in S : v <= w
SetMax(S) == IF S = {} THEN -INF ELSE CHOOSE v \in S : \A w \in S : v >= w
\* the tight box of a bag of geometries, starting from NewBounds(l0)
Tight(l0, gs) ==
  LET l == JoinAll(l0, [i \in DOMAIN gs |-> gs[i].l])  ds == Dims(l) IN
  [l   |-> l,
   min |-> [k \in DOMAIN ds |-> SetMin(UNION {Vals(gs[i], ds[k]) : i \in DOMAIN gs})],
   max |-> [k \in DOMAIN ds |-> SetMax(UNION {Vals(gs[i], ds[k]) : i \in DOMAIN gs})]]
IsEmptyBox(b) == b.l = "No" \/ \E k \in DOMAIN b.min : b.max[k] < b.min[k]
\* closed-interval arithmetic: [lo1, hi1] and [lo2, hi2] share a value
Meets(lo1, hi1, lo2, hi2) == lo1 <= hi1 /\ lo2 <= hi2 /\ (IF lo1 >= lo2 THEN lo1 ELSE lo2) <= (IF hi1 <= hi2 THEN hi1 ELSE hi2)
Overlap(n, min1, max1, min2, max2) == \A k \in 1..n : Meets(min1[k], max1[k], min2[k], max2[k])
OverlapPt(n, min1, max1, p) == \A k \in 1..n : Meets(min1[k], max1[k], p[k], p[k])
\* leaves of a collection tree: a node is [l, cs] (leaf) or [gc |-> sequence of nodes]
RECURSIVE Leaves(_)
Leaves(t) == IF "gc" \in DOMAIN t
             THEN LET RECURSIVE Cat(_, _)
                      Cat(s, i) == IF i > Len(s) THEN <<>> ELSE Leaves(s[i]) \o Cat(s, i + 1)
                  IN Cat(t.gc, 1)
             ELSE <<t>>
====
