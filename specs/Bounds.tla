---- MODULE Bounds ----
(* C08: the intended meaning of geom.Bounds, stated on NAMED dimensions (x, y, z, m) rather than on array
   positions, so that "Z stays with Z and M with M" and order independence are part of the definition.
   A geometry is [l |-> layout, cs |-> sequence of coords]; ordinates are small integers.
   INF stands for +Inf, -INF for -Inf (the recorder maps the float infinities to these). *)
EXTENDS Integers, Sequences, FiniteSets, Intervals        \* Intervals: Meets / Overlap / OverlapPt (with TLAPS proofs in proofs/)

INF == 99
Dims(l) == CASE l = "XY" -> <<"x", "y">> [] l = "XYZ" -> <<"x", "y", "z">> [] l = "XYM" -> <<"x", "y", "m">>
             [] l = "XYZM" -> <<"x", "y", "z", "m">> [] OTHER -> <<>>
DimSet(l) == {Dims(l)[i] : i \in DOMAIN Dims(l)}
LayoutOf(ds) == CASE ds = {} -> "No" [] ds = {"x", "y"} -> "XY" [] ds = {"x", "y", "z"} -> "XYZ"
                  [] ds = {"x", "y", "m"} -> "XYM" [] OTHER -> "XYZM"
Join(l1, l2) == LayoutOf(DimSet(l1) \cup DimSet(l2))           \* smallest layout covering both
JoinAll(l0, ls) == LayoutOf(DimSet(l0) \cup UNION {DimSet(ls[i]) : i \in DOMAIN ls})
\* values of the dimension named d over a geometry
Vals(g, d) == {g.cs[i][k] : i \in DOMAIN g.cs, k \in {k \in DOMAIN Dims(g.l) : Dims(g.l)[k] = d}}
SetMin(S) == IF S = {} THEN INF ELSE CHOOSE v \in S : \A w \in S : v <= w
SetMax(S) == IF S = {} THEN -INF ELSE CHOOSE v \in S : \A w \in S : v >= w
\* the tight box of a bag of geometries, starting from NewBounds(l0)
Tight(l0, gs) ==
  LET l == JoinAll(l0, [i \in DOMAIN gs |-> gs[i].l])  ds == Dims(l) IN
  [l   |-> l,
   min |-> [k \in DOMAIN ds |-> SetMin(UNION {Vals(gs[i], ds[k]) : i \in DOMAIN gs})],
   max |-> [k \in DOMAIN ds |-> SetMax(UNION {Vals(gs[i], ds[k]) : i \in DOMAIN gs})]]
IsEmptyBox(b) == b.l = "No" \/ \E k \in DOMAIN b.min : b.max[k] < b.min[k]
\* ---- what the statement fixes about a box fed with the bag of leaves gs (order-free by construction: sets and unions).
\* DVals: every ordinate of the dimension NAMED d; CoordDims: the dimensions in which at least one coordinate exists (leaves
\* without coordinates contribute nothing); HiDims: the dimensions of the join over the initial layout and ALL leaves.
AllDims == {"x", "y", "z", "m"}
DVals(gs, d) == UNION {Vals(gs[i], d) : i \in DOMAIN gs}
CoordDims(gs) == {d \in AllDims : DVals(gs, d) # {}}
HiDims(l0, gs) == DimSet(JoinAll(l0, [i \in DOMAIN gs |-> gs[i].l]))
\* a box [l, min, max] with every dimension inverted (nothing in it at all) / with no dimension inverted
AllInverted(b) == b.l = "No" \/ \A k \in DOMAIN b.min : b.max[k] < b.min[k]
NoneInverted(b) == b.l # "No" /\ \A k \in DOMAIN b.min : b.min[k] <= b.max[k]
\* Bounds.Polygon: the corners of the XY rectangle of a box (a set: a degenerate box has fewer than four)
Corners(b) == {<<b.min[1], b.min[2]>>, <<b.min[1], b.max[2]>>, <<b.max[1], b.min[2]>>, <<b.max[1], b.max[2]>>}
\* GeoJSON bounding box (RFC 7946 section 5) over the first n dimensions of a box: all minima, then all maxima
BBoxOf(b, n) == [k \in 1..(2 * n) |-> IF k <= n THEN b.min[k] ELSE b.max[k - n]]
\* the overlap tests take a layout argument: it addresses the boxes' dimensions by position.  A box layout bl AGREES
\* with the argument l when bl has those positions and they carry the same named dimensions (XY with every layout,
\* XYZ with XYZM, ...).  bl merely COVERS l when it has the named dimensions at other positions (XYM inside XYZM).
AgreesWith(l, bl) == Len(Dims(bl)) >= Len(Dims(l)) /\ \A k \in DOMAIN Dims(l) : Dims(bl)[k] = Dims(l)[k]
CoversL(l, bl) == Len(Dims(bl)) >= Len(Dims(l)) /\ DimSet(l) \subseteq DimSet(bl)
IdxOf(l, d) == CHOOSE k \in DOMAIN Dims(l) : Dims(l)[k] = d
ByName(l, bl, v) == [k \in DOMAIN Dims(l) |-> v[IdxOf(bl, Dims(l)[k])]]          \* the ordinates of v (layout bl) named by l
\* leaves of a collection tree: a node is [l, cs] (leaf) or [gc |-> sequence of nodes]
RECURSIVE Leaves(_)
Leaves(t) == IF "gc" \in DOMAIN t
             THEN LET RECURSIVE Cat(_, _)
                      Cat(s, i) == IF i > Len(s) THEN <<>> ELSE Leaves(s[i]) \o Cat(s, i + 1)
                  IN Cat(t.gc, 1)
             ELSE <<t>>
\* leaves of a sequence of nodes (leaves or collection trees), in order
RECURSIVE LeavesAll(_)
LeavesAll(ts) == IF ts = <<>> THEN <<>> ELSE Leaves(ts[1]) \o LeavesAll(Tail(ts))
HasCoords(gs) == \E i \in DOMAIN gs : gs[i].cs # <<>>
====
