INIT Init
NEXT Next
INVARIANT Done
