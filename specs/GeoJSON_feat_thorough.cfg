INIT Init
NEXT Next
INVARIANT Laws Emit
CONSTANTS
  Family = "feat"
  Rich = TRUE
