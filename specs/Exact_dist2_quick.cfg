INIT Init
NEXT Next
INVARIANT Laws Emit
CONSTANTS
  Family = "dist2"
  N = 3
  K = 0
