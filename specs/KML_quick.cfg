INIT Init
NEXT Next
INVARIANT Laws EmitInv
CONSTANTS
  Rich = FALSE
