---- MODULE Decimal ----
(* C18 (and the number clause of C05): what a decimal rendering of a float64 with at most d fractional
   digits must satisfy.  A float64 is mant * 2^k (neg2 = FALSE) or mant / 2^k (neg2 = TRUE), mant an integer
   carrying the sign; the emitted literal is digits / 10^nfrac with `digits` carrying the sign and lastFrac
   the last fractional digit (-1 when nfrac = 0).  Exact integer arithmetic: evaluated by Apalache (TLC for
   small values).  The exponent is passed in three parts because Apalache's constant folder refuses any
   power above 1.8e308. *)
EXTENDS Integers
\* @type: Int => Int;
AbsD(x) == IF x < 0 THEN -x ELSE x
\* pad = max(d - nfrac, 0) is passed as a literal: a power with a non-literal exponent does not fold
\* @type: (Int, Int, Int, Int, Bool, Int, Int, Int, Int, Int) => Bool;
RoundOK(mant, k1, k2, k3, neg2, d, digits, nfrac, lastFrac, pad) ==
  LET P == 2^k1 * 2^k2 * 2^k3 IN
  /\ nfrac <= d /\ pad + nfrac = d                     \* at most d fractional digits
  /\ (nfrac > 0 => lastFrac # 0)                       \* no trailing zero after the decimal point
  /\ IF neg2 THEN 2 * AbsD(digits * 10^pad * P - mant * 10^d) <= P          \* |text - value| <= 10^-d / 2
             ELSE 2 * AbsD(digits * 10^pad - mant * P * 10^d) <= 1
\* ---- structure of the GeoJSON output with a bounding box under a digit limit ("unchanged ... including a GeoJSON bounding box
\* when one is requested"): compared with what the SAME encoder writes without a digit limit.
\* n = numbers in the box under the limit; nRef = numbers in the box without a limit (-1: that reference is not available, then
\* any box over the first k >= 2 dimensions of the layout is accepted).
\* @type: (Int, Int, Int) => Bool;
BBoxArityOK(n, nRef, stride) == IF nRef >= 0 THEN n = nRef ELSE \E k \in 2..stride : n = 2 * k
\* an encode error with a box requested is a change only if the encoder does write that box without a digit limit; only a
\* geometry collection may be refused at all (its members' layouts may have no common box)
\* @type: (Bool, Bool, Bool) => Bool;
BBoxEncodeOK(err, coll, errRef) == err => (coll /\ errRef)
\* with no digit limit the shortest-decimal rendering must parse back to the same float64: the literal lies
\* within half an ulp of the value (ulp = 2^k for a 53-bit mantissa scaled so that |mant| >= 2^52, or the value is 0)
\* (the number of fractional digits is passed in two parts, nf1 + nf2, for the same reason as the binary exponent)
\* @type: (Int, Int, Int, Int, Bool, Int, Int, Int) => Bool;
ParsesBack(mant, k1, k2, k3, neg2, digits, nf1, nf2) ==
  LET P == 2^k1 * 2^k2 * 2^k3  T == 10^nf1 * 10^nf2 IN
  IF neg2 THEN 2 * AbsD(digits * P - mant * T) <= T
          ELSE 2 * AbsD(digits - mant * P * T) <= P * T
\* C18, a literal written WITH an exponent (1e+21, 5e-324: standard JSON / WKT numbers), value digits / 10^(nf1 + nf2) after the
\* exponent is folded in.  The clauses on the count of fractional digits and on trailing zeros speak about plain decimals and
\* are not applied.  The distance clause is applied in a weakened form: within half a unit of the d-th decimal place (the
\* statement) OR within half an ulp of the value (the shortest spelling of a huge float64, which every reader maps back to the
\* same float64, is accepted although it is not the exact value).  mant as for ParsesBack (53-bit, or a subnormal).
\* @type: (Int, Int, Int, Int, Bool, Int, Int, Int, Int) => Bool;
ExpLitOK(mant, k1, k2, k3, neg2, d, digits, nf1, nf2) ==
  LET P == 2^k1 * 2^k2 * 2^k3  T == 10^nf1 * 10^nf2 IN
  \/ ParsesBack(mant, k1, k2, k3, neg2, digits, nf1, nf2)
  \/ IF neg2 THEN 2 * 10^d * AbsD(digits * P - mant * T) <= P * T
              ELSE 2 * 10^d * AbsD(digits - mant * P * T) <= T
====
