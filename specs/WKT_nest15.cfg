INIT Init
NEXT Next
INVARIANT NoPanic StackNonEmpty AcceptedAtTop TreeTotal
ACTION_CONSTRAINT Emit

CONSTANTS
  MaxLen = 15
  PruneSyn = TRUE
  KeywordsUsed <- KwNest
  PointsUsed <- PtsNest
  PunctsUsed <- PunctNoErr
  EmitRejects = FALSE
