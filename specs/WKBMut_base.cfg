INIT InitBase
NEXT Next
INVARIANT DecTotal EmitBase
CONSTANTS
  Rich = TRUE
