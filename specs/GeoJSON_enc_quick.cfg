INIT Init
NEXT Next
INVARIANT Laws Emit
CONSTANTS
  Family = "enc"
  Rich = FALSE
