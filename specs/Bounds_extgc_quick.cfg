INIT Init
NEXT Next
INVARIANT Laws Emit
CONSTANTS
  Family = "extgc"
  MaxLen = 2
  Rich = FALSE
