---- MODULE ExtrasObs ----
EXTENDS Extras, Json, IOUtils
Recs == ndJsonDeserialize(IOEnv.TRACEFILE)
Q == 1024
Why(r) ==
  LET c == r.case IN
  CASE r.ev # "ok" -> r.ev
    [] c.op = "interpolate" ->
         (IF ~NonDecreasing(c.cs, c.dim) THEN "ok"
          ELSE LET w == InterpWant(c.cs, c.dim, c.val) IN
               IF r.pan # "" THEN "Interpolate|panic"
               ELSE IF r.i # w[1] THEN "Interpolate|index"
               ELSE IF Abs(r.fq * w[2][2] - w[2][1] * Q) > w[2][2] THEN "Interpolate|fraction" ELSE "ok")
    [] c.op = "sub" -> (IF r.pan # "" THEN "SubLineString|panic" ELSE IF r.sub # SubWant(c.cs, c.start, c.stop) THEN "SubLineString|value"
                        ELSE IF ~r.shares THEN "SubLineString|does-not-share-storage" ELSE "ok")
    [] c.op = "angle" -> (IF r.acute # AcuteWant(c.a, c.o, c.b) THEN "IsAcute" ELSE IF r.obtuse # ObtuseWant(c.a, c.o, c.b) THEN "IsObtuse" ELSE "ok")
    [] c.op = "lineint" ->
         (IF Parallel(c.a, c.b, c.c, c.d) THEN "ok"
          ELSE LET X == CrossPt(c.a, c.b, c.c, c.d) IN
               IF r.pan # "" THEN "bigxy.Intersection|panic"
               ELSE IF r.x.t # "num" \/ r.y.t # "num" THEN "bigxy.Intersection|not-a-number"
               ELSE IF Abs(r.x.q * X[3] - X[1] * Q) > 2 * Abs(X[3]) \/ Abs(r.y.q * X[3] - X[2] * Q) > 2 * Abs(X[3]) THEN "bigxy.Intersection|value" ELSE "ok")
    [] c.op = "transform" -> (IF r.after # [i \in DOMAIN c.cs |-> [k \in DOMAIN c.cs[i] |-> c.cs[i][k] + k + 10 * i]] THEN "TransformInPlace" ELSE "ok")
    [] c.op = "layout" -> (IF r.stride # LStride(c.val) THEN "Layout.Stride" ELSE IF r.z # LZIndex(c.val) THEN "Layout.ZIndex"
                           ELSE IF r.m # LMIndex(c.val) THEN "Layout.MIndex" ELSE IF r.name # LName(c.val) THEN "Layout.String" ELSE "ok")
    [] c.op = "maybeempty" ->
         LET f == c.cs[1]  allEmpty == \A k \in DOMAIN f : f[k] = 1 IN
         (IF r.pan # "" THEN "NewPointFlatMaybeEmpty|panic"
          ELSE IF r.empty # allEmpty THEN "NewPointFlatMaybeEmpty|emptiness"
          ELSE IF r.n # (IF allEmpty THEN 0 ELSE Len(f)) THEN "NewPointFlatMaybeEmpty|coordinates" ELSE "ok")
    [] OTHER -> "unknown-op"
VARIABLES i, bad
Init == i = 1 /\ bad = 0
Next == /\ i <= Len(Recs)
        /\ LET w == Why(Recs[i]) IN
           /\ IF w = "ok" THEN TRUE ELSE PrintT(<<"VIOL", ToJson([i |-> i, sig |-> "extra|" \o w])>>)
           /\ bad' = IF w = "ok" THEN bad ELSE bad + 1
        /\ i' = i + 1
Done == i = Len(Recs) + 1 => PrintT(<<"SUMMARY", ToJson([n |-> Len(Recs), bad |-> bad])>>)
====
