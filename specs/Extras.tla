---- MODULE Extras ----
(* Behaviour of go-geom beyond the twenty listed properties (DESIGN section 10): stated here so that the
   specification keeps growing with the code.  These are checked by `./check EXTRA` (not a registered property
   check: its findings are reported as EXTRA-... lines and never as a VIOLATION of a listed property).
   - LineString.Interpolate(val, dim): binary search on a non-decreasing ordinate
   - LineString.SubLineString(start, stop): the coordinates start..stop-1 (a view: it shares storage with the line)
   - xy.IsAcute / IsObtuse: the exact sign of the dot product of the two arms
   - bigxy.Intersection: the crossing point of two non-parallel infinite lines
   - geom.TransformInPlace: applies the function to every coordinate, in order, in place
   - geom.Layout: Stride / ZIndex / MIndex / String of the five named layouts and of Layout(n), n > 4
   - geom.NewPointFlatMaybeEmpty: the EMPTY point exactly when every ordinate is the canonical empty-point NaN *)
EXTENDS ExactGeom, TLC
\* cs: Seq of coordinates, dim: 1-based ordinate index, values non-decreasing in that ordinate.
\* Interpolate returns <<i, f>> (0-based i): the last index whose value is <= val (0 when val is below the first,
\* n-1 when at or beyond the last) and the fraction towards the next coordinate as a rational <<fn, fd>>.
InterpWant(cs, dim, val) ==
  LET n == Len(cs) IN
  IF val <= cs[1][dim] THEN <<0, <<0, 1>>>>
  ELSE IF cs[n][dim] <= val THEN <<n - 1, <<0, 1>>>>
  ELSE LET i == CHOOSE j \in 1..(n - 1) : cs[j][dim] <= val /\ val < cs[j + 1][dim]
                                          /\ \A m \in (j + 1)..(n - 1) : ~(cs[m][dim] <= val /\ val < cs[m + 1][dim]) IN
       <<i - 1, <<val - cs[i][dim], cs[i + 1][dim] - cs[i][dim]>>>>
NonDecreasing(cs, dim) == \A j \in 1..(Len(cs) - 1) : cs[j][dim] <= cs[j + 1][dim]
SubWant(cs, start, stop) == SubSeq(cs, start + 1, stop)
AcuteWant(a, o, b) == Dot2(Sub2(a, o), Sub2(b, o)) > 0
ObtuseWant(a, o, b) == Dot2(Sub2(a, o), Sub2(b, o)) < 0
\* layouts by number: 0 NoLayout, 1 XY, 2 XYZ, 3 XYM, 4 XYZM, n > 4 Layout(n) (n ordinates: x, y, z, m, further ones)
LStride(n) == CASE n = 0 -> 0 [] n = 1 -> 2 [] n \in {2, 3} -> 3 [] n = 4 -> 4 [] OTHER -> n
LZIndex(n) == IF n \in {0, 1, 3} THEN -1 ELSE 2
LMIndex(n) == IF n \in {0, 1, 2} THEN -1 ELSE IF n = 3 THEN 2 ELSE 3
LName(n) == CASE n = 0 -> "NoLayout" [] n = 1 -> "XY" [] n = 2 -> "XYZ" [] n = 3 -> "XYM" [] n = 4 -> "XYZM"
              [] OTHER -> "Layout(" \o ToString(n) \o ")"
\* the indices lie inside the stride whenever they are not -1, and Z comes before M (design law, checked in ExtrasModel)
LayoutLaw(n) == /\ (LZIndex(n) # -1 => LZIndex(n) < LStride(n)) /\ (LMIndex(n) # -1 => LMIndex(n) < LStride(n))
                /\ (LZIndex(n) # -1 /\ LMIndex(n) # -1 => LZIndex(n) < LMIndex(n))
Parallel(a, b, c, d) == (b[1] - a[1]) * (d[2] - c[2]) - (b[2] - a[2]) * (d[1] - c[1]) = 0
====
