INIT Init
NEXT Next
INVARIANT Inv FormatRoundTrips
ACTION_CONSTRAINT Emit
CONSTANTS
  Family = "lines"
  MaxLen = 4
  Rich = TRUE
