INIT Init
NEXT Next
INVARIANT Inv FormatRoundTrips
ACTION_CONSTRAINT Emit
CONSTANTS
  Family = "lines"
  MaxLen = 5
  Rich = FALSE
