INIT Init
NEXT Next
INVARIANT Laws Emit
CONSTANTS
  Family = "hull"
  N = 3
  K = 5
