INIT Init
NEXT Next
INVARIANT Laws Emit
CONSTANTS
  Family = "centroid"
  Rich = FALSE
