INIT Init
NEXT Next
INVARIANT Laws Emit
CONSTANTS
  Family = "dec"
  Rich = TRUE
