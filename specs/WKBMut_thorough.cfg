INIT Init
NEXT Next
INVARIANT DecTotal Emit
CONSTANTS
  Rich = TRUE
