INIT Init
NEXT Next
INVARIANT Laws Emit
CONSTANTS
  Family = "dist3"
  N = 2
  K = 0
