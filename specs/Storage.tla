---- MODULE Storage ----
(* Storage of values, as far as "shares no storage" (C16) needs it.  A value owns a finite set of slices; a slice occupies
   the address range of its CAPACITY, [lo, hi) with lo < hi (a slice without capacity occupies nothing).  The length only says
   how much of the range has been written.  Two values share storage when a range of one meets a range of the other: what is
   appended to, or written through, one of them can then land in what the other one reads or will append to - whether or not
   the lengths overlap today (Go's append writes behind the length while there is capacity).
   Addresses are only compared, never added: any order-preserving renaming of the range boundaries (the driver sends their
   ranks) gives the same answers. *)
EXTENDS Integers, Sequences
\* a range is <<lo, hi, len>>
Lo(r) == r[1]
Hi(r) == r[2]
ProperRange(r) == Lo(r) < Hi(r) /\ r[3] >= 0
Meet(r, q) == Lo(r) < Hi(q) /\ Lo(q) < Hi(r)
Shares(A, B) == \E i \in DOMAIN A, j \in DOMAIN B : Meet(A[i], B[j])
Disjoint(A, B) == ~Shares(A, B)
\* the first pair that meets (for the replay file)
FirstShared(A, B) == CHOOSE p \in (DOMAIN A) \X (DOMAIN B) : Meet(A[p[1]], B[p[2]])
\* ---------------------------------------------------------------- design laws (checked by TLC on small ranges, StorageModel)
\* sharing is symmetric; a value with no ranges shares with nothing; a sub-range (a view, s[i:j]) shares with its parent and
\* keeps the parent's upper bound unless the capacity is clipped
SubRange(r, i, j, clip) == <<Lo(r) + i, IF clip THEN Lo(r) + j ELSE Hi(r), j - i>>
====
