---- MODULE GeomOpsModel ----
(* model A for C02/C16/C01: every history up to MaxLen over the public mutators, for every kind and
   layout in the configuration.  `hist` is kept out of the VIEW: TLC explores distinct abstract states and
   the ACTION_CONSTRAINT emits one behaviour (shortest path to the source state + the edge) per
   TRANSITION of the state graph; the Go harness replays each of them. *)
EXTENDS GeomOps, Json
CONSTANTS MaxLen, KindsUsed, LayoutsUsed, Rich, OpsUsed, TailOps

C(s, j) == [i \in 1..s |-> 10 * j + i]                  \* the j-th distinguishable coord of stride s
\* part alphabets (by kind of the receiver); with stride 0 only parts without coordinates exist
Lines(s) == IF s = 0 THEN {<<>>} ELSE {<<>>, <<C(s,1)>>, <<C(s,1), C(s,2), C(s,3)>>}
PartsOf(k, s) ==
  CASE k \in {"PG", "MLS"} -> Lines(s)
    [] k = "MPT" -> IF s = 0 THEN {NIL} ELSE {NIL, C(s,1), C(s,2)}
    [] k = "MPG" -> IF s = 0 THEN {<<>>, <<<<>>>>}
                    ELSE {<<>>, <<<<>>>>, <<<<C(s,1), C(s,2)>>>>, <<<<C(s,1)>>, <<>>, <<C(s,2), C(s,3)>>>>}
    [] OTHER -> {}
GCMembers == { [k |-> "PT", l |-> "XY", v |-> C(2,1)], [k |-> "PT", l |-> "XYZ", v |-> <<>>],
               [k |-> "LS", l |-> "XYM", v |-> <<C(3,1), C(3,2)>>],
               [k |-> "MPG", l |-> "XY", v |-> <<<<>>, <<<<C(2,1), C(2,2)>>>>>>],
               [k |-> "GC", l |-> "No", v |-> <<[k |-> "MPT", l |-> "XYZ", v |-> <<NIL, C(3,1)>>]>>],
               [k |-> "GC", l |-> "No", v |-> <<>>] }
GCSecond == { [k |-> "PT", l |-> "XY", v |-> C(2,1)], [k |-> "PT", l |-> "XYZ", v |-> <<>>] }   \* members of the two-argument Push
SetVals(k, s) ==                                         \* whole values for SetCoords
  CASE k = "PT" -> {C(s,1)}
    [] k \in {"LS", "LR"} -> Lines(s)
    [] k \in {"PG", "MLS"} -> IF s = 0 THEN {<<>>} ELSE {<<>>, <<<<>>, <<C(s,1), C(s,2)>>, <<C(s,3)>>>>, <<<<C(s,1)>>, <<>>, <<>>>>}
    [] k = "MPT" -> IF s = 0 THEN {<<NIL>>} ELSE {<<C(s,2), NIL, C(s,1)>>, <<C(s,1), C(s,3)>>}
    [] k = "MPG" -> IF s = 0 THEN {<<<<>>, <<<<>>>>>>}
                    ELSE {<<<<>>, <<<<C(s,1)>>, <<>>>>, <<<<C(s,2), C(s,3)>>>>>>,
                          <<<<<<C(s,1), C(s,2)>>>>, <<>>, <<<<>>, <<C(s,3)>>>>, <<>>>>}       \* empty polygons in the middle and last, an empty ring first
    [] OTHER -> {}

Targets(st) == {1, 2}
AllActsOf(st) ==
  LET k == st.o[1].k  s == Stride(st.o[1].l) IN
  IF k = "GC"
  THEN [op : {"push"}, to : Targets(st), part : GCMembers]
       \cup [op : {"push2"}, to : Targets(st), part : GCSecond, part2 : GCSecond]
       \cup [op : {"setlayout"}, to : Targets(st), l : {"No", "XY", "XYZ"}]
       \cup [op : {"srid"}, to : Targets(st), srid : {4326}]
  ELSE (IF IsMulti(k) THEN [op : {"push"}, to : Targets(st), part : PartsOf(k, s)]
                            \cup [op : {"pushbad"}, to : Targets(st), empty : BOOLEAN] ELSE {})
       \cup [op : {"reverse"}, to : Targets(st)]
       \cup {[op |-> "swap"]}
       \cup {[op |-> "clone"]}
       \cup [op : {"write"}, to : Targets(st), pos : {0} \cup (IF Rich THEN {s + 1} ELSE {})]
       \cup [op : {"wend", "transform"}, to : Targets(st)]
       \cup [op : {"srid"}, to : Targets(st), srid : {4326}]
       \cup (IF Rich THEN [op : {"reserve"}, to : Targets(st)] ELSE {})
       \cup [op : {"setcoords"}, to : Targets(st), v : SetVals(k, s)]
       \cup (IF k \in {"LS", "LR"} THEN [op : {"setself"}, to : {t \in Targets(st) : Len(st.o[t].v) >= 2}, how : {"rev", "rot"}] ELSE {})
       \cup (IF k \in {"PG", "MLS", "MPG", "MPT"}
            THEN {[op |-> "setpart", to |-> t, pos |-> 0, v |-> pv] :
                    t \in {t \in Targets(st) : Len(st.o[t].v) >= 1 /\ s > 0}, pv \in (IF k = "MPT" THEN PartsOf(k, s) \ {NIL} ELSE PartsOf(k, s))}
            ELSE {})
       \* room: the slices handed to the constructor have capacity left behind their length (a builder that reuses buffers;
       \* with the empty value: New<Kind>Flat(l, buf[:0], ends[:0])) - the object owns that room from then on
       \cup {[op |-> "newflat", to |-> t, v |-> v, rep |-> Deflate(k, v), room |-> FALSE, nilends |-> FALSE] : t \in Targets(st), v \in SetVals(k, s)}
       \cup {[op |-> "newflat", to |-> t, v |-> v, rep |-> Deflate(k, v), room |-> TRUE, nilends |-> FALSE] : t \in Targets(st), v \in SetVals(k, s) \cup {EmptyVal(k)}}
       \* nilends: a MultiPoint without EMPTY members built with the ends OPTION present but nil (generic code that forwards the
       \* Ends() of a geometry that has none): the same value as without the option
       \cup (IF k = "MPT" THEN {[op |-> "newflat", to |-> t, v |-> v, rep |-> Deflate(k, v), room |-> FALSE, nilends |-> TRUE] :
                                  t \in Targets(st), v \in {w \in SetVals(k, s) : \A i \in DOMAIN w : w[i] # NIL}} ELSE {})

ActsOf(st) == {a \in AllActsOf(st) : a.op \in OpsUsed}

VARIABLES st, hist
vars == <<st, hist>>
Init == /\ \E k \in KindsUsed, l \in LayoutsUsed : st = St0(k, l)
        /\ hist = <<>>
Next == /\ Len(hist) < MaxLen
        /\ \E a \in ActsOf(st) : st' = Apply(st, a) /\ hist' = Append(hist, a)
View == st
Inv == StateInv(st)
\* C16 at the design level: an action aimed at one object never changes the other one
CloneIndependent ==
  [][\A a \in ActsOf(st) : (hist' = Append(hist, a) /\ a.op \notin {"swap", "clone"})
        => st'.o[3 - a.to] = st.o[3 - a.to]]_vars
\* a failed Push leaves everything unchanged
FailedPushUnchanged == [][st'.err = "layout" => st'.o = st.o]_vars
\* Reverse twice is the identity on values
RevRev == \A k \in {1, 2} : st.o[k].k = "GC" \/ ReverseVal(st.o[k].k, ReverseVal(st.o[k].k, st.o[k].v)) = st.o[k].v
\* a fixed probe tail appended to every emitted behaviour: mutations of both objects that make shared
\* storage visible without lengthening the explored prefix (the checkers treat it as ordinary history)
TailA(k, s) == CASE k \in {"PG", "MLS"} -> IF s = 0 THEN <<>> ELSE <<C(s,1), C(s,2), C(s,3)>>
                 [] k = "MPT" -> IF s = 0 THEN NIL ELSE C(s,1)
                 [] k = "MPG" -> IF s = 0 THEN <<<<>>>> ELSE <<<<C(s,1), C(s,2)>>>>
TailB(k, s) == CASE k \in {"PG", "MLS"} -> IF s = 0 THEN <<>> ELSE <<C(s,2)>>
                 [] k = "MPT" -> IF s = 0 THEN NIL ELSE C(s,2)
                 [] k = "MPG" -> IF s = 0 THEN <<<<>>>> ELSE <<<<C(s,1)>>, <<>>, <<C(s,2), C(s,3)>>>>
FullTail(k, s) ==
  IF k = "GC" THEN <<>>
  ELSE IF IsMulti(k)
  THEN << [op |-> "push", to |-> 1, part |-> TailA(k, s)], [op |-> "push", to |-> 2, part |-> TailB(k, s)],
          [op |-> "wend", to |-> 1], [op |-> "write", to |-> 2, pos |-> 0],
          [op |-> "transform", to |-> 1], [op |-> "reverse", to |-> 2] >>
  ELSE << [op |-> "write", to |-> 1, pos |-> 0], [op |-> "transform", to |-> 2], [op |-> "reverse", to |-> 1] >>
TailOf(k, s) == SelectSeq(FullTail(k, s), LAMBDA a : a.op \in TailOps)
Emit == LET k == st.o[1].k  l == IF k = "GC" THEN "No" ELSE st.o[1].l IN
        PrintT(<<"EDGE", ToJson([k |-> k, l |-> l, hist |-> hist' \o TailOf(k, Stride(l))])>>)
Spec == Init /\ [][Next]_vars
====
