---- MODULE WKBDecObs ----
(* model B for C04: the real decoders on arbitrary bytes, decided by the reference decoder.
   Any input (enumerated mutation, random, fuzz-generated) is decided by evaluating Decode on its bytes. *)
EXTENDS WKB, Json, IOUtils
FG == INSTANCE FlatGeom
Recs == ndJsonDeserialize(IOEnv.TRACEFILE)
\* memory: proportional to the input plus what the limits allow each count field to claim (a count field costs 4
\* input bytes and may reserve limit x 32 bytes before the shortage is noticed), plus a constant for the call.
\* The constants are deliberately generous (a refactoring that puts a 4 KiB buffered reader around every nested read
\* stays inside): what the bound must catch is an allocation proportional to a FORGED count (>= 2^16 elements).
MaxLim(lim) == Max2(Max2(lim[1], lim[2]), Max2(lim[3], 0))
\* With limits set the bound is a SUM ("bounded by the input length plus the configured limits"): every count field that is
\* honoured is backed by input bytes (64 bytes of memory per input byte is several times what copying, append growth and
\* per-ring / per-member temporaries need), and at each of the three levels at most one count field - the one on which the
\* input runs dry - may have reserved limit x 32 bytes in vain.  A reservation of count x (size of something else) is a product
\* and does not fit.  With all limits disabled the old, generous bound applies (only counts backed by input are explored there).
LimSum(lim) == Max2(lim[1], 0) + Max2(lim[2], 0) + Max2(lim[3], 0)
AllocBound(n, lim, mx) ==
  IF \E k \in 1..3 : lim[k] = -1
  THEN 32768 + 4096 * n + (IF lim = <<-1, -1, -1>> THEN 64 * mx * (n + 1) ELSE 16 * (n + 4) * (MaxLim(lim) + 1))
  ELSE 65536 + 64 * n + 64 * LimSum(lim)
\* The input is the standard encoding of the geometry the reference decoder reads from it (whole input consumed,
\* re-encoding gives the same bytes).  Only for such inputs does the property fix WHAT must be returned (C03);
\* for all other byte strings it demands totality, a well-formed and stable result, and the limit / memory rules -
\* whether a malformed input is accepted or rejected, and with which error, is left to the implementation.
Standard(b, c, d) ==
  /\ d.ok /\ d.pos = Len(b) /\ Len(b) > 0 /\ b[1] \in {0, 1}
  /\ EncC(d.g, IF b[1] = 0 THEN "XDR" ELSE "NDR",
          IF c.flavor = "ewkb" THEN "ewkb" ELSE IF c.nan THEN "wkbnan" ELSE "wkb", TRUE) = b
\* via = "hexstr": the hex wrapper is handed an ARBITRARY string (hexcodes = its characters).  A string that is the hex
\* image of a byte string (even length, digits of either letter case) is that byte string; any other string is the image
\* of no byte string: for it the property demands termination without panic and an error or a well-formed, stable result.
HexVal(ch) == IF ch >= 48 /\ ch <= 57 THEN ch - 48 ELSE IF ch >= 97 /\ ch <= 102 THEN ch - 87
              ELSE IF ch >= 65 /\ ch <= 70 THEN ch - 55 ELSE -1
HexValid(s) == Len(s) % 2 = 0 /\ \A k \in DOMAIN s : HexVal(s[k]) >= 0
HexBytes(s) == [k \in 1..(Len(s) \div 2) |-> 16 * HexVal(s[2 * k - 1]) + HexVal(s[2 * k])]
NoBytes(c) == c.via = "hexstr" /\ ~HexValid(c.hexcodes)
InBytes(c) == IF c.via = "hexstr" THEN (IF HexValid(c.hexcodes) THEN HexBytes(c.hexcodes) ELSE <<>>) ELSE c.bytes
\* a typed SQL wrapper can hold one geometry type only: the standard encoding of another type is not valid input for it
Fits(c, d) == IF c.via = "sql" /\ c.wrap # "ANY" THEN c.wrap = d.g.t ELSE TRUE
\* a deeply nested result is recorded as its preorder node list r.pre (the JSON reader refuses documents nested deeper
\* than 255): Match(g, s, p) = the position behind the image of tree g in s from position p, 0 if s differs from it
RECURSIVE Match(_, _, _)
RECURSIVE MatchKids(_, _, _, _)
MatchKids(ks, k, s, p) == IF p = 0 \/ k > Len(ks) THEN p ELSE MatchKids(ks, k + 1, s, Match(ks[k], s, p))
\* (the SRID is compared on the outermost geometry, position 1, only: C03 leaves the SRIDs of members open, WKB!StripMS)
Match(g, s, p) ==
  IF p = 0 \/ p > Len(s) THEN 0
  ELSE IF s[p].t # g.t \/ s[p].l # g.l \/ (p = 1 /\ s[p].srid # g.srid) THEN 0
  ELSE IF g.t = "GC" THEN (IF s[p].n # Len(g.body) THEN 0 ELSE MatchKids(g.body, 1, s, p + 1))
  ELSE IF s[p].n = 0 /\ NoSrid(s[p]).body = NoSrid(g).body THEN p + 1 ELSE 0
\* Evaluating the reference decoder costs TLC time quadratic in the nesting depth of the input (its evaluation context
\* grows with the depth of recursion).  An input the generator marks "noref" (collection headers nested thousands deep) is
\* not decoded here: for it only what the property says of EVERY byte string is demanded - no panic, no hang, no crash,
\* a well-formed result that survives re-encoding - and the memory bound with the largest count (64) that the property's
\* domain admits when a limit is off.
NoRef(c) == "noref" \in DOMAIN c
\* An input of the seeded generators of tools/props/c04.py (random bytes, splices, flips, forged words, hex strings, nests)
\* carries SEVERAL defects.  The reference decoder meets them in the order of one implementation; a decoder that validates
\* in another order legitimately reports another of the errors the input deserves.  That an over-limit count is answered
\* with geometry-too-large (and no other error) is therefore demanded of the single-defect inputs of WKBMutModel only;
\* that such an input is not ACCEPTED is demanded of every input.
Multi(c) == "multi" \in DOMAIN c
\* c.nest = number of collection headers nested around the innermost member (tools/props/c04.py nests()).  "An error" is a
\* permitted answer to any byte string, and a cap on the nesting depth is ordinary hardening: an input nested deeper than
\* 32 levels need not be accepted (if it is accepted, the result is judged like any other).
Nested(c) == "nest" \in DOMAIN c /\ c.nest > 32
Clause(r) ==
  LET c == r.case
      nb == NoBytes(c)
      b == InBytes(c)
      d == Decode(b, c.flavor, c.nan, c.lim)
      std == ~nb /\ Standard(b, c, d) IN
  CASE r.ev = "notrun" -> "ok"          \* the driver stopped this chunk after repeated crashes (each one reported)
    [] r.ev # "ok" -> r.ev
    [] r.errclass = "panic" -> "panic"
    [] NoRef(c) /\ r.alloc > AllocBound(Len(b), c.lim, 64) -> "allocation-unbounded"
    [] ~NoRef(c) /\ ~nb /\ ~d.ok /\ d.err = "toolarge" /\ r.ok -> "accepts-invalid:toolarge"
    [] ~NoRef(c) /\ ~Multi(c) /\ ~nb /\ ~d.ok /\ d.err = "toolarge" /\ r.errclass # "toolarge" -> "limit-not-reported"
    [] ~NoRef(c) /\ r.alloc > (IF nb THEN AllocBound(Len(c.hexcodes), c.lim, 0) ELSE AllocBound(Len(b), c.lim, d.mx)) -> "allocation-unbounded"
    [] r.ok /\ \E k \in DOMAIN r.wf : ~(r.wf[k].k \in FG!Kinds /\ FG!WellFormedObj(r.wf[k])) -> "ill-formed-result"
    \* (d1m, d2m: digests of the decoded tree and of the tree decoded from its re-encoding, members' SRIDs left out)
    [] r.ok /\ ~(r.re = "ok" /\ r.d2m = r.d1m) -> "not-canonical"
    [] NoRef(c) -> "ok"
    \* (a wrapper that reports success and holds no geometry - errclass "null" - counts as a refusal)
    [] std /\ Fits(c, d) /\ ~r.ok /\ ~Nested(c) -> "rejects-valid:" \o r.errclass
    [] std /\ r.ok /\ (IF r.deep THEN Match(d.g, r.pre, 1) # Len(r.pre) + 1 ELSE StripMS(r.g) # StripMS(d.g)) -> "decoded-geometry-differs"
    [] std /\ r.ok /\ c.via = "" /\ r.consumed # d.pos -> "bytes-consumed"
    [] OTHER -> "ok"
\* informational (not a verdict): disagreement with the reference decoder on non-standard input
Differs(r) == LET c == r.case  d == Decode(InBytes(c), c.flavor, c.nan, c.lim) IN r.ev = "ok" /\ (d.ok # r.ok \/ (d.ok /\ r.ok /\ r.g # d.g))
VARIABLES i, bad
Init == i = 1 /\ bad = 0
Next == /\ i <= Len(Recs)
        /\ LET r == Recs[i]  c == Clause(r) IN
           /\ IF c = "ok" THEN TRUE
              ELSE PrintT(<<"VIOL", ToJson([i |-> i, sig |-> "wkbdec|" \o c])>>)
           /\ bad' = IF c = "ok" THEN bad ELSE bad + 1
        /\ i' = i + 1
\* domain pass for the seeded generators (tools/props/c04.py): the largest count field the reference decoder meets in a
\* candidate input with all limits off; only candidates whose counts are backed by input are run with a limit disabled
NextDom == /\ i <= Len(Recs)
           /\ PrintT(<<"DOM", ToJson([i |-> i, mx |-> Decode(InBytes(Recs[i]), Recs[i].flavor, Recs[i].nan, <<-1, -1, -1>>).mx])>>)
           /\ i' = i + 1 /\ bad' = bad
Done == i = Len(Recs) + 1 => PrintT(<<"SUMMARY", ToJson([n |-> Len(Recs), bad |-> bad])>>)
====
