---- MODULE WKBDecObs ----
(* model B for C04: the real decoders on arbitrary bytes, decided by the reference decoder.
   Any input (enumerated mutation, random, fuzz-generated) is decided by evaluating Decode on its bytes. *)
EXTENDS WKB, Json, IOUtils
FG == INSTANCE FlatGeom
Recs == ndJsonDeserialize(IOEnv.TRACEFILE)
\* memory: proportional to the input plus what the limits allow each count field to claim (a count field costs 4
\* input bytes and may reserve limit x 32 bytes before the shortage is noticed), plus a constant for the call.
MaxLim(lim) == Max2(Max2(lim[1], lim[2]), Max2(lim[3], 0))
AllocBound(n, lim, mx) ==
  16384 + 256 * n + (IF lim = <<-1, -1, -1>> THEN 64 * mx * (n + 1) ELSE 16 * (n + 4) * (MaxLim(lim) + 1))
Clause(r) ==
  LET c == r.case  d == Decode(c.bytes, c.flavor, c.nan, c.lim) IN
  CASE r.ev = "notrun" -> "ok"          \* the driver stopped this chunk after repeated crashes (each one reported)
    [] r.ev # "ok" -> r.ev
    [] r.errclass = "panic" -> "panic"
    [] d.ok /\ ~r.ok -> "rejects-valid:" \o r.errclass
    [] ~d.ok /\ r.ok -> "accepts-invalid:" \o d.err
    [] ~d.ok /\ d.err = "toolarge" /\ r.errclass # "toolarge" -> "limit-not-reported"
    [] r.alloc > AllocBound(Len(c.bytes), c.lim, d.mx) -> "allocation-unbounded"
    [] r.ok /\ r.g # d.g -> "decoded-geometry-differs"
    [] r.ok /\ c.via = "" /\ r.consumed # d.pos -> "bytes-consumed"
    [] r.ok /\ \E k \in DOMAIN r.wf : ~(r.wf[k].k \in FG!Kinds /\ FG!WellFormedObj(r.wf[k])) -> "ill-formed-result"
    [] r.ok /\ ~(r.re = "ok" /\ r.d2 = r.d1) -> "not-canonical"
    [] OTHER -> "ok"
VARIABLES i, bad
Init == i = 1 /\ bad = 0
Next == /\ i <= Len(Recs)
        /\ LET r == Recs[i]  c == Clause(r) IN
           /\ IF c = "ok" THEN TRUE
              ELSE PrintT(<<"VIOL", ToJson([i |-> i, sig |-> "wkbdec|" \o c])>>)
           /\ bad' = IF c = "ok" THEN bad ELSE bad + 1
        /\ i' = i + 1
Done == i = Len(Recs) + 1 => PrintT(<<"SUMMARY", ToJson([n |-> Len(Recs), bad |-> bad])>>)
====
