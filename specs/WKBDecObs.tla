---- MODULE WKBDecObs ----
(* model B for C04: the real decoders on arbitrary bytes, decided by the reference decoder.
   Any input (enumerated mutation, random, fuzz-generated) is decided by evaluating Decode on its bytes. *)
EXTENDS WKB, Json, IOUtils
FG == INSTANCE FlatGeom
Recs == ndJsonDeserialize(IOEnv.TRACEFILE)
\* memory: proportional to the input plus what the limits allow each count field to claim (a count field costs 4
\* input bytes and may reserve limit x 32 bytes before the shortage is noticed), plus a constant for the call.
\* The constants are deliberately generous (a refactoring that puts a 4 KiB buffered reader around every nested read
\* stays inside): what the bound must catch is an allocation proportional to a FORGED count (>= 2^16 elements).
MaxLim(lim) == Max2(Max2(lim[1], lim[2]), Max2(lim[3], 0))
AllocBound(n, lim, mx) ==
  32768 + 4096 * n + (IF lim = <<-1, -1, -1>> THEN 64 * mx * (n + 1) ELSE 16 * (n + 4) * (MaxLim(lim) + 1))
\* The input is the standard encoding of the geometry the reference decoder reads from it (whole input consumed,
\* re-encoding gives the same bytes).  Only for such inputs does the property fix WHAT must be returned (C03);
\* for all other byte strings it demands totality, a well-formed and stable result, and the limit / memory rules -
\* whether a malformed input is accepted or rejected, and with which error, is left to the implementation.
Standard(c, d) ==
  /\ d.ok /\ d.pos = Len(c.bytes) /\ Len(c.bytes) > 0 /\ c.bytes[1] \in {0, 1}
  /\ EncC(d.g, IF c.bytes[1] = 0 THEN "XDR" ELSE "NDR",
          IF c.flavor = "ewkb" THEN "ewkb" ELSE IF c.nan THEN "wkbnan" ELSE "wkb", TRUE) = c.bytes
Clause(r) ==
  LET c == r.case  d == Decode(c.bytes, c.flavor, c.nan, c.lim) IN
  CASE r.ev = "notrun" -> "ok"          \* the driver stopped this chunk after repeated crashes (each one reported)
    [] r.ev # "ok" -> r.ev
    [] r.errclass = "panic" -> "panic"
    [] ~d.ok /\ d.err = "toolarge" /\ r.ok -> "accepts-invalid:toolarge"
    [] ~d.ok /\ d.err = "toolarge" /\ r.errclass # "toolarge" -> "limit-not-reported"
    [] r.alloc > AllocBound(Len(c.bytes), c.lim, d.mx) -> "allocation-unbounded"
    [] r.ok /\ \E k \in DOMAIN r.wf : ~(r.wf[k].k \in FG!Kinds /\ FG!WellFormedObj(r.wf[k])) -> "ill-formed-result"
    [] r.ok /\ ~(r.re = "ok" /\ r.d2 = r.d1) -> "not-canonical"
    [] Standard(c, d) /\ ~r.ok -> "rejects-valid:" \o r.errclass
    [] Standard(c, d) /\ r.g # d.g -> "decoded-geometry-differs"
    [] Standard(c, d) /\ c.via = "" /\ r.consumed # d.pos -> "bytes-consumed"
    [] OTHER -> "ok"
\* informational (not a verdict): disagreement with the reference decoder on non-standard input
Differs(r) == LET c == r.case  d == Decode(c.bytes, c.flavor, c.nan, c.lim) IN r.ev = "ok" /\ (d.ok # r.ok \/ (d.ok /\ r.ok /\ r.g # d.g))
VARIABLES i, bad
Init == i = 1 /\ bad = 0
Next == /\ i <= Len(Recs)
        /\ LET r == Recs[i]  c == Clause(r) IN
           /\ IF c = "ok" THEN TRUE
              ELSE PrintT(<<"VIOL", ToJson([i |-> i, sig |-> "wkbdec|" \o c])>>)
           /\ bad' = IF c = "ok" THEN bad ELSE bad + 1
        /\ i' = i + 1
Done == i = Len(Recs) + 1 => PrintT(<<"SUMMARY", ToJson([n |-> Len(Recs), bad |-> bad])>>)
====
