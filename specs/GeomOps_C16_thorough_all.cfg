INIT Init
NEXT Next
VIEW View
INVARIANT Inv RevRev
PROPERTY CloneIndependent FailedPushUnchanged
ACTION_CONSTRAINT Emit
CONSTANTS
  MaxLen = 3
  Rich = TRUE
  KindsUsed <- KindsClone
  LayoutsUsed <- LayoutsAll
  OpsUsed <- OpsC16
  TailOps <- TailC16
