INIT Init
NEXT Next
INVARIANT NoPanic StackNonEmpty AcceptedAtTop TreeTotal
ACTION_CONSTRAINT Emit

CONSTANTS
  MaxLen = 14
  PruneSyn = TRUE
  KeywordsUsed <- KwRings
  PointsUsed <- PtsRings
  PunctsUsed <- PunctNoErr
  EmitRejects = FALSE
