INIT Init
NEXT Next
INVARIANT Laws Emit
CONSTANTS
  Family = "gc"
  MaxLen = 0
  Rich = FALSE
