INIT Init
NEXT Next
INVARIANT Laws Emit
CONSTANTS
  Family = "orient"
  N = 6
  K = 0
