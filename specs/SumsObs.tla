---- MODULE SumsObs ----
(* model B for C09 (MODE = "measure") and C14 (MODE = "centroid"): the real Area / Length / centroid /
   ring-direction / signed-area results, decided against ExactSums. *)
EXTENDS ExactSums, Json, IOUtils, TLC
Recs == ndJsonDeserialize(IOEnv.TRACEFILE)
MODE == IOEnv.MODE
OK == [ok |-> TRUE, sig |-> "", row |-> 0]
Bad(s, k) == [ok |-> FALSE, sig |-> s, row |-> k]
FirstOf(S) == CHOOSE k \in S : \A m \in S : k <= m

\* ---------------------------------------------------------------- C09
WantA2(k, v) == CASE k = "LR" -> Area2(v) [] k = "PG" -> Area2P(v) [] k = "MPG" -> Area2MP(v) [] OTHER -> 0
WantLen(k, v) == CASE k \in {"LR", "LS"} -> Length(v) [] k \in {"PG", "MLS"} -> LengthP(v) [] k = "MPG" -> LengthMP(v) [] OTHER -> 0
PartKind(k) == CASE k = "PG" -> "LR" [] k = "MLS" -> "LS" [] k = "MPG" -> "PG" [] OTHER -> "none"
MOne(o, k, v) ==
  CASE o.pan # "" -> "panic"
    \* the catalogue's measures are integers; "to within rounding": within 2^-10 (a compensated or re-centred sum may differ
    \* from the integer in the last bits)
    [] ~(o.a2.qok /\ Abs(o.a2.q - 1024 * WantA2(k, v)) <= 1) -> "area"
    [] ~(o.len.qok /\ Abs(o.len.q - 1024 * WantLen(k, v)) <= 1) -> "length"
    [] OTHER -> "ok"
HasEmptyPart(k, v) == k = "MPG" /\ \E i \in DOMAIN v : v[i] = <<>>
VMeasure(r) ==
  LET k == r.case.k  v == r.case.v  w == MOne(r.whole, k, v)
      np == IF PartKind(k) = "none" THEN 0 ELSE Len(v)
      badp == {i \in 1..np : i > Len(r.parts) \/ MOne(r.parts[i], PartKind(k), v[i]) # "ok"} IN
  IF r.seterr # "" THEN Bad("measure|setcoords-error", 0)
  ELSE IF w # "ok" THEN Bad("measure|" \o k \o "|" \o w \o (IF HasEmptyPart(k, v) THEN "|empty-polygon-member" ELSE ""), 0)
  ELSE IF Len(r.parts) # np THEN Bad("measure|" \o k \o "|part-count", 0)
  ELSE IF badp # {} THEN Bad("measure|" \o k \o "|part|" \o MOne(r.parts[FirstOf(badp)], PartKind(k), v[FirstOf(badp)]), FirstOf(badp))
  \* the same value built through the Flat constructor (empty members as empty, non-nil offset slices) and its Clone: the
  \* measures are those of the value, whatever representation holds it
  ELSE IF "alts" \in DOMAIN r /\ \E j \in DOMAIN r.alts : MOne(r.alts[j], k, v) # "ok"
       THEN LET j == FirstOf({j \in DOMAIN r.alts : MOne(r.alts[j], k, v) # "ok"}) IN
            Bad("measure|" \o k \o "|flat-constructor-representation|" \o MOne(r.alts[j], k, v), j)
  ELSE OK

\* ---------------------------------------------------------------- C14
CQ == 256
Near(o, num, den, off) ==
  /\ o.t = "num"
  /\ Abs((o.q - off * CQ) * den - num * CQ) <= 2 * Abs(den)
CenOK(o, ce, off) == o.pan = "" /\ Near(o.x, ce[1], ce[3], off[1]) /\ Near(o.y, ce[2], ce[3], off[2])
Fns == [poly |-> <<"PolygonsCentroid", "MultiPolygonCentroid", "Centroid(MultiPolygon)", "Centroid(Polygon)">>,
        lines |-> <<"LinesCentroid", "MultiLineCentroid", "LinearRingsCentroid", "Centroid(MultiLineString)", "Centroid(LineString)", "Centroid(LinearRing)">>,
        points |-> <<"PointsCentroid", "MultiPointCentroid", "PointsCentroidFlat", "Centroid(MultiPoint)">>]
AllRings(ps) == [i \in 1..SumSeq([p \in DOMAIN ps |-> Len(ps[p])]) |->
                   LET RECURSIVE Pick(_, _)
                       Pick(p, j) == IF j <= Len(ps[p]) THEN ps[p][j] ELSE Pick(p + 1, j - Len(ps[p]))
                   IN Pick(1, i)]
ClosedL(l) == IF l[1] = l[Len(l)] THEN l ELSE Append(l, l[1])
RingWhy(ro, ring) ==
  CASE ro.pan # "" -> (IF SimpleRing(ring) THEN "panic" ELSE "ok")       \* the statement speaks of simple rings
    [] ~(ro.sa2.qok /\ Abs(ro.sa2.q + 1024 * Area2(ring)) <= 1) -> "SignedArea"
    [] Area2(ring) # 0 /\ SimpleRing(ring) /\ ro.ccw # (Area2(ring) > 0) -> "IsRingCounterClockwise"
    [] OTHER -> "ok"
VCentroid(r) ==
  LET kind == r.case.kind
      ce == CASE kind = "poly" -> AreaCentroid(r.case.polys) [] kind = "lines" -> LineCentroid(r.case.lines)
              [] OTHER -> PointCentroid(r.case.pts)
      \* the two entry points that take LINEAR RINGS are fed the closed versions of the lines (an unclosed "ring" is outside the
      \* property: whether its missing edge counts is left open)
      ceR == IF kind = "lines" THEN LineCentroid([i \in DOMAIN r.case.lines |-> ClosedL(r.case.lines[i])]) ELSE ce
      want(k) == IF kind = "lines" /\ k \in {3, 6} THEN ceR ELSE ce
      bad == {k \in DOMAIN r.res : ~CenOK(r.res[k], want(k), r.case.off)}
      zero == kind = "poly" /\ SumSeq([p \in DOMAIN r.case.polys |-> PolyA2(r.case.polys[p])]) = 0 IN
  IF bad # {} THEN
    LET k == FirstOf(bad) IN
    Bad("centroid|" \o Fns[kind][k] \o "|" \o (IF r.res[k].pan # "" THEN "panic" ELSE IF r.res[k].x.t # "num" THEN r.res[k].x.t ELSE "wrong")
        \o (IF zero THEN "|zero-area" ELSE ""), k)
  ELSE IF kind = "poly" THEN
    LET rings == AllRings(r.case.polys)
        badr == {i \in DOMAIN rings : i > Len(r.rings) \/ RingWhy(r.rings[i], rings[i]) # "ok"} IN
    IF badr = {} THEN OK ELSE Bad("ring|" \o RingWhy(r.rings[FirstOf(badr)], rings[FirstOf(badr)]), FirstOf(badr))
  ELSE OK

Verdict(r) ==
  IF r.ev # "ok" THEN Bad(MODE \o "|" \o r.ev, 0)
  ELSE IF MODE = "measure" THEN VMeasure(r) ELSE VCentroid(r)
VARIABLES i, bad
Init == i = 1 /\ bad = 0
Next == /\ i <= Len(Recs)
        /\ LET v == Verdict(Recs[i]) IN
           /\ IF v.ok THEN TRUE ELSE PrintT(<<"VIOL", ToJson([i |-> i, sig |-> v.sig, row |-> v.row])>>)
           /\ bad' = IF v.ok THEN bad ELSE bad + 1
        /\ i' = i + 1
Done == i = Len(Recs) + 1 => PrintT(<<"SUMMARY", ToJson([n |-> Len(Recs), bad |-> bad])>>)
====
