---- MODULE ExactGeomProofs ----
(* TLAPS proofs of design laws of ExactGeom for ALL integer points (TLC checks the same laws on small grids only, and
   Apalache evaluates the definitions on recorded observations): the orientation predicate is antisymmetric under exchanging
   two arguments and invariant under rotating its arguments and under translation (C10); membership in a segment, the
   collinearity test and "the segments meet" do not depend on the direction of a segment or on the order of the two
   segments (C11, C12, C15).  The theorems are about the definitions the checks use: this module EXTENDS ExactGeom. *)
EXTENDS ExactGeom, TLAPS
Pt == [1..2 -> Int]

LEMMA CrossInt == \A a, b, c \in Pt : Cross(a, b, c) \in Int
  BY DEF Cross, Pt
LEMMA CrossSwap == \A a, b, c \in Pt : Cross(b, a, c) = -Cross(a, b, c)
  BY DEF Cross, Pt
LEMMA CrossRot == \A a, b, c \in Pt : Cross(b, c, a) = Cross(a, b, c)
  BY DEF Cross, Pt
LEMMA SignNeg == \A x \in Int : Sign(-x) = -Sign(x)
  BY DEF Sign
LEMMA SignZero == \A x \in Int : (Sign(x) = 0) <=> (x = 0)
  BY DEF Sign
LEMMA SignRange == \A x \in Int : Sign(x) \in {-1, 0, 1}
  BY DEF Sign

THEOREM OrientAntisymmetric == \A a, b, c \in Pt : Orient(b, a, c) = -Orient(a, b, c)
<1> TAKE a, b, c \in Pt
<1>1. Cross(b, a, c) = -Cross(a, b, c) BY CrossSwap
<1>2. Cross(a, b, c) \in Int BY CrossInt
<1> QED BY <1>1, <1>2, SignNeg DEF Orient
THEOREM OrientCyclic == \A a, b, c \in Pt : Orient(b, c, a) = Orient(a, b, c) /\ Orient(c, a, b) = Orient(a, b, c)
<1> TAKE a, b, c \in Pt
<1>1. Cross(b, c, a) = Cross(a, b, c) BY CrossRot
<1>2. Cross(c, a, b) = Cross(b, c, a) BY CrossRot
<1> QED BY <1>1, <1>2 DEF Orient
THEOREM OrientExactlyCollinear == \A a, b, c \in Pt : (Orient(a, b, c) = 0) <=> (Cross(a, b, c) = 0)
  BY CrossInt, SignZero DEF Orient
THEOREM OrientTranslation ==
  \A a, b, c, t, a2, b2, c2 \in Pt :
    (/\ a2[1] = a[1] + t[1] /\ b2[1] = b[1] + t[1] /\ c2[1] = c[1] + t[1]
     /\ a2[2] = a[2] + t[2] /\ b2[2] = b[2] + t[2] /\ c2[2] = c[2] + t[2])
      => Cross(a2, b2, c2) = Cross(a, b, c)
<1> TAKE a, b, c, t, a2, b2, c2 \in Pt
<1> HAVE /\ a2[1] = a[1] + t[1] /\ b2[1] = b[1] + t[1] /\ c2[1] = c[1] + t[1]
         /\ a2[2] = a[2] + t[2] /\ b2[2] = b[2] + t[2] /\ c2[2] = c[2] + t[2]
<1>1. b2[1] - a2[1] = b[1] - a[1] /\ c2[2] - a2[2] = c[2] - a[2] /\ b2[2] - a2[2] = b[2] - a[2] /\ c2[1] - a2[1] = c[1] - a[1]
  BY DEF Pt
<1> QED BY <1>1 DEF Cross

\* ---- segments
LEMMA InBoxSym == \A p, a, b \in Pt : InBox(p, a, b) <=> InBox(p, b, a)
  BY DEF InBox, Min2, Max2, Pt
THEOREM OnSegDirection == \A p, a, b \in Pt : OnSeg(p, a, b) <=> OnSeg(p, b, a)
<1> TAKE p, a, b \in Pt
<1>1. Cross(b, a, p) = -Cross(a, b, p) BY CrossSwap
<1>2. Cross(a, b, p) \in Int BY CrossInt
<1>3. InBox(p, a, b) <=> InBox(p, b, a) BY InBoxSym
<1> QED BY <1>1, <1>2, <1>3 DEF OnSeg
THEOREM Collinear4Direction == \A a, b, c, d \in Pt : Collinear4(a, b, c, d) <=> Collinear4(b, a, d, c)
<1> TAKE a, b, c, d \in Pt
<1>1. Cross(b, a, c) = -Cross(a, b, c) /\ Cross(b, a, d) = -Cross(a, b, d) BY CrossSwap
<1>2. Cross(a, b, c) \in Int /\ Cross(a, b, d) \in Int BY CrossInt
<1> QED BY <1>1, <1>2 DEF Collinear4
LEMMA ProdNeg == \A x, y \in {-1, 0, 1} : (-x) * (-y) = x * y /\ x * y = y * x
  OBVIOUS
THEOREM SegsMeetSymmetric ==
  \A a, b, c, d \in Pt : /\ SegsMeet(a, b, c, d) <=> SegsMeet(c, d, a, b)
                         /\ SegsMeet(a, b, c, d) <=> SegsMeet(b, a, c, d)
<1> TAKE a, b, c, d \in Pt
<1>1. SegsMeet(a, b, c, d) <=> SegsMeet(c, d, a, b)
  BY DEF SegsMeet
<1>2. SegsMeet(a, b, c, d) <=> SegsMeet(b, a, c, d)
  <2>1. OnSeg(c, a, b) <=> OnSeg(c, b, a) BY OnSegDirection
  <2>2. OnSeg(d, a, b) <=> OnSeg(d, b, a) BY OnSegDirection
  <2>3. Orient(b, a, c) = -Orient(a, b, c) /\ Orient(b, a, d) = -Orient(a, b, d) BY OrientAntisymmetric
  <2>4. Orient(a, b, c) \in {-1, 0, 1} /\ Orient(a, b, d) \in {-1, 0, 1} BY CrossInt, SignRange DEF Orient
  <2>5. Orient(b, a, c) * Orient(b, a, d) = Orient(a, b, c) * Orient(a, b, d) BY <2>3, <2>4, ProdNeg
  <2>6. Orient(c, d, b) * Orient(c, d, a) = Orient(c, d, a) * Orient(c, d, b)
    BY CrossInt, SignRange, ProdNeg DEF Orient
  <2> QED BY <2>1, <2>2, <2>5, <2>6 DEF SegsMeet
<1> QED BY <1>1, <1>2
====
