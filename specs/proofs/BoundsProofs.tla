---- MODULE BoundsProofs ----
(* TLAPS proofs about the overlap test of Bounds (C08) for ALL integers: Meets, the per-dimension test the specification
   uses, is exactly closed-interval arithmetic - two intervals [lo1, hi1], [lo2, hi2] meet iff some integer lies in both -
   and it is symmetric in its two intervals; a point is the interval [p, p]. *)
EXTENDS Intervals, TLAPS
THEOREM MeetsIsIntersection ==
  \A lo1, hi1, lo2, hi2 \in Int :
     Meets(lo1, hi1, lo2, hi2) <=> \E v \in Int : lo1 <= v /\ v <= hi1 /\ lo2 <= v /\ v <= hi2
<1> TAKE lo1, hi1, lo2, hi2 \in Int
<1>1. ASSUME Meets(lo1, hi1, lo2, hi2) PROVE \E v \in Int : lo1 <= v /\ v <= hi1 /\ lo2 <= v /\ v <= hi2
  <2> DEFINE w == IF lo1 >= lo2 THEN lo1 ELSE lo2
  <2>1. w \in Int /\ lo1 <= w /\ w <= hi1 /\ lo2 <= w /\ w <= hi2 BY <1>1 DEF Meets
  <2> QED BY <2>1
<1>2. ASSUME NEW v \in Int, lo1 <= v /\ v <= hi1 /\ lo2 <= v /\ v <= hi2 PROVE Meets(lo1, hi1, lo2, hi2)
  BY <1>2 DEF Meets
<1> QED BY <1>1, <1>2
THEOREM MeetsSymmetric == \A lo1, hi1, lo2, hi2 \in Int : Meets(lo1, hi1, lo2, hi2) <=> Meets(lo2, hi2, lo1, hi1)
  BY DEF Meets
THEOREM PointMeets == \A lo, hi, p \in Int : Meets(lo, hi, p, p) <=> (lo <= p /\ p <= hi)
  BY DEF Meets
====
