---- MODULE StorageProofs ----
(* TLAPS proofs about Storage!Meet (C16) for ALL integer addresses: two half-open ranges [lo, hi) of proper slices meet iff
   some address lies in both; meeting is symmetric; a proper range meets itself; a sub-slice s[i:j] with room behind it
   (capacity not clipped) meets everything its parent's tail meets, a clipped one only what lies in [lo+i, lo+j). *)
EXTENDS Storage, TLAPS
Rng(lo, hi) == <<lo, hi, 0>>
THEOREM MeetIsCommonAddress ==
  \A lo1, hi1, lo2, hi2 \in Int :
     (lo1 < hi1 /\ lo2 < hi2) =>
       (Meet(Rng(lo1, hi1), Rng(lo2, hi2)) <=> \E a \in Int : lo1 <= a /\ a < hi1 /\ lo2 <= a /\ a < hi2)
<1> TAKE lo1, hi1, lo2, hi2 \in Int
<1> HAVE lo1 < hi1 /\ lo2 < hi2
<1>1. ASSUME Meet(Rng(lo1, hi1), Rng(lo2, hi2)) PROVE \E a \in Int : lo1 <= a /\ a < hi1 /\ lo2 <= a /\ a < hi2
  <2> DEFINE w == IF lo1 >= lo2 THEN lo1 ELSE lo2
  <2>1. w \in Int /\ lo1 <= w /\ w < hi1 /\ lo2 <= w /\ w < hi2 BY <1>1 DEF Meet, Rng, Lo, Hi
  <2> QED BY <2>1
<1>2. ASSUME NEW a \in Int, lo1 <= a /\ a < hi1 /\ lo2 <= a /\ a < hi2 PROVE Meet(Rng(lo1, hi1), Rng(lo2, hi2))
  BY <1>2 DEF Meet, Rng, Lo, Hi
<1> QED BY <1>1, <1>2
THEOREM MeetSymmetric == \A lo1, hi1, lo2, hi2 \in Int : Meet(Rng(lo1, hi1), Rng(lo2, hi2)) <=> Meet(Rng(lo2, hi2), Rng(lo1, hi1))
  BY DEF Meet, Rng, Lo, Hi
THEOREM ProperMeetsItself == \A lo, hi \in Int : lo < hi => Meet(Rng(lo, hi), Rng(lo, hi))
  BY DEF Meet, Rng, Lo, Hi
\* s[i:j] of a slice with range [lo, hi): without clipping it keeps the parent's upper bound, so whatever meets the parent
\* at or behind lo+i meets the sub-slice; with clipping (s[i:j:j]) nothing beyond lo+j does
THEOREM UnclippedViewKeepsTail ==
  \A lo, hi, i, j, qlo, qhi \in Int :
     (0 <= i /\ i < j /\ lo + j <= hi /\ qlo < qhi /\ lo + i < qhi /\ qlo < hi) =>
        Meet(SubRange(Rng(lo, hi), i, j, FALSE), Rng(qlo, qhi))
  BY DEF Meet, Rng, Lo, Hi, SubRange
THEOREM ClippedViewStaysInside ==
  \A lo, hi, i, j, qlo, qhi \in Int :
     (0 <= i /\ i < j /\ lo + j <= hi /\ lo + j <= qlo) =>
        ~Meet(SubRange(Rng(lo, hi), i, j, TRUE), Rng(qlo, qhi))
  BY DEF Meet, Rng, Lo, Hi, SubRange
====
