---- MODULE WKTObs ----
(* model B for C06 / C05: every parse recorded from the real code is decided by the parser model.
   For a case given as a token sequence (TLC-enumerated, or grammar-derived random) the model is run on
   those tokens; for an arbitrary text (mutations, fuzz) on the tokens the REAL LEXER produced (hook).
   Required: same verdict (accept / reject / no panic at all), the hook's validator events are exactly the
   model's log (each with the same layout stack), and on accept the same layout, the same geometry tree as
   the reference reader builds, one uniform layout, and re-encode -> parse returns the same tree. *)
EXTENDS WKTParser, Json, IOUtils
Recs == ndJsonDeserialize(IOEnv.TRACEFILE)
FG == INSTANCE FlatGeom

SameEvents(ml, gl) ==
  /\ Len(ml) = Len(gl)
  /\ \A k \in DOMAIN ml : /\ ml[k].n = gl[k].n /\ ml[k].ok = gl[k].ok
                          /\ ml[k].ls = gl[k].ls
                          /\ (ml[k].n \in {"VSet", "Push", "Pt"} => ml[k].a = gl[k].a)
\* What the property fixes: a string of the standard grammar that the model accepts must be accepted (C05: every
\* standard spelling parses); a string that is grammatical but semantically inconsistent (mixed dimensions, unclosed or
\* short rings, one-point lines, bad arity - the model's sem = "rej") must be rejected.  A string OUTSIDE the model's
\* grammar that the implementation chooses to accept is not an alarm as long as the result is consistent and stable
\* (a more lenient lexer or grammar does not break the property).
Agree(r, f) == (r.vclass = "acc") = (Verdict(f) = "acc")
SoftCauses == {"Base", "Empty", "NonEmpty", "CloseGC"}
\* DIAGNOSTICS, never a verdict: the hook trace of validator events and the lexer's token stream are the suite's own
\* instrumentation of lex.go; a refactoring that merges or reorders validators, or lexes differently, changes them without
\* touching the property.  Divergences are counted (SUMMARY.div) so that a stale model is noticed.
Diverges(r, f) == Agree(r, f) /\ ~r.weak /\ (~SameEvents(f.log, r.events) \/ (r.vclass = "acc" /\ r.hastoks /\ r.ltoks # r.want))
Clause(r, f) ==
  CASE r.ev # "ok" -> r.ev
    [] r.vclass = "panic" -> "panic"
    [] ~r.errok -> "error-not-renderable"
    \* (want-acc only with full token knowledge: the real lexer's tokens carry no values, so ring closure cannot be decided from them)
    [] r.hastoks /\ r.vclass # "acc" /\ Verdict(f) = "acc" -> "verdict:" \o r.vclass \o "-want-acc"
    \* the statement lists mixed dimensions, unclosed / short rings, one-point lines and bad point arity as what must be rejected;
    \* the further rejections of lex.go (a base-type member of a typed collection must be EMPTY, an EMPTY base type is XY, a
    \* collection whose members disagree with the layout it ended up with) are consistent readings, not the only ones
    [] r.vclass = "acc" /\ f.st = "acc" /\ f.sem # "ok" /\ f.why \notin SoftCauses -> "verdict:acc-want-rej"
    [] r.vclass = "acc" /\ Agree(r, f) /\ r.l # FinalLayout(f) -> "layout"
    [] r.vclass = "acc" /\ ~r.uniform -> "mixed-layouts-in-result"
    [] r.vclass = "acc" /\ (\E k \in DOMAIN r.wf : ~FG!WellFormedObj(r.wf[k])) -> "ill-formed-result"   \* C01: "any decoder"
    [] r.vclass = "acc" /\ Agree(r, f) /\ r.hastoks /\ r.tree # Tree(r.toks) -> "tree"
    [] r.vclass = "acc" /\ (r.tree2 # r.tree \/ r.l2 # r.l) -> "reencode-reparse"
    [] OTHER -> "ok"
VARIABLES i, bad, div
Init == i = 1 /\ bad = 0 /\ div = 0
\* ring closure with or without the Z ordinate: the real parser must agree with ONE of the two readings throughout a parse
ClauseAny(r) == LET c1 == Clause(r, Run(S0z("xyz"), r.toks)) IN
                IF c1 = "ok" THEN "ok"
                ELSE IF Clause(r, Run(S0z("xy"), r.toks)) = "ok" THEN "ok"
                ELSE IF Clause(r, Run(S0z("all"), r.toks)) = "ok" THEN "ok" ELSE c1
Next == /\ i <= Len(Recs)
        /\ LET r == Recs[i]  c == ClauseAny(r) IN
           /\ IF c = "ok" THEN TRUE
              ELSE PrintT(<<"VIOL", ToJson([i |-> i, sig |-> "wkt|" \o c, text |-> r.text])>>)
           /\ bad' = IF c = "ok" THEN bad ELSE bad + 1
           /\ div' = IF c = "ok" /\ Diverges(r, Run(S0, r.toks)) THEN div + 1 ELSE div
        /\ i' = i + 1
Done == i = Len(Recs) + 1 => PrintT(<<"SUMMARY", ToJson([n |-> Len(Recs), bad |-> bad, div |-> div])>>)
====
