---- MODULE Intervals ----
(* Closed-interval arithmetic of the overlap tests of C08, in a module of its own so that TLAPS can read it
   (proofs/BoundsProofs.tla proves for all integers that Meets is "some value lies in both intervals"). *)
EXTENDS Integers
\* closed-interval arithmetic: [lo1, hi1] and [lo2, hi2] share a value
Meets(lo1, hi1, lo2, hi2) == lo1 <= hi1 /\ lo2 <= hi2 /\ (IF lo1 >= lo2 THEN lo1 ELSE lo2) <= (IF hi1 <= hi2 THEN hi1 ELSE hi2)
Overlap(n, min1, max1, min2, max2) == \A k \in 1..n : Meets(min1[k], max1[k], min2[k], max2[k])
OverlapPt(n, min1, max1, p) == \A k \in 1..n : Meets(min1[k], max1[k], p[k], p[k])
====
