INIT Init
NEXT Next
INVARIANT Laws Emit
CONSTANTS
  Family = "fdec"
  Rich = FALSE
