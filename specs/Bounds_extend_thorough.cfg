INIT Init
NEXT Next
INVARIANT Laws Emit
CONSTANTS
  Family = "extend"
  MaxLen = 4
  Rich = FALSE
