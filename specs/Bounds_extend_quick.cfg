INIT Init
NEXT Next
INVARIANT Laws Emit
CONSTANTS
  Family = "extend"
  MaxLen = 3
  Rich = FALSE
