---- MODULE WKBMutModel ----
(* model A for C04: mutations of valid encodings (every truncation, byte substitutions over the header /
   count / SRID region, concatenation) x element-limit settings.  With limits DISABLED only inputs whose
   count fields are small are emitted (the property explores only counts backed by actual input there:
   a forged count with limits off is the documented way to exhaust memory). *)
EXTENDS WKB, Json, FiniteSets
CONSTANTS Rich
G(t, l, srid, body) == [t |-> t, l |-> l, srid |-> srid, body |-> body]
N == <<>>
C(l) == [i \in 1..Stride(l) |-> i]
D(l) == [i \in 1..Stride(l) |-> 10 + i]
PT(l, c) == G("PT", l, N, c)
LS(l, cs) == G("LS", l, N, cs)
PG(l, rs) == G("PG", l, N, rs)
Bases == { PT("XY", C("XY")), [PT("XYZM", C("XYZM")) EXCEPT !.srid = <<0, 0, 16, 230>>], PT("XYZ", <<>>),
           LS("XYM", <<C("XYM"), D("XYM")>>),
           PG("XY", <<<<C("XY"), D("XY"), C("XY")>>, <<>>, <<D("XY")>>>>),
           G("MPT", "XYZ", N, <<PT("XYZ", C("XYZ")), PT("XYZ", <<>>)>>),
           G("MLS", "XY", N, <<LS("XY", <<C("XY"), D("XY")>>), LS("XY", <<>>)>>),
           G("MPG", "XY", N, <<PG("XY", <<>>), PG("XY", <<<<C("XY"), D("XY"), C("XY")>>>>)>>),
           G("GC", "XYZ", N, <<PT("XY", C("XY")), G("GC", "XYZ", N, <<LS("XYZ", <<C("XYZ")>>)>>)>>),
           G("GC", "XY", N, <<>>) }
        \cup (IF Rich THEN { G("MPG", "XYM", <<0, 0, 0, 7>>, <<PG("XYM", <<<<C("XYM"), D("XYM"), C("XYM")>>, <<D("XYM")>>>>), PG("XYM", <<<<>>>>)>>),
                             G("GC", "XYZM", N, <<G("MPT", "XYZM", N, <<PT("XYZM", D("XYZM"))>>), G("GC", "XYZM", N, <<>>), PT("XYZM", <<>>)>>) }
              ELSE {})
ImgA(tok) == <<64, tok, 0, 0, 0, 0, 0, 0>>
ImgTab == [i \in 1..30 |-> <<i>> \o ImgA(i)]
Vals == IF Rich THEN {0, 1, 2, 3, 4, 7, 8, 15, 16, 17, 32, 64, 96, 128, 160, 192, 224, 255} ELSE {0, 1, 2, 3, 7, 8, 17, 32, 64, 128, 192, 255}
MaxPos == IF Rich THEN 80 ELSE 48
\* limits per level <<coordinates, rings, parts>>; every ordering of strictness between the levels occurs
Lims == {<<-1, -1, -1>>, <<0, 0, 0>>, <<2, 2, 2>>, <<1, 3, 2>>, <<3, 1, 5>>} \cup (IF Rich THEN {<<16, 1, 0>>, <<3, 0, 5>>, <<-1, 2, -1>>, <<5, 5, 1>>} ELSE {})
\* forged type words (little-endian image): every code of the ISO table and its neighbours, and the EWKB flag bits
TypeCodes == (0..8) \cup {1000 * k + t : k \in 1..5, t \in {0, 1, 2, 3, 7, 8}} \cup {9999, 65535}
TypeFlags == IF Rich THEN {0, 128, 64, 192, 32, 224, 16, 1} ELSE {0, 128, 64, 224}
TypeWords == {<<c % 256, c \div 256, 0, f>> : c \in TypeCodes, f \in TypeFlags}
RevW(w) == <<w[4], w[3], w[2], w[1]>>
TypeMutants(b, order) == IF Len(b) < 5 THEN {}
                         ELSE {SubSeq(b, 1, 1) \o (IF order = "NDR" THEN w ELSE RevW(w)) \o SubSeq(b, 6, Len(b)) : w \in TypeWords}
Mutants(b) == {SubSeq(b, 1, t) : t \in 0..(Len(b) - 1)}
              \cup {[b EXCEPT ![p] = v] : p \in 1..(IF Len(b) < MaxPos THEN Len(b) ELSE MaxPos), v \in Vals}
              \cup {b, b \o b, b \o <<1>>}
VARIABLES bytes, flavor, nan, lim
Init == \E g \in Bases, order \in {"NDR", "XDR"}, fl \in {"wkb", "wkbnan", "ewkb"} :
           LET sym == Enc(g, order, fl) IN
           /\ sym # <<>>
           /\ flavor = IF fl = "ewkb" THEN "ewkb" ELSE "wkb"
           /\ nan \in (IF fl = "wkbnan" THEN BOOLEAN ELSE {FALSE})     \* NaN-point bytes are also read in plain mode
           /\ \/ bytes \in Mutants(Concrete(sym, ImgTab)) /\ lim \in Lims
              \/ bytes \in TypeMutants(Concrete(sym, ImgTab), order) /\ lim \in {<<-1, -1, -1>>, <<2, 2, 2>>}
           \* with a limit disabled at ANY level only inputs whose count fields are small (backed by input) are in the
           \* property's domain: a forged count at a disabled level is the documented way to exhaust memory
           /\ ((\E k \in 1..3 : lim[k] = -1) => Decode(bytes, flavor, nan, lim).mx <= 64)
Next == FALSE /\ UNCHANGED <<bytes, flavor, nan, lim>>
\* design invariants of the reference decoder on every modelled input
DecTotal ==
  LET d == Decode(bytes, flavor, nan, lim) IN
  /\ d.pos <= Len(bytes)
  /\ (d.ok => WFTree(d.g))
  /\ (~d.ok => d.err \in {"eof", "byteorder", "unknowntype", "unsupportedtype", "toolarge", "childtype", "childlayout"})
\* how the bytes reach the decoder: stream reader (""), hex wrapper, or Scan of a database/sql wrapper of either flavour
\* (the wrappers take no options, so not in NaN mode).  The wrapper is the one of the type id the input shows (every
\* other time) or any of the eight, so that malformed input reaches every typed wrapper of wkb and ewkb.
Wraps == <<"ANY", "PT", "LS", "PG", "MPT", "MLS", "MPG", "GC">>
Via == CASE (Len(bytes) + lim[1]) % 5 = 0 -> "hex" [] (Len(bytes) + lim[2]) % 7 = 0 /\ ~nan -> "sql" [] OTHER -> ""
H == (Len(bytes) \div 7) + lim[1] + 3 * lim[3] + 4 + (IF Len(bytes) >= 7 THEN bytes[6] + bytes[7] ELSE 0)
\* 1000 % 8 = 0: the low byte of the type word mod 8 is the type id in ISO and EWKB codes alike
TypeGuess == IF Len(bytes) >= 5 THEN (IF bytes[1] = 0 THEN bytes[5] ELSE bytes[2]) % 8 ELSE 0
Wrap == IF Via # "sql" THEN ""
        ELSE LET w == Wraps[1 + (IF H % 2 = 0 THEN TypeGuess ELSE (H \div 2) % 8)] IN
             IF w = "ANY" /\ flavor = "ewkb" THEN "GC" ELSE w              \* ewkb has no untyped wrapper
Emit == PrintT(<<"CASE", ToJson([bytes |-> bytes, flavor |-> flavor, nan |-> nan, lim |-> lim, via |-> Via, wrap |-> Wrap,
                                 hexcodes |-> <<>>])>>)
\* the unmutated encodings, handed to the seeded generators of tools/props/c04.py (splices, multi-byte flips, hex strings)
InitBase == \E g \in Bases, order \in {"NDR", "XDR"}, fl \in {"wkb", "wkbnan", "ewkb"} :
              LET sym == Enc(g, order, fl) IN
              /\ sym # <<>>
              /\ bytes = Concrete(sym, ImgTab)
              /\ flavor = (IF fl = "ewkb" THEN "ewkb" ELSE "wkb") /\ nan = (fl = "wkbnan") /\ lim = <<-1, -1, -1>>
EmitBase == PrintT(<<"BASE", ToJson([bytes |-> bytes, flavor |-> flavor, nan |-> nan])>>)
====
