SPECIFICATION Spec
CONSTANT N = 4
INVARIANT Symmetric
PROPERTY NoMeetNoEffect MeetCanShow ClippedAppendsElsewhere
CHECK_DEADLOCK FALSE
