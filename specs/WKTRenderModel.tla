---- MODULE WKTRenderModel ----
(* model A for C05: geometry trees of all 7 types x 4 layouts with EMPTY members at the front, middle and
   end, nested and empty collections; emits each tree with its canonical and its parenthesised rendering.
   Design invariant (checked by TLC on every tree): the parser model reads both renderings back to the tree. *)
EXTENDS WKTRender, FiniteSets, Json
CONSTANT Rich
G(t, l, body) == [t |-> t, l |-> l, body |-> body]
Layouts == {"XY", "XYZ", "XYM", "XYZM"}
n(l) == StrideOf(l)
A(l) == [i \in 1..n(l) |-> 0]   B(l) == [i \in 1..n(l) |-> i]   C(l) == [i \in 1..n(l) |-> 4 + i]
D(l) == [i \in 1..n(l) |-> IF i = 1 THEN 10 ELSE 9]          \* -0 in X (identifier 10 is negative zero)
Ring(l) == <<A(l), B(l), C(l), A(l)>>
Ring2(l) == <<B(l), C(l), D(l), A(l), B(l)>>
Leaf(l) == { G("PT", l, A(l)), G("PT", l, D(l)), G("PT", l, <<>>), G("LS", l, <<>>), G("LS", l, <<A(l), B(l)>>),
             G("LS", l, <<C(l), D(l), B(l)>>),
             G("PG", l, <<>>), G("PG", l, <<Ring(l)>>), G("PG", l, <<Ring(l), Ring2(l)>>) }
Multi(l) == { G("MPT", l, <<>>), G("MPT", l, <<A(l), NILPT>>), G("MPT", l, <<NILPT, B(l)>>), G("MPT", l, <<B(l), NILPT, C(l)>>),
              G("MPT", l, <<NILPT>>),
              G("MLS", l, <<>>), G("MLS", l, <<<<>>, <<A(l), B(l)>>, <<>>>>), G("MLS", l, <<<<A(l), B(l)>>, <<C(l), D(l), A(l)>>>>),
              G("MPG", l, <<>>), G("MPG", l, <<<<>>, <<Ring(l)>>, <<>>, <<Ring(l), Ring2(l)>>>>),
              G("MPG", l, <<<<Ring2(l)>>, <<>>>>), G("MPG", l, <<<<>>>>),
              \* three and four non-empty polygons (offsets after the SECOND non-empty member), holes in a later member
              G("MPG", l, <<<<Ring(l)>>, <<Ring2(l)>>, <<Ring(l)>>>>), G("MPG", l, <<<<Ring(l)>>, <<>>, <<Ring2(l)>>, <<Ring(l), Ring2(l)>>, <<Ring2(l)>>>>),
              G("MLS", l, <<<<A(l), B(l)>>, <<C(l), D(l)>>, <<>>, <<B(l), C(l), A(l)>>, <<A(l), D(l)>>>>) }
\* every sequence of up to 4 (Rich: 5) members over {EMPTY, a small member, a larger member}: EMPTY runs of every length at the
\* front, in the middle and at the end (the offsets of a member are re-based across all the EMPTY members before it)
SeqsOver(S, k) == UNION {[1..j -> S] : j \in 1..k}
MaxMembers == IF Rich THEN 5 ELSE 4
Runs(l) == { G("MPG", l, b) : b \in SeqsOver({<<>>, <<Ring(l)>>, <<Ring(l), Ring2(l)>>}, MaxMembers) }
           \cup { G("MLS", l, b) : b \in SeqsOver({<<>>, <<A(l), B(l)>>, <<C(l), D(l), A(l)>>}, MaxMembers) }
           \cup { G("MPT", l, b) : b \in SeqsOver({NILPT, A(l), C(l)}, MaxMembers) }
Some(l) == { G("PT", l, B(l)), G("PT", l, <<>>), G("LS", l, <<A(l), B(l)>>), G("PG", l, <<Ring(l)>>),
             G("MPT", l, <<NILPT, B(l)>>), G("MPG", l, <<<<>>, <<Ring(l)>>>>), G("MLS", l, <<<<>>>>) }
Coll(l) == { G("GC", l, <<>>) }
           \cup { G("GC", l, <<x>>) : x \in Leaf(l) \cup Multi(l) }
           \cup { G("GC", l, <<x, G("GC", l, <<y>>)>>) : x \in Some(l), y \in Some(l) }
           \cup { G("GC", l, <<G("GC", l, <<>>), x>>) : x \in Some(l) }
           \cup (IF Rich THEN { G("GC", l, <<G("GC", l, <<G("GC", l, <<x>>), y>>), G("GC", l, <<>>)>>) : x \in Some(l), y \in Some(l) } ELSE {})
Geoms == UNION {Leaf(l) \cup Multi(l) \cup Runs(l) \cup Coll(l) : l \in Layouts}
VARIABLE g
Init == g \in Geoms
Next == FALSE /\ UNCHANGED g
RenderParses == ParsesBack(g, Render(g)) /\ ParsesBack(g, RenderG(g, TRUE))
Emit == PrintT(<<"CASE", ToJson([g |-> g, toks |-> Render(g), toks2 |-> RenderG(g, TRUE)])>>)
EmitInv == Emit
====
