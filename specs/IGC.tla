---- MODULE IGC ----
(* C19.  Two halves, both variable-free:
   (1) a line-level model of the IGC DECODER (the part of the property that is about its internal
       indexing: "total, whole fixes"): records are abstract lines, the parser state mirrors decode.go, and
       every column the decoder indexes in a B record is accounted for by `oob`;
   (2) the FORMAT the encoder must write (A record, a date header on every new UTC day, B records with
       truncated milli-minutes, hemisphere letters, clamped altitude) and the round-trip statement.
   Times are <<dayNumber, secondOfDay>> since 1970-01-01 (Unix seconds in 2069 exceed 2^31). *)
EXTENDS Integers, Sequences, TLC

DaysFromCivil(y0, m, d) ==        \* proleptic Gregorian, linear in d (so d = 32 rolls into the next month)
  LET y   == IF m <= 2 THEN y0 - 1 ELSE y0
      era == y \div 400
      yoe == y - era * 400
      mp  == IF m > 2 THEN m - 3 ELSE m + 9
      doy == (153 * mp + 2) \div 5 + d - 1
      doe == yoe * 365 + yoe \div 4 - yoe \div 100 + doy
  IN era * 146097 + doe - 719468
\* inverse: <<y, m, d>> of a day number
CivilFromDays(z0) ==
  LET z   == z0 + 719468
      era == z \div 146097
      doe == z - era * 146097
      yoe == (doe - doe \div 1460 + doe \div 36524 - doe \div 146096) \div 365
      doy == doe - (365 * yoe + yoe \div 4 - yoe \div 100)
      mp  == (5 * doy + 2) \div 153
      d   == doy - (153 * mp + 2) \div 5 + 1
      m   == IF mp < 10 THEN mp + 3 ELSE mp - 9
      y   == yoe + era * 400 + (IF m <= 2 THEN 1 ELSE 0)
  IN <<y, m, d>>
Before(t, u) == t[1] < u[1] \/ (t[1] = u[1] /\ t[2] < u[2])
\* the two-digit year window of the format: 70..99 -> 19yy, 00..69 -> 20yy (1970 .. 2069)
Year(yy) == IF yy < 70 THEN 2000 + yy ELSE 1900 + yy

\* ---------------------------------------------------------------- (1) decoder, line level
\* backhdr: a valid date header named a day EARLIER than the day of the last fix (a re-emitted header after a roll-over,
\* concatenated flights): what "time goes backwards" means there is not fixed by the format, see IGCObs.
S0 == [foundA |-> FALSE, noise |-> FALSE, y |-> 0, m |-> 0, d |-> 0, dated |-> FALSE, last |-> <<>>, blen |-> 35,
       lad |-> <<0, 0>>, lod |-> <<0, 0>>, tds |-> <<0, 0>>, fixes |-> <<>>, nerr |-> 0, oob |-> FALSE, backhdr |-> FALSE]
Err(s) == [s EXCEPT !.nerr = @ + 1]
RECURSIVE IEntries(_, _, _)
IEntries(s, ents, i) ==
  IF i > Len(ents) THEN s
  ELSE LET start == ents[i][1] stop == ents[i][2] code == ents[i][3] IN
       IF start # s.blen + 1 \/ stop < start THEN Err(s)            \* remaining entries are not read
       ELSE LET s1 == [s EXCEPT !.blen = stop] IN
            IEntries(CASE code = "LAD" -> [s1 EXCEPT !.lad = <<start - 1, stop>>]
                       [] code = "LOD" -> [s1 EXCEPT !.lod = <<start - 1, stop>>]
                       [] code = "TDS" -> [s1 EXCEPT !.tds = <<start - 1, stop>>]
                       [] OTHER        -> s1, ents, i + 1)
LineLenI(l) == 3 + 7 * Len(l.ents)
Step(s, l) ==
  IF l.k = "blank" THEN s
  ELSE IF ~s.foundA THEN (IF l.k = "A" THEN [s EXCEPT !.foundA = TRUE] ELSE [s EXCEPT !.noise = TRUE])
  ELSE CASE l.k \in {"A", "X"} -> s
    [] l.k = "HDTE" ->
         IF l.short \/ l.dd < 1 \/ l.dd > 31 \/ l.mm < 1 \/ l.mm > 12 THEN Err(s)
         ELSE [s EXCEPT !.y = Year(l.yy), !.m = l.mm, !.d = l.dd, !.dated = TRUE,
                        !.backhdr = @ \/ (s.last # <<>> /\ DaysFromCivil(Year(l.yy), l.mm, l.dd) < s.last[1])]
    [] l.k = "H" -> s                                                \* any other H record: kept as a header (Headers below), no parser state
    [] l.k = "I" ->
         IF LineLenI(l) < 7 * l.n + 3 THEN Err(s)
         ELSE IEntries(s, SubSeq(l.ents, 1, l.n), 1)
    [] l.k = "B" ->
         IF l.len < s.blen THEN Err(s)
         ELSE IF ~l.ok THEN Err(s)
         ELSE LET maxIdx == s.blen - 1
                  t0 == <<DaysFromCivil(s.y, s.m, s.d), l.sec>>
                  roll == s.last # <<>> /\ Before(t0, s.last)
                  d1 == IF roll THEN s.d + 1 ELSE s.d
                  t  == <<DaysFromCivil(s.y, s.m, d1), l.sec>> IN
              [s EXCEPT !.d = d1, !.last = t, !.fixes = Append(@, <<t[1], t[2], IF s.dated THEN 1 ELSE 0>>), !.oob = @ \/ maxIdx >= l.len]
NoIndexOutOfRange(s) == ~s.oob
TotalErrors(s) == s.nerr + (IF ~s.foundA \/ s.noise THEN 1 ELSE 0)
RECURSIVE Run(_, _, _)
Run(s, ls, i) == IF i > Len(ls) THEN s ELSE Run(Step(s, ls[i]), ls, i + 1)
\* The headers of a file: its H records in file order, each split as  H <source> <3-character key> [<key extension> ":"] <value>.
\* A header is <<source, key, key extension, value>>.  (Meaningful for files that start with the A record.)
D2(n) == IF n < 10 THEN "0" \o ToString(n) ELSE ToString(n)
HeaderOf(l) == IF l.k = "HDTE" THEN <<"F", "DTE", "", D2(l.dd) \o D2(l.mm) \o (IF l.short THEN "" ELSE D2(l.yy))>>
               ELSE <<l.src, l.key, l.extra, l.value>>
RECURSIVE Headers(_, _)
Headers(ls, i) == IF i > Len(ls) THEN <<>>
                  ELSE (IF ls[i].k \in {"HDTE", "H"} THEN <<HeaderOf(ls[i])>> ELSE <<>>) \o Headers(ls, i + 1)

\* ---------------------------------------------------------------- (2) encoder format and round trip
\* a fix is [lonq, latq, alt, t]: lon/lat in units of 1/100 milli-minute (1/6000000 degree), alt an integer, t = <<day, sec>>
Clamp(x, lo, hi) == IF x < lo THEN lo ELSE IF x > hi THEN hi ELSE x
Abs(x) == IF x < 0 THEN -x ELSE x
\* the B record fields the format prescribes for a fix (milli-minutes truncated towards zero)
BFields(f) ==
  LET la == Abs(f.latq) \div 100  lo == Abs(f.lonq) \div 100 IN
  [sec |-> f.t[2], latdeg |-> la \div 60000, latmm |-> la % 60000, lathemi |-> IF f.latq < 0 THEN "S" ELSE "N",
   londeg |-> lo \div 60000, lonmm |-> lo % 60000, lonhemi |-> IF f.lonq < 0 THEN "W" ELSE "E",
   alt |-> Clamp(f.alt, 0, 10000)]
\* the abstract lines of a track: A, then for every fix a date header when the UTC day changes, then the B record
RECURSIVE EncLines(_, _, _)
EncLines(track, i, prevday) ==
  IF i > Len(track) THEN <<>>
  ELSE LET f == track[i]  ymd == CivilFromDays(f.t[1])
           hdr == IF prevday # f.t[1] THEN <<[k |-> "HDTE", dd |-> ymd[3], mm |-> ymd[2], yy |-> ymd[1] % 100, short |-> FALSE]>> ELSE <<>>
       IN hdr \o <<[k |-> "B", len |-> 35, sec |-> f.t[2], ok |-> TRUE]>> \o EncLines(track, i + 1, f.t[1])
Encoded(track) == <<[k |-> "A"]>> \o EncLines(track, 1, -1)
\* what reading a written track back must give (property statement); got: sequence of [lonq, latq, alt, palt, t]
NearQ(a, c) == Abs(a - c) <= 101                     \* within 1/60000 degree (= 100 units), plus one unit of recording slack
\* A fix may carry altf: thousandths of a metre added to alt (generated tracks; the statement speaks of integer altitudes, so
\* for a fractional altitude either neighbouring integer is accepted), and lone / late: millionths of a position unit added
\* to lonq / latq (|.| <= 500000, so lonq / latq stay the nearest unit and NearQ's slack of one unit covers them).
AltF(f) == IF "altf" \in DOMAIN f THEN f.altf ELSE 0
\* "the same integer altitude clamped to the format's range".  The quantifier gives altitudes 0..10000: there the altitude
\* comes back exactly.  Outside 0..10000 the statement does not fix WHICH range the format has (the five-column field holds
\* 0..99999; the present encoder clamps to 0..10000): an altitude above 10000 may come back clamped to 10000 or to 99999
\* (i.e. unchanged up to 99999), a negative altitude comes back as 0.
AltCands(f) == IF AltF(f) = 0 THEN {f.alt} ELSE {f.alt, f.alt + 1}
AltImages(a) == IF a < 0 THEN {0} ELSE IF a <= 10000 THEN {a} ELSE {10000, Clamp(a, 0, 99999)}
AltOK(f, g) == \E a \in AltCands(f) : g.alt \in AltImages(a)
RoundTripOK(track, got) ==
  /\ Len(got) = Len(track)
  /\ \A i \in DOMAIN track :
       /\ NearQ(got[i].lonq, track[i].lonq) /\ NearQ(got[i].latq, track[i].latq)
       /\ got[i].t = track[i].t
       /\ AltOK(track[i], got[i])
InDomain(track) ==
  /\ \A i \in DOMAIN track : /\ Abs(track[i].lonq) <= 180 * 6000000 /\ Abs(track[i].latq) <= 90 * 6000000
                             /\ track[i].t[1] >= 0 /\ track[i].t[1] <= DaysFromCivil(2069, 12, 31)
  /\ \A i \in DOMAIN track : i > 1 => ~Before(track[i].t, track[i-1].t)
====
