---- MODULE BoundsModel ----
(* model A for C08.  Families: "extend" (every history of Extend calls up to MaxLen over a palette mixing
   XY/XYZ/XYM/XYZM geometries, from every initial layout), "gc" (collection trees nested to depth 2 with
   mixed layouts and empty members), "extgc" (Extend called directly with collection trees), "geo" (one geometry, every
   Go type), "set" (Set / SetCoords inside an Extend history), "overlap" (pairs of small boxes of all four layouts, with
   empty dimensions, under every layout argument), "ovpt" (box and point).
   Laws checked on the model: the tight box does not depend on the order of extension; Overlap is symmetric. *)
EXTENDS Bounds, Json, TLC
CONSTANTS Family, MaxLen, Rich
Layouts == {"XY", "XYZ", "XYM", "XYZM"}
Cd(l, v) == [k \in DOMAIN Dims(l) |-> (v + 2 * k) % 5]                 \* a coord with distinguishable ordinates
G(l, cs) == [l |-> l, cs |-> cs]
Geoms == UNION {{G(l, <<>>), G(l, <<Cd(l, 0)>>), G(l, <<Cd(l, 1), Cd(l, 3)>>)} : l \in Layouts}
RevSeq(s) == [i \in DOMAIN s |-> s[Len(s) + 1 - i]]
SeqsUpTo(S, n) == UNION {[1..k -> S] : k \in 0..n}
T0 == {G("XY", <<Cd("XY", 1)>>), G("XYZ", <<Cd("XYZ", 0), Cd("XYZ", 3)>>), G("XYM", <<Cd("XYM", 2)>>),
       G("XYZM", <<Cd("XYZM", 4)>>), G("XYZ", <<>>), G("XY", <<>>)}
T1 == {[gc |-> s] : s \in SeqsUpTo(T0, 2)}
T2 == {[gc |-> s] : s \in SeqsUpTo(T0 \cup T1, 2)}
\* ---- direct Bounds.Extend(collection) calls: a palette of leaves and trees (nested to depth 3, empty members, z+m mixes)
LXY == G("XY", <<Cd("XY", 1)>>)
LZ == G("XYZ", <<Cd("XYZ", 0), Cd("XYZ", 3)>>)
LM == G("XYM", <<Cd("XYM", 2)>>)
LZM == G("XYZM", <<Cd("XYZM", 4)>>)
Gc(s) == [gc |-> s]
PG == {LZ, LM, Gc(<<>>), Gc(<<LZ, LM>>), Gc(<<Gc(<<LM>>), G("XYZ", <<>>)>>), Gc(<<LXY, Gc(<<Gc(<<LZM>>)>>)>>)}
\* ---- single geometries of every Go type (ty selects the type in the recorder)
GeoNodes == Geoms \cup T0 \cup T1 \cup {t \in PG : "gc" \in DOMAIN t} \cup (IF Rich THEN T2 ELSE {})
\* ---- Set / SetCoords histories
SG == {G("XY", <<Cd("XY", 0), Cd("XY", 2)>>), G("XYZ", <<Cd("XYZ", 0), Cd("XYZ", 2)>>), G("XYM", <<Cd("XYM", 1), Cd("XYM", 4)>>),
       G("XYZM", <<Cd("XYZM", 3), Cd("XYZM", 4)>>)} \cup (IF Rich THEN {G("XYZ", <<>>), Gc(<<LZ, LM>>)} ELSE {})
SetBoxes == {<<(<<1, 1, 1, 1>>), (<<3, 3, 3, 3>>)>>} \cup (IF Rich THEN {<<(<<0, 2, 4, 1>>), (<<0, 2, 4, 1>>)>>, <<(<<2, 0, 0, 3>>), (<<2, 4, 1, 4>>)>>} ELSE {})
\* ---- overlap tests: a box is [l, min, max]; E is the interval NewBounds leaves in a dimension nothing was fed into
E == <<INF, -INF>>
Ivs == IF Rich THEN {<<0, 0>>, <<0, 1>>, <<0, 2>>, <<1, 1>>, <<1, 2>>, <<2, 2>>, <<0, 3>>, <<3, 3>>}
       ELSE {<<0, 0>>, <<0, 1>>, <<0, 2>>, <<1, 1>>, <<1, 2>>, <<2, 2>>}
I2 == IF Rich THEN {<<0, 0>>, <<1, 2>>, <<0, 1>>} ELSE {<<0, 0>>, <<1, 2>>}
Str(l) == Len(Dims(l))
BoxOf(l, iv) == [l |-> l, min |-> [k \in 1..Str(l) |-> iv[k][1]], max |-> [k \in 1..Str(l) |-> iv[k][2]]]
BoxesL(l, I) == {BoxOf(l, iv) : iv \in [1..Str(l) -> I]}
\* XY in detail (every relation of two intervals, empty dimensions); the quick tier keeps one dimension on a short list
I2s == {<<0, 1>>, <<1, 2>>, E}
BoxXY == IF Rich THEN BoxesL("XY", Ivs \cup {E})
         ELSE {BoxOf("XY", iv) : iv \in {iv \in [1..2 -> Ivs \cup {E}] : iv[1] \in I2s \/ iv[2] \in I2s}}
\* higher layouts: two (three) intervals per dimension, the canonical empty box, and boxes whose Z or M interval is still E
Uni(l, v) == [k \in 1..Str(l) |-> v]
WithE(l, I) == IF Rich THEN {[iv EXCEPT ![k] = E] : iv \in [1..Str(l) -> {<<0, 0>>, <<1, 2>>}], k \in 3..Str(l)}
               ELSE {[Uni(l, v) EXCEPT ![k] = E] : v \in I, k \in 3..Str(l)} \cup {[iv EXCEPT ![Str(l)] = E] : iv \in [1..Str(l) -> I]}
BoxHi(l) == BoxesL(l, I2) \cup {BoxOf(l, iv) : iv \in WithE(l, I2)} \cup {BoxOf(l, Uni(l, E))}
BoxFew(l) == IF Rich THEN BoxesL(l, {<<0, 0>>, <<1, 2>>}) ELSE {BoxOf(l, Uni(l, <<0, 0>>)), BoxOf(l, Uni(l, <<1, 2>>))}
\* layout arguments that address a box layout by position or at least by name (the others are recorded with BoxFew only)
ArgsFor(bl) == {l \in Layouts : CoversL(l, bl)}

VARIABLE c
Init ==
  CASE Family = "extend" -> \E l0 \in Layouts \cup {"No"}, gs \in SeqsUpTo(Geoms, MaxLen) : c = [fam |-> "extend", l0 |-> l0, gs |-> gs]
    [] Family = "extgc" -> \E l0 \in Layouts \cup {"No"}, gs \in SeqsUpTo(PG, MaxLen) : c = [fam |-> "extend", l0 |-> l0, gs |-> gs]
    [] Family = "gc" -> \E t \in T2 : c = [fam |-> "gc", t |-> t]
    [] Family = "geo" -> \E t \in GeoNodes, ty \in 0..7 : c = [fam |-> "geo", t |-> t, ty |-> ty]
    [] Family = "set" -> \E l0 \in Layouts \cup {"No"}, op \in {"Set", "SetCoords"}, pre \in SeqsUpTo(SG, 1), post \in SeqsUpTo(SG, MaxLen), sb \in SetBoxes :
                           c = [fam |-> "set", l0 |-> l0, op |-> op, pre |-> pre, post |-> post, smin |-> sb[1], smax |-> sb[2]]
    [] Family = "clone" -> \E l0 \in Layouts \cup {"No"}, gs \in SeqsUpTo(Geoms, MaxLen), m1 \in Geoms, m2 \in Geoms, side \in {1, 2} :
                             c = [fam |-> "clone", l0 |-> l0, gs |-> gs, m1 |-> m1, m2 |-> m2, first |-> side]
    [] Family = "overlap" ->
         \/ \E b1 \in BoxXY, b2 \in BoxXY : c = [fam |-> "overlap", l |-> "XY", b1 |-> b1, b2 |-> b2]
         \/ \E bl \in Layouts \ {"XY"} : \E b1 \in BoxHi(bl), b2 \in BoxHi(bl), l \in ArgsFor(bl) : c = [fam |-> "overlap", l |-> l, b1 |-> b1, b2 |-> b2]
         \/ \E bl1 \in Layouts, bl2 \in Layouts, l \in Layouts : \E b1 \in BoxFew(bl1), b2 \in BoxFew(bl2) : c = [fam |-> "overlap", l |-> l, b1 |-> b1, b2 |-> b2]
    [] Family = "ovpt" ->
         \/ \E b \in BoxesL("XY", Ivs \cup {E}) : c = [fam |-> "ovpt", l |-> "XY", b |-> b, pv |-> <<-1, 0, 1, 2, 3>>]
         \/ \E bl \in {"XYZ", "XYM"} : \E b \in BoxHi(bl), l \in ArgsFor(bl) : c = [fam |-> "ovpt", l |-> l, b |-> b, pv |-> <<-1, 0, 1, 2, 3>>]
         \/ \E b \in BoxHi("XYZM"), l \in Layouts : c = [fam |-> "ovpt", l |-> l, b |-> b, pv |-> <<0, 1, 3>>]
         \/ \E bl \in Layouts, l \in Layouts : \E b \in BoxFew(bl) : c = [fam |-> "ovpt", l |-> l, b |-> b, pv |-> <<0, 1, 3>>]
Next == FALSE /\ UNCHANGED c
Laws ==
  /\ (Family = "extend" => Tight(c.l0, c.gs) = Tight(c.l0, RevSeq(c.gs))
                           /\ (Len(c.gs) > 0 => Tight(c.l0, c.gs).l = Join(Tight(c.l0, SubSeq(c.gs, 1, Len(c.gs) - 1)).l, c.gs[Len(c.gs)].l)))
  /\ (Family = "extgc" => Tight(c.l0, LeavesAll(c.gs)) = Tight(c.l0, LeavesAll(RevSeq(c.gs))))
  \* the quantities BoundsObs!Fits judges (dimensions with a coordinate, their ordinates, the largest layout) are order-free too
  /\ (Family \in {"extend", "extgc"} =>
        LET a == LeavesAll(c.gs)  b == LeavesAll(RevSeq(c.gs)) IN
        /\ CoordDims(a) = CoordDims(b) /\ HiDims(c.l0, a) = HiDims(c.l0, b) /\ \A d \in AllDims : DVals(a, d) = DVals(b, d)
        /\ CoordDims(a) \subseteq HiDims(c.l0, a))
  /\ (Family = "overlap" /\ AgreesWith(c.l, c.b1.l) /\ AgreesWith(c.l, c.b2.l)
        => Overlap(Str(c.l), c.b1.min, c.b1.max, c.b2.min, c.b2.max) = Overlap(Str(c.l), c.b2.min, c.b2.max, c.b1.min, c.b1.max))
Emit == PrintT(<<"CASE", ToJson(c)>>)
====
