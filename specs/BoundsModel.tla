---- MODULE BoundsModel ----
(* model A for C08.  Families: "extend" (every history of Extend calls up to MaxLen over a palette mixing
   XY/XYZ/XYM/XYZM geometries, from every initial layout), "gc" (collection trees nested to depth 2 with
   mixed layouts and empty members), "overlap" (every pair of small boxes / box and point).
   Laws checked on the model: the tight box does not depend on the order of extension; Overlap is symmetric. *)
EXTENDS Bounds, Json, TLC
CONSTANTS Family, MaxLen, Rich
Layouts == {"XY", "XYZ", "XYM", "XYZM"}
Cd(l, v) == [k \in DOMAIN Dims(l) |-> (v + 2 * k) % 5]                 \* a coord with distinguishable ordinates
G(l, cs) == [l |-> l, cs |-> cs]
Geoms == UNION {{G(l, <<>>), G(l, <<Cd(l, 0)>>), G(l, <<Cd(l, 1), Cd(l, 3)>>)} : l \in Layouts}
RevSeq(s) == [i \in DOMAIN s |-> s[Len(s) + 1 - i]]
SeqsUpTo(S, n) == UNION {[1..k -> S] : k \in 0..n}
T0 == {G("XY", <<Cd("XY", 1)>>), G("XYZ", <<Cd("XYZ", 0), Cd("XYZ", 3)>>), G("XYM", <<Cd("XYM", 2)>>),
       G("XYZM", <<Cd("XYZM", 4)>>), G("XYZ", <<>>), G("XY", <<>>)}
T1 == {[gc |-> s] : s \in SeqsUpTo(T0, 2)}
T2 == {[gc |-> s] : s \in SeqsUpTo(T0 \cup T1, 2)}
Ivs == IF Rich THEN {<<0, 0>>, <<0, 1>>, <<0, 2>>, <<1, 1>>, <<1, 2>>, <<2, 2>>, <<0, 3>>, <<3, 3>>}
       ELSE {<<0, 0>>, <<0, 1>>, <<0, 2>>, <<1, 1>>, <<1, 2>>, <<2, 2>>}
Box(n) == {[min |-> [k \in 1..n |-> iv[k][1]], max |-> [k \in 1..n |-> iv[k][2]]] : iv \in [1..n -> Ivs]}
          \cup {[min |-> [k \in 1..n |-> INF], max |-> [k \in 1..n |-> -INF]]}
Ivs3 == {<<0, 0>>, <<0, 2>>, <<1, 2>>}
Box3 == {[min |-> [k \in 1..3 |-> iv[k][1]], max |-> [k \in 1..3 |-> iv[k][2]]] : iv \in [1..3 -> Ivs3]}
        \cup {[min |-> [k \in 1..3 |-> INF], max |-> [k \in 1..3 |-> -INF]]}

VARIABLE c
Init ==
  CASE Family = "extend" -> \E l0 \in Layouts \cup {"No"}, gs \in SeqsUpTo(Geoms, MaxLen) : c = [fam |-> "extend", l0 |-> l0, gs |-> gs]
    [] Family = "gc" -> \E t \in T2 : c = [fam |-> "gc", t |-> t]
    [] Family = "clone" -> \E l0 \in Layouts \cup {"No"}, gs \in SeqsUpTo(Geoms, MaxLen), m1 \in Geoms, m2 \in Geoms, side \in {1, 2} :
                             c = [fam |-> "clone", l0 |-> l0, gs |-> gs, m1 |-> m1, m2 |-> m2, first |-> side]
    [] Family = "overlap" ->
         \/ \E b1 \in Box(2), b2 \in Box(2) : c = [fam |-> "overlap", n |-> 2, l |-> "XY", b1 |-> b1, b2 |-> b2]
         \/ \E b1 \in Box3, b2 \in Box3, l \in {"XY", "XYZ", "XYM"} : c = [fam |-> "overlap", n |-> 3, l |-> l, b1 |-> b1, b2 |-> b2]
Next == FALSE /\ UNCHANGED c
Str(l) == Len(Dims(l))
Laws ==
  /\ (Family = "extend" => Tight(c.l0, c.gs) = Tight(c.l0, RevSeq(c.gs))
                           /\ (Len(c.gs) > 0 => Tight(c.l0, c.gs).l = Join(Tight(c.l0, SubSeq(c.gs, 1, Len(c.gs) - 1)).l, c.gs[Len(c.gs)].l)))
  /\ (Family = "overlap" => Overlap(Str(c.l), c.b1.min, c.b1.max, c.b2.min, c.b2.max) = Overlap(Str(c.l), c.b2.min, c.b2.max, c.b1.min, c.b1.max))
Emit == PrintT(<<"CASE", ToJson(c)>>)
====
