---- MODULE SumsModel ----
(* model A for C09 (Family = "measure") and C14 (Family = "centroid"): TLC enumerates shapes assembled
   from catalogues on which every measure is an exact integer, checks the laws of the specification
   itself (two formulas for the area agree, additivity, translation equivariance and direction / start
   vertex independence of the centroid, validity of the polygon catalogue), and emits each case. *)
EXTENDS ExactSums, Json, TLC
CONSTANTS Family, Rich

P(x, y) == <<x, y>>
\* ---------------------------------------------------------------- C09 catalogue (closed rings; every edge has integer length)
R1 == <<P(0,0), P(2,0), P(2,2), P(0,2), P(0,0)>>
R2 == <<P(4,0), P(0,0), P(0,3), P(4,0)>>
R3 == <<>>
R4 == <<P(3,4), P(0,4), P(0,0), P(3,0), P(3,4)>>
R5 == <<P(1,1), P(1,1)>>
R6 == <<P(100,100)>>                                \* a single coordinate: no segment, measures 0, but it occupies storage
L1 == <<P(0,0), P(3,4), P(3,0)>>
Rings == {R1, R2, R3, R4, R5, R6}
Lines == Rings \cup {L1}
Polys == {<<>>, <<R1>>, <<R2, R3>>, <<R3>>, <<R4, R1, R2>>, <<R5, R4>>, <<R6, R1>>, <<R1, R6, R3, R2>>}
SeqsUpTo(S, n) == UNION {[1..k -> S] : k \in 0..n}
MLayouts == IF Rich THEN {"XY", "XYZ", "XYM", "XYZM", "L5"} ELSE {"XY", "XYZM", "L5"}
MC1 == [k : {"LS"}, v : Lines] \cup [k : {"LR"}, v : Rings]
MC2 == [k : {"MLS"}, v : SeqsUpTo(Lines, 3)] \cup [k : {"PG"}, v : SeqsUpTo(Rings, 3)]
MC3 == [k : {"MPG"}, v : SeqsUpTo(Polys, 3)]
MC4 == [k : {"PT"}, v : {<<>>, P(1, 2)}]
MC5 == [k : {"MPT"}, v : SeqsUpTo({<<>>, P(1, 2), P(0, 3)}, 2)]

\* ---------------------------------------------------------------- C14 catalogue (open vertex lists, counter-clockwise)
S1 == <<P(0,0), P(8,0), P(8,8), P(0,8)>>
S2 == <<P(0,0), P(8,0), P(8,4), P(4,4), P(4,8), P(0,8)>>
S3 == <<P(0,0), P(8,0), P(0,6)>>
S4 == <<P(0,0), P(8,0), P(8,8), P(4,8), P(0,8)>>
S5 == <<P(0,0), P(8,0), P(8,2), P(4,8), P(0,2)>>
Shells == <<S1, S2, S3, S4, S5>>
H1 == <<P(1,1), P(2,1), P(2,2), P(1,2)>>
H2 == <<P(3,1), P(4,1), P(4,2), P(3,2)>>
Holes == <<H1, H2>>
Z1 == <<P(0,0), P(6,8), P(12,16), P(0,0)>>          \* zero-area "polygons": out and back
Z2 == <<P(0,0), P(3,0), P(3,4), P(3,0), P(0,0)>>
CL1 == <<P(0,0), P(3,4), P(3,0)>>
CL2 == <<P(0,0), P(6,0)>>
CL3 == <<P(0,0), P(0,5), P(12,0)>>
CL4 == <<P(2,2), P(2,2), P(5,6)>>
CLines == {CL1, CL2, CL3, CL4}
CL0 == <<P(4,1)>>                                   \* a line of ONE coordinate: no length, no weight - wherever it stands among the others
Offsets == IF Rich THEN {P(0,0), P(1000,-2000), P(100000,100000), P(-99999, 7)} ELSE {P(0,0), P(1000,-2000), P(100000,100000)}
Dir(vs, d) == IF d = 0 THEN vs ELSE RevS(vs)
MkRing(vs, d, k) == Closed(RotBy(Dir(vs, d), k))
\* second members placed to the right of the first one (disjoint)
Second == <<<<>>, <<Shift(Closed(S3), P(20, 0))>>, <<Shift(MkRing(S1, 1, 2), P(20, 1)), Shift(MkRing(H1, 0, 1), P(20, 1))>>,
            <<Shift(Closed(RevS(S5)), P(30, -3))>>>>
PolyCases ==
  {[kind |-> "poly",
    polys |-> LET first == <<MkRing(Shells[s], sd, sr)>> \o [i \in 1..Len(hs) |-> MkRing(Holes[hs[i]], hd[i], hr)]
              IN IF Second[sec] = <<>> THEN <<first>> ELSE <<first, Second[sec]>>,
    off |-> o] :
     s \in 1..5, sd \in {0, 1}, sr \in 0..5, hs \in {<<>>, <<1>>, <<2>>, <<1, 2>>, <<2, 1>>}, hd \in [1..2 -> {0, 1}],
     hr \in {0, 3}, sec \in 1..4, o \in Offsets}
ZeroCases ==
  {[kind |-> "poly", polys |-> ps, off |-> o] :
     ps \in {<<<<Z1>>>>, <<<<Z2>>>>, <<<<Z1>>, <<Shift(Z2, P(10, 0))>>>>,            \* (no "hole" in a zero-area shell: not a valid polygon)
             \* a zero-area member next to a member with area: the area-weighted centroid of the latter
             <<<<Z2>>, <<Shift(Closed(S3), P(20, 0))>>>>, <<<<Shift(Closed(RevS(S1)), P(20, 0))>>, <<Z1>>>>}, o \in Offsets}
LineCases ==
  {[kind |-> "lines", lines |-> ls, off |-> o] :
     ls \in {[i \in DOMAIN s |-> IF d = 0 THEN s[i] ELSE RevS(s[i])] : s \in {t \in UNION {[1..k -> CLines \cup {CL0}] : k \in 1..3} :
                                                                            (\E i \in DOMAIN t : t[i] # CL0) /\ (Len(t) = 3 => \E i \in DOMAIN t : t[i] = CL0)},
                                                                     d \in {0, 1}},
     o \in Offsets}
Grid3x3 == {P(x, y) : x \in 0..2, y \in 0..2}
\* gaps[j] = 1: the MultiPoint holds an EMPTY member before point j (after the last point for j = k + 1). EMPTY members carry
\* no position: the mean is over the points that are there.
NoGaps(k) == [j \in 1..(k + 1) |-> 0]
PointCases ==
  UNION {{[kind |-> "points", pts |-> ps, gaps |-> g, off |-> o] :
            ps \in [1..k -> Grid3x3], g \in (IF k <= 2 THEN [1..(k + 1) -> {0, 1}] ELSE {NoGaps(k)}), o \in Offsets} :
         k \in 1..(IF Rich THEN 4 ELSE 3)}
Reduced(x) == x.kind # "poly" \/ Rich \/ Len(x.polys) = 1 \/ (x.off = P(0,0))

VARIABLE c
MInit(S) == \E l \in MLayouts : \E s \in S : c = [k |-> "x", l |-> l, s |-> s]
Init == IF Family = "measure"
        THEN MInit(MC1) \/ MInit(MC2) \/ MInit(MC3) \/ MInit(MC4) \/ MInit(MC5)
        ELSE (c \in PolyCases \cup ZeroCases /\ Reduced(c)) \/ (c \in LineCases) \/ (c \in PointCases)
Next == FALSE /\ UNCHANGED c

\* ---------------------------------------------------------------- laws
Trapezoid2(cs) == SumSeq([i \in SegIdx(cs) |-> (cs[i+1][2] - cs[i][2]) * (cs[i+1][1] + cs[i][1])])
MeasureLaws ==
  Family = "measure" =>
    /\ \A r \in Lines : AllIntLens(r) /\ (Len(r) > 0 /\ r[1] = r[Len(r)] => Area2(r) = Trapezoid2(r))
    /\ Area2(R1) = 8 /\ Area2(R2) = -12 /\ Area2(R4) = 24 /\ Length(R2) = 12 /\ Length(L1) = 9
CentroidLaws ==
  (Family = "centroid" /\ c.kind = "poly") =>
    LET ps == c.polys  ce == AreaCentroid(ps)  o == P(3, -2)
        sh == [p \in DOMAIN ps |-> [r \in DOMAIN ps[p] |-> Shift(ps[p][r], o)]]
        cs == AreaCentroid(sh)
        rv == AreaCentroid([p \in DOMAIN ps |-> [r \in DOMAIN ps[p] |-> RevS(ps[p][r])]]) IN
    /\ ce[3] # 0
    /\ cs[1] * ce[3] = (ce[1] + o[1] * ce[3]) * cs[3] /\ cs[2] * ce[3] = (ce[2] + o[2] * ce[3]) * cs[3]     \* translation
    /\ rv[1] * ce[3] = ce[1] * rv[3] /\ rv[2] * ce[3] = ce[2] * rv[3]                                       \* direction
    /\ \A p \in DOMAIN ps : \A r \in DOMAIN ps[p] :
         /\ (Area2(ps[p][1]) = 0 => AllIntLens(ps[p][r]))
         /\ (Area2(ps[p][1]) # 0 =>                                     \* valid polygon: simple rings, holes strictly inside
               /\ SimpleRing(ps[p][r])
               /\ (r > 1 => \A i \in DOMAIN ps[p][r] : Locate(ps[p][r][i], ps[p][1]) = "interior"))
Laws == MeasureLaws /\ CentroidLaws

Emit == PrintT(<<"CASE", ToJson(IF Family = "measure" THEN [k |-> c.s.k, l |-> c.l, v |-> c.s.v] ELSE c)>>)
====
