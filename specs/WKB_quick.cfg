INIT Init
NEXT Next
INVARIANT EncDecAgree Emit
CONSTANTS
  Rich = FALSE
