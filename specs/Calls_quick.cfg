SPECIFICATION Spec
INVARIANT SequentialResults
PROPERTY Pure
CONSTANTS
  NProc = 2
  AllowWrite = FALSE
  AllowAlias = FALSE
  MaxCalls = 2
