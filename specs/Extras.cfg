INIT Init
NEXT Next
INVARIANT Emit LayoutLaws
