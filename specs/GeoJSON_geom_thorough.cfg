INIT Init
NEXT Next
INVARIANT Laws Emit
CONSTANTS
  Family = "geom"
  Rich = TRUE
