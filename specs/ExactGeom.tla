---- MODULE ExactGeom ----
(* Exact integer geometry: the oracle of C10-C13, C15, C20 (and the predicates C14/C09 build on).
   Variable-free and recursion-free, so that the SAME definitions are evaluated by TLC (32-bit integers,
   small grids) and by Apalache (unbounded integers: float64 inputs scaled to a common power of two).
   A point is a sequence of integers <<x, y>> (or <<x, y, z>>, or with further ordinates that the
   planar predicates ignore).  Everything here is written from the mathematical definitions, not from
   the case analysis of the Go code. *)
EXTENDS Integers, Sequences, FiniteSets

\* @type: Int => Int;
Sign(x) == IF x > 0 THEN 1 ELSE IF x < 0 THEN -1 ELSE 0
\* @type: Int => Int;
Abs(x)  == IF x < 0 THEN -x ELSE x
\* @type: (Int, Int) => Int;
Min2(a, b) == IF a <= b THEN a ELSE b
\* @type: (Int, Int) => Int;
Max2(a, b) == IF a >= b THEN a ELSE b

\* ------------------------------------------------------------------ C10: orientation
\* @type: (Seq(Int), Seq(Int), Seq(Int)) => Int;
Cross(a, b, c) == (b[1] - a[1]) * (c[2] - a[2]) - (b[2] - a[2]) * (c[1] - a[1])
\* +1: c lies to the left of a->b (counter-clockwise); -1: to the right; 0: exactly collinear
\* @type: (Seq(Int), Seq(Int), Seq(Int)) => Int;
Orient(a, b, c) == Sign(Cross(a, b, c))
\* what an exact orientation function returns on the six argument orders abc bca cab bac acb cba
\* @type: (Seq(Int), Seq(Int), Seq(Int), Seq(Int)) => Bool;
OrientPerms(a, b, c, got) == LET s == Orient(a, b, c) IN got = <<s, s, s, -s, -s, -s>>
\* @type: (Seq(Int), Seq(Int)) => Bool;
SameXY(a, b) == a[1] = b[1] /\ a[2] = b[2]
\* @type: (Seq(Int), Seq(Int), Seq(Int)) => Bool;
InBox(p, a, b) == /\ Min2(a[1], b[1]) <= p[1] /\ p[1] <= Max2(a[1], b[1])
                  /\ Min2(a[2], b[2]) <= p[2] /\ p[2] <= Max2(a[2], b[2])
\* p lies on the closed segment a-b (a = b allowed: then p must be that point)
\* @type: (Seq(Int), Seq(Int), Seq(Int)) => Bool;
OnSeg(p, a, b) == Cross(a, b, p) = 0 /\ InBox(p, a, b)

\* ------------------------------------------------------------------ C12: two segments
\* @type: (Seq(Int), Seq(Int), Seq(Int), Seq(Int)) => Bool;
Collinear4(a, b, c, d) == Cross(a, b, c) = 0 /\ Cross(a, b, d) = 0
\* the endpoints (XY only) that lie on both segments
\* @type: (Seq(Int), Seq(Int), Seq(Int), Seq(Int)) => Set(<<Int, Int>>);
SharedEnds(a, b, c, d) == {<<p[1], p[2]>> : p \in {q \in {a, b, c, d} : OnSeg(q, a, b) /\ OnSeg(q, c, d)}}
\* "none" | "point" | "overlap" for two segments of non-zero length
\* @type: (Seq(Int), Seq(Int), Seq(Int), Seq(Int)) => Str;
SegSegClass(a, b, c, d) ==
  IF Collinear4(a, b, c, d)
  THEN LET n == Cardinality(SharedEnds(a, b, c, d)) IN
       IF n = 0 THEN "none" ELSE IF n = 1 THEN "point" ELSE "overlap"
  ELSE IF Orient(a, b, c) * Orient(a, b, d) <= 0 /\ Orient(c, d, a) * Orient(c, d, b) <= 0
       THEN "point" ELSE "none"
\* the segments touch or cross at all (also meaningful when one of them has zero length)
\* @type: (Seq(Int), Seq(Int), Seq(Int), Seq(Int)) => Bool;
SegsMeet(a, b, c, d) ==
  \/ OnSeg(a, c, d) \/ OnSeg(b, c, d) \/ OnSeg(c, a, b) \/ OnSeg(d, a, b)
  \/ (Orient(a, b, c) * Orient(a, b, d) < 0 /\ Orient(c, d, a) * Orient(c, d, b) < 0)
\* the crossing point of two non-parallel lines as <<xnum, ynum, den>>  (x = xnum/den, y = ynum/den), den # 0
\* @type: (Seq(Int), Seq(Int), Seq(Int), Seq(Int)) => Seq(Int);
CrossPt(a, b, c, d) ==
  LET den == (b[1] - a[1]) * (d[2] - c[2]) - (b[2] - a[2]) * (d[1] - c[1])
      rn  == (a[2] - c[2]) * (d[1] - c[1]) - (a[1] - c[1]) * (d[2] - c[2])
  IN <<a[1] * den + rn * (b[1] - a[1]), a[2] * den + rn * (b[2] - a[2]), den>>

\* ------------------------------------------------------------------ C11: point against a closed ring
\* @type: Seq(Seq(Int)) => Set(Int);
Edges(ring) == {i \in DOMAIN ring : i < Len(ring)}
\* @type: (Seq(Int), Seq(Seq(Int))) => Bool;
OnRing(p, ring) == \E i \in Edges(ring) : OnSeg(p, ring[i], ring[i+1])
\* edge a-b crosses the open horizontal ray from p towards +x (half-open rule on y, so a vertex level
\* with p is counted once for a crossing and zero or two times for a touch)
\* @type: (Seq(Int), Seq(Int), Seq(Int)) => Bool;
Crosses(p, a, b) ==
  /\ (a[2] > p[2]) # (b[2] > p[2])
  /\ LET num == (p[2] - a[2]) * (b[1] - a[1]) - (p[1] - a[1]) * (b[2] - a[2])
         den == b[2] - a[2] IN (num > 0 /\ den > 0) \/ (num < 0 /\ den < 0)
\* even-odd rule
\* @type: (Seq(Int), Seq(Seq(Int))) => Str;
Locate(p, ring) ==
  IF OnRing(p, ring) THEN "boundary"
  ELSE IF Cardinality({i \in Edges(ring) : Crosses(p, ring[i], ring[i+1])}) % 2 = 1 THEN "interior" ELSE "exterior"
\* p lies on one of the segments of the polyline
\* @type: (Seq(Int), Seq(Seq(Int))) => Bool;
OnLine(p, line) == \E i \in {k \in DOMAIN line : k < Len(line)} : OnSeg(p, line[i], line[i+1])

\* ------------------------------------------------------------------ C13: convex hull
\* @type: Seq(Seq(Int)) => Set(<<Int, Int>>);
PtsXY(P) == {<<P[i][1], P[i][2]>> : i \in DOMAIN P}
\* @type: Seq(Seq(Int)) => Bool;
AllCollinear(P) == \A i, j, k \in DOMAIN P : Cross(P[i], P[j], P[k]) = 0
\* every hull vertex is an input point, with all its ordinates
\* @type: (Seq(Seq(Int)), Seq(Seq(Int))) => Bool;
FromInput(h, P) == \A i \in DOMAIN h : \E j \in DOMAIN P : h[i] = P[j]
\* kind/h is a correct answer for the input sequence P (non-empty): which of the correct answers
\* (start vertex, direction) is returned is left open
\* @type: (Str, Seq(Seq(Int)), Seq(Seq(Int))) => Bool;
IsHullOf(kind, h, P) ==
  /\ FromInput(h, P)
  /\ IF Cardinality(PtsXY(P)) = 1 THEN kind = "Point" /\ Len(h) = 1
     ELSE IF AllCollinear(P) THEN
            /\ kind = "LineString" /\ Len(h) = 2 /\ ~SameXY(h[1], h[2])
            /\ \A j \in DOMAIN P : OnSeg(P[j], h[1], h[2])
     ELSE   /\ kind = "Polygon" /\ Len(h) >= 4 /\ SameXY(h[1], h[Len(h)])
            /\ \/ \A i \in Edges(h) : \A j \in DOMAIN P : Cross(h[i], h[i+1], P[j]) >= 0
               \/ \A i \in Edges(h) : \A j \in DOMAIN P : Cross(h[i], h[i+1], P[j]) <= 0
            /\ \A i \in Edges(h) :
                 LET n == Len(h) - 1 IN Cross(h[i], h[(i % n) + 1], h[((i + 1) % n) + 1]) # 0
            /\ \A i \in Edges(h) : \A k \in Edges(h) : (i # k => ~SameXY(h[i], h[k]))

\* ------------------------------------------------------------------ components the hull is built from (C13 anchors):
\* transform.UniqueCoords / TreeSet and sorting.FlatCoord, as a set / order specification
\* @type: (Seq(Int), Seq(Int)) => Bool;
Less2D(a, b) == a[1] < b[1] \/ (a[1] = b[1] /\ a[2] < b[2])
\* The components the hull is built from.  C13 does not prescribe WHICH of several input points at one position represents
\* it (nor in which order a de-duplication returns them): one whole input coordinate per distinct XY position, no position twice.
\* @type: (Seq(Seq(Int)), Seq(Seq(Int))) => Bool;
IsUniqueOf(out, P) ==
  /\ Len(out) = Cardinality(PtsXY(P))
  /\ \A k \in DOMAIN out : \E i \in DOMAIN P : out[k] = P[i]
  /\ \A k, m \in DOMAIN out : k # m => ~SameXY(out[k], out[m])
\* ... and for the ordered set, in strictly increasing (x, y) order
\* @type: (Seq(Seq(Int)), Seq(Seq(Int))) => Bool;
IsSortedSetOf(out, P) ==
  /\ Len(out) = Cardinality(PtsXY(P))
  /\ \A k \in DOMAIN out : \E i \in DOMAIN P : out[k] = P[i]
  /\ \A k \in DOMAIN out : k < Len(out) => Less2D(out[k], out[k+1])
\* out is a permutation of P (as a multiset of whole coordinates) in non-decreasing (x, y) order
\* @type: (Seq(Seq(Int)), Seq(Seq(Int))) => Bool;
IsSortOf(out, P) ==
  /\ Len(out) = Len(P)
  /\ \A i \in DOMAIN P : Cardinality({k \in DOMAIN out : out[k] = P[i]}) = Cardinality({j \in DOMAIN P : P[j] = P[i]})
  /\ \A k \in DOMAIN out : k < Len(out) => ~Less2D(out[k+1], out[k])

\* ------------------------------------------------------------------ C15: squared distances as rationals <<num, den>>, den > 0
\* @type: (Seq(Int), Seq(Int)) => Int;
Dot2(u, v) == u[1] * v[1] + u[2] * v[2]
\* @type: (Seq(Int), Seq(Int)) => Int;
Dot3(u, v) == u[1] * v[1] + u[2] * v[2] + u[3] * v[3]
\* @type: (Seq(Int), Seq(Int)) => Seq(Int);
Sub2(u, v) == <<u[1] - v[1], u[2] - v[2]>>
\* @type: (Seq(Int), Seq(Int)) => Seq(Int);
Sub3(u, v) == <<u[1] - v[1], u[2] - v[2], u[3] - v[3]>>
\* p <= q for rationals with positive denominators
\* @type: (Seq(Int), Seq(Int)) => Bool;
RLe(p, q) == p[1] * q[2] <= q[1] * p[2]
\* @type: Set(Seq(Int)) => Seq(Int);
RMin(S) == CHOOSE p \in S : \A q \in S : RLe(p, q)
\* @type: (Seq(Int), Seq(Int), Seq(Int)) => Seq(Int);
SqDistPtSeg2(p, a, b) ==
  LET ab == Sub2(b, a)  ap == Sub2(p, a)  l2 == Dot2(ab, ab)  t == Dot2(ap, ab) IN
  IF l2 = 0 \/ t <= 0 THEN <<Dot2(ap, ap), 1>>
  ELSE IF t >= l2 THEN <<Dot2(Sub2(p, b), Sub2(p, b)), 1>>
  ELSE <<Dot2(ap, ap) * l2 - t * t, l2>>
\* squared distance to the infinite line through two DISTINCT points
\* @type: (Seq(Int), Seq(Int), Seq(Int)) => Seq(Int);
SqDistPtLine2(p, a, b) == <<Cross(a, b, p) * Cross(a, b, p), Dot2(Sub2(b, a), Sub2(b, a))>>
\* @type: (Seq(Int), Seq(Int), Seq(Int), Seq(Int)) => Seq(Int);
SqDistSegSeg2(a, b, c, d) ==
  IF SegsMeet(a, b, c, d) THEN <<0, 1>>
  ELSE RMin({SqDistPtSeg2(a, c, d), SqDistPtSeg2(b, c, d), SqDistPtSeg2(c, a, b), SqDistPtSeg2(d, a, b)})
\* @type: (Seq(Int), Seq(Seq(Int))) => Seq(Int);
SqDistPtLineString2(p, line) ==
  IF Len(line) = 1 THEN <<Dot2(Sub2(p, line[1]), Sub2(p, line[1])), 1>>
  ELSE RMin({SqDistPtSeg2(p, line[i], line[i+1]) : i \in Edges(line)})
\* @type: (Seq(Int), Seq(Int), Seq(Int)) => Seq(Int);
SqDistPtSeg3(p, a, b) ==
  LET ab == Sub3(b, a)  ap == Sub3(p, a)  l2 == Dot3(ab, ab)  t == Dot3(ap, ab) IN
  IF l2 = 0 \/ t <= 0 THEN <<Dot3(ap, ap), 1>>
  ELSE IF t >= l2 THEN <<Dot3(Sub3(p, b), Sub3(p, b)), 1>>
  ELSE <<Dot3(ap, ap) * l2 - t * t, l2>>
\* the squared distance between two segments is the minimum of a convex quadratic over the unit square
\* of parameters: attained on one of the four edges (= an endpoint against the other segment) or at
\* the interior critical point when that lies inside the square
\* @type: (Seq(Int), Seq(Int), Seq(Int), Seq(Int)) => Seq(Int);
SqDistSegSeg3(a, b, c, d) ==
  LET u == Sub3(b, a)  v == Sub3(d, c)  w == Sub3(a, c)
      A == Dot3(u, u)  B == Dot3(u, v)  C == Dot3(v, v)  D == Dot3(u, w)  E == Dot3(v, w)
      den == A * C - B * B
      edges == {SqDistPtSeg3(a, c, d), SqDistPtSeg3(b, c, d), SqDistPtSeg3(c, a, b), SqDistPtSeg3(d, a, b)}
      sn == B * E - C * D   tn == A * E - B * D
      inside == den > 0 /\ 0 <= sn /\ sn <= den /\ 0 <= tn /\ tn <= den
      nx == u[2] * v[3] - u[3] * v[2]  ny == u[3] * v[1] - u[1] * v[3]  nz == u[1] * v[2] - u[2] * v[1]
      T == w[1] * nx + w[2] * ny + w[3] * nz
  IN RMin(IF inside THEN edges \cup {<<T * T, den>>} ELSE edges)
\* got is the fixed-point number gq/Q (rounded to nearest by the recorder, so off by at most 1/(2Q));
\* accept when |gq/Q - sqrt(r)| <= tq/Q
\* @type: (Int, Int, Int, Seq(Int)) => Bool;
WithinFixed(gq, tq, Q, r) ==
  LET lo == Max2(gq - tq, 0)  hi == gq + tq IN
  /\ lo * lo * r[2] <= r[1] * Q * Q
  /\ r[1] * Q * Q <= hi * hi * r[2]
\* got = gn/gd exactly (gd > 0); accept when |got - sqrt(r)| <= tn/td
\* @type: (Int, Int, Int, Int, Seq(Int)) => Bool;
WithinExact(gn, gd, tn, td, r) ==
  LET lo == Max2(gn * td - tn * gd, 0)  hi == gn * td + tn * gd  dd == gd * td IN
  /\ gn >= 0
  /\ lo * lo * r[2] <= r[1] * dd * dd
  /\ r[1] * dd * dd <= hi * hi * r[2]

\* ------------------------------------------------------------------ observation predicates of the big-integer tier
\* (all ordinates of one observation - inputs and outputs - are scaled by a common power of two to integers;
\* the predicates are invariant under that scaling because the tolerance is scaled too)
\* @type: Int => Int;
Pow2(k) == 2^k
\* |p - X| <= sc*2^-30 + 2^-45 * l1*l2*(l1+l2)/|den| per ordinate, X = <<xn, yn, den>> the exact crossing point:
\* a forward-error bound of the exact formula (condition number l1*l2/|den|), an upper limit, not a fit
\* @type: (Seq(Int), Seq(Int), Int, Int) => Bool;
NearCross(p, X, sc, K) ==
  LET ad == Abs(X[3]) IN
  /\ Abs(p[1] * X[3] - X[1]) * Pow2(45) <= Pow2(15) * sc * ad + K
  /\ Abs(p[2] * X[3] - X[2]) * Pow2(45) <= Pow2(15) * sc * ad + K
\* @type: (Seq(Int), Seq(Int)) => Int;
LInf(a, b) == Max2(Abs(b[1] - a[1]), Abs(b[2] - a[2]))
\* what the robust intersector may answer for the non-degenerate segments a-b, c-d: t = class, ps = points
\* @type: (Seq(Int), Seq(Int), Seq(Int), Seq(Int), Str, Seq(Seq(Int)), Int) => Bool;
SegSegOK(a, b, c, d, t, ps, sc) ==
  LET k == SegSegClass(a, b, c, d)  sh == SharedEnds(a, b, c, d)
      both == sh \cap {<<a[1], a[2]>>, <<b[1], b[2]>>} \cap {<<c[1], c[2]>>, <<d[1], d[2]>>}
      l1 == LInf(a, b)  l2 == LInf(c, d) IN
  /\ t = k
  /\ IF k = "none" THEN Len(ps) = 0
     ELSE IF k = "overlap"
          THEN Len(ps) = 2 /\ <<ps[1][1], ps[1][2]>> \in sh /\ <<ps[2][1], ps[2][2]>> \in sh /\ ~SameXY(ps[1], ps[2])
     ELSE /\ Len(ps) = 1
          /\ IF both # {} THEN <<ps[1][1], ps[1][2]>> \in both                      \* a common endpoint: exactly that point
             \* a T junction (an endpoint of one segment inside the other): that endpoint, or - when it is COMPUTED as the crossing
             \* of the two lines - a point within the same forward-error bound as any other crossing
             ELSE IF sh # {} THEN \/ \E e \in sh : NearCross(ps[1], <<e[1], e[2], 1>>, sc, 0)
                                  \/ (~Collinear4(a, b, c, d) /\ NearCross(ps[1], CrossPt(a, b, c, d), sc, l1 * l2 * (l1 + l2)))
             ELSE NearCross(ps[1], CrossPt(a, b, c, d), sc, l1 * l2 * (l1 + l2))
\* classification only (float64 input of arbitrary magnitude, where the accuracy of a computed crossing point is not stated):
\* the class, the number of points, a common endpoint exactly, the end points of an overlap
\* @type: (Seq(Int), Seq(Int), Seq(Int), Seq(Int), Str, Seq(Seq(Int))) => Bool;
SegSegClassOK(a, b, c, d, t, ps) ==
  LET k == SegSegClass(a, b, c, d)  sh == SharedEnds(a, b, c, d)
      both == sh \cap {<<a[1], a[2]>>, <<b[1], b[2]>>} \cap {<<c[1], c[2]>>, <<d[1], d[2]>>} IN
  /\ t = k
  /\ IF k = "none" THEN Len(ps) = 0
     ELSE IF k = "overlap"
          THEN Len(ps) = 2 /\ <<ps[1][1], ps[1][2]>> \in sh /\ <<ps[2][1], ps[2][2]>> \in sh /\ ~SameXY(ps[1], ps[2])
     ELSE Len(ps) = 1 /\ (both # {} => <<ps[1][1], ps[1][2]>> \in both)
\* got (scaled) is within tn/td of the square root of the rational r
\* @type: (Int, Int, Int, Seq(Int)) => Bool;
DistExactOK(got, tn, td, r) == WithinExact(got, 1, tn, td, r)

\* The same minima WITHOUT a CHOOSE.  Apalache treats CHOOSE as a fresh non-deterministic pick at every occurrence,
\* and operator arguments are substituted by name: when two candidates tie with different representations
\* (parallel segments), r[1] and r[2] of "the" minimum could come from different picks.  The big-integer tier therefore
\* uses the candidate SET and binds the minimum once with an existential quantifier.
\* @type: (Seq(Int), Seq(Int), Seq(Int), Seq(Int)) => Set(Seq(Int));
SqDistSegSeg2Set(a, b, c, d) ==
  IF SegsMeet(a, b, c, d) THEN {<<0, 1>>}
  ELSE {SqDistPtSeg2(a, c, d), SqDistPtSeg2(b, c, d), SqDistPtSeg2(c, a, b), SqDistPtSeg2(d, a, b)}
\* @type: (Seq(Int), Seq(Int), Seq(Int), Seq(Int)) => Set(Seq(Int));
SqDistSegSeg3Set(a, b, c, d) ==
  LET u == Sub3(b, a)  v == Sub3(d, c)  w == Sub3(a, c)
      A == Dot3(u, u)  B == Dot3(u, v)  C == Dot3(v, v)  D == Dot3(u, w)  E == Dot3(v, w)
      den == A * C - B * B
      edges == {SqDistPtSeg3(a, c, d), SqDistPtSeg3(b, c, d), SqDistPtSeg3(c, a, b), SqDistPtSeg3(d, a, b)}
      sn == B * E - C * D   tn == A * E - B * D
      inside == den > 0 /\ 0 <= sn /\ sn <= den /\ 0 <= tn /\ tn <= den
      nx == u[2] * v[3] - u[3] * v[2]  ny == u[3] * v[1] - u[1] * v[3]  nz == u[1] * v[2] - u[2] * v[1]
      T == w[1] * nx + w[2] * ny + w[3] * nz
  IN IF inside THEN edges \cup {<<T * T, den>>} ELSE edges
\* got is within tn/td of the square root of the minimum of the candidate set
\* @type: (Int, Int, Int, Set(Seq(Int))) => Bool;
DistExactOKSet(got, tn, td, S) == \E r \in S : (\A q \in S : RLe(r, q)) /\ WithinExact(got, 1, tn, td, r)

\* ------------------------------------------------------------------ C20: Douglas-Peucker
\* d <= threshold^2 = T2n/T2d
\* @type: (Seq(Int), Int, Int) => Bool;
LeqThr(d, T2n, T2d) == d[1] * T2d <= T2n * d[2]
\* idx (0-based, as returned) is a valid simplification of P for the squared threshold T2n/T2d
\* @type: (Seq(Seq(Int)), Int, Int, Seq(Int)) => Bool;
ValidSimplification(P, T2n, T2d, idx) ==
  LET n == Len(P) IN
  /\ (n = 0 => Len(idx) = 0)
  /\ (n > 0 => Len(idx) >= 1 /\ idx[1] = 0 /\ idx[Len(idx)] = n - 1)
  /\ \A k \in DOMAIN idx : k < Len(idx) => idx[k] < idx[k+1]
  /\ \A k \in DOMAIN idx : k < Len(idx) =>
        \A j \in DOMAIN P : (idx[k] + 1 < j /\ j < idx[k+1] + 1) =>        \* j is the 1-based position of an omitted point
           LeqThr(SqDistPtSeg2(P[j], P[idx[k]+1], P[idx[k+1]+1]), T2n, T2d)
====
