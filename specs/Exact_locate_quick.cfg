INIT Init
NEXT Next
INVARIANT Laws Emit
CONSTANTS
  Family = "locate"
  N = 3
  K = 4
