INIT Init
NEXT Next
INVARIANT Laws Emit
CONSTANTS
  Family = "measure"
  Rich = FALSE
