---- MODULE KMLModel ----
(* model A for the KML renderer: the geometry trees of WKTRenderModel (all types x 4 layouts, EMPTY members at every
   position, member runs, nested collections); TLC checks the design laws on each and emits it as a case. *)
EXTENDS KML, FiniteSets, Json
CONSTANT Rich
VARIABLE g
M == INSTANCE WKTRenderModel
Init == g \in M!Geoms
Next == FALSE /\ UNCHANGED g
Laws == KmlLaws(g)
Emit == PrintT(<<"CASE", ToJson([g |-> g])>>)
EmitInv == Emit
====
