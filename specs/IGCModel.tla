---- MODULE IGCModel ----
(* model A for C19. Family "lines": every sequence of up to MaxLen records over an alphabet of line kinds
   (I-record extension tables that are contiguous / gapped / reversed / over-announced, B records shorter and
   longer than announced, date headers across the two-digit-year window, malformed headers, records before A).
   Family "tracks": every non-decreasing track of up to MaxLen fixes over palettes of positions (incl. the
   poles and the antimeridian), altitudes (incl. out of range) and instants straddling midnight, leap days,
   1999/2000 and both ends of 1970..2069.
   Family "rolls": after an A record, every sequence of date headers (31 Dec 1999, 1 Jan 2000, 28 Feb 2024) and plain B records
   at 23:59:59 / 00:00:10 / 00:00:05: several day roll-overs in one file, across year, century and leap-day ends, date headers
   after a roll-over, fixes before any date.  (Emitted as bare line sequences; IGCObs evaluates the decoder model on them.)
   Design invariants: the decoder model never indexes outside a line;
   the decoder model applied to the format the encoder must write gives every fix back with its instant. *)
EXTENDS IGC, Json
CONSTANTS Family, MaxLen, Rich
Lines == { [k |-> "A"], [k |-> "X"], [k |-> "blank"],
           [k |-> "HDTE", dd |-> 31, mm |-> 12, yy |-> 99, short |-> FALSE],
           [k |-> "HDTE", dd |-> 28, mm |-> 2,  yy |-> 24, short |-> FALSE],
           [k |-> "HDTE", dd |-> 31, mm |-> 12, yy |-> 69, short |-> FALSE],
           [k |-> "HDTE", dd |-> 1,  mm |-> 1,  yy |-> 70, short |-> FALSE],
           [k |-> "HDTE", dd |-> 32, mm |-> 1,  yy |-> 20, short |-> FALSE],
           [k |-> "HDTE", dd |-> 1,  mm |-> 13, yy |-> 20, short |-> FALSE],
           [k |-> "HDTE", dd |-> 1,  mm |-> 1,  yy |-> 20, short |-> TRUE],
           [k |-> "I", n |-> 1, ents |-> <<<<36, 37, "LAD">>>>],
           [k |-> "I", n |-> 2, ents |-> <<<<36, 37, "LAD">>, <<38, 39, "LOD">>>>],
           [k |-> "I", n |-> 1, ents |-> <<<<38, 40, "TDS">>>>],
           [k |-> "I", n |-> 1, ents |-> <<<<36, 35, "TDS">>>>],
           [k |-> "I", n |-> 2, ents |-> <<<<36, 36, "TDS">>>>],
           [k |-> "I", n |-> 1, ents |-> <<<<36, 36, "TDS">>, <<37, 40, "FXA">>>>],
           [k |-> "B", len |-> 35, sec |-> 86399, ok |-> TRUE],
           [k |-> "B", len |-> 35, sec |-> 10, ok |-> TRUE],
           [k |-> "B", len |-> 34, sec |-> 10, ok |-> TRUE],
           [k |-> "B", len |-> 37, sec |-> 20, ok |-> TRUE],
           [k |-> "B", len |-> 39, sec |-> 5, ok |-> TRUE],
           [k |-> "B", len |-> 40, sec |-> 43200, ok |-> FALSE],           \* rendered with an invalid latitude field
           [k |-> "B", len |-> 35, sec |-> 43201, ok |-> FALSE] }          \* rendered with an invalid altitude field (late error)
         \cup (IF Rich THEN { [k |-> "I", n |-> 3, ents |-> <<<<36, 36, "TDS">>, <<37, 38, "LAD">>, <<39, 40, "LOD">>>>],
                              [k |-> "I", n |-> 1, ents |-> <<<<36, 99, "TDS">>>>],
                              [k |-> "HDTE", dd |-> 29, mm |-> 2, yy |-> 0, short |-> FALSE],
                              [k |-> "B", len |-> 99, sec |-> 0, ok |-> TRUE] } ELSE {})
RollLines == { [k |-> "HDTE", dd |-> 31, mm |-> 12, yy |-> 99, short |-> FALSE], [k |-> "HDTE", dd |-> 1, mm |-> 1, yy |-> 0, short |-> FALSE],
               [k |-> "HDTE", dd |-> 28, mm |-> 2, yy |-> 24, short |-> FALSE],
               [k |-> "B", len |-> 35, sec |-> 86399, ok |-> TRUE], [k |-> "B", len |-> 35, sec |-> 10, ok |-> TRUE], [k |-> "B", len |-> 35, sec |-> 5, ok |-> TRUE] }
D(y, m, d) == DaysFromCivil(y, m, d)
Instants == { <<D(1970, 1, 1), 0>>, <<D(1985, 6, 15), 43200>>, <<D(1999, 12, 31), 86399>>, <<D(2000, 1, 1), 0>>,
              <<D(2024, 2, 28), 86399>>, <<D(2024, 2, 29), 1>>, <<D(2069, 12, 31), 86399>> }
            \cup (IF Rich THEN { <<D(1970, 1, 1), 86399>>, <<D(2000, 2, 29), 43200>>, <<D(2038, 1, 19), 11648>>, <<D(2069, 12, 31), 0>> } ELSE {})
MM == 100                                               \* one milli-minute in position units
Positions == << <<0, 0>>, <<MM, -MM>>, <<45 * 6000000 + 3000050, 8 * 6000000 + 77>>, <<-(179 * 6000000 + 5999999), -(89 * 6000000 + 5999999)>>,
               <<180 * 6000000, 90 * 6000000>>, <<-180 * 6000000, -90 * 6000000>> >>
Alts == IF Rich THEN <<0, 1, 500, 9999, 10000, 10001, -5, 12345>> ELSE <<0, 500, 10000, 10001, -5>>
\* to keep the track family small, position and altitude are tied to a rotation index; every value still occurs
FixOf(t, j) == [lonq |-> Positions[(j % 6) + 1][1], latq |-> Positions[(j % 6) + 1][2], alt |-> Alts[(j % Len(Alts)) + 1], t |-> t]

VARIABLES s, hist, track
Init == /\ track = <<>>
        /\ IF Family = "rolls" THEN s = Step(S0, [k |-> "A"]) /\ hist = <<[k |-> "A"]>> ELSE s = S0 /\ hist = <<>>
Next == /\ Len(hist) < MaxLen
        /\ IF Family \in {"lines", "rolls"}
           THEN \E l \in (IF Family = "lines" THEN Lines ELSE RollLines) : s' = Step(s, l) /\ hist' = Append(hist, l) /\ track' = track
           ELSE \E t \in Instants, j \in 0..5 :
                  /\ (IF track = <<>> THEN TRUE ELSE ~Before(t, track[Len(track)].t))
                  /\ track' = Append(track, FixOf(t, j + Len(track)))
                  /\ hist' = Append(hist, j) /\ s' = s
Inv == NoIndexOutOfRange(s)
\* the format carries every fix: running the decoder model over the lines the encoder must write gives the instants back
FormatRoundTrips ==
  Family = "tracks" =>
    LET r == Run(S0, Encoded(track), 1) IN
    /\ InDomain(track)
    /\ r.nerr = 0 /\ ~r.oob /\ Len(r.fixes) = Len(track)
    /\ \A i \in DOMAIN track : r.fixes[i] = <<track[i].t[1], track[i].t[2], 1>>
Emit == PrintT(<<"CASE", ToJson(IF Family = "lines"
           THEN [fam |-> "lines", lines |-> hist', nfix |-> Len(s'.fixes), nerr |-> TotalErrors(s'), fixes |-> s'.fixes, dated |-> s'.dated]
           ELSE IF Family = "rolls" THEN [fam |-> "glines", lines |-> hist']
           ELSE [fam |-> "tracks", track |-> track'])>>)
====
