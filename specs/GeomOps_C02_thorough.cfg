INIT Init
NEXT Next
VIEW View
INVARIANT Inv RevRev
PROPERTY CloneIndependent FailedPushUnchanged
ACTION_CONSTRAINT Emit
CONSTANTS
  MaxLen = 4
  Rich = TRUE
  KindsUsed <- KindsMulti
  LayoutsUsed <- LayoutsAll
  OpsUsed <- OpsC02
  TailOps <- TailC01
