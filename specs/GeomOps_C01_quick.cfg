INIT Init
NEXT Next
VIEW View
INVARIANT Inv RevRev
PROPERTY CloneIndependent FailedPushUnchanged
ACTION_CONSTRAINT Emit
CONSTANTS
  MaxLen = 3
  Rich = FALSE
  KindsUsed <- KindsAll
  LayoutsUsed <- LayoutsAll
  OpsUsed <- OpsC01
  TailOps <- TailC01
