SPECIFICATION Spec
INVARIANT SequentialResults
PROPERTY Pure
CONSTANTS
  NProc = 2
  AllowWrite = FALSE
  AllowAlias = TRUE
  AllowPool = FALSE
  MaxCalls = 2
