SPECIFICATION Spec
PROPERTY Pure
CONSTANTS
  NProc = 2
  AllowWrite = TRUE
  AllowAlias = FALSE
  AllowPool = FALSE
  MaxCalls = 2
