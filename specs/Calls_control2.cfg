SPECIFICATION Spec
PROPERTY Pure
CONSTANTS
  NProc = 2
  AllowWrite = TRUE
  MaxCalls = 2
