INIT Init
NEXT Next
INVARIANT NoPanic StackNonEmpty AcceptedAtTop TreeTotal
ACTION_CONSTRAINT Emit

CONSTANTS
  MaxLen = 14
  PruneSyn = TRUE
  KeywordsUsed <- KwMulti
  PointsUsed <- PtsMulti
  PunctsUsed <- PunctNoErr
  EmitRejects = FALSE
