INIT Init
NEXT Next
INVARIANT NoPanic StackNonEmpty AcceptedAtTop TreeTotal
ACTION_CONSTRAINT Emit

CONSTANTS
  MaxLen = 10
  PruneSyn = TRUE
  KeywordsUsed <- KwAll
  PointsUsed <- PtsFull
  PunctsUsed <- PunctAll
  EmitRejects = FALSE
