---- MODULE WKTParser ----
(* Token-level model of encoding/wkt (C06, and the reader side of C05).
   Part 1 mirrors the implementation, because C06 is about ITS assertions: the grammar of wkt.y as a
   pushdown recogniser, with the layout stack of lex_stack.go / lex.go transcribed validator by validator
   and every panic() site a value ("panic:<site>").  Each validator call is also appended to s.log as
   [n, a, ok, ls] (name, argument, result, layout stack afterwards) - the hook events of the real parser
   must be exactly this sequence (module WKTObs).
   Part 2 (Tree) is an independent reference reader of standard WKT written from the OGC grammar:
   it builds the geometry tree of a grammatical token sequence.

   Tokens (tuples, first element a string):
     <<"KW", type, variant>>  type in Types, variant in {"B","Z","M","ZM"} ("B" = no suffix)
     <<"P", k, v>>            a maximal run of k numbers; v = tuple of k value identifiers
     <<"(">> <<")">> <<",">> <<"EMPTY">> <<"LEXERR">> (a rune or word the lexer rejects) <<"EOF">> *)
EXTENDS Integers, Sequences, TLC, SequencesExt

Types    == {"PT", "LS", "PG", "MPT", "MLS", "MPG", "GC"}
Variants == {"B", "M", "Z", "ZM"}
Lay(v)   == CASE v = "M" -> "XYM" [] v = "Z" -> "XYZ" [] v = "ZM" -> "XYZM" [] OTHER -> "No"
StrideOf(l) == CASE l = "XY" -> 2 [] l = "XYZ" -> 3 [] l = "XYM" -> 3 [] l = "XYZM" -> 4 [] OTHER -> 0
KW(t, v) == <<"KW", t, v>>
P(k, v)  == <<"P", k, v>>
Tok(x)   == <<x>>

\* ---------------------------------------------------------------- layout stack (lex_stack.go)
Frame(l, b, m) == [l |-> l, base |-> b, mbe |-> m]
InitLS == <<Frame("No", TRUE, FALSE)>>
Top(ls) == ls[Len(ls)]
SetTop(ls, f) == [ls EXCEPT ![Len(ls)] = f]
AtTop(ls) == Len(ls) = 1
R(ls, res) == [ls |-> ls, res |-> res]             \* res: "ok" | "err" | "panic:<site>"

SetTopLayout(ls, l) ==
  IF l = "No" THEN R(ls, "panic:setTopLayout-NoLayout")
  ELSE R(SetTop(ls, [Top(ls) EXCEPT !.l = l]), "ok")
SetLayoutIfNoLayout(ls, l) == IF Top(ls).l = "No" THEN SetTopLayout(ls, l) ELSE R(ls, "ok")
SetTopMBE(ls, b) ==
  IF Top(ls).l # "XYM" THEN R(ls, "panic:setTopNextPointMustBeEmpty-nonXYM")
  ELSE R(SetTop(ls, [Top(ls) EXCEPT !.mbe = b]), "ok")
Compatible(outer, inner) == ~(outer # inner /\ outer # "No")

ValidateBaseGeometryTypeAllowed(ls) ==
  IF ~Top(ls).base
  THEN IF Top(ls).l = "XYM" THEN SetTopMBE(ls, TRUE) ELSE R(ls, "ok")
  ELSE IF Top(ls).l = "XYM"
       THEN IF AtTop(ls) THEN R(ls, "panic:base-XYM-at-top-level") ELSE R(ls, "err")
       ELSE R(ls, "ok")
ValidateAndSetLayoutIfNoLayout(ls, l) ==
  IF ~Compatible(Top(ls).l, l) THEN R(ls, "err") ELSE SetLayoutIfNoLayout(ls, l)
ValidateNonEmptyGeometryAllowed(ls) ==
  IF Top(ls).mbe
  THEN IF Top(ls).l # "XYM" THEN R(ls, "panic:mbe-but-not-XYM") ELSE R(ls, "err")
  ELSE R(ls, "ok")
ValidateBaseTypeEmptyAllowed(ls) ==
  IF ~Top(ls).base
  THEN IF Top(ls).l = "XYM" THEN SetTopMBE(ls, FALSE) ELSE R(ls, "ok")
  ELSE CASE Top(ls).l = "No" -> SetLayoutIfNoLayout(ls, "XY")
         [] Top(ls).l = "XY" -> R(ls, "ok")
         [] OTHER            -> R(ls, "err")
PushFrame(ls, v) ==                                 \* validateAndPushLayoutStackFrame + layoutStack.push
  LET l == Lay(v) IN
  IF l # "No" /\ ~Compatible(Top(ls).l, l) THEN R(ls, "err")
  ELSE IF l = "No" THEN R(Append(ls, Frame(Top(ls).l, Top(ls).base, FALSE)), "ok")
       ELSE R(Append(ls, Frame(l, FALSE, FALSE)), "ok")
PopFrame(ls) ==                                     \* validateAndPopLayoutStackFrame
  IF Len(ls) = 0 THEN R(ls, "panic:stack-empty")
  ELSE IF AtTop(ls) THEN R(ls, "panic:pop-top-level")
  ELSE LET popped == Top(ls).l  rest == Front(ls) IN
       IF ~Compatible(Top(rest).l, popped) THEN R(rest, "panic:uncaught-layout-incompatibility")
       ELSE SetLayoutIfNoLayout(rest, popped)
IsValidPoint(ls, k) ==
  IF k = 1 \/ k > 4 THEN R(ls, "err")
  ELSE LET l == Top(ls).l IN
       IF l # "No" /\ StrideOf(l) # k THEN R(ls, "err")
       ELSE SetLayoutIfNoLayout(ls, CASE k = 2 -> "XY" [] k = 3 -> "XYZ" [] OTHER -> "XYZM")
\* ring closure is tested on X, Y and - only when the layout has Z - the third ordinate
\* (the statement says "closed rings" without naming the dimensions: closure in X and Y is undisputed, whether the Z ordinate
\* must agree too is a choice - PostGIS compares it, JTS does not.  The state carries the choice (cz); the observation
\* checker accepts a parser that behaves like EITHER reading, consistently within one parse.)
\* cz: "xy" (JTS), "xyz" (PostGIS, lex.go today), "all" (every ordinate, M included)
ClosureDims(l, cz) == IF cz = "all" THEN StrideOf(l) ELSE IF cz = "xyz" /\ l \in {"XYZ", "XYZM"} THEN 3 ELSE 2
Closed(first, last, l, cz) == \A i \in 1..ClosureDims(l, cz) : first[i] = last[i]

\* ---------------------------------------------------------------- parser state
S0z(cz) == [st |-> "run", sem |-> "ok", ctl |-> <<<<"END">>, <<"G">>>>, ls |-> InitLS, npts |-> 0,
            first |-> <<>>, last |-> <<>>, kids |-> <<>>, log |-> <<>>, cz |-> cz, why |-> ""]
S0 == S0z("xyz")                     \* what lex.go does today: Z takes part in the closure test

Rej(s)      == [s EXCEPT !.st = "synrej"]
Pop1(s)     == [s EXCEPT !.ctl = Front(s.ctl)]
Repl(s, fs) == [s EXCEPT !.ctl = Front(s.ctl) \o fs]       \* replace top frame by fs (last = new top)
WithLS(s, r) == [s EXCEPT !.ls = r.ls]
IsBase(v) == v = "B"
Log(s, nm, arg, ok, ls) == [s EXCEPT !.log = Append(@, [n |-> nm, a |-> arg, ok |-> ok, ls |-> ls])]

\* a geometry just finished: inside a GC remember its layout for the collection's SetLayout
GeoDone(s) == IF s.kids = <<>> THEN s
           ELSE [s EXCEPT !.kids = [s.kids EXCEPT ![Len(s.kids)] = Append(@, Top(s.ls).l)]]

\* run a validator named nm (nm = "" : no validator at this point): on "ok" continue with F on the
\* state carrying the new layout stack; "err" makes the semantic rejection sticky; a panic site ends the run
Then(s, nm, arg, r0, F(_)) ==
  IF s.sem = "rej" \/ nm = "" THEN
     (CASE r0.res = "ok" \/ s.sem = "rej" -> F(IF s.sem = "rej" THEN s ELSE WithLS(s, r0))
        [] r0.res = "err" -> F([s EXCEPT !.sem = "rej", !.why = IF @ = "" THEN nm ELSE @])
        [] OTHER -> [s EXCEPT !.st = r0.res])
  ELSE CASE r0.res = "ok"  -> F(Log(WithLS(s, r0), nm, arg, TRUE, r0.ls))
         [] r0.res = "err" -> F(Log([s EXCEPT !.sem = "rej", !.why = IF @ = "" THEN nm ELSE @], nm, arg, FALSE, s.ls))
         [] OTHER          -> [s EXCEPT !.st = r0.res]

CloseGC(s) ==                                       \* geometry_collection reduced; then the `geometry:` action
  IF s.sem = "rej" THEN GeoDone([s EXCEPT !.kids = Front(s.kids)]) ELSE
  LET r == PopFrame(s.ls) IN
  IF r.res # "ok" THEN [s EXCEPT !.st = r.res]
  ELSE LET cur == Top(r.ls).l
           mine == s.kids[Len(s.kids)]
           s1 == Log([WithLS(s, r) EXCEPT !.kids = Front(s.kids)], "Pop", "", TRUE, r.ls) IN
       IF \E i \in DOMAIN mine : mine[i] # cur THEN GeoDone([s1 EXCEPT !.sem = "rej", !.why = IF @ = "" THEN "CloseGC" ELSE @])  \* SetLayout -> ErrLayoutMismatch
       ELSE GeoDone(s1)

EmptyNm(b) == IF b THEN "Empty" ELSE ""
EmptyChk(s, b) == IF b THEN ValidateBaseTypeEmptyAllowed(s.ls) ELSE R(s.ls, "ok")
Sep(s, k, again) == CASE k = "," -> Repl(s, <<again>>) [] k = ")" -> Pop1(s) [] OTHER -> Rej(s)
LayName(l) == IF l = "No" THEN "not XYM" ELSE l       \* as the Go layoutName() spells it

RECURSIVE Step(_, _)
Step(s, tok) ==
  IF s.st # "run" THEN s ELSE
  LET top == s.ctl[Len(s.ctl)] k == tok[1] IN
  IF k = "LEXERR" THEN Rej(s) ELSE
  CASE top[1] = "END" -> (IF k = "EOF" THEN [s EXCEPT !.st = "acc"] ELSE Rej(s))
    [] top[1] = "G" ->
         (IF k # "KW" THEN Rej(s) ELSE
          LET t == tok[2] v == tok[3]
              cont(x) == LET x1 == Repl(x, <<<<"B", t, IsBase(v)>>>>) IN
                         IF t = "GC" THEN [x1 EXCEPT !.kids = Append(@, <<>>)] ELSE x1 IN
          IF t = "GC" THEN Then(s, "Push", LayName(Lay(v)), PushFrame(s.ls, v), cont)
          ELSE IF IsBase(v) THEN Then(s, "Base", "", ValidateBaseGeometryTypeAllowed(s.ls), cont)
          ELSE Then(s, "VSet", Lay(v), ValidateAndSetLayoutIfNoLayout(s.ls, Lay(v)), cont))
    [] top[1] = "FIN" -> Step(GeoDone(Pop1(s)), tok)      \* geometry reduced; no token consumed
    [] top[1] = "GC_S" -> (CASE k = "," -> [s EXCEPT !.ctl = Append(s.ctl, <<"G">>)]
                          [] k = ")" -> CloseGC(Pop1(s))
                          [] OTHER   -> Rej(s))
    [] top[1] = "P1" -> (IF k # "P" THEN Rej(s)
                         ELSE Then(s, "Pt", tok[2], IsValidPoint(s.ls, tok[2]), LAMBDA x : Pop1(x)))
    [] top[1] = "RP" -> (IF k = ")" THEN Pop1(s) ELSE Rej(s))
    [] top[1] = "RL_I" ->                              \* ring list: expect '(' of a ring
         (IF k # "(" THEN Rej(s) ELSE
          Then(s, "NonEmpty", "", ValidateNonEmptyGeometryAllowed(s.ls),
               LAMBDA x : [Repl(x, <<<<"RL_S">>, <<"PL_P", "RING">>>>) EXCEPT !.npts = 0]))
    [] top[1] = "RL_S" -> Sep(s, k, <<"RL_I">>)
    [] top[1] = "B" ->                              \* body of type top[2]; top[3] = base type?
         (LET t == top[2] b == top[3] IN
          IF k = "EMPTY" THEN
             Then(s, EmptyNm(b), "", EmptyChk(s, b),
                  LAMBDA x : IF t = "GC" THEN CloseGC(Pop1(x)) ELSE GeoDone(Pop1(x)))
          ELSE IF k # "(" THEN Rej(s)
          ELSE IF t = "GC" THEN Repl(s, <<<<"GC_S">>, <<"G">>>>)
          ELSE LET geo == (t \in {"PT", "LS", "PG"}) \/ b IN      \* geometry_opening_lparen?
               Then(s, IF geo THEN "NonEmpty" ELSE "", "",
                    IF geo THEN ValidateNonEmptyGeometryAllowed(s.ls) ELSE R(s.ls, "ok"),
                    LAMBDA x : CASE t = "PT"  -> Repl(x, <<<<"FIN">>, <<"RP">>, <<"P1">>>>)
                                 [] t = "LS"  -> [Repl(x, <<<<"FIN">>, <<"PL_P", "LS">>>>) EXCEPT !.npts = 0]
                                 [] t = "PG"  -> Repl(x, <<<<"FIN">>, <<"RL_I">>>>)
                                 [] t = "MPT" -> Repl(x, <<<<"FIN">>, <<"MP_I", b>>>>)
                                 [] t = "MLS" -> Repl(x, <<<<"FIN">>, <<"ML_I", b>>>>)
                                 [] t = "MPG" -> Repl(x, <<<<"FIN">>, <<"MG_I", b>>>>)))
    [] top[1] = "PL_P" ->                           \* point inside a point list of kind top[2]
         (IF k # "P" THEN Rej(s) ELSE
          Then(s, "Pt", tok[2], IsValidPoint(s.ls, tok[2]),
               LAMBDA x : [Repl(x, <<<<"PL_S", top[2]>>>>) EXCEPT
                             !.npts = IF s.npts < 4 THEN s.npts + 1 ELSE 4,
                             !.first = IF s.npts = 0 THEN tok[3] ELSE s.first, !.last = tok[3]]))
    [] top[1] = "PL_S" ->
         (CASE k = "," -> Repl(s, <<<<"PL_P", top[2]>>>>)
            [] k = ")" ->
                 (IF s.sem = "rej" THEN Pop1(s)
                  ELSE IF top[2] = "RING"
                  THEN LET ok == s.npts >= 4 /\ Closed(s.first, s.last, Top(s.ls).l, s.cz) IN
                       Pop1(Log(IF ok THEN s ELSE [s EXCEPT !.sem = "rej", !.why = IF @ = "" THEN "Ring" ELSE @], "Ring", "", ok, s.ls))
                  ELSE LET ok == s.npts >= 2 IN
                       Pop1(Log(IF ok THEN s ELSE [s EXCEPT !.sem = "rej", !.why = IF @ = "" THEN "LS" ELSE @], "LS", "", ok, s.ls)))
            [] OTHER   -> Rej(s))
    [] top[1] = "MP_I" ->
         (CASE k = "P" -> Then(s, "Pt", tok[2], IsValidPoint(s.ls, tok[2]), LAMBDA x : Repl(x, <<<<"MP_S", top[2]>>>>))
            [] k = "(" -> Then(s, "NonEmpty", "", ValidateNonEmptyGeometryAllowed(s.ls),
                               LAMBDA x : Repl(x, <<<<"MP_S", top[2]>>, <<"RP">>, <<"P1">>>>))
            [] k = "EMPTY" -> Then(s, EmptyNm(top[2]), "", EmptyChk(s, top[2]), LAMBDA x : Repl(x, <<<<"MP_S", top[2]>>>>))
            [] OTHER -> Rej(s))
    [] top[1] = "MP_S" -> Sep(s, k, <<"MP_I", top[2]>>)
    [] top[1] = "ML_I" ->
         (CASE k = "(" -> Then(s, "NonEmpty", "", ValidateNonEmptyGeometryAllowed(s.ls),
                               LAMBDA x : [Repl(x, <<<<"ML_S", top[2]>>, <<"PL_P", "LS">>>>) EXCEPT !.npts = 0])
            [] k = "EMPTY" -> Then(s, EmptyNm(top[2]), "", EmptyChk(s, top[2]), LAMBDA x : Repl(x, <<<<"ML_S", top[2]>>>>))
            [] OTHER -> Rej(s))
    [] top[1] = "ML_S" -> Sep(s, k, <<"ML_I", top[2]>>)
    [] top[1] = "MG_I" ->
         (CASE k = "(" -> Then(s, "NonEmpty", "", ValidateNonEmptyGeometryAllowed(s.ls),
                               LAMBDA x : Repl(x, <<<<"MG_S", top[2]>>, <<"RL_I">>>>))
            [] k = "EMPTY" -> Then(s, EmptyNm(top[2]), "", EmptyChk(s, top[2]), LAMBDA x : Repl(x, <<<<"MG_S", top[2]>>>>))
            [] OTHER -> Rej(s))
    [] top[1] = "MG_S" -> Sep(s, k, <<"MG_I", top[2]>>)

RECURSIVE Run(_, _)
Run(st, toks) == IF toks = <<>> \/ st.st # "run" THEN st ELSE Run(Step(st, Head(toks)), Tail(toks))
Verdict(st) == CASE st.st = "acc" /\ st.sem = "ok" -> "acc"
                 [] st.st \in {"run", "acc", "synrej"} -> "rej"
                 [] OTHER -> st.st                                  \* panic:<site>
FinalLayout(st) == Top(st.ls).l

\* design invariants of the parser model
NoPanicS(s) == s.st \in {"run", "acc", "synrej"}
StackNonEmptyS(s) == Len(s.ls) >= 1
AcceptedAtTopS(s) == (s.st = "acc" /\ s.sem = "ok") => (AtTop(s.ls) /\ Top(s.ls).l # "No" /\ ~Top(s.ls).mbe)

\* ================================================================ Part 2: reference reader (tree builder)
\* Geometry tree [t, body]; body: PT -> v or <<>>; LS -> Seq(v); PG -> Seq(Seq(v));
\* MPT -> Seq(v or NILPT); MLS -> Seq(Seq(v)); MPG -> Seq(Seq(Seq(v))); GC -> Seq(tree).
\* Defined on GRAMMATICAL token sequences (the recogniser above decides that); p is the index of the next token.
NILPT == <<-1>>
Res(v, p) == [v |-> v, p |-> p]
RECURSIVE PtTail(_, _, _)
PtTail(toks, p, acc) ==                     \* after a point: "," P ... ")"
  IF toks[p][1] = "," THEN PtTail(toks, p + 2, Append(acc, toks[p+1][3])) ELSE Res(acc, p + 1)
PtList(toks, p) ==                          \* EMPTY | "(" P ("," P)* ")"
  IF toks[p][1] = "EMPTY" THEN Res(<<>>, p + 1) ELSE PtTail(toks, p + 2, <<toks[p+1][3]>>)
RECURSIVE RingTail(_, _, _)
RingTail(toks, p, acc) ==
  IF toks[p][1] = "," THEN LET r == PtList(toks, p + 1) IN RingTail(toks, r.p, Append(acc, r.v)) ELSE Res(acc, p + 1)
RingList(toks, p) ==                        \* EMPTY | "(" ptlist ("," ptlist)* ")"
  IF toks[p][1] = "EMPTY" THEN Res(<<>>, p + 1)
  ELSE LET r == PtList(toks, p + 1) IN RingTail(toks, r.p, <<r.v>>)
MPMember(toks, p) ==                        \* P | "(" P ")" | EMPTY
  CASE toks[p][1] = "P" -> Res(toks[p][3], p + 1)
    [] toks[p][1] = "(" -> Res(toks[p+1][3], p + 3)
    [] OTHER -> Res(NILPT, p + 1)
RECURSIVE MPTail(_, _, _)
MPTail(toks, p, acc) ==
  IF toks[p][1] = "," THEN LET r == MPMember(toks, p + 1) IN MPTail(toks, r.p, Append(acc, r.v)) ELSE Res(acc, p + 1)
RECURSIVE MLTail(_, _, _)
MLTail(toks, p, acc) ==
  IF toks[p][1] = "," THEN LET r == PtList(toks, p + 1) IN MLTail(toks, r.p, Append(acc, r.v)) ELSE Res(acc, p + 1)
RECURSIVE MGTail(_, _, _)
MGTail(toks, p, acc) ==
  IF toks[p][1] = "," THEN LET r == RingList(toks, p + 1) IN MGTail(toks, r.p, Append(acc, r.v)) ELSE Res(acc, p + 1)
RECURSIVE Geo(_, _)
RECURSIVE GCTail(_, _, _)
GCTail(toks, p, acc) ==
  IF toks[p][1] = "," THEN LET r == Geo(toks, p + 1) IN GCTail(toks, r.p, Append(acc, r.v)) ELSE Res(acc, p + 1)
Geo(toks, p) ==
  LET t == toks[p][2]  q == p + 1  T(body) == [t |-> t, body |-> body] IN
  CASE t = "PT"  -> IF toks[q][1] = "EMPTY" THEN Res(T(<<>>), q + 1) ELSE Res(T(toks[q+1][3]), q + 3)
    [] t = "LS"  -> LET r == PtList(toks, q) IN Res(T(r.v), r.p)
    [] t = "PG"  -> LET r == RingList(toks, q) IN Res(T(r.v), r.p)
    [] toks[q][1] = "EMPTY" -> Res(T(<<>>), q + 1)
    [] t = "MPT" -> LET m == MPMember(toks, q + 1)  r == MPTail(toks, m.p, <<m.v>>) IN Res(T(r.v), r.p)
    [] t = "MLS" -> LET m == PtList(toks, q + 1)    r == MLTail(toks, m.p, <<m.v>>) IN Res(T(r.v), r.p)
    [] t = "MPG" -> LET m == RingList(toks, q + 1)  r == MGTail(toks, m.p, <<m.v>>) IN Res(T(r.v), r.p)
    [] t = "GC"  -> LET m == Geo(toks, q + 1)       r == GCTail(toks, m.p, <<m.v>>) IN Res(T(r.v), r.p)
Tree(toks) == Geo(toks, 1).v
\* the complete reader: verdict, layout and tree
Parse(toks) == LET f == Run(S0, toks) IN
  IF Verdict(f) = "acc" THEN [verdict |-> "acc", l |-> FinalLayout(f), tree |-> Tree(toks)]
  ELSE [verdict |-> Verdict(f), l |-> "-", tree |-> [t |-> "-", body |-> <<>>]]
====
