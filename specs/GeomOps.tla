---- MODULE GeomOps ----
(* C02 / C16 (and the stateful half of C01): two geometry values of one Go type ("orig" = 1 and
   "other" = 2, the second one created by Clone or by New) under every public mutator, as a
   deterministic Apply(state, action) on ABSTRACT values.  The concrete representation an object must
   show is Deflate(kind, value) (module FlatGeom); the only actions defined on the representation are the
   ones the Go API offers on it (writing through FlatCoords()/Ends()/Endss()).

   obj = [k, l, v, srid]   k: kind, l: layout, v: nested value, srid
   state = [o : <<obj, obj>>, err : "none" | "layout"]   (both objects exist from the start: New(kind, layout))

   GeometryCollection (kind "GC") is a list of members [k, l, v]; it has Push and SetLayout only. *)
EXTENDS FlatGeom, TLC

WTOK == 99          \* token written through FlatCoords()
TTOK == 98          \* token written by the TransformInPlace callback into the first ordinate

\* spare: ghost value "the slices have capacity behind their length" - 0 none, 1 the coordinate slice (Reserve), 2 every
\* slice the constructor was handed (newflat with room). Not observable through the API, but it decides whether a later
\* append writes in place, so histories must distinguish it (and the two kinds of room from each other).
Obj(k, l, v, srid) == [k |-> k, l |-> l, v |-> v, srid |-> srid, spare |-> 0]
EmptyVal(k) == <<>>
St0(k, l0) == LET l == IF k = "GC" THEN "No" ELSE l0 IN
             [o |-> <<Obj(k, l, EmptyVal(k), 0), Obj(k, l, EmptyVal(k), 0)>>, err |-> "none"]
\* the two objects may be created with DIFFERENT layouts (what Swap has to exchange completely)
St0x(k, l1, l2) == [o |-> <<Obj(k, l1, EmptyVal(k), 0), Obj(k, l2, EmptyVal(k), 0)>>, err |-> "none"]

SelfOrder(v, how) == IF v = <<>> THEN v ELSE IF how = "rev" THEN Reverse(v) ELSE Tail(v) \o <<v[1]>>
IsMulti(k) == k \in {"PG", "MPT", "MLS", "MPG", "GC"}

RepOf(o) == Deflate(o.k, o.v)
\* value obtained after mutating the representation r of an object of kind k / stride s
FromRep(k, r, s) == Inflate(k, r, s)

\* first end offset (in reading order) := 0 ; defined only when there are at least two ends
AllEnds(r) == IF r.endss # <<>> THEN Flatten(r.endss) ELSE r.ends
WEndRep(k, r) ==
  IF k \in {"PG", "MLS"} THEN [r EXCEPT !.ends[1] = 0]
  ELSE \* MPG: the first ring end of the first polygon that has a ring
       LET i == CHOOSE i \in DOMAIN r.endss : r.endss[i] # <<>> /\ \A j \in 1..(i-1) : r.endss[j] = <<>>
       IN [r EXCEPT !.endss[i][1] = 0]
WEndEnabled(o) == o.k \in {"PG", "MLS", "MPG"} /\ Len(AllEnds(RepOf(o))) >= 2

\* layout a GeometryCollection reports: the fixed one, else the join of its members'
Join(a, b) == CASE a = "No" -> b [] b = "No" -> a [] a = b -> a
                [] {a, b} = {"XYZ", "XYM"} -> "XYZM"
                [] "XYZM" \in {a, b} -> "XYZM"
                [] a = "XY" -> b [] b = "XY" -> a [] OTHER -> a
RECURSIVE GCLayout(_)
MemberLayout(m) == IF m.k = "GC" THEN GCLayout(m) ELSE m.l
GCLayout(o) == IF o.l # "No" THEN o.l ELSE FoldLeft(LAMBDA acc, m : Join(acc, MemberLayout(m)), "No", o.v)

Apply(st, a) ==
  CASE a.op = "push" ->
         LET o == st.o[a.to] IN
         IF o.k = "GC"
         THEN IF o.l # "No" /\ MemberLayout(a.part) # o.l THEN [st EXCEPT !.err = "layout"]
              ELSE [st EXCEPT !.o[a.to].v = Append(@, a.part), !.err = "none"]
         ELSE [st EXCEPT !.o[a.to].v = Append(@, a.part), !.err = "none"]
    [] a.op = "push2" ->                                      \* GeometryCollection.Push(g1, g2): ONE variadic call, all or nothing
         LET o == st.o[a.to] IN
         IF o.l # "No" /\ (MemberLayout(a.part) # o.l \/ MemberLayout(a.part2) # o.l) THEN [st EXCEPT !.err = "layout"]
         ELSE [st EXCEPT !.o[a.to].v = @ \o <<a.part, a.part2>>, !.err = "none"]
    [] a.op = "pushbad" -> [st EXCEPT !.err = "layout"]                     \* receiver unchanged
    [] a.op = "reverse" -> [st EXCEPT !.o[a.to].v = ReverseVal(st.o[a.to].k, @), !.err = "none"]
    [] a.op = "swap"    -> [st EXCEPT !.o = <<st.o[2], st.o[1]>>, !.err = "none"]
    [] a.op = "clone"   -> [st EXCEPT !.o[2] = [st.o[1] EXCEPT !.spare = 0], !.err = "none"]       \* other := orig.Clone()
    [] a.op = "write"   ->
         LET o == st.o[a.to]  r == RepOf(o) IN
         IF a.pos >= Len(r.flat) THEN [st EXCEPT !.err = "none"]
         ELSE [st EXCEPT !.o[a.to].v = FromRep(o.k, [r EXCEPT !.flat[a.pos + 1] = WTOK], Stride(o.l)), !.err = "none"]
    [] a.op = "wend"    ->
         LET o == st.o[a.to] IN
         IF ~WEndEnabled(o) THEN [st EXCEPT !.err = "none"]
         ELSE [st EXCEPT !.o[a.to].v = FromRep(o.k, WEndRep(o.k, RepOf(o)), Stride(o.l)), !.err = "none"]
    [] a.op = "transform" ->
         LET o == st.o[a.to]  r == RepOf(o)  s == Stride(o.l) IN
         IF s = 0 THEN [st EXCEPT !.err = "none"]
         ELSE [st EXCEPT !.o[a.to].v = FromRep(o.k, [r EXCEPT !.flat = [i \in DOMAIN r.flat |->
                                                       IF (i - 1) % s = 0 THEN TTOK ELSE r.flat[i]]], s),
                         !.err = "none"]
    [] a.op = "srid"    -> [st EXCEPT !.o[a.to].srid = a.srid, !.err = "none"]
    [] a.op = "reserve" -> [st EXCEPT !.o[a.to].spare = IF @ = 2 THEN 2 ELSE 1, !.err = "none"]     \* capacity only
    [] a.op = "setcoords" -> [st EXCEPT !.o[a.to].v = a.v, !.o[a.to].spare = 0, !.err = "none"]
    [] a.op = "newflat" ->                                   \* obj := New<Kind>Flat(layout, Deflate(v)...): a NEW object (SRID 0)
         [st EXCEPT !.o[a.to] = [Obj(st.o[a.to].k, st.o[a.to].l, a.v, 0) EXCEPT !.spare = IF a.room THEN 2 ELSE 0], !.err = "none"]
    \* SetCoords fed with the object's OWN coordinate views (Coord(i)) in another order: the value that was there, reordered
    [] a.op = "setself" -> [st EXCEPT !.o[a.to].v = SelfOrder(@, a.how), !.o[a.to].spare = 0, !.err = "none"]
    \* SetCoords on the part object an accessor handed out (LineString(i), LinearRing(i), Polygon(i), Point(i)): the part is an
    \* object of its own for that purpose, the geometry it came from keeps its value
    [] a.op = "setpart" -> [st EXCEPT !.err = "none"]
    [] a.op = "setbad" -> [st EXCEPT !.err = "stride"]       \* refused; the receiver's content afterwards is not prescribed (last step only)
    [] a.op = "setlayout" ->                                                   \* GC only
         LET o == st.o[a.to] IN
         IF a.l # "No" /\ \E i \in DOMAIN o.v : MemberLayout(o.v[i]) # a.l THEN [st EXCEPT !.err = "layout"]
         ELSE [st EXCEPT !.o[a.to].l = a.l, !.err = "none"]

\* ---------------------------------------------------------------- what the Go projection of an object must be
\* p is the recorded projection [k, l, stride, flat, ends, endss, srid, val, parts]
PartAgrees(k, l, v, i, q) ==
  LET pk == PartKind(k)  pv == PartVal(k, v, i)  r == Deflate(pk, pv) IN
  /\ q.k = pk /\ q.l = l /\ q.stride = Stride(l)
  /\ q.val = pv /\ q.flat = r.flat /\ q.ends = r.ends
RECURSIVE MemberAgrees(_, _)
MemberAgrees(m, q) ==
  IF m.k = "GC" THEN /\ q.k = "GC" /\ q.l = GCLayout([m EXCEPT !.l = "No"]) /\ Len(q.parts) = Len(m.v)
                     /\ \A i \in DOMAIN m.v : MemberAgrees(m.v[i], q.parts[i])
  ELSE LET r == Deflate(m.k, m.v) IN
       /\ q.k = m.k /\ q.l = m.l /\ q.stride = Stride(m.l)
       /\ q.flat = r.flat /\ q.ends = r.ends /\ q.endss = r.endss /\ q.val = m.v
Agrees(o, p) ==
  IF o.k = "GC"
  THEN /\ p.k = "GC" /\ p.l = GCLayout(o) /\ p.stride = Stride(GCLayout(o)) /\ p.srid = o.srid
       /\ p.n = Len(o.v) /\ Len(p.parts) = Len(o.v)
       /\ \A i \in DOMAIN o.v : MemberAgrees(o.v[i], p.parts[i])
  ELSE LET r == RepOf(o) IN
       /\ p.k = o.k /\ p.l = o.l /\ p.stride = Stride(o.l) /\ p.srid = o.srid
       /\ p.flat = r.flat /\ p.ends = r.ends /\ p.endss = r.endss
       /\ WellFormedObj(p)
       /\ p.val = o.v
       /\ (IsMulti(o.k) => /\ p.n = NumParts(o.k, o.v) /\ Len(p.parts) = p.n
                           /\ \A i \in DOMAIN o.v : PartAgrees(o.k, o.l, o.v, i, p.parts[i]))

\* ---------------------------------------------------------------- design invariants on states
ObjInv(o) ==
  o.k # "GC" =>
    LET r == RepOf(o)  s == Stride(o.l) IN
    /\ WellFormedRep(o.k, s, r)                                   \* the representation is well formed
    /\ Inflate(o.k, r, s) = o.v                                    \* and lossless
    /\ StrideOK(o.k, o.v, s)
StateInv(st) == ObjInv(st.o[1]) /\ ObjInv(st.o[2])
====
