INIT Init
NEXT Next
INVARIANT RenderParses EmitInv
CONSTANTS
  Rich = TRUE
