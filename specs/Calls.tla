---- MODULE Calls ----
(* C17, design level: N client processes call library functions on SHARED cells (the storage of the
   geometries, coordinates and byte slices passed in, and the package-level variables).  A call is
   Start -> a sequence of single-cell reads (one per step, so that every interleaving of the reads of
   different calls is explored) -> Return(result), where the result is a function of the values read.
   Claim checked by TLC: if every library step leaves the shared cells unchanged, every call returns exactly
   what it returns when run alone (result = Alone(op)), whatever the interleaving.
   With AllowWrite = TRUE one operation sorts its argument in place, as a control: TLC must then find both
   the purity violation and a call that returns something else than its sequential result.
   Results that are OBJECTS (a Bounds, nested coordinates, a cloned or computed geometry) belong to the caller, who
   may overwrite them (Scribble): the operation "box" returns such an object; it must be made of fresh storage.
   With AllowAlias = TRUE (third control) the box is a view of the argument's first cell and the caller's write goes
   through to the shared cell: TLC must find the purity violation.
   Results are VALUES: the operation "enc" assembles its result in a scratch cell that belongs to the library (a pooled or
   reused buffer) and hands out a copy; what a caller holds stays what it was at the return (ResultsAreValues) whatever
   other calls do.  With AllowPool = TRUE (fourth control) it hands out the scratch cell itself: TLC must find a held result
   that a later call has overwritten. *)
EXTENDS Integers, Sequences, FiniteSets, TLC
CONSTANTS NProc, AllowWrite, AllowAlias, AllowPool, MaxCalls
Cells == 1..3
Init0 == [c \in Cells |-> 4 - c]                      \* initial contents 3, 2, 1 (unsorted, so that a sort is visible)
Ops == (IF AllowWrite THEN {"sum", "max", "sortsum"} ELSE {"sum", "max"}) \cup {"box", "enc"}
\* what an operation returns when it runs alone on the initial cells
Alone(op) == CASE op = "sum" -> Init0[1] + Init0[2] + Init0[3] [] op = "max" -> 3 [] op = "sortsum" -> Init0[1] + Init0[2] + Init0[3]
                 [] op = "box" -> 3 [] op = "enc" -> Init0[1] + Init0[2] + Init0[3]
\* scratch: the library's own cell; held[p]: what the result of p's last call refers to - "copy" (res[p] itself) or "scratch"
VARIABLES cell, pc, op, acc, k, res, calls, scratch, held
vars == <<cell, pc, op, acc, k, res, calls, scratch, held>>
Procs == 1..NProc
Init == /\ cell = Init0 /\ pc = [p \in Procs |-> "idle"] /\ op = [p \in Procs |-> "sum"]
        /\ acc = [p \in Procs |-> 0] /\ k = [p \in Procs |-> 1] /\ res = [p \in Procs |-> -1] /\ calls = [p \in Procs |-> 0]
        /\ scratch = 0 /\ held = [p \in Procs |-> "copy"]
Start(p) == /\ pc[p] \in {"idle", "done"} /\ calls[p] < MaxCalls /\ \E o \in Ops : op' = [op EXCEPT ![p] = o]
            /\ calls' = [calls EXCEPT ![p] = @ + 1]
            /\ pc' = [pc EXCEPT ![p] = "run"] /\ acc' = [acc EXCEPT ![p] = 0] /\ k' = [k EXCEPT ![p] = 1]
            /\ held' = [held EXCEPT ![p] = "copy"]                \* the caller lets go of the previous result
            /\ UNCHANGED <<cell, res, scratch>>
Read(p) ==  /\ pc[p] = "run" /\ k[p] <= 3
            /\ acc' = [acc EXCEPT ![p] = IF op[p] \in {"max", "box"} THEN (IF cell[k[p]] > @ THEN cell[k[p]] ELSE @) ELSE @ + cell[k[p]]]
            /\ k' = [k EXCEPT ![p] = @ + 1]
            \* the control operation bubbles its argument into order while it reads it
            /\ cell' = IF op[p] = "sortsum" /\ k[p] < 3 /\ cell[k[p]] > cell[k[p] + 1]
                       THEN [cell EXCEPT ![k[p]] = cell[k[p] + 1], ![k[p] + 1] = cell[k[p]]] ELSE cell
            /\ UNCHANGED <<pc, op, res, calls, scratch, held>>
Return(p) == /\ pc[p] = "run" /\ k[p] = 4
             /\ res' = [res EXCEPT ![p] = acc[p]] /\ pc' = [pc EXCEPT ![p] = "done"]
             \* "enc" assembles its result in the scratch cell; it hands out a copy - or, under the control, the cell itself
             /\ scratch' = IF op[p] = "enc" THEN acc[p] + calls[p] ELSE scratch
             /\ held' = [held EXCEPT ![p] = IF op[p] = "enc" /\ AllowPool THEN "scratch" ELSE "copy"]
             /\ UNCHANGED <<cell, op, acc, k, calls>>
\* the caller overwrites the object a finished "box" call handed out (once): fresh storage is nobody else's business;
\* under the control the object is a view of cell 1
Scribble(p) == /\ pc[p] = "done" /\ op[p] = "box"
               /\ pc' = [pc EXCEPT ![p] = "idle"]
               /\ cell' = IF AllowAlias THEN [cell EXCEPT ![1] = 0] ELSE cell
               /\ UNCHANGED <<op, acc, k, res, calls, scratch, held>>
Next == \E p \in Procs : Start(p) \/ Read(p) \/ Return(p) \/ Scribble(p)
Spec == Init /\ [][Next]_vars
\* purity: no library step changes a shared cell
Pure == [][cell' = cell]_vars
\* determinism: every returned result is the sequential one
SequentialResults == \A p \in Procs : pc[p] = "done" => res[p] = Alone(op[p])
\* what a caller sees when it looks at the result it holds (the n-th call of a process stamps n into the scratch cell, so
\* that two calls never leave the same content behind)
Seen(p) == IF held[p] = "scratch" THEN scratch ELSE res[p] + calls[p]
ResultsAreValues == \A p \in Procs : pc[p] = "done" /\ op[p] = "enc" => Seen(p) = res[p] + calls[p]
====
