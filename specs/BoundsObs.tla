---- MODULE BoundsObs ----
(* model B for C08: recorded Bounds values decided against Tight / Overlap. *)
EXTENDS Bounds, Json, IOUtils, TLC
Recs == ndJsonDeserialize(IOEnv.TRACEFILE)
OK == [ok |-> TRUE, sig |-> "", row |-> 0]
Bad(s, k) == [ok |-> FALSE, sig |-> s, row |-> k]
FirstOf(S) == CHOOSE k \in S : \A m \in S : k <= m
Same(o, w) == o.pan = "" /\ o.l = w.l /\ o.min = w.min /\ o.max = w.max /\ o.empty = IsEmptyBox(w)
Why(o, w) == CASE o.pan # "" -> "panic" [] o.l # w.l -> "layout|got=" \o o.l \o "|want=" \o w.l
               [] o.min # w.min \/ o.max # w.max -> "box" [] OTHER -> "IsEmpty"
Mix(gs) == LET ls == {gs[i].l : i \in DOMAIN gs} IN
           IF "XYZ" \in ls /\ "XYM" \in ls THEN "z+m" ELSE IF Cardinality(ls) > 1 THEN "mixed" ELSE "uniform"
VExtend(r) ==
  LET gs == r.case.gs
      bad == {k \in DOMAIN r.steps : ~Same(r.steps[k], Tight(r.case.l0, SubSeq(gs, 1, k)))} IN
  IF Len(r.steps) # Len(gs) THEN Bad("bounds|extend|short", 0)
  ELSE IF ~Same(r.init, Tight(r.case.l0, <<>>)) THEN Bad("bounds|NewBounds|" \o Why(r.init, Tight(r.case.l0, <<>>)), 0)
  ELSE IF bad # {} THEN LET k == FirstOf(bad) IN
       Bad("bounds|extend|" \o Why(r.steps[k], Tight(r.case.l0, SubSeq(gs, 1, k))) \o "|" \o Mix(SubSeq(gs, 1, k)), k)
  ELSE IF \E k \in DOMAIN r.own : ~Same(r.own[k], Tight(gs[k].l, <<gs[k]>>)) THEN Bad("bounds|geometry.Bounds()", 0)
  ELSE OK
IsNested(t) == \E i \in DOMAIN t.gc : "gc" \in DOMAIN t.gc[i]
VGc(r) ==
  LET lv == Leaves(r.case.t)  w == Tight("No", lv) IN
  IF Same(r.b, w) THEN OK
  ELSE Bad("bounds|GeometryCollection.Bounds|" \o Why(r.b, w) \o (IF IsNested(r.case.t) THEN "|nested" ELSE "|flat"), 0)
VOverlap(r) ==
  LET n == Len(Dims(r.case.l))  b1 == r.case.b1  b2 == r.case.b2
      badp == {k \in DOMAIN r.pts : r.pts[k].got # OverlapPt(n, b1.min, b1.max, r.pts[k].p)} IN
  IF r.pan # "" THEN Bad("bounds|overlap|panic", 0)
  ELSE IF r.ov # Overlap(n, b1.min, b1.max, b2.min, b2.max) THEN Bad("bounds|Overlaps", 0)
  ELSE IF r.vo # Overlap(n, b2.min, b2.max, b1.min, b1.max) THEN Bad("bounds|Overlaps(swapped)", 0)
  ELSE IF badp # {} THEN Bad("bounds|OverlapsPoint", FirstOf(badp))
  ELSE IF r.e1 # IsEmptyBox([l |-> r.case.l, min |-> b1.min, max |-> b1.max]) THEN Bad("bounds|IsEmpty", 0)
  ELSE OK
Verdict(r) ==
  IF r.ev # "ok" THEN Bad("bounds|" \o r.ev, 0)
  ELSE CASE r.case.fam = "extend" -> VExtend(r) [] r.case.fam = "gc" -> VGc(r) [] OTHER -> VOverlap(r)
VARIABLES i, bad
Init == i = 1 /\ bad = 0
Next == /\ i <= Len(Recs)
        /\ LET v == Verdict(Recs[i]) IN
           /\ IF v.ok THEN TRUE ELSE PrintT(<<"VIOL", ToJson([i |-> i, sig |-> v.sig, row |-> v.row])>>)
           /\ bad' = IF v.ok THEN bad ELSE bad + 1
        /\ i' = i + 1
Done == i = Len(Recs) + 1 => PrintT(<<"SUMMARY", ToJson([n |-> Len(Recs), bad |-> bad])>>)
====
