---- MODULE BoundsObs ----
(* model B for C08: recorded Bounds values decided against Tight / Overlap. *)
EXTENDS Bounds, Json, IOUtils, TLC
Recs == ndJsonDeserialize(IOEnv.TRACEFILE)
OK == [ok |-> TRUE, sig |-> "", row |-> 0]
Bad(s, k) == [ok |-> FALSE, sig |-> s, row |-> k]
FirstOf(S) == CHOOSE k \in S : \A m \in S : k <= m
Same(o, w) == o.pan = "" /\ o.l = w.l /\ o.min = w.min /\ o.max = w.max /\ o.empty = IsEmptyBox(w)
Why(o, w) == CASE o.pan # "" -> "panic" [] o.l # w.l -> "layout|got=" \o o.l \o "|want=" \o w.l
               [] o.min # w.min \/ o.max # w.max -> "box" [] OTHER -> "IsEmpty"
\* ---- what C08's statement fixes about a recorded box o that was fed, from NewBounds(l0), with the leaves gs:
\*  * no coordinate at all ("a geometry without coordinates has empty bounds"): IsEmpty() is true - layout, min and max of
\*    such a box are representation, not promised;
\*  * otherwise the layout has every dimension in which a coordinate exists and nothing beyond the join over l0 and ALL
\*    leaves (an Extend / GeometryCollection.Bounds may or may not let a member without coordinates promote the layout);
\*    in a dimension with coordinates min / max are exactly their minimum / maximum, addressed by NAME (Z with Z, M with M);
\*    a dimension of the box without any coordinate holds an empty interval (max < min, e.g. the untouched (+Inf, -Inf));
\*    IsEmpty() is false when every dimension of the box holds a coordinate and is left open in between.
\* Every quantity is a function of the BAG of leaves (DVals / CoordDims / HiDims): the order of extension cannot matter.
LayoutFits(o, l0, gs) == CoordDims(gs) \subseteq DimSet(o.l) /\ DimSet(o.l) \subseteq HiDims(l0, gs)
BoxFits(o, gs) ==
  LET od == Dims(o.l) IN
  /\ Len(o.min) = Len(od) /\ Len(o.max) = Len(od)
  /\ \A k \in DOMAIN od : LET v == DVals(gs, od[k]) IN
                            IF v # {} THEN o.min[k] = SetMin(v) /\ o.max[k] = SetMax(v) ELSE o.max[k] < o.min[k]
Fits(o, l0, gs) ==
  LET cd == CoordDims(gs) IN
  /\ o.pan = ""
  /\ IF cd = {} THEN o.empty
     ELSE /\ cd \subseteq DimSet(o.l) /\ DimSet(o.l) \subseteq HiDims(l0, gs) /\ BoxFits(o, gs)
          /\ (DimSet(o.l) \subseteq cd => ~o.empty)
WantL(l0, gs) == LET lo == LayoutOf(CoordDims(gs))  hi == LayoutOf(HiDims(l0, gs)) IN IF lo = hi THEN hi ELSE lo \o ".." \o hi
WhyFits(o, l0, gs) ==
  CASE o.pan # "" -> "panic" [] CoordDims(gs) = {} -> "IsEmpty"
    [] ~LayoutFits(o, l0, gs) -> "layout|got=" \o o.l \o "|want=" \o WantL(l0, gs)
    [] ~BoxFits(o, gs) -> "box" [] OTHER -> "IsEmpty"
Mix(gs) == LET ls == {gs[i].l : i \in DOMAIN gs} IN
           IF "XYZ" \in ls /\ "XYM" \in ls THEN "z+m" ELSE IF Cardinality(ls) > 1 THEN "mixed" ELSE "uniform"
\* Bounds.Polygon ("returns b as a two-dimensional Polygon") of a non-empty box: one closed XY ring whose vertices are
\* exactly the corners of the box (no vertex order is promised).  Empty boxes (also: an empty Z or M interval): no panic.
PolyOK(p, w) ==
  IF p.pan # "" THEN FALSE
  ELSE IF IsEmptyBox(w) THEN TRUE
  ELSE IF p.l # "XY" \/ Len(p.ends) # 1 \/ Len(p.fc) < 2 \/ Len(p.fc) % 2 # 0 THEN FALSE
  ELSE LET n == Len(p.fc) \div 2 IN
       /\ p.ends[1] = Len(p.fc)
       /\ {<<p.fc[2 * j - 1], p.fc[2 * j]>> : j \in 1..n} = Corners(w)
       /\ p.fc[1] = p.fc[2 * n - 1] /\ p.fc[2] = p.fc[2 * n]
\* GeoJSON "bbox" of a geometry with coordinates: IF one is emitted it is all minima then all maxima of the tight box over
\* a leading part of the dimensions of one of the layouts LayoutFits accepts (geojson drops M; whether Z / M are carried is
\* not C08's business).  An encoding error (for instance +Inf in an empty dimension) and geometries without coordinates
\* are accepted as they come.
BBoxOK(o, l0, gs) ==
  IF o.pan # "" THEN FALSE
  ELSE IF o.err # "" \/ ~o.has \/ CoordDims(gs) = {} THEN TRUE
  ELSE \E l \in {"XY", "XYZ", "XYM", "XYZM"} :
         /\ CoordDims(gs) \subseteq DimSet(l) /\ DimSet(l) \subseteq HiDims(l0, gs)
         /\ \E n \in 2..Len(Dims(l)) :
              o.bb = [k \in 1..(2 * n) |-> IF k <= n THEN SetMin(DVals(gs, Dims(l)[k])) ELSE SetMax(DVals(gs, Dims(l)[k - n]))]
VExtend(r) ==
  LET gs == r.case.gs  l0 == r.case.l0
      Upto(k) == LeavesAll(SubSeq(gs, 1, k))
      bad == {k \in DOMAIN r.steps : ~Fits(r.steps[k], l0, Upto(k))}
      badown == {k \in DOMAIN r.own : ~Fits(r.own[k], "No", Leaves(gs[k]))} IN
  IF Len(r.steps) # Len(gs) THEN Bad("bounds|extend|short", 0)
  ELSE IF ~Same(r.init, Tight(l0, <<>>)) THEN Bad("bounds|NewBounds|" \o Why(r.init, Tight(l0, <<>>)), 0)
  ELSE IF bad # {} THEN LET k == FirstOf(bad) IN
       Bad("bounds|extend|" \o WhyFits(r.steps[k], l0, Upto(k)) \o "|" \o Mix(Upto(k))
           \o (IF \E j \in 1..k : "gc" \in DOMAIN gs[j] THEN "|collection" ELSE ""), k)
  ELSE IF badown # {} THEN Bad("bounds|geometry.Bounds()|" \o r.tys[FirstOf(badown)], FirstOf(badown))
  ELSE IF ~PolyOK(r.poly, Tight(l0, Upto(Len(gs)))) THEN Bad("bounds|Polygon", 0)
  ELSE OK
IsNested(t) == \E i \in DOMAIN t.gc : "gc" \in DOMAIN t.gc[i]
VGc(r) ==
  LET lv == Leaves(r.case.t)  w == Tight("No", lv) IN
  IF ~Fits(r.b, "No", lv) THEN Bad("bounds|GeometryCollection.Bounds|" \o WhyFits(r.b, "No", lv) \o (IF IsNested(r.case.t) THEN "|nested" ELSE "|flat"), 0)
  ELSE IF ~PolyOK(r.poly, w) THEN Bad("bounds|Polygon", 0)
  ELSE IF ~BBoxOK(r.bbox, "No", lv) THEN Bad("bounds|geojson-bbox|GeometryCollection", 0)
  ELSE OK
VGeo(r) ==
  LET lv == Leaves(r.case.t)  w == Tight("No", lv) IN
  IF ~Fits(r.b, "No", lv) THEN Bad("bounds|geometry.Bounds()|" \o r.ty \o "|" \o WhyFits(r.b, "No", lv), 0)
  ELSE IF ~PolyOK(r.poly, w) THEN Bad("bounds|Polygon", 0)
  ELSE IF ~BBoxOK(r.bbox, "No", lv) THEN Bad("bounds|geojson-bbox|" \o r.ty, 0)
  ELSE IF ~BBoxOK(r.bbd, "No", lv) THEN Bad("bounds|geojson-bbox|max-decimal-digits|" \o r.ty, 0)
  ELSE OK
\* Set / SetCoords with a well-formed box (min <= max) REPLACE the box by exactly that box in the current layout (r.lset:
\* the layout the recorder read off the box right before the call - which layout that is after feeding leaves without
\* coordinates is left open, see Fits); the Extend calls that follow give the box of the two corners and everything fed
\* in afterwards
VSet(r) ==
  LET c == r.case  np == Len(c.pre)  lset == r.lset
      ix == [d \in {"x", "y", "z", "m"} |-> CASE d = "x" -> 1 [] d = "y" -> 2 [] d = "z" -> 3 [] OTHER -> 4]
      sg == [l |-> lset, cs |-> <<[k \in DOMAIN Dims(lset) |-> c.smin[ix[Dims(lset)[k]]]], [k \in DOMAIN Dims(lset) |-> c.smax[ix[Dims(lset)[k]]]]>>]
      L0(k) == IF k <= np THEN c.l0 ELSE lset
      Gs(k) == IF k <= np THEN LeavesAll(SubSeq(c.pre, 1, k)) ELSE <<sg>> \o LeavesAll(SubSeq(c.post, 1, k - np - 1))
      bad == {k \in DOMAIN r.steps : ~Fits(r.steps[k], L0(k), Gs(k))} IN
  IF Len(r.steps) # np + 1 + Len(c.post) THEN Bad("bounds|set|short", 0)
  ELSE IF bad # {} THEN LET k == FirstOf(bad) IN
       Bad("bounds|" \o (IF k <= np THEN "extend" ELSE IF k = np + 1 THEN c.op ELSE "extend-after-" \o c.op) \o "|" \o WhyFits(r.steps[k], L0(k), Gs(k)), k)
  ELSE IF ~PolyOK(r.poly, Tight(L0(Len(r.steps)), Gs(Len(r.steps)))) THEN Bad("bounds|Polygon", 0)
  ELSE OK
\* Overlaps(layout, b2) / OverlapsPoint(layout, p) "in layout": closed-interval arithmetic on the dimensions of the layout
\* argument.  Strict when both boxes AGREE with the argument (same named dimensions at the same positions).  When a box only
\* COVERS it (XYM asked of an XYZM box) the doc comment does not say whether dimensions go by position or by name: either
\* answer is accepted.  When a box lacks a dimension of the argument nothing is specified: any outcome (also a panic).
\* IsEmpty() of the first box: true when every dimension is (+Inf, -Inf), false when none is; a box whose X / Y extent is
\* real while Z or M was never fed (or the like) may answer either way.
VOverlap(r) ==
  LET c == r.case  n == Len(Dims(c.l))  b1 == c.b1  b2 == c.b2 IN
  IF (AllInverted(b1) /\ ~r.e1) \/ (NoneInverted(b1) /\ r.e1) THEN Bad("bounds|IsEmpty", 0)
  ELSE IF AgreesWith(c.l, b1.l) /\ AgreesWith(c.l, b2.l) THEN
    IF r.pan # "" THEN Bad("bounds|overlap|panic", 0)
    ELSE IF r.ov # Overlap(n, b1.min, b1.max, b2.min, b2.max) THEN Bad("bounds|Overlaps|" \o c.l \o (IF IsEmptyBox(b1) \/ IsEmptyBox(b2) THEN "|empty" ELSE ""), 0)
    ELSE IF r.vo # Overlap(n, b2.min, b2.max, b1.min, b1.max) THEN Bad("bounds|Overlaps(swapped)|" \o c.l, 0)
    ELSE OK
  ELSE IF CoversL(c.l, b1.l) /\ CoversL(c.l, b2.l) THEN
    LET pos == Overlap(n, b1.min, b1.max, b2.min, b2.max)
        nam == Overlap(n, ByName(c.l, b1.l, b1.min), ByName(c.l, b1.l, b1.max), ByName(c.l, b2.l, b2.min), ByName(c.l, b2.l, b2.max)) IN
    IF r.pan # "" THEN Bad("bounds|overlap|panic", 0)
    ELSE IF r.ov \notin {pos, nam} \/ r.vo \notin {pos, nam} THEN Bad("bounds|Overlaps|neither-by-position-nor-by-name|" \o c.l, 0)
    ELSE OK
  ELSE OK
VOvpt(r) ==
  LET c == r.case  n == Len(Dims(c.l))  b == c.b
      Pos(p) == OverlapPt(n, b.min, b.max, p)
      Nam(p) == OverlapPt(n, ByName(c.l, b.l, b.min), ByName(c.l, b.l, b.max), p) IN
  IF AgreesWith(c.l, b.l) THEN
    LET badp == {k \in DOMAIN r.pts : r.pts[k].got # Pos(r.pts[k].p)} IN
    IF r.pan # "" THEN Bad("bounds|OverlapsPoint|panic", 0)
    ELSE IF badp # {} THEN Bad("bounds|OverlapsPoint|" \o c.l \o (IF IsEmptyBox(b) THEN "|empty" ELSE ""), FirstOf(badp))
    ELSE OK
  ELSE IF CoversL(c.l, b.l) THEN
    LET badp == {k \in DOMAIN r.pts : r.pts[k].got \notin {Pos(r.pts[k].p), Nam(r.pts[k].p)}} IN
    IF r.pan # "" THEN Bad("bounds|OverlapsPoint|panic", 0)
    ELSE IF badp # {} THEN Bad("bounds|OverlapsPoint|neither-by-position-nor-by-name|" \o c.l, FirstOf(badp))
    ELSE OK
  ELSE OK
\* C16 for geom.Bounds and geom.Coord, stated on the recorded projections alone (what Extend ought to produce is C08's
\* business: no model of Extend here).  The clone equals the original at clone time, field by field; after one side was
\* mutated the OTHER side still shows exactly what it showed before, in either order; Set / SetCoords on a fresh clone
\* leave the original as it was.
EqProj(a, b) == a.pan = "" /\ b.pan = "" /\ a.l = b.l /\ a.min = b.min /\ a.max = b.max /\ a.empty = b.empty
VClone(r) ==
  LET c == r.case IN
  IF ~EqProj(r.clone0, r.orig0) THEN Bad("clone|Bounds|not-equal-at-clone-time", 0)
  ELSE IF ~(IF c.first = 1 THEN EqProj(r.clone1, r.clone0) ELSE EqProj(r.orig1, r.orig0)) THEN Bad("clone|Bounds|mutation-visible-through-the-other", 1)
  ELSE IF ~(IF c.first = 1 THEN EqProj(r.orig2, r.orig1) ELSE EqProj(r.clone2, r.clone1)) THEN Bad("clone|Bounds|mutation-visible-through-the-other", 2)
  ELSE IF ~EqProj(r.orig3, r.orig2) THEN Bad("clone|Bounds|Set-visible-through-the-other", 3)       \* Set / SetCoords on a fresh clone
  \* geom.Coord: equal bit for bit at clone time; a write to the clone (position 1 := 77) and one to the original
  \* (position 2 := 88) show only where they were made; appending to the clone leaves the original's length alone
  ELSE IF r.cc0 # r.co0 THEN Bad("clone|Coord|not-equal-at-clone-time", 4)
  ELSE IF ~(/\ Len(r.co1) = Len(r.co0) /\ Len(r.cc1) = Len(r.co0)
            /\ \A k \in DOMAIN r.co0 : /\ (k # 2 => r.co1[k] = r.co0[k]) /\ (k # 1 => r.cc1[k] = r.co0[k])
            /\ r.co1[2] = "4056000000000000" /\ r.cc1[1] = "4053400000000000"
            /\ r.colen = Len(r.co0) /\ r.cclen = Len(r.co0) + 1 /\ r.nilclonelen = 0)
       THEN Bad("clone|Coord|shares-storage", 4)
  ELSE OK
Verdict(r) ==
  IF r.ev # "ok" THEN Bad("bounds|" \o r.ev, 0)
  ELSE CASE r.case.fam = "extend" -> VExtend(r) [] r.case.fam = "gc" -> VGc(r) [] r.case.fam = "clone" -> VClone(r)
         [] r.case.fam = "geo" -> VGeo(r) [] r.case.fam = "set" -> VSet(r) [] r.case.fam = "ovpt" -> VOvpt(r) [] OTHER -> VOverlap(r)
VARIABLES i, bad
Init == i = 1 /\ bad = 0
Next == /\ i <= Len(Recs)
        /\ LET v == Verdict(Recs[i]) IN
           /\ IF v.ok THEN TRUE ELSE PrintT(<<"VIOL", ToJson([i |-> i, sig |-> v.sig, row |-> v.row])>>)
           /\ bad' = IF v.ok THEN bad ELSE bad + 1
        /\ i' = i + 1
Done == i = Len(Recs) + 1 => PrintT(<<"SUMMARY", ToJson([n |-> Len(Recs), bad |-> bad])>>)
====
