---- MODULE BoundsObs ----
(* model B for C08: recorded Bounds values decided against Tight / Overlap. *)
EXTENDS Bounds, Json, IOUtils, TLC
Recs == ndJsonDeserialize(IOEnv.TRACEFILE)
OK == [ok |-> TRUE, sig |-> "", row |-> 0]
Bad(s, k) == [ok |-> FALSE, sig |-> s, row |-> k]
FirstOf(S) == CHOOSE k \in S : \A m \in S : k <= m
Same(o, w) == o.pan = "" /\ o.l = w.l /\ o.min = w.min /\ o.max = w.max /\ o.empty = IsEmptyBox(w)
Why(o, w) == CASE o.pan # "" -> "panic" [] o.l # w.l -> "layout|got=" \o o.l \o "|want=" \o w.l
               [] o.min # w.min \/ o.max # w.max -> "box" [] OTHER -> "IsEmpty"
Mix(gs) == LET ls == {gs[i].l : i \in DOMAIN gs} IN
           IF "XYZ" \in ls /\ "XYM" \in ls THEN "z+m" ELSE IF Cardinality(ls) > 1 THEN "mixed" ELSE "uniform"
VExtend(r) ==
  LET gs == r.case.gs
      bad == {k \in DOMAIN r.steps : ~Same(r.steps[k], Tight(r.case.l0, SubSeq(gs, 1, k)))} IN
  IF Len(r.steps) # Len(gs) THEN Bad("bounds|extend|short", 0)
  ELSE IF ~Same(r.init, Tight(r.case.l0, <<>>)) THEN Bad("bounds|NewBounds|" \o Why(r.init, Tight(r.case.l0, <<>>)), 0)
  ELSE IF bad # {} THEN LET k == FirstOf(bad) IN
       Bad("bounds|extend|" \o Why(r.steps[k], Tight(r.case.l0, SubSeq(gs, 1, k))) \o "|" \o Mix(SubSeq(gs, 1, k)), k)
  ELSE IF \E k \in DOMAIN r.own : ~Same(r.own[k], Tight(gs[k].l, <<gs[k]>>)) THEN Bad("bounds|geometry.Bounds()", 0)
  ELSE OK
IsNested(t) == \E i \in DOMAIN t.gc : "gc" \in DOMAIN t.gc[i]
VGc(r) ==
  LET lv == Leaves(r.case.t)  w == Tight("No", lv) IN
  IF Same(r.b, w) THEN OK
  ELSE Bad("bounds|GeometryCollection.Bounds|" \o Why(r.b, w) \o (IF IsNested(r.case.t) THEN "|nested" ELSE "|flat"), 0)
VOverlap(r) ==
  LET n == Len(Dims(r.case.l))  b1 == r.case.b1  b2 == r.case.b2
      badp == {k \in DOMAIN r.pts : r.pts[k].got # OverlapPt(n, b1.min, b1.max, r.pts[k].p)} IN
  IF r.pan # "" THEN Bad("bounds|overlap|panic", 0)
  ELSE IF r.ov # Overlap(n, b1.min, b1.max, b2.min, b2.max) THEN Bad("bounds|Overlaps", 0)
  ELSE IF r.vo # Overlap(n, b2.min, b2.max, b1.min, b1.max) THEN Bad("bounds|Overlaps(swapped)", 0)
  ELSE IF badp # {} THEN Bad("bounds|OverlapsPoint", FirstOf(badp))
  ELSE IF r.e1 # IsEmptyBox([l |-> r.case.l, min |-> b1.min, max |-> b1.max]) THEN Bad("bounds|IsEmpty", 0)
  ELSE OK
\* C16 for geom.Bounds and geom.Coord: the clone equals the original at clone time (and is the tight box of what was
\* extended so far); extending / setting one of the two never shows through the other, in either order
VClone(r) ==
  LET c == r.case  w0 == Tight(c.l0, c.gs)
      a1 == IF c.first = 1 THEN Tight(c.l0, Append(c.gs, c.m1)) ELSE w0      \* original after the first mutation
      b1 == IF c.first = 2 THEN Tight(c.l0, Append(c.gs, c.m1)) ELSE w0      \* clone after the first mutation
      a2 == IF c.first = 1 THEN a1 ELSE Tight(c.l0, Append(c.gs, c.m2))      \* then the other side is mutated with m2
      b2 == IF c.first = 2 THEN b1 ELSE Tight(c.l0, Append(c.gs, c.m2)) IN
  IF ~(Same(r.orig0, w0) /\ Same(r.clone0, w0)) THEN Bad("clone|Bounds|not-equal-at-clone-time", 0)
  ELSE IF ~(Same(r.orig1, a1) /\ Same(r.clone1, b1)) THEN Bad("clone|Bounds|mutation-visible-through-the-other", 1)
  ELSE IF ~(Same(r.orig2, a2) /\ Same(r.clone2, b2)) THEN Bad("clone|Bounds|mutation-visible-through-the-other", 2)
  ELSE IF ~r.setok THEN Bad("clone|Bounds|Set-visible-through-the-other", 3)
  ELSE IF ~r.coordok THEN Bad("clone|Coord|shares-storage", 4)
  ELSE OK
Verdict(r) ==
  IF r.ev # "ok" THEN Bad("bounds|" \o r.ev, 0)
  ELSE CASE r.case.fam = "extend" -> VExtend(r) [] r.case.fam = "gc" -> VGc(r) [] r.case.fam = "clone" -> VClone(r) [] OTHER -> VOverlap(r)
VARIABLES i, bad
Init == i = 1 /\ bad = 0
Next == /\ i <= Len(Recs)
        /\ LET v == Verdict(Recs[i]) IN
           /\ IF v.ok THEN TRUE ELSE PrintT(<<"VIOL", ToJson([i |-> i, sig |-> v.sig, row |-> v.row])>>)
           /\ bad' = IF v.ok THEN bad ELSE bad + 1
        /\ i' = i + 1
Done == i = Len(Recs) + 1 => PrintT(<<"SUMMARY", ToJson([n |-> Len(Recs), bad |-> bad])>>)
====
