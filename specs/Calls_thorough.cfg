SPECIFICATION Spec
INVARIANT SequentialResults
PROPERTY Pure
CONSTANTS
  NProc = 3
  AllowWrite = FALSE
  MaxCalls = 2
