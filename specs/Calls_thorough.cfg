SPECIFICATION Spec
INVARIANT SequentialResults ResultsAreValues
PROPERTY Pure
CONSTANTS
  NProc = 3
  AllowWrite = FALSE
  AllowAlias = FALSE
  AllowPool = FALSE
  MaxCalls = 2
