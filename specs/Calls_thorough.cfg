SPECIFICATION Spec
INVARIANT SequentialResults
PROPERTY Pure
CONSTANTS
  NProc = 3
  AllowWrite = FALSE
  AllowAlias = FALSE
  MaxCalls = 2
