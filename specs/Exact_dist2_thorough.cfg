INIT Init
NEXT Next
INVARIANT Laws Emit
CONSTANTS
  Family = "dist2"
  N = 4
  K = 0
