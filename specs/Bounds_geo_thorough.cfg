INIT Init
NEXT Next
INVARIANT Laws Emit
CONSTANTS
  Family = "geo"
  MaxLen = 0
  Rich = TRUE
