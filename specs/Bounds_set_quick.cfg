INIT Init
NEXT Next
INVARIANT Laws Emit
CONSTANTS
  Family = "set"
  MaxLen = 2
  Rich = FALSE
