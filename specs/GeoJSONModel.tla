---- MODULE GeoJSONModel ----
(* model A for C07.  Families:
   "geom"  geometry trees with 2, 3, 4, 5 ordinates per position (and XYM), empty members, nested collections;
   "feat"  features (id kinds, bbox of 4 / 6 / none, property maps, null geometry) and feature collections;
   "dec"   a bounded universe of JSON documents for the geometry decoder (wrong kinds at every level, ragged
           arrays, nulls, unknown and missing members);
   "fdec"  documents for the Feature / FeatureCollection decoders;
   "enc"   the documents the specification's encoder makes of every geometry, feature and feature collection of the
           model, as decoder input (standard documents with rich content: every decoding entry point must return
           their value; they are also the stock the seeded byte-level mutations start from).
   Design invariants: the decoder specification is total on the universe; decoding the encoder's output is the
   identity on the domain the property states (RoundTrips), features likewise. *)
EXTENDS GeoJSON, Json, FiniteSets
CONSTANTS Family, Rich
G(t, l, body) == [t |-> t, l |-> l, body |-> body]
Layouts == {"XY", "XYZ", "XYZM", "L5", "XYM"}
C(l) == [i \in 1..Stride(l) |-> i]
D(l) == [i \in 1..Stride(l) |-> 10 + i]
Leaf(l) == { G("PT", l, C(l)), G("LS", l, <<C(l), D(l)>>), G("PG", l, <<<<C(l), D(l), C(l)>>, <<>>>>),
             G("MPT", l, <<C(l), D(l)>>), G("MLS", l, <<<<C(l), D(l)>>, <<>>>>),
             G("MPG", l, <<<<<<C(l), D(l), C(l)>>>>, <<>>, <<<<>>, <<D(l)>>>>>>),
             G("PG", l, <<<<>>, <<C(l)>>>>), G("MLS", l, <<<<>>>>), G("MPG", l, <<<<>>, <<<<C(l)>>>>>>),
             G("MPT", l, <<C(l), NIL>>), G("MPT", l, <<NIL, C(l)>>), G("MPT", l, <<NIL>>),
             G("PT", l, <<>>), G("LS", l, <<>>), G("PG", l, <<>>), G("MPT", l, <<>>), G("MLS", l, <<>>), G("MPG", l, <<>>) }
Colls == { G("GC", "No", <<x, G("GC", "No", <<y>>)>>) : x \in Leaf("XYZ"), y \in Leaf("XY") } \cup {G("GC", "No", <<>>)}
         \cup { G("GC", "No", <<G("GC", "No", <<>>), x>>) : x \in Leaf("L5") }
Geoms == UNION {Leaf(l) : l \in Layouts} \cup Colls

\* JSON universe for "coordinates"
Atoms == {Null, Num(1), Str("x"), Obj(<<>>), <<"b", TRUE>>}
P0 == {Arr(<<>>), Arr(<<Num(1)>>), Arr(<<Num(1), Num(2)>>), Arr(<<Num(1), Num(2), Num(3)>>), Arr(<<Num(1), Null>>),
       Arr(<<Num(1), Str("x")>>), Arr(<<Num(1), Num(2), Num(3), Num(4), Num(5)>>), Arr(<<Num(1), Num(2), Num(3), Num(4)>>)}
      \cup (IF Rich THEN {Arr(<<Num(1), Num(2), Num(3), Num(4), Num(5), Num(6)>>), Arr(<<Null, Null>>)} ELSE {})
U1 == Atoms \cup P0
U2 == U1 \cup {Arr(<<a>>) : a \in U1} \cup {Arr(<<a, b>>) : a \in P0 \cup {Null}, b \in P0 \cup {Null}}
U3 == U2 \cup {Arr(<<a>>) : a \in U2}
U4 == U3 \cup {Arr(<<a>>) : a \in U3}
Types == {"Point", "LineString", "Polygon", "MultiPoint", "MultiLineString", "MultiPolygon", "Bogus"}
Doc(ty, co) == Obj(<< <<"coordinates", co>>, <<"type", Str(ty)>> >>)
PtDoc == Doc("Point", Arr(<<Num(1), Num(2)>>))
GeomDocs ==
  {Doc(ty, co) : ty \in Types, co \in U4} \cup {Obj(<< <<"type", Str(ty)>> >>) : ty \in Types \cup {"GeometryCollection"}}
  \cup {Null, Num(3), Str("Point"), Arr(<<>>), Arr(<<PtDoc>>), Obj(<<>>), Obj(<< <<"type", Num(5)>> >>), Obj(<< <<"type", Null>> >>),
        Obj(<< <<"coordinates", Arr(<<Num(1), Num(2)>>)>> >>),
        Obj(<< <<"coordinates", Arr(<<Num(1), Num(2)>>)>>, <<"extra", Num(1)>>, <<"type", Str("Point")>> >>),
        Obj(<< <<"coordinates", Arr(<<Num(1), Num(2)>>)>>, <<"geometries", Num(7)>>, <<"type", Str("Point")>> >>)}
  \cup {Obj(<< <<"geometries", y>>, <<"type", Str("GeometryCollection")>> >>) :
          y \in {Null, Arr(<<>>), Arr(<<PtDoc>>), Arr(<<PtDoc, Null>>), Arr(<<Num(5)>>), Num(7), Str("x"), Obj(<<>>),
                 Arr(<<Obj(<< <<"geometries", Arr(<<PtDoc, Doc("LineString", Arr(<<>>))>>)>>, <<"type", Str("GeometryCollection")>> >>)>>),
                 Arr(<<Obj(<< <<"type", Str("Bogus")>> >>)>>), Arr(<<Doc("Point", Arr(<<Num(1)>>))>>), Arr(<<Arr(<<>>)>>),
                 Arr(<<Doc("MultiPoint", Arr(<<Arr(<<Num(1), Num(2), Num(3)>>), Null>>)), PtDoc>>)}}

\* features
Props == {Null, Obj(<<>>), Obj(<< <<"a", Num(1)>>, <<"b", Str("x")>>, <<"c", Null>>, <<"d", Arr(<<Num(1), Obj(<< <<"e", <<"b", TRUE>>>> >>)>>)>> >>)}
FGeoms == {NOGEOM, G("PT", "XY", C("XY")), G("PG", "XYZ", <<<<C("XYZ"), D("XYZ"), C("XYZ")>>>>), G("GC", "No", <<G("LS", "XY", <<C("XY"), D("XY")>>)>>)}
\* incl. boxes whose west edge is east of the east edge (RFC 7946 5.2: a box crossing the antimeridian)
BBoxes == {<<>>, <<1, 2, 3, 4>>, <<1, 2, 3, 4, 5, 6>>, <<3, 2, 1, 4>>, <<5, 2, 3, 4, 1, 6>>}
Feats == {[id |-> i, bbox |-> b, geom |-> g, props |-> p] : i \in {"", "abc", "12"}, b \in BBoxes, g \in FGeoms, p \in Props}
SmallFeats == {[id |-> i, bbox |-> b, geom |-> g, props |-> Null] : i \in {"", "7"}, b \in {<<>>, <<1, 2, 3, 4>>}, g \in {NOGEOM, G("PT", "XY", C("XY"))}}
FCs == {[bbox |-> b, features |-> fs] : b \in BBoxes, fs \in UNION {[1..k -> SmallFeats] : k \in 0..2}}
\* collections with richer members: property maps, bounding boxes of 6 numbers, every geometry type, a null geometry
RGeoms == {NOGEOM, G("PT", "XYZ", C("XYZ")), G("LS", "XY", <<C("XY"), D("XY")>>), G("PG", "XYZ", <<<<C("XYZ"), D("XYZ"), C("XYZ")>>>>),
           G("MPT", "XYZM", <<C("XYZM"), D("XYZM")>>), G("MLS", "XY", <<<<C("XY"), D("XY")>>, <<>>>>),
           G("MPG", "XYZ", <<<<<<C("XYZ"), D("XYZ"), C("XYZ")>>>>, <<>>>>),
           G("GC", "No", <<G("PT", "XY", C("XY")), G("GC", "No", <<G("LS", "L5", <<C("L5"), D("L5")>>)>>)>>)}
RProps == {Obj(<<>>), Obj(<< <<"a", Num(1)>>, <<"b", Str("x")>>, <<"c", Null>>, <<"d", Arr(<<Num(1), Obj(<< <<"e", <<"b", TRUE>>>> >>)>>)>> >>)}
MidFeats == {[id |-> i, bbox |-> b, geom |-> g, props |-> p] : i \in {"", "abc"}, b \in {<<>>, <<1, 2, 3, 4, 5, 6>>}, g \in RGeoms, p \in RProps}
Mates == IF Rich THEN SmallFeats ELSE {[id |-> "7", bbox |-> <<>>, geom |-> NOGEOM, props |-> Null],
                                       [id |-> "", bbox |-> <<1, 2, 3, 4>>, geom |-> G("PT", "XY", C("XY")), props |-> Null]}
FCs2 == {[bbox |-> b, features |-> fs] : b \in {<<>>, <<1, 2, 3, 4, 5, 6>>},
           fs \in {<<m>> : m \in MidFeats} \cup {<<m, s>> : m \in MidFeats, s \in Mates} \cup {<<s, m>> : m \in MidFeats, s \in Mates}
                  \cup (IF Rich THEN {<<m, n>> : m \in MidFeats, n \in MidFeats} ELSE {})}
\* feature documents
FObj(id, bb, ge, pr, ty) == Obj( (IF bb = <<"absent">> THEN <<>> ELSE << <<"bbox", bb>> >>) \o (IF ge = <<"absent">> THEN <<>> ELSE << <<"geometry", ge>> >>)
                                 \o (IF id = <<"absent">> THEN <<>> ELSE << <<"id", id>> >>) \o (IF pr = <<"absent">> THEN <<>> ELSE << <<"properties", pr>> >>)
                                 \o (IF ty = <<"absent">> THEN <<>> ELSE << <<"type", ty>> >>) )
Abs == <<"absent">>
Ids == {Abs, Null, Str("abc"), Num(12), <<"b", TRUE>>, Arr(<<>>), Obj(<<>>)}
BBs == {Abs, Null, Arr(<<>>), Arr(<<Num(1), Num(2), Num(3), Num(4)>>), Arr(<<Num(1), Num(2), Num(3), Num(4), Num(5), Num(6)>>),
        Arr(<<Num(1), Num(2), Num(3)>>), Arr(<<Num(1), Null, Num(3), Num(4)>>), Arr(<<Num(3), Num(2), Num(1), Num(4)>>), Arr(<<Num(1), Str("x"), Num(3), Num(4)>>), Num(4), Str("x")}
Ges == {Abs, Null, PtDoc, Num(1), Arr(<<>>), Obj(<<>>), Doc("Point", Arr(<<Num(1)>>)), Obj(<< <<"type", Num(5)>> >>),
        Obj(<< <<"geometries", Arr(<<PtDoc>>)>>, <<"type", Str("GeometryCollection")>> >>)}
Prs == {Abs, Null, Obj(<<>>), Obj(<< <<"k", Arr(<<Num(1), Null>>)>> >>), Arr(<<>>), Num(1), Str("x")}
Tys == {Abs, Null, Str("Feature"), Str("feature"), Str("FeatureCollection"), Num(1)}
FeatDocs == {FObj(id, bb, ge, pr, ty) : id \in Ids, bb \in BBs, ge \in Ges, pr \in Prs, ty \in {Str("Feature")}}
            \cup {FObj(Str("abc"), Abs, PtDoc, Null, ty) : ty \in Tys} \cup {Null, Num(1), Arr(<<>>), Str("x")}
F1 == FObj(Str("a"), Abs, PtDoc, Null, Str("Feature"))
FCDocs == {Obj(<< <<"features", fs>>, <<"type", ty>> >>) :
             fs \in {Null, Arr(<<>>), Arr(<<F1>>), Arr(<<F1, Null>>), Arr(<<Num(1)>>), Arr(<<Obj(<<>>)>>), Num(1), Obj(<<>>),
                     Arr(<<FObj(Num(3), Arr(<<Num(1), Num(2), Num(3), Num(4)>>), Null, Obj(<<>>), Str("Feature")), F1>>)},
             ty \in {Str("FeatureCollection"), Str("Feature"), Null, Num(1)}}
          \cup {Obj(<< <<"bbox", bb>>, <<"features", Arr(<<F1>>)>>, <<"type", Str("FeatureCollection")>> >>) : bb \in BBs \ {Abs}}
          \cup {Obj(<< <<"type", Str("FeatureCollection")>> >>), Null, Num(1), Arr(<<>>)}

VARIABLE c
Init == CASE Family = "geom" -> \E g \in Geoms : c = [fam |-> "geom", g |-> g]
          [] Family = "feat" -> (\E f \in Feats : c = [fam |-> "feat", f |-> f]) \/ (\E fc \in FCs \cup FCs2 : c = [fam |-> "fc", fc |-> fc])
          [] Family = "enc" -> (\E g \in Geoms : c = [fam |-> "dec", kind |-> "geom", doc |-> EncGeom(g)])
                               \/ (\E f \in Feats \cup MidFeats : c = [fam |-> "dec", kind |-> "feature", doc |-> EncFeature(f)])
                               \/ (\E fc \in FCs \cup FCs2 : c = [fam |-> "dec", kind |-> "fc", doc |-> EncFC(fc)])
          [] Family = "dec" -> \E d \in GeomDocs : c = [fam |-> "dec", kind |-> "geom", doc |-> d]
          [] Family = "fdec" -> (\E d \in FeatDocs : c = [fam |-> "dec", kind |-> "feature", doc |-> d])
                                \/ (\E d \in FCDocs : c = [fam |-> "dec", kind |-> "fc", doc |-> d])
Next == FALSE /\ UNCHANGED c
\* the two halves of the specification agree on the property's domain
Laws ==
  /\ (c.fam = "geom" => LET d == DecGeom(EncGeom(c.g)) IN RoundTrips(c.g) => d.ok /\ d.v = Canon(c.g))
  /\ (c.fam = "feat" => LET d == DecFeature(EncFeature(c.f)) IN
                         d.ok /\ d.v = [c.f EXCEPT !.geom = IF @ = NOGEOM THEN NOGEOM ELSE Canon(@)])
  /\ (c.fam = "fc" => LET d == DecFC(EncFC(c.fc)) IN
                       d.ok /\ d.v.bbox = c.fc.bbox
                       /\ d.v.features = [i \in DOMAIN c.fc.features |-> [c.fc.features[i] EXCEPT !.geom = IF @ = NOGEOM THEN NOGEOM ELSE Canon(@)]])
  /\ (c.fam = "dec" /\ c.kind = "geom" => DecGeom(c.doc).ok \in BOOLEAN)
Emit == PrintT(<<"CASE", ToJson(c)>>)
====
