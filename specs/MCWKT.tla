---- MODULE MCWKT ----
EXTENDS WKTModel
Z(k) == [i \in 1..k |-> 0]
U(k, j) == [i \in 1..k |-> IF i = j THEN 1 ELSE 0]
KwAll == {KW(t, v) : t \in Types, v \in Variants}
PunctAll == {Tok("("), Tok(")"), Tok(","), Tok("EMPTY"), Tok("LEXERR"), Tok("EOF")}
PunctNoErr == PunctAll \ {Tok("LEXERR")}
\* full alphabet: two value classes per arity (all-zero, differs in X), plus the illegal arities 1 and 5
PtsFull == {P(1, Z(1)), P(5, Z(5))} \cup {P(k, Z(k)) : k \in 2..4} \cup {P(k, U(k, 1)) : k \in 2..4}
\* rings family: POLYGON in 3 variants, points that differ in exactly one ordinate (closure on X, Y, Z - not M)
KwRings == {KW("PG", "B"), KW("PG", "M"), KW("PG", "ZM")}
PtsRings == {P(2, Z(2)), P(2, U(2, 2)), P(3, Z(3)), P(3, U(3, 3)), P(4, Z(4)), P(4, U(4, 3)), P(4, U(4, 4))}
\* collections family
KwColl == {KW("GC", v) : v \in Variants} \cup {KW("PT", "B"), KW("PT", "M"), KW("PT", "Z")}
PtsColl == {P(2, Z(2)), P(3, Z(3))}
\* multi-geometry members
KwMulti == {KW(t, v) : t \in {"MPT", "MLS", "MPG"}, v \in {"B", "M"}}
PtsMulti == {P(2, Z(2)), P(3, Z(3))}
\* linestrings
KwLines == {KW("LS", "B"), KW("LS", "Z"), KW("MLS", "B")}
PtsLines == {P(2, Z(2)), P(3, Z(3)), P(3, U(3, 1))}
\* deep nesting
KwNest == {KW("GC", "B"), KW("GC", "M"), KW("GC", "Z"), KW("PT", "B"), KW("LS", "M")}
PtsNest == {P(2, Z(2)), P(3, Z(3))}
====
