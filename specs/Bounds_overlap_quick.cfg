INIT Init
NEXT Next
INVARIANT Laws Emit
CONSTANTS
  Family = "overlap"
  MaxLen = 0
  Rich = FALSE
