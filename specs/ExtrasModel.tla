---- MODULE ExtrasModel ----
EXTENDS Extras, Json
Vals == 0..4
Grid == {<<x, y>> : x \in 0..2, y \in 0..2}
\* coordinates <<x, y, m>> with m non-decreasing
MSeqs == {s \in UNION {[1..k -> Vals] : k \in 1..4} : \A j \in 1..(Len(s) - 1) : s[j] <= s[j + 1]}
VARIABLE c
Init == \/ \E ms \in MSeqs, v \in 0..9 : c = [op |-> "interpolate", cs |-> [j \in DOMAIN ms |-> <<j, 2 * j, 2 * ms[j]>>], dim |-> 3, val |-> v]
        \/ \E n \in 1..4, a \in 0..4, b \in 0..4 : a <= b /\ b <= n /\ c = [op |-> "sub", cs |-> [j \in 1..n |-> <<j, 10 + j>>], start |-> a, stop |-> b]
        \/ \E a \in Grid, o \in Grid, b \in Grid : c = [op |-> "angle", a |-> a, o |-> o, b |-> b]
        \/ \E a \in Grid, b \in Grid, cc \in Grid, d \in Grid : a # b /\ cc # d /\ c = [op |-> "lineint", a |-> a, b |-> b, c |-> cc, d |-> d]
        \/ \E n \in 0..3, st \in 2..4 : c = [op |-> "transform", cs |-> [j \in 1..n |-> [k \in 1..st |-> 100 * j + k]]]
        \/ \E n \in 0..7 : c = [op |-> "layout", val |-> n]
        \/ \E st \in 2..4 : \E f \in [1..st -> {0, 1, 2}] : c = [op |-> "maybeempty", cs |-> <<f>>]
Next == FALSE /\ UNCHANGED c
LayoutLaws == \A n \in 0..9 : LayoutLaw(n)
Emit == PrintT(<<"CASE", ToJson(c)>>)
====
