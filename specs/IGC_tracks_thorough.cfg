INIT Init
NEXT Next
INVARIANT Inv FormatRoundTrips
ACTION_CONSTRAINT Emit
CONSTANTS
  Family = "tracks"
  MaxLen = 3
  Rich = TRUE
