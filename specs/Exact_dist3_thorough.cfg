INIT Init
NEXT Next
INVARIANT Laws Emit
CONSTANTS
  Family = "dist3"
  N = 3
  K = 0
