---- MODULE DigitsObs ----
(* model B for the structural half of C18: with a digit limit (and, for GeoJSON, a bounding box requested,
   the two options in either order) the output keeps type, structure and number of ordinates.
   MODE = "wkt": the tokens of the encoder's text with every number replaced by a placeholder equal the
   canonical rendering of the tree; MODE = "geojson": the JSON tree equals the RFC 7946 object of the
   geometry with the bbox member of the right arity and values in front. *)
EXTENDS WKTRender, Json, IOUtils
GJ == INSTANCE GeoJSON
Recs == ndJsonDeserialize(IOEnv.TRACEFILE)
MODE == IOEnv.MODE
Shape(toks) == [i \in DOMAIN toks |-> IF toks[i][1] = "P" THEN <<"P", toks[i][2]>> ELSE toks[i]]
\* ---- GeoJSON bounding box of a non-empty, non-collection geometry: min then max, over x, y (and z when the layout has it)
RECURSIVE FlatC(_, _)
FlatC(t, body) ==      \* all coords of a body
  CASE t = "PT" -> <<body>>
    [] t \in {"LS", "MPT"} -> SelectSeq(body, LAMBDA c : c # GJ!NIL)
    [] t \in {"PG", "MLS"} -> IF body = <<>> THEN <<>> ELSE body[1] \o FlatC(t, Tail(body))
    [] t = "MPG" -> IF body = <<>> THEN <<>> ELSE FlatC("PG", body[1]) \o FlatC(t, Tail(body))
MinOf(cs, k) == CHOOSE v \in {cs[i][k] : i \in DOMAIN cs} : \A i \in DOMAIN cs : v <= cs[i][k]
MaxOf(cs, k) == CHOOSE v \in {cs[i][k] : i \in DOMAIN cs} : \A i \in DOMAIN cs : v >= cs[i][k]
BBoxOf(g) == LET cs == FlatC(g.t, g.body)  n == IF g.l \in {"XYZ", "XYZM"} THEN 3 ELSE 2 IN
             [k \in 1..(2 * n) |-> IF k <= n THEN MinOf(cs, k) ELSE MaxOf(cs, k - n)]
WithBBox(g) == LET o == GJ!EncGeom(g) IN
               GJ!Obj(<< <<"bbox", GJ!Arr([k \in DOMAIN BBoxOf(g) |-> GJ!Num(BBoxOf(g)[k])])>> >> \o o[2])
Clause(r) ==
  IF r.ev # "ok" THEN r.ev
  ELSE IF MODE = "wkt" THEN
    (IF \E k \in DOMAIN r.outs : ~r.outs[k].ok THEN "wkt|encode-error"
     ELSE IF \E k \in DOMAIN r.outs : Shape(r.outs[k].toks) \notin {Shape(Render(r.case.g)), Shape(RenderG(r.case.g, TRUE))} THEN "wkt|structure-changed"
     ELSE "ok")
  ELSE
    (IF \E k \in DOMAIN r.outs : r.outs[k].err # "" THEN "geojson|encode-error"
     ELSE IF \E k \in DOMAIN r.outs : ~r.outs[k].bbox /\ r.outs[k].json # GJ!EncGeom(r.case.g) THEN "geojson|structure-changed"
     ELSE IF \E k \in DOMAIN r.outs : r.outs[k].bbox /\ r.outs[k].json # WithBBox(r.case.g) THEN "geojson|bbox"
     ELSE "ok")
VARIABLES i, bad
Init == i = 1 /\ bad = 0
Next == /\ i <= Len(Recs)
        /\ LET c == Clause(Recs[i]) IN
           /\ IF c = "ok" THEN TRUE ELSE PrintT(<<"VIOL", ToJson([i |-> i, sig |-> "digits|" \o c])>>)
           /\ bad' = IF c = "ok" THEN bad ELSE bad + 1
        /\ i' = i + 1
Done == i = Len(Recs) + 1 => PrintT(<<"SUMMARY", ToJson([n |-> Len(Recs), bad |-> bad])>>)
====
