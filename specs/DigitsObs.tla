---- MODULE DigitsObs ----
(* model B for the structural half of C18: with a digit limit (and, for GeoJSON, a bounding box requested,
   the two options in either order) the output keeps type, structure and number of ordinates.
   MODE = "wkt": the tokens of the encoder's text with every number replaced by a placeholder equal the
   canonical rendering of the tree; MODE = "geojson": the JSON tree equals the RFC 7946 object of the
   geometry with a bbox member in front whose arity is the one the encoder uses without a digit limit and whose values are right (collections, geometries without
   coordinates and multipoints with an empty member included: GeoJSONOut). *)
EXTENDS WKTRender, Json, IOUtils
GJ == INSTANCE GeoJSON
Recs == ndJsonDeserialize(IOEnv.TRACEFILE)
MODE == IOEnv.MODE
Shape(toks) == [i \in DOMAIN toks |-> IF toks[i][1] = "P" THEN <<"P", toks[i][2]>> ELSE toks[i]]
\* ---- GeoJSON bounding box of a non-empty, non-collection geometry: min then max, over x, y (and z when the layout has it)
RECURSIVE FlatC(_, _)
FlatC(t, body) ==      \* all coords of a body
  CASE t = "PT" -> <<body>>
    [] t \in {"LS", "MPT"} -> SelectSeq(body, LAMBDA c : c # GJ!NIL)
    [] t \in {"PG", "MLS"} -> IF body = <<>> THEN <<>> ELSE body[1] \o FlatC(t, Tail(body))
    [] t = "MPG" -> IF body = <<>> THEN <<>> ELSE FlatC("PG", body[1]) \o FlatC(t, Tail(body))
MinOf(cs, k) == CHOOSE v \in {cs[i][k] : i \in DOMAIN cs} : \A i \in DOMAIN cs : v <= cs[i][k]
MaxOf(cs, k) == CHOOSE v \in {cs[i][k] : i \in DOMAIN cs} : \A i \in DOMAIN cs : v >= cs[i][k]
\* over the first n dimensions of the layout
BBoxOf(g, n) == LET cs == FlatC(g.t, g.body) IN [k \in 1..(2 * n) |-> IF k <= n THEN MinOf(cs, k) ELSE MaxOf(cs, k - n)]
\* "unchanged ... including a GeoJSON bounding box": how many dimensions a box has is not stated; it must be what the same
\* encoder writes WITHOUT a digit limit (ref).  When that reference is not usable, any n with 2 <= n <= ordinates per position.
Dims(g, ref) ==
  LET any == 2..GJ!Stride(g.l) IN
  IF ref.err # "" THEN any
  ELSE IF ref.json[1] # "o" THEN any
  ELSE IF ~GJ!Has(ref.json, "bbox") THEN any
  ELSE LET b == GJ!Get(ref.json, "bbox") IN
       IF b[1] # "a" THEN any
       ELSE IF \E n \in any : Len(b[2]) = 2 * n THEN {Len(b[2]) \div 2} ELSE any
\* ---- gap-free structure rules
\* a MultiPoint member without coordinates: the plain encoder writes null, the digit-limited one an empty array - either way a
\* member with no ordinates (the property fixes the structure, not this spelling)
RECURSIVE EncAlt(_)
EncAlt(g) ==
  IF g.t = "GC" THEN GJ!Obj(<< <<"geometries", GJ!Arr([k \in DOMAIN g.body |-> EncAlt(g.body[k])])>>, <<"type", GJ!Str("GeometryCollection")>> >>)
  ELSE IF g.t = "MPT" THEN GJ!Obj(<< <<"coordinates", GJ!Arr([k \in DOMAIN g.body |-> IF g.body[k] = GJ!NIL THEN GJ!Arr(<<>>) ELSE GJ!ECoord(g.body[k])])>>,
                                     <<"type", GJ!Str("MultiPoint")>> >>)
  ELSE GJ!EncGeom(g)
Encs(g) == {GJ!EncGeom(g), EncAlt(g)}
BBoxMember(g, n) == <<"bbox", GJ!Arr([k \in DOMAIN BBoxOf(g, n) |-> GJ!Num(BBoxOf(g, n)[k])])>>
WithBBoxes(g, dims) == UNION {{GJ!Obj(<<BBoxMember(g, n)>> \o o[2]) : o \in Encs(g)} : n \in dims}
RECURSIVE HasCoordsGJ(_)
HasCoordsGJ(g) == IF g.t = "GC" THEN \E k \in DOMAIN g.body : HasCoordsGJ(g.body[k])
                  ELSE IF g.t = "PT" THEN g.body # <<>> ELSE FlatC(g.t, g.body) # <<>>
\* a collection with a bounding box: the members' layouts may differ (or be none the format has a box for), so only this is
\* demanded: an error, or the unchanged collection plus a bbox member of 4 or 6 numbers
NumArr(j, lens) == j[1] = "a" /\ Len(j[2]) \in lens /\ \A k \in DOMAIN j[2] : j[2][k][1] \in {"n", "x"}
CollWithBBoxOK(g, j) ==
  /\ j[1] = "o" /\ GJ!Has(j, "bbox") /\ NumArr(GJ!Get(j, "bbox"), {4, 6})
  /\ GJ!Obj(SelectSeq(j[2], LAMBDA kv : kv[1] # "bbox")) \in Encs(g)
GeoJSONOut(g, o, ref) ==
  IF ~o.bbox THEN (IF o.err # "" THEN "geojson|encode-error" ELSE IF o.json \notin Encs(g) THEN "geojson|structure-changed" ELSE "ok")
  ELSE IF ~HasCoordsGJ(g) THEN (IF o.err = "" /\ o.json[1] # "o" THEN "geojson|invalid-json" ELSE "ok")   \* a box of nothing: not the property's subject
  ELSE IF g.t = "GC" THEN (IF o.err = "" /\ ~CollWithBBoxOK(g, o.json) THEN "geojson|collection-bbox" ELSE "ok")
  ELSE IF o.err # "" THEN "geojson|encode-error"
  ELSE IF o.json \notin WithBBoxes(g, Dims(g, ref)) THEN "geojson|bbox"
  ELSE "ok"
\* ---- "the output remains valid WKT": the library's own parser accepts it and returns the same type, structure and number
\* of ordinates (the dimension of a geometry without any position is not a number of ordinates: left open)
Lens(t, body) ==
  CASE t = "PT" -> <<Len(body)>>
    [] t \in {"LS", "MPT"} -> [k \in DOMAIN body |-> IF body[k] = NILPT THEN -1 ELSE Len(body[k])]
    [] t \in {"PG", "MLS"} -> [k \in DOMAIN body |-> [j \in DOMAIN body[k] |-> Len(body[k][j])]]
    [] t = "MPG" -> [k \in DOMAIN body |-> [j \in DOMAIN body[k] |-> [m \in DOMAIN body[k][j] |-> Len(body[k][j][m])]]]
RECURSIVE SameShape(_, _)
SameShape(a, b) ==
  /\ a.t = b.t
  /\ IF a.t = "GC" THEN Len(a.body) = Len(b.body) /\ \A k \in DOMAIN a.body : SameShape(a.body[k], b.body[k])
     ELSE Lens(a.t, a.body) = Lens(b.t, b.body)
RECURSIVE AnyCoord(_)
AnyCoord(g) ==
  CASE g.t = "GC" -> \E k \in DOMAIN g.body : AnyCoord(g.body[k])
    [] g.t = "PT" -> g.body # <<>>
    [] g.t = "LS" -> g.body # <<>>
    [] g.t = "MPT" -> \E k \in DOMAIN g.body : g.body[k] # NILPT
    [] g.t \in {"PG", "MLS"} -> \E k \in DOMAIN g.body : g.body[k] # <<>>
    [] g.t = "MPG" -> \E k \in DOMAIN g.body : \E j \in DOMAIN g.body[k] : g.body[k][j] # <<>>
ReparseOK(g, re) == re.ok /\ SameShape(re.tree, Strip(g)) /\ (AnyCoord(g) => re.l = g.l)
Clause(r) ==
  IF r.ev # "ok" THEN r.ev
  ELSE IF MODE = "wkt" THEN
    (IF \E k \in DOMAIN r.outs : ~r.outs[k].ok THEN "wkt|encode-error"
     ELSE IF \E k \in DOMAIN r.outs : Shape(r.outs[k].toks) \notin {Shape(Render(r.case.g)), Shape(RenderG(r.case.g, TRUE))} THEN "wkt|structure-changed"
     ELSE IF \E k \in DOMAIN r.outs : ~ReparseOK(r.case.g, r.outs[k].re) THEN "wkt|own-parser"
     ELSE "ok")
  ELSE
    LET cs == [k \in DOMAIN r.outs |-> GeoJSONOut(r.case.g, r.outs[k], r.ref)] IN
    IF \A k \in DOMAIN cs : cs[k] = "ok" THEN "ok" ELSE cs[CHOOSE k \in DOMAIN cs : cs[k] # "ok" /\ \A j \in DOMAIN cs : j < k => cs[j] = "ok"]
VARIABLES i, bad
Init == i = 1 /\ bad = 0
Next == /\ i <= Len(Recs)
        /\ LET c == Clause(Recs[i]) IN
           /\ IF c = "ok" THEN TRUE ELSE PrintT(<<"VIOL", ToJson([i |-> i, sig |-> "digits|" \o c])>>)
           /\ bad' = IF c = "ok" THEN bad ELSE bad + 1
        /\ i' = i + 1
Done == i = Len(Recs) + 1 => PrintT(<<"SUMMARY", ToJson([n |-> Len(Recs), bad |-> bad])>>)
====
