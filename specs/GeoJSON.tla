---- MODULE GeoJSON ----
(* C07: RFC 7946 geometry objects, Features and FeatureCollections - what the encoder must emit (as an
   independent reader of the RFC understands it) and what decoding ANY JSON value must yield, including
   the rules of Go's encoding/json that matter for totality (null into a slice = nil, null into a number
   = the zero value, wrong kind = error, missing member = zero value).
   JSON values are tagged tuples so that TLC can compare them:
     <<"null">>  <<"n", k>> (number token k)  <<"s", str>>  <<"b", bool>>  <<"a", Seq(value)>>
     <<"o", Seq(<<key, value>>)>> with keys in increasing order (no duplicates in the modelled universe);
     <<"x", text>> is a number literal outside the small tokens (1.5, 1e21, ...) as written, or - in a recorded
     observation, where numbers are tagged BY VALUE (1, 1.0, 1e0 are all <<"n", 1>>) - the canonical exact spelling of a
     number that is not a small integer, or a value the recorder cannot carry (invalid JSON, nesting too deep); the decoder specification
     treats it as foreign, so that no value rule is ever based on it.
   Geometry = [t, l, body]; a coord is a Seq of number tokens; a nil multipoint member is NIL;
   NOGEOM is the nil geometry.  Layouts: "No","XY","XYZ","XYM","XYZM","L5","L6". *)
EXTENDS Integers, Sequences, TLC

Null == <<"null">>
NIL == <<-1>>                      \* a nil geom.Coord (number tokens are >= 0, so no real coord equals it)
NOGEOM == [t |-> "nil", l |-> "No", body |-> <<>>]
Num(k) == <<"n", k>>
Str(s) == <<"s", s>>
Arr(s) == <<"a", s>>
Obj(fs) == <<"o", fs>>
Stride(l) == CASE l = "XY" -> 2 [] l = "XYZ" -> 3 [] l = "XYM" -> 3 [] l = "XYZM" -> 4 [] l = "L5" -> 5 [] l = "L6" -> 6 [] OTHER -> 0
Default == "XY"
TypeName(t) == CASE t = "PT" -> "Point" [] t = "LS" -> "LineString" [] t = "PG" -> "Polygon" [] t = "MPT" -> "MultiPoint"
                 [] t = "MLS" -> "MultiLineString" [] t = "MPG" -> "MultiPolygon" [] t = "GC" -> "GeometryCollection"

\* ---------------------------------------------------------------- object access
Has(o, k) == \E i \in DOMAIN o[2] : o[2][i][1] = k
Get(o, k) == o[2][CHOOSE i \in DOMAIN o[2] : o[2][i][1] = k][2]
GetOr(o, k, d) == IF Has(o, k) THEN Get(o, k) ELSE d
IsObj(j) == j[1] = "o"

\* ---------------------------------------------------------------- encoding (RFC 7946 section 3.1)
ECoord(c) == Arr([i \in DOMAIN c |-> Num(c[i])])
ECoords1(cs) == Arr([i \in DOMAIN cs |-> ECoord(cs[i])])
ECoords2(css) == Arr([i \in DOMAIN css |-> ECoords1(css[i])])
RECURSIVE EncGeom(_)
EncGeom(g) ==
  IF g.t = "GC" THEN Obj(<< <<"geometries", Arr([i \in DOMAIN g.body |-> EncGeom(g.body[i])])>>, <<"type", Str("GeometryCollection")>> >>)
  ELSE Obj(<< <<"coordinates",
      CASE g.t = "PT"  -> IF g.body = <<>> THEN Arr(<<>>) ELSE ECoord(g.body)
        [] g.t = "LS"  -> ECoords1(g.body)
        [] g.t = "PG"  -> ECoords2(g.body)
        [] g.t = "MPT" -> Arr([i \in DOMAIN g.body |-> IF g.body[i] = NIL THEN Null ELSE ECoord(g.body[i])])
        [] g.t = "MLS" -> ECoords2(g.body)
        [] g.t = "MPG" -> Arr([i \in DOMAIN g.body |-> ECoords2(g.body[i])]) >>,
      <<"type", Str(TypeName(g.t))>> >>)
EncGeomOrNull(g) == IF g = NOGEOM THEN Null ELSE EncGeom(g)
\* a feature is [id, bbox, geom, props]: id a string ("" = absent), bbox = <<>> or a sequence of 4 / 6 number tokens,
\* props a JSON value (object or null)
EncFeature(f) ==
  Obj( (IF f.bbox = <<>> THEN <<>> ELSE << <<"bbox", Arr([i \in DOMAIN f.bbox |-> Num(f.bbox[i])])>> >>)
       \o << <<"geometry", EncGeomOrNull(f.geom)>> >>
       \o (IF f.id = "" THEN <<>> ELSE << <<"id", Str(f.id)>> >>)
       \o << <<"properties", f.props>>, <<"type", Str("Feature")>> >> )
EncFC(fc) ==
  Obj( (IF fc.bbox = <<>> THEN <<>> ELSE << <<"bbox", Arr([i \in DOMAIN fc.bbox |-> Num(fc.bbox[i])])>> >>)
       \o << <<"features", Arr([i \in DOMAIN fc.features |-> EncFeature(fc.features[i])])>>, <<"type", Str("FeatureCollection")>> >> )

\* ---------------------------------------------------------------- decoding a JSON value into nested coordinates
E == [ok |-> FALSE]
V(x) == [ok |-> TRUE, v |-> x]
\* into float64: number ok; null leaves the zero value; anything else is a type error
DNum(j) == CASE j[1] = "n" -> V(j[2]) [] j[1] = "null" -> V(0) [] OTHER -> E
AllOk(rs) == \A i \in DOMAIN rs : rs[i].ok
Vals(rs) == [i \in DOMAIN rs |-> rs[i].v]
\* into geom.Coord ([]float64): null -> nil
DCoord(j) == CASE j[1] = "null" -> V(NIL)
               [] j[1] = "a" -> LET rs == [i \in DOMAIN j[2] |-> DNum(j[2][i])] IN IF AllOk(rs) THEN V(Vals(rs)) ELSE E
               [] OTHER -> E
DList(j, D(_)) == CASE j[1] = "null" -> V(<<>>)
                    [] j[1] = "a" -> LET rs == [i \in DOMAIN j[2] |-> D(j[2][i])] IN IF AllOk(rs) THEN V(Vals(rs)) ELSE E
                    [] OTHER -> E
DCoords1(j) == DList(j, DCoord)
DCoords2(j) == DList(j, DCoords1)
DCoords3(j) == DList(j, DCoords2)
Guess0(c) == LET n == IF c = NIL THEN 0 ELSE Len(c) IN
             CASE n < 2 -> "?" [] n = 2 -> "XY" [] n = 3 -> "XYZ" [] n = 4 -> "XYZM" [] n = 5 -> "L5" [] n = 6 -> "L6" [] OTHER -> "big"
Guess1(cs) == IF cs = <<>> THEN Default ELSE Guess0(cs[1])
Guess2(css) == IF css = <<>> THEN Default ELSE Guess1(css[1])
Guess3(csss) == IF csss = <<>> THEN Default ELSE Guess2(csss[1])
\* the coordinate setters re-check every position against the stride of the guessed layout
OkC(c, st) == c # NIL /\ Len(c) = st
Ok1(cs, st) == \A i \in DOMAIN cs : OkC(cs[i], st)
Ok2(css, st) == \A i \in DOMAIN css : Ok1(css[i], st)
Ok3(csss, st) == \A i \in DOMAIN csss : Ok2(csss[i], st)
Geo(t, l, body) == V([t |-> t, l |-> l, body |-> body])
Bad(l) == l \in {"?", "big"}

\* a geometry OBJECT (already known to be a JSON object)
RECURSIVE DecObj(_)
DecObj(o) ==
  LET tyj == GetOr(o, "type", Null)
      c == GetOr(o, "coordinates", Null)
      absent == c[1] = "null"
      gsj == GetOr(o, "geometries", Null) IN
  IF tyj[1] \notin {"s", "null"} THEN E
  ELSE
  LET ty == IF tyj[1] = "s" THEN tyj[2] ELSE "" IN
  CASE ty = "Point" ->
         IF absent THEN Geo("PT", "No", <<>>)
         ELSE LET r == DCoord(c) IN
              IF ~r.ok THEN E
              ELSE IF r.v = NIL \/ r.v = <<>> THEN Geo("PT", Default, <<>>)
              ELSE IF Bad(Guess0(r.v)) THEN E
              ELSE Geo("PT", Guess0(r.v), r.v)
    [] ty = "LineString" ->
         IF absent THEN Geo("LS", "No", <<>>)
         ELSE LET r == DCoords1(c) IN
              IF ~r.ok THEN E ELSE IF Bad(Guess1(r.v)) \/ ~Ok1(r.v, Stride(Guess1(r.v))) THEN E ELSE Geo("LS", Guess1(r.v), r.v)
    [] ty = "Polygon" ->
         IF absent THEN Geo("PG", "No", <<>>)
         ELSE LET r == DCoords2(c) IN
              IF ~r.ok THEN E ELSE IF Bad(Guess2(r.v)) \/ ~Ok2(r.v, Stride(Guess2(r.v))) THEN E ELSE Geo("PG", Guess2(r.v), r.v)
    [] ty = "MultiPoint" ->
         IF absent THEN Geo("MPT", "No", <<>>)
         ELSE LET r == DCoords1(c) IN
              IF ~r.ok THEN E ELSE IF Bad(Guess1(r.v)) THEN E
              ELSE LET st == Stride(Guess1(r.v)) IN
                   IF \E i \in DOMAIN r.v : r.v[i] # NIL /\ Len(r.v[i]) # st THEN E        \* nil members are empty points
                   ELSE Geo("MPT", Guess1(r.v), r.v)
    [] ty = "MultiLineString" ->
         IF absent THEN Geo("MLS", "No", <<>>)
         ELSE LET r == DCoords2(c) IN
              IF ~r.ok THEN E ELSE IF Bad(Guess2(r.v)) \/ ~Ok2(r.v, Stride(Guess2(r.v))) THEN E ELSE Geo("MLS", Guess2(r.v), r.v)
    [] ty = "MultiPolygon" ->
         IF absent THEN Geo("MPG", "No", <<>>)
         ELSE LET r == DCoords3(c) IN
              IF ~r.ok THEN E ELSE IF Bad(Guess3(r.v)) \/ ~Ok3(r.v, Stride(Guess3(r.v))) THEN E ELSE Geo("MPG", Guess3(r.v), r.v)
    [] ty = "GeometryCollection" ->
         IF gsj[1] = "null" THEN Geo("GC", "No", <<>>)
         ELSE IF gsj[1] # "a" THEN E
         ELSE LET rs == [i \in DOMAIN gsj[2] |->
                           IF gsj[2][i][1] = "o" THEN DecObj(gsj[2][i])
                           ELSE E]                        \* null member = zero Geometry = unsupported type; other kinds = type error
              IN IF AllOk(rs) THEN Geo("GC", "No", Vals(rs)) ELSE E
    [] OTHER -> E
\* a whole document given to Unmarshal: null is the nil geometry, anything that is not an object is an error
DecGeom(j) == CASE j[1] = "null" -> V(NOGEOM) [] j[1] = "o" -> DecObj(j) [] OTHER -> E
\* the value of a "geometry" member of a feature
DecGeomMember(j) == DecGeom(j)

\* bbox: array of 4 (XY) or 6 (XYZ) numbers; null / absent = none
DecBBox(j) == CASE j[1] = "null" -> V(<<>>)
                [] j[1] = "a" -> LET rs == [i \in DOMAIN j[2] |-> DNum(j[2][i])] IN
                                 IF ~AllOk(rs) THEN E ELSE IF Len(rs) \in {4, 6} THEN V(Vals(rs)) ELSE E
                [] OTHER -> E
\* id: a string is kept, a number is rendered in decimal (tokens are small integers), null / absent = ""
DecId(j) == CASE j[1] = "null" -> V("") [] j[1] = "s" -> V(j[2]) [] j[1] = "n" -> V(ToString(j[2])) [] OTHER -> E
DecProps(j) == CASE j[1] = "null" -> V(Null) [] j[1] = "o" -> V(j) [] OTHER -> E
DecFeature(j) ==
  IF j[1] # "o" THEN E
  ELSE LET tyj == GetOr(j, "type", Null)
           id == DecId(GetOr(j, "id", Null))
           bb == DecBBox(GetOr(j, "bbox", Null))
           ge == DecGeomMember(GetOr(j, "geometry", Null))
           pr == DecProps(GetOr(j, "properties", Null)) IN
       IF tyj[1] \notin {"s", "null"} \/ ~bb.ok \/ ~pr.ok THEN E
       ELSE IF GetOr(j, "geometry", Null)[1] \notin {"o", "null"} THEN E
       ELSE IF ~(tyj[1] = "s" /\ tyj[2] = "Feature") THEN E
       ELSE IF ~id.ok \/ ~ge.ok THEN E
       ELSE V([id |-> id.v, bbox |-> bb.v, geom |-> ge.v, props |-> pr.v])
DecFC(j) ==
  IF j[1] # "o" THEN E
  ELSE LET tyj == GetOr(j, "type", Null)
           bb == DecBBox(GetOr(j, "bbox", Null))
           fsj == GetOr(j, "features", Null) IN
       IF tyj[1] \notin {"s", "null"} \/ fsj[1] \notin {"a", "null"} THEN E
       ELSE LET rs == IF fsj[1] = "null" THEN <<>> ELSE [i \in DOMAIN fsj[2] |-> IF fsj[2][i][1] = "null" THEN V([nil |-> TRUE]) ELSE DecFeature(fsj[2][i])] IN
            IF ~AllOk(rs) \/ ~bb.ok THEN E
            ELSE IF ~(tyj[1] = "s" /\ tyj[2] = "FeatureCollection") THEN E
            ELSE V([bbox |-> bb.v, features |-> Vals(rs)])

\* ---------------------------------------------------------------- what comes back, and exactly when the round trip is the identity
\* XYM is written as three numbers and read as XYZ; an empty geometry comes back with the default layout
RdLayout(l) == IF l = "XYM" THEN "XYZ" ELSE l
IsEmptyG(g) == g.body = <<>>
FirstEmpty(g) ==           \* the first component (the one the layout is inferred from) has no position
  CASE g.t = "PG" -> g.body # <<>> /\ g.body[1] = <<>>
    [] g.t = "MLS" -> g.body # <<>> /\ g.body[1] = <<>>
    [] g.t = "MPG" -> g.body # <<>> /\ (g.body[1] = <<>> \/ g.body[1][1] = <<>>)
    [] g.t = "MPT" -> g.body # <<>> /\ g.body[1] = NIL
    [] OTHER -> FALSE
HasNilMember(g) == g.t = "MPT" /\ \E i \in DOMAIN g.body : g.body[i] = NIL
RECURSIVE RoundTrips(_)
RoundTrips(g) ==
  IF g.t = "GC" THEN \A i \in DOMAIN g.body : RoundTrips(g.body[i])
  ELSE ~HasNilMember(g) /\ (g.l = "XY" \/ ~FirstEmpty(g))
RECURSIVE Canon(_)
Canon(g) ==
  IF g.t = "GC" THEN [t |-> "GC", l |-> "No", body |-> [i \in DOMAIN g.body |-> Canon(g.body[i])]]
  ELSE [t |-> g.t, l |-> IF IsEmptyG(g) THEN Default ELSE RdLayout(g.l), body |-> g.body]
====
