INIT Init
NEXT Next
INVARIANT Laws Emit
CONSTANTS
  Family = "extgc"
  MaxLen = 3
  Rich = TRUE
