INIT Init
NEXT Next
INVARIANT Laws Emit
CONSTANTS
  Family = "segseg"
  N = 5
  K = 0
