---- MODULE CentroidBig ----
(* C14, numeric clause on large grids (big-integer tier, Apalache): the area-weighted centroid of polygons with integer
   vertices - thin slivers of tiny area among them - equals the exact one, <<CX, CY>> / (3 * A2), to within 2^-30 of the
   coordinate scale.  Written from the textbook ring formulas (as ExactSums, which is TLC-only because it recurses):
     A2(ring) = sum x_{i-1} y_i - x_i y_{i-1},  CxN(ring) = sum (x_{i-1} + x_i)(x_{i-1} y_i - x_i y_{i-1}),
   a shell counts with |area|, a hole with -|area|, whatever its direction.  The inputs of this tier are bounded so that
   every intermediate value of a float64 evaluation is an exactly representable integer (|ordinate| <= 2^15); the
   quotient is then a couple of roundings away from the exact value, however small the area is - in particular a polygon
   of small but NON-ZERO area has its area-weighted centroid, not the length-weighted one.
   rings: closed rings (first = last) of <<x, y>>; idxs[k]: the positions 2..Len(rings[k]) (literal, for the fold);
   shell[k]: ring k is a shell; ks = <<1, ..., Len(rings)>>; got = <<gxn, gyn>> / gd; sc = largest |ordinate|. *)
EXTENDS Integers, Sequences, Apalache
\* @type: Int => Int;
AbsC(x) == IF x < 0 THEN -x ELSE x
\* @type: Int => Int;
SgnC(x) == IF x > 0 THEN 1 ELSE IF x < 0 THEN -1 ELSE 0
\* @type: (Seq(Seq(Int)), Int) => Int;
Cross(r, i) == r[i-1][1] * r[i][2] - r[i][1] * r[i-1][2]
\* @type: (Seq(Seq(Int)), Seq(Int)) => Int;
RingA2(r, idx) == ApaFoldSeqLeft(LAMBDA a, i : a + Cross(r, i), 0, idx)
\* @type: (Seq(Seq(Int)), Seq(Int), Int) => Int;
RingCN(r, idx, d) == ApaFoldSeqLeft(LAMBDA a, i : a + (r[i-1][d] + r[i][d]) * Cross(r, i), 0, idx)
\* @type: (Seq(Seq(Int)), Seq(Int), Int) => Int;
RingAbsCN(r, idx, d) == ApaFoldSeqLeft(LAMBDA a, i : a + AbsC((r[i-1][d] + r[i][d]) * Cross(r, i)), 0, idx)
\* @type: (Seq(Seq(Seq(Int))), Seq(Seq(Int)), Seq(Bool), Int) => Int;
Weight(rings, idxs, shell, k) == IF shell[k] THEN SgnC(RingA2(rings[k], idxs[k])) ELSE -SgnC(RingA2(rings[k], idxs[k]))
\* @type: (Seq(Seq(Seq(Int))), Seq(Seq(Int)), Seq(Bool), Seq(Int), Int, Int, Int, Int) => Bool;
CentroidOK(rings, idxs, shell, ks, gxn, gyn, gd, sc) ==
  LET A  == ApaFoldSeqLeft(LAMBDA a, k : a + Weight(rings, idxs, shell, k) * RingA2(rings[k], idxs[k]), 0, ks)
      CX == ApaFoldSeqLeft(LAMBDA a, k : a + Weight(rings, idxs, shell, k) * RingCN(rings[k], idxs[k], 1), 0, ks)
      CY == ApaFoldSeqLeft(LAMBDA a, k : a + Weight(rings, idxs, shell, k) * RingCN(rings[k], idxs[k], 2), 0, ks)
  \* tolerance: 2^-30 of the scale, PLUS the forward error of one summation pass over the terms of the numerator,
  \* (n + 8) 2^-50 sum |terms| / (3 |A|): a thin sliver far from the origin is ill-conditioned for a formula that works on
  \* absolute coordinates, and such a formula is as correct as the fan of triangles around a base point
      SX == ApaFoldSeqLeft(LAMBDA a, k : a + RingAbsCN(rings[k], idxs[k], 1), 0, ks)
      SY == ApaFoldSeqLeft(LAMBDA a, k : a + RingAbsCN(rings[k], idxs[k], 2), 0, ks)
      n  == ApaFoldSeqLeft(LAMBDA a, k : a + Len(rings[k]), 0, ks) IN
  A # 0 =>
    /\ AbsC(gxn * 3 * A - CX * gd) * 1125899906842624 <= (sc * 3 * AbsC(A) * 1048576 + (n + 8) * SX) * gd
    /\ AbsC(gyn * 3 * A - CY * gd) * 1125899906842624 <= (sc * 3 * AbsC(A) * 1048576 + (n + 8) * SY) * gd
\* ring direction and signed area of one ring (C14: "a simple ring is reported counter-clockwise exactly when its exact signed
\* area is positive, and the signed-area function returns that area (clockwise positive) to within rounding"):
\* ccw = what IsRingCounterClockwise said; gn / gd = what SignedArea returned; the rings of this tier are simple
\* @type: (Seq(Seq(Int)), Seq(Int), Bool, Int, Int, Int) => Bool;
RingOK(r, idx, ccw, gn, gd, sc) ==
  LET A == RingA2(r, idx) IN
  /\ (A # 0 => (ccw <=> A > 0))
  /\ AbsC(2 * gn + A * gd) * 1073741824 <= 2 * sc * sc * gd
====
