---- MODULE MeasureBig ----
(* C09, numeric clause (big-integer tier, Apalache): Area() of rings whose ordinates are arbitrary float64 values
   of magnitude up to 2^200 equals the exact shoelace area to within the forward error bound of one summation
   pass, (n + 8) * 2^-52 * sum |terms| / 2, the terms being those of the trapezoid form
   (y_i - y_{i-1}) * (x_i + x_{i-1}) - a form whose terms stay small for a ring far from the origin.
   r: all coordinates of the geometry (scaled to integers by 2^k, K4 = 4^k); idx: the positions i >= 2 that end an
   edge (the first position of every ring is left out, so no bridging edge is counted); gn/gd = Area(). *)
EXTENDS Integers, Sequences, Apalache
\* @type: Int => Int;
AbsM(x) == IF x < 0 THEN -x ELSE x
\* @type: (Seq(Seq(Int)), Int) => Int;
Term(r, i) == (r[i][2] - r[i-1][2]) * (r[i][1] + r[i-1][1])
\* @type: (Seq(Seq(Int)), Seq(Int), Int, Int, Int, Int) => Bool;
AreaOK(r, idx, gn, gd, K4, n) ==
  LET T == ApaFoldSeqLeft(LAMBDA a, i : a + Term(r, i), 0, idx)
      S == ApaFoldSeqLeft(LAMBDA a, i : a + AbsM(Term(r, i)), 0, idx) IN
  AbsM(2 * gn * K4 - T * gd) * 4503599627370496 <= (n + 8) * S * gd
====
