---- MODULE MeasureBig ----
(* C09, numeric clause (big-integer tier, Apalache): Area() of rings whose ordinates are arbitrary float64 values
   of magnitude up to 2^200 equals the exact shoelace area to within the forward error bound of one summation
   pass, (n + 8) * 2^-52 * sum |terms| / 2, the terms being those of the trapezoid form
   (y_i - y_{i-1}) * (x_i + x_{i-1}) - a form whose terms stay small for a ring far from the origin.
   r: all coordinates of the geometry (scaled to integers by 2^k, K4 = 4^k); idx: the positions i >= 2 that end an
   edge (the first position of every ring is left out, so no bridging edge is counted); gn/gd = Area(). *)
EXTENDS Integers, Sequences, Apalache
\* @type: Int => Int;
AbsM(x) == IF x < 0 THEN -x ELSE x
\* @type: (Seq(Seq(Int)), Int) => Int;
Term(r, i) == (r[i][2] - r[i-1][2]) * (r[i][1] + r[i-1][1])
\* @type: (Seq(Seq(Int)), Seq(Int), Int, Int, Int, Int) => Bool;
AreaOK(r, idx, gn, gd, K4, n) ==
  LET T == ApaFoldSeqLeft(LAMBDA a, i : a + Term(r, i), 0, idx)
      S == ApaFoldSeqLeft(LAMBDA a, i : a + AbsM(Term(r, i)), 0, idx) IN
  AbsM(2 * gn * K4 - T * gd) * 4503599627370496 <= (n + 8) * S * gd
\* Length(): the exact length is a sum of square roots; the orchestrator supplies, for every edge i, a WITNESS s[i] =
\* floor(sqrt(D_i * M2)) (D_i = squared length of edge i in the scaled integers, M2 = M * M a power of four that gives the root
\* 64 more bits); the specification CHECKS every witness (s^2 <= D * M2 < (s+1)^2) and then demands
\* | Length * K * M - sum s | <= (n + 8) * 2^-52 * sum s + n   (one summation pass; the n accounts for the floors),
\* K = 2^k the scale of the coordinates, got = gn / gd.
\* @type: (Seq(Seq(Int)), Int) => Int;
SqLen(r, i) == (r[i][1] - r[i-1][1]) * (r[i][1] - r[i-1][1]) + (r[i][2] - r[i-1][2]) * (r[i][2] - r[i-1][2])
\* @type: (Seq(Seq(Int)), Seq(Int), Seq(Int), Int, Int, Int, Int, Int) => Bool;
LengthOK(r, idx, s, gn, gd, K, M, n) ==
  LET S == ApaFoldSeqLeft(LAMBDA a, i : a + s[i], 0, idx) IN
  /\ \A j \in DOMAIN idx :
        LET i == idx[j] IN s[i] >= 0 /\ s[i] * s[i] <= SqLen(r, i) * M * M /\ SqLen(r, i) * M * M < (s[i] + 1) * (s[i] + 1)
  /\ AbsM(gn * K * M - S * gd) * 4503599627370496 <= ((n + 8) * S + n * 4503599627370496) * gd
====
