---- MODULE WKB ----
(* C03 / C04.  Part 1: an independent reference ENCODER for ISO/OGC WKB and PostGIS EWKB, written from the
   format documents (OGC 06-103r4 8.2, ISO 13249-3; PostGIS ZMSgeoms.txt), not from the Go code.
   Part 2: a reference DECODER on an ARBITRARY byte string, a total function, with the documented
   carve-outs of go-geom (per-level element limits, all-NaN point = empty point in EWKB / WKB-NaN mode,
   layout of collections).

   Geometry = [t, l, srid, body]
     t in {"PT","LS","PG","MPT","MLS","MPG","GC"},  l in {"XY","XYZ","XYM","XYZM"} ("No": empty GC without layout)
     srid = <<>> (none) or <<b3,b2,b1,b0>> most significant byte first
     body: PT -> coord or <<>> (empty point); LS -> Seq(coord); PG -> Seq(Seq(coord));
           MPT/MLS/MPG/GC -> Seq(child geometry)
   Encoder side: a coord is a Seq of ordinate TOKENS; output bytes are <<"b", 0..255>> or <<"f", tok, k>> =
   byte k (0 = least significant) of the IEEE-754 image of token tok (instantiated by Concrete with the
   token image table recorded by the harness).  Token NAN = the canonical quiet NaN of an empty point.
   Decoder side: bytes are 0..255, an ordinate is its 8 bytes most significant first. *)
EXTENDS Integers, Sequences, SequencesExt, TLC

Stride(l) == CASE l = "XY" -> 2 [] l = "XYZ" -> 3 [] l = "XYM" -> 3 [] l = "XYZM" -> 4 [] OTHER -> 0
HasZ(l) == l \in {"XYZ", "XYZM"}
HasM(l) == l \in {"XYM", "XYZM"}
TypeId(t) == CASE t = "PT" -> 1 [] t = "LS" -> 2 [] t = "PG" -> 3 [] t = "MPT" -> 4
               [] t = "MLS" -> 5 [] t = "MPG" -> 6 [] t = "GC" -> 7
NAN == 127
NaN8 == <<127, 248, 0, 0, 0, 0, 0, 0>>

\* ================================================================ Part 1: reference encoder
B(v) == <<"b", v>>
Cat(ss) == FoldLeft(LAMBDA acc, x : acc \o x, <<>>, ss)
Wire4(msb, order) == IF order = "XDR" THEN [i \in 1..4 |-> B(msb[i])] ELSE [i \in 1..4 |-> B(msb[5 - i])]
U32(n, order) == Wire4(<<(n \div 16777216) % 256, (n \div 65536) % 256, (n \div 256) % 256, n % 256>>, order)
F64(tok, order) == IF order = "XDR" THEN [i \in 1..8 |-> <<"f", tok, 8 - i>>] ELSE [i \in 1..8 |-> <<"f", tok, i - 1>>]
OrderByte(order) == <<B(IF order = "XDR" THEN 0 ELSE 1)>>
\* ISO WKB: code = id + 1000 * {0: XY, 1: Z, 2: M, 3: ZM}
IsoDim(l) == CASE l = "XYZ" -> 1 [] l = "XYM" -> 2 [] l = "XYZM" -> 3 [] OTHER -> 0
IsoType(t, l, order) == U32(TypeId(t) + 1000 * IsoDim(l), order)
\* EWKB: id | 0x80000000 (Z) | 0x40000000 (M) | 0x20000000 (SRID): the flags live in the top byte
EwkbType(t, l, hasSrid, order) ==
  Wire4(<<(IF HasZ(l) THEN 128 ELSE 0) + (IF HasM(l) THEN 64 ELSE 0) + (IF hasSrid THEN 32 ELSE 0), 0, 0, TypeId(t)>>, order)
ECoord(c, order) == Cat([i \in DOMAIN c |-> F64(c[i], order)])
ECoords(cs, order) == U32(Len(cs), order) \o Cat([i \in DOMAIN cs |-> ECoord(cs[i], order)])
ERings(rs, order) == U32(Len(rs), order) \o Cat([i \in DOMAIN rs |-> ECoords(rs[i], order)])
NaNPoint(l, order) == Cat([i \in 1..Stride(l) |-> F64(NAN, order)])

\* WKB and EWKB have type codes for XY, XYZ, XYM and XYZM only: a geometry in any other layout (more than four
\* dimensions; no layout at all, except a collection, whose layout is that of its members) has no encoding
NodeOK(g) == g.l \in {"XY", "XYZ", "XYM", "XYZM"} \/ (g.t = "GC" /\ g.l = "No")
RECURSIVE Enc(_, _, _)
\* flavor in {"wkb", "wkbnan", "ewkb"}; result <<>> means "not encodable" (an empty point in plain WKB; a node in a
\* layout the formats cannot carry)
Enc(g, order, flavor) ==
  IF ~NodeOK(g) THEN <<>> ELSE
  LET hasSrid == flavor = "ewkb" /\ g.srid # <<>>
      head == OrderByte(order)
              \o (IF flavor = "ewkb" THEN EwkbType(g.t, g.l, hasSrid, order) ELSE IsoType(g.t, g.l, order))
              \o (IF hasSrid THEN Wire4(g.srid, order) ELSE <<>>)
      kids == [i \in DOMAIN g.body |-> Enc(g.body[i], order, flavor)] IN
  CASE g.t = "PT" -> IF g.body = <<>>
                     THEN (IF flavor = "wkb" THEN <<>> ELSE head \o NaNPoint(g.l, order))
                     ELSE head \o ECoord(g.body, order)
    [] g.t = "LS" -> head \o ECoords(g.body, order)
    [] g.t = "PG" -> head \o ERings(g.body, order)
    [] OTHER      -> IF \E i \in DOMAIN kids : kids[i] = <<>> THEN <<>>
                     ELSE head \o U32(Len(g.body), order) \o Cat(kids)

\* instantiate symbolic bytes with the token image table img = Seq of <<tok, b7, ..., b0>> (msb first)
ImgOf(img, tok) == IF tok = NAN THEN NaN8
                   ELSE LET e == CHOOSE e \in {img[i] : i \in DOMAIN img} : e[1] = tok IN SubSeq(e, 2, 9)
Concrete(sym, img) == [i \in DOMAIN sym |-> IF sym[i][1] = "b" THEN sym[i][2] ELSE ImgOf(img, sym[i][2])[8 - sym[i][3]]]
RECURSIVE ConcG(_, _)
ConcC(c, img) == [i \in DOMAIN c |-> ImgOf(img, c[i])]
ConcG(g, img) ==
  [g EXCEPT !.body = CASE g.t = "PT" -> ConcC(g.body, img)
                       [] g.t = "LS" -> [i \in DOMAIN g.body |-> ConcC(g.body[i], img)]
                       [] g.t = "PG" -> [i \in DOMAIN g.body |-> [j \in DOMAIN g.body[i] |-> ConcC(g.body[i][j], img)]]
                       [] OTHER -> [i \in DOMAIN g.body |-> ConcG(g.body[i], img)]]

\* the same encoder on a CONCRETE geometry (ordinates are their 8 bytes, most significant first; an empty point has
\* body <<>>): used to recognise inputs that are the standard encoding of some geometry
F64C(o, order) == IF order = "XDR" THEN [i \in 1..8 |-> o[i]] ELSE [i \in 1..8 |-> o[9 - i]]
Raw(bs) == [i \in DOMAIN bs |-> bs[i][2]]
ECoordC(c, order) == Cat([i \in DOMAIN c |-> F64C(c[i], order)])
ECoordsC(cs, order) == Raw(U32(Len(cs), order)) \o Cat([i \in DOMAIN cs |-> ECoordC(cs[i], order)])
ERingsC(rs, order) == Raw(U32(Len(rs), order)) \o Cat([i \in DOMAIN rs |-> ECoordsC(rs[i], order)])
RECURSIVE EncC(_, _, _, _)
EncC(g, order, flavor, top) ==
  LET hasSrid == flavor = "ewkb" /\ top /\ g.srid # <<>>
      head == Raw(OrderByte(order)
              \o (IF flavor = "ewkb" THEN EwkbType(g.t, g.l, hasSrid, order) ELSE IsoType(g.t, g.l, order))
              \o (IF hasSrid THEN Wire4(g.srid, order) ELSE <<>>))
      kids == [i \in DOMAIN g.body |-> EncC(g.body[i], order, flavor, FALSE)] IN
  CASE g.t = "PT" -> IF g.body = <<>>
                     THEN (IF flavor = "wkb" THEN <<>> ELSE head \o Cat([i \in 1..Stride(g.l) |-> F64C(NaN8, order)]))
                     ELSE head \o ECoordC(g.body, order)
    [] g.t = "LS" -> head \o ECoordsC(g.body, order)
    [] g.t = "PG" -> head \o ERingsC(g.body, order)
    [] OTHER      -> IF \E i \in DOMAIN kids : kids[i] = <<>> THEN <<>>
                     ELSE head \o Raw(U32(Len(g.body), order)) \o Cat(kids)

\* what decoding the encoding of g must return (format carve-outs): the SRID lives on the top-level geometry
\* only (children are written without it); SRID 0 = no SRID; plain WKB has no SRID at all
\* the layout a collection WITHOUT a fixed layout shows after decoding: the join of its members' layouts; with no
\* member (carve-out of the property) the layout of its type code, which for a layout-less collection is XY
JoinL(a, b) == LET z == a \in {"XYZ", "XYZM"} \/ b \in {"XYZ", "XYZM"}  m == a \in {"XYM", "XYZM"} \/ b \in {"XYM", "XYZM"} IN
               IF z /\ m THEN "XYZM" ELSE IF z THEN "XYZ" ELSE IF m THEN "XYM" ELSE "XY"
RECURSIVE JoinSeq(_, _)
JoinSeq(ls, i) == IF i > Len(ls) THEN "XY" ELSE JoinL(ls[i], JoinSeq(ls, i + 1))
RECURSIVE DropSrid(_)
DropSrid(g) == IF g.t \in {"MPT", "MLS", "MPG", "GC"}
               THEN LET kids == [i \in DOMAIN g.body |-> DropSrid(g.body[i])] IN
                    [g EXCEPT !.srid = <<>>, !.body = kids,
                              !.l = IF g.t = "GC" /\ g.l = "No" THEN JoinSeq([i \in DOMAIN kids |-> kids[i].l], 1) ELSE g.l]
               ELSE [g EXCEPT !.srid = <<>>]
Canon(g, flavor) ==
  LET d == DropSrid(g) IN
  IF flavor = "ewkb" /\ g.srid # <<>> /\ g.srid # <<0, 0, 0, 0>> THEN [d EXCEPT !.srid = g.srid] ELSE d
\* SRIDs on the MEMBERS of a collection: PostGIS writes the SRID on the outermost geometry only and its reader ignores
\* one found on a member; the property speaks of "the" SRID of a geometry.  What an encoder does with a member's own SRID
\* (drop it, write it) and what a decoder does with one it reads is therefore left open: such geometries are compared
\* with the member SRIDs stripped on both sides (StripM), the outermost SRID must round-trip.
RECURSIVE AnySrid(_)
AnySrid(g) == g.srid # <<>> \/ (g.t \in {"MPT", "MLS", "MPG", "GC"} /\ \E i \in DOMAIN g.body : AnySrid(g.body[i]))
HasMemberSrid(g) == g.t \in {"MPT", "MLS", "MPG", "GC"} /\ \E i \in DOMAIN g.body : AnySrid(g.body[i])
StripM(x) == [DropSrid(x) EXCEPT !.srid = x.srid]
\* the same on ANY tree (a decoded one too), touching nothing but the members' SRIDs: a decoder or part accessor that lets
\* the members show the SRID of the geometry they belong to, or an encoder that writes no member SRID, keeps what is promised
RECURSIVE NoSrid(_)
NoSrid(g) == IF g.t \in {"MPT", "MLS", "MPG", "GC"}
             THEN [g EXCEPT !.srid = <<>>, !.body = [i \in DOMAIN g.body |-> NoSrid(g.body[i])]]
             ELSE [g EXCEPT !.srid = <<>>]
StripMS(x) == [NoSrid(x) EXCEPT !.srid = x.srid]

\* ================================================================ Part 2: reference decoder on bytes
HUGE == 65536
Err(c, p, mx) == [ok |-> FALSE, err |-> c, pos |-> p, mx |-> mx]
Ok(g, p, mx)  == [ok |-> TRUE, g |-> g, pos |-> p, mx |-> mx]
Has(b, p, n) == p + n <= Len(b)
Max2(a, c) == IF a >= c THEN a ELSE c
Msb4(b, p, xdr) == IF xdr THEN <<b[p+1], b[p+2], b[p+3], b[p+4]>> ELSE <<b[p+4], b[p+3], b[p+2], b[p+1]>>
\* counts are decoded as Min(value, HUGE): every modelled input is shorter than HUGE bytes, so all larger
\* counts behave alike, and no 32-bit value is ever formed
Count(m) == IF m[1] > 0 \/ m[2] > 0 THEN HUGE ELSE m[3] * 256 + m[4]
Ord8(b, p, xdr) == IF xdr THEN [i \in 1..8 |-> b[p+i]] ELSE [i \in 1..8 |-> b[p+9-i]]
TypeOf(id) == CASE id = 1 -> "PT" [] id = 2 -> "LS" [] id = 3 -> "PG" [] id = 4 -> "MPT"
                [] id = 5 -> "MLS" [] id = 6 -> "MPG" [] id = 7 -> "GC" [] OTHER -> "?"
Over(n, lim) == lim >= 0 /\ n > lim
Join(a, c) == CASE a = "No" -> c [] c = "No" -> a [] a = c -> a
                [] {a, c} = {"XYZ", "XYM"} -> "XYZM"
                [] "XYZM" \in {a, c} -> "XYZM"
                [] "XY" = a -> c [] OTHER -> a
CoordsAt(b, p, n, st, xdr) == [k \in 1..n |-> [j \in 1..st |-> Ord8(b, p + ((k-1)*st + (j-1)) * 8, xdr)]]

\* count-prefixed coordinate array (linestring / ring)
RdCoords(b, p, st, xdr, lim, mx0) ==
  IF ~Has(b, p, 4) THEN Err("eof", p, mx0)
  ELSE LET n == Count(Msb4(b, p, xdr))  mx == Max2(mx0, n) IN
       IF Over(n, lim[1]) THEN Err("toolarge", p + 4, mx)
       ELSE IF n = HUGE \/ ~Has(b, p + 4, n * st * 8) THEN Err("eof", p + 4, mx)
       ELSE [ok |-> TRUE, cs |-> CoordsAt(b, p + 4, n, st, xdr), pos |-> p + 4 + n * st * 8, mx |-> mx]
RECURSIVE RdRings(_, _, _, _, _, _, _, _)
RdRings(b, p, k, acc, st, xdr, lim, mx) ==
  IF k = 0 THEN [ok |-> TRUE, rs |-> acc, pos |-> p, mx |-> mx]
  ELSE LET r == RdCoords(b, p, st, xdr, lim, mx) IN
       IF ~r.ok THEN r ELSE RdRings(b, r.pos, IF k = HUGE THEN HUGE ELSE k - 1, Append(acc, r.cs), st, xdr, lim, r.mx)

RECURSIVE Dec(_, _, _, _, _, _)
RECURSIVE RdKids(_, _, _, _, _, _, _, _, _, _)
\* children of a multi-geometry / collection: want = required child type ("" = any), wl = required layout
RdKids(b, p, k, acc, want, wl, flavor, nan, lim, mx) ==
  IF k = 0 THEN [ok |-> TRUE, kids |-> acc, pos |-> p, mx |-> mx]
  ELSE LET r == Dec(b, p, flavor, nan, lim, mx) IN
       IF ~r.ok THEN r
       ELSE IF want # "" /\ r.g.t # want THEN Err("childtype", r.pos, r.mx)
       ELSE IF wl # "" /\ r.g.l # wl THEN Err("childlayout", r.pos, r.mx)
       ELSE RdKids(b, r.pos, IF k = HUGE THEN HUGE ELSE k - 1, Append(acc, r.g), want, wl, flavor, nan, lim, r.mx)

\* flavor in {"wkb", "ewkb"}; nan: all-NaN point decodes as empty (always in EWKB); lim = <<l1, l2, l3>> (-1 = off)
Dec(b, p0, flavor, nan, lim, mx0) ==
  IF ~Has(b, p0, 1) THEN Err("eof", p0, mx0)
  ELSE IF b[p0+1] > 1 THEN Err("byteorder", p0 + 1, mx0)
  ELSE LET xdr == b[p0+1] = 0  p1 == p0 + 1 IN
  IF ~Has(b, p1, 4) THEN Err("eof", p1, mx0)
  ELSE LET m == Msb4(b, p1, xdr)
           ew == flavor = "ewkb"
           code == IF m[1] > 0 \/ m[2] > 0 THEN HUGE ELSE m[3] * 256 + m[4]
           dim  == IF ew THEN (IF m[1] >= 128 THEN 1 ELSE 0) + (IF (m[1] % 128) >= 64 THEN 2 ELSE 0)
                   ELSE IF code >= 4000 THEN 9 ELSE code \div 1000
           l    == CASE dim = 0 -> "XY" [] dim = 1 -> "XYZ" [] dim = 2 -> "XYM" [] dim = 3 -> "XYZM" [] OTHER -> "?"
           hasS == ew /\ (m[1] % 64) >= 32
           id   == IF ew THEN (IF (m[1] % 32) > 0 \/ m[2] > 0 \/ m[3] > 0 THEN 0 ELSE m[4])
                   ELSE IF code >= 4000 THEN 0 ELSE code % 1000
           t    == TypeOf(id)
           p2   == p1 + 4 IN
  IF l = "?" THEN Err("unknowntype", p2, mx0)
  ELSE IF hasS /\ ~Has(b, p2, 4) THEN Err("eof", p2, mx0)
  ELSE LET srid == IF hasS THEN Msb4(b, p2, xdr) ELSE <<>>
           p3 == IF hasS THEN p2 + 4 ELSE p2
           st == Stride(l)
           G(body) == [t |-> t, l |-> l, srid |-> IF srid = <<0, 0, 0, 0>> THEN <<>> ELSE srid, body |-> body] IN
  CASE t = "?" -> Err("unsupportedtype", p3, mx0)
    [] t = "PT" ->
         IF ~Has(b, p3, st * 8) THEN Err("eof", p3, mx0)
         ELSE LET c == CoordsAt(b, p3, 1, st, xdr)[1]
                  empty == (ew \/ nan) /\ \A j \in 1..st : c[j] = NaN8 IN
              Ok(G(IF empty THEN <<>> ELSE c), p3 + st * 8, mx0)
    [] t = "LS" -> LET r == RdCoords(b, p3, st, xdr, lim, mx0) IN IF ~r.ok THEN r ELSE Ok(G(r.cs), r.pos, r.mx)
    [] t = "PG" ->
         IF ~Has(b, p3, 4) THEN Err("eof", p3, mx0)
         ELSE LET n == Count(Msb4(b, p3, xdr))  mx == Max2(mx0, n) IN
              IF Over(n, lim[2]) THEN Err("toolarge", p3 + 4, mx)
              ELSE LET r == RdRings(b, p3 + 4, n, <<>>, st, xdr, lim, mx) IN
                   IF ~r.ok THEN r ELSE Ok(G(r.rs), r.pos, r.mx)
    [] OTHER ->                                   \* MPT, MLS, MPG, GC
         IF ~Has(b, p3, 4) THEN Err("eof", p3, mx0)
         ELSE LET n == Count(Msb4(b, p3, xdr))
                  mx == Max2(mx0, n)
                  lv == CASE t = "MPT" -> lim[1] [] t = "MLS" -> lim[2] [] t = "MPG" -> lim[3]
                          [] OTHER -> IF ew THEN lim[1] ELSE -1          \* WKB collections are not limited
                  want == CASE t = "MPT" -> "PT" [] t = "MLS" -> "LS" [] t = "MPG" -> "PG" [] OTHER -> "" IN
              IF Over(n, lv) THEN Err("toolarge", p3 + 4, mx)
              ELSE LET r == RdKids(b, p3 + 4, n, <<>>, want, IF t = "GC" THEN "" ELSE l, flavor, nan, lim, mx) IN
                   IF ~r.ok THEN r
                   ELSE IF t # "GC" THEN Ok(G([i \in DOMAIN r.kids |-> [r.kids[i] EXCEPT !.srid = <<>>]]), r.pos, r.mx)
                   ELSE IF Len(r.kids) > 0
                        THEN Ok([G(r.kids) EXCEPT !.l = FoldLeft(LAMBDA a, k : Join(a, k.l), "No", r.kids)], r.pos, r.mx)
                        ELSE Ok(G(r.kids), r.pos, r.mx)
Decode(b, flavor, nan, lim) == Dec(b, 0, flavor, nan, lim, 0)

\* structural well-formedness of a decoded tree (C04: "error or a structurally well-formed geometry")
RECURSIVE WFTree(_)
WFTree(g) ==
  LET st == Stride(g.l) IN
  CASE g.t = "PT" -> g.body = <<>> \/ Len(g.body) = st
    [] g.t = "LS" -> \A i \in DOMAIN g.body : Len(g.body[i]) = st
    [] g.t = "PG" -> \A i \in DOMAIN g.body : \A j \in DOMAIN g.body[i] : Len(g.body[i][j]) = st
    [] g.t = "GC" -> \A i \in DOMAIN g.body : WFTree(g.body[i])
    [] OTHER -> \A i \in DOMAIN g.body : g.body[i].l = g.l /\ WFTree(g.body[i])
====
