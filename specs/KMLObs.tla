---- MODULE KMLObs ----
(* model B for the KML renderer: what the real encoder wrote (read back by a generic XML reader) against KML!KmlOf. *)
EXTENDS KML, Json, IOUtils, TLC
Recs == ndJsonDeserialize(IOEnv.TRACEFILE)
\* (JSON has no tuples of different lengths problem here: kids and cs arrive as sequences; an element without children has <<>>)
Clause(r) ==
  CASE r.ev # "ok" -> r.ev
    [] r.err # "" -> "encode-error"
    [] r.bad # "" -> "malformed-document"
    [] NormZ(r.tree, {r.zeros[k] : k \in DOMAIN r.zeros}) # NormZ(KmlOf(r.case.g), {r.zeros[k] : k \in DOMAIN r.zeros}) ->
         (IF r.tree.n # KmlOf(r.case.g).n THEN "root-element"
          ELSE IF Positions(r.tree) # NumCoordsOf(r.case.g) THEN "number-of-positions"
          ELSE "tree-or-ordinates")
    [] OTHER -> "ok"
VARIABLES i, bad
Init == i = 1 /\ bad = 0
Next == /\ i <= Len(Recs)
        /\ LET w == Clause(Recs[i]) IN
           /\ IF w = "ok" THEN TRUE ELSE PrintT(<<"VIOL", ToJson([i |-> i, sig |-> "kml|" \o w \o "|" \o Recs[i].case.g.t])>>)
           /\ bad' = IF w = "ok" THEN bad ELSE bad + 1
        /\ i' = i + 1
Done == i = Len(Recs) + 1 => PrintT(<<"SUMMARY", ToJson([n |-> Len(Recs), bad |-> bad])>>)
====
