INIT Init
NEXT Next
INVARIANT Inv FormatRoundTrips
ACTION_CONSTRAINT Emit
CONSTANTS
  Family = "rolls"
  MaxLen = 6
  Rich = FALSE
