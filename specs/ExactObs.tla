---- MODULE ExactObs ----
(* model B for C10-C13, C15, C20 (TLC tier): every output recorded from the real functions is decided
   against the predicates of ExactGeom.  One record = one case of model A (or of a seeded generator) with
   all the rows the driver produced for it; the first violating row gives the signature. *)
EXTENDS ExactGeom, Json, IOUtils, TLC
Recs == ndJsonDeserialize(IOEnv.TRACEFILE)
MODE == IOEnv.MODE

GridPt(k, n) == <<(k - 1) \div n, (k - 1) % n>>
IntS(x) == ToString(x)
OK == [ok |-> TRUE, sig |-> "", row |-> 0]
Bad(s, k) == [ok |-> FALSE, sig |-> s, row |-> k]
FirstOf(S) == CHOOSE k \in S : \A m \in S : k <= m

\* ---------------------------------------------------------------- C10
VOrient(r) ==
  LET n == r.case.n
      bad == {k \in DOMAIN r.res : LET w == Orient(r.case.a, r.case.b, GridPt(k, n)) IN r.res[k][1] # w \/ r.res[k][2] # w} IN
  IF r.pan # <<>> THEN Bad("orient|panic", 0)
  ELSE IF Len(r.res) # n * n THEN Bad("orient|short", 0)
  ELSE IF bad = {} THEN OK
  ELSE LET k == FirstOf(bad)  w == Orient(r.case.a, r.case.b, GridPt(k, n)) IN
       Bad("orient|grid|" \o (IF r.res[k][1] # w THEN "bigxy" ELSE "xy") \o "|want=" \o IntS(w), k)

\* ---------------------------------------------------------------- C11
Close(vs) == Append(vs, vs[1])
\* query points: the whole n x n grid (model A cases), or the explicit list qs (seeded large-grid cases)
NQ(r) == IF "qs" \in DOMAIN r.case THEN Len(r.case.qs) ELSE r.case.n * r.case.n
QPt(r, k) == IF "qs" \in DOMAIN r.case THEN r.case.qs[k] ELSE GridPt(k, r.case.n)
VLocate(r) ==
  LET ring == Close(r.case.ring)
      want(k) == Locate(QPt(r, k), ring)
      badloc == {k \in DOMAIN r.loc : \E v \in DOMAIN r.loc[k] : r.loc[k][v] # want(k)}
      badin  == {k \in DOMAIN r.inring : r.inring[k] # (want(k) # "exterior")}
      badon  == {k \in DOMAIN r.online : r.online[k] # OnLine(QPt(r, k), ring)}
      badsg  == {k \in DOMAIN r.onseg1 : r.onseg1[k] # OnSeg(QPt(r, k), ring[1], ring[2])}
      \* the same predicates on the reversed / duplicated ring, with extra ordinates, on the open linestring; "panic" equals neither
      BoolS(b) == IF b THEN "true" ELSE "false"
      open == SubSeq(ring, 1, Len(ring) - 1)
      badinv == {k \in DOMAIN r.inringv : \E v \in DOMAIN r.inringv[k] : r.inringv[k][v] # BoolS(want(k) # "exterior")}
      badonv == {k \in DOMAIN r.onlinev : \/ r.onlinev[k][1] # BoolS(OnLine(QPt(r, k), ring))
                                            \/ r.onlinev[k][2] # BoolS(OnLine(QPt(r, k), ring))
                                            \/ r.onlinev[k][3] # BoolS(OnLine(QPt(r, k), open))}
      badsgv == {k \in DOMAIN r.onsegv : \E v \in DOMAIN r.onsegv[k] : r.onsegv[k][v] # BoolS(OnSeg(QPt(r, k), ring[1], ring[2]))} IN
  IF Len(r.loc) # NQ(r) THEN Bad("locate|short", 0)
  ELSE IF badinv # {} THEN Bad("locate|IsPointInRing|variant", FirstOf(badinv))
  ELSE IF badonv # {} THEN Bad("locate|IsOnLine|variant", FirstOf(badonv))
  ELSE IF badsgv # {} THEN Bad("locate|PointIntersectsLine|variant", FirstOf(badsgv))
  ELSE IF badloc # {} THEN
         LET k == FirstOf(badloc)  v == FirstOf({v \in DOMAIN r.loc[k] : r.loc[k][v] # want(k)}) IN
         Bad("locate|ring|variant" \o IntS(v) \o "|got=" \o r.loc[k][v] \o "|want=" \o want(k), k)
  ELSE IF badin # {} THEN Bad("locate|IsPointInRing", FirstOf(badin))
  ELSE IF badon # {} THEN Bad("locate|IsOnLine", FirstOf(badon))
  ELSE IF badsg # {} THEN Bad("locate|PointIntersectsLine", FirstOf(badsg))
  ELSE OK

\* ---------------------------------------------------------------- C12
SQ == 1024
\* exact rendering "m:e" of a small non-negative integer, as the recorder writes it (odd mantissa)
RECURSIVE OddPart(_, _)
OddPart(m, e) == IF m % 2 = 0 /\ m # 0 THEN OddPart(m \div 2, e + 1) ELSE <<m, e>>
ExactOf(v) == IF v = 0 THEN "0:0" ELSE LET oe == OddPart(v, 0) IN ToString(oe[1]) \o ":" \o ToString(oe[2])
ExactAt(p, e) == p[1].t = "num" /\ p[2].t = "num" /\ p[1].x = ExactOf(e[1]) /\ p[2].x = ExactOf(e[2])
Near(p, cp) ==       \* |p - cp| <= 2/SQ in both ordinates, cp = <<xn, yn, den>>
  /\ p[1].t = "num" /\ p[2].t = "num"
  /\ Abs(p[1].q * cp[3] - cp[1] * SQ) <= 2 * Abs(cp[3])
  /\ Abs(p[2].q * cp[3] - cp[2] * SQ) <= 2 * Abs(cp[3])
SegRow(a, b, row) ==
  LET c == row.c  d == row.d  k == SegSegClass(a, b, c, d)  sh == SharedEnds(a, b, c, d) IN
  CASE row.ev # "ok" -> "panic"
    [] row.t # k -> "class|got=" \o row.t \o "|want=" \o k
    [] row.has # (k # "none") -> "HasIntersection"
    [] row.nr # (k # "none") -> "nonrobust-has|want=" \o k
    [] k = "none" -> (IF row.p = <<>> THEN "ok" ELSE "points-for-none")
    [] k = "point" ->
         IF Len(row.p) # 1 THEN "point-count"
         ELSE IF sh # {} THEN
                \* an endpoint lies on the other segment: that endpoint IS the intersection
                (IF \E e \in sh : ExactAt(row.p[1], e) THEN "ok"
                 ELSE IF \E e \in sh : e \in {<<a[1], a[2]>>, <<b[1], b[2]>>} /\ e \in {<<c[1], c[2]>>, <<d[1], d[2]>>}
                      THEN "shared-endpoint-not-exact"
                      ELSE IF \E e \in sh : Near(row.p[1], <<e[1], e[2], 1>>) THEN "ok" ELSE "touch-point-wrong")
              ELSE (IF Near(row.p[1], CrossPt(a, b, c, d)) THEN "ok" ELSE "crossing-point-wrong")
    [] OTHER ->
         IF Len(row.p) # 2 THEN "overlap-count"
         ELSE IF \E e \in sh : \E f \in sh : e # f /\ ExactAt(row.p[1], e) /\ ExactAt(row.p[2], f) THEN "ok"
              ELSE "overlap-endpoints"
VSegSeg(r) ==
  LET bad == {k \in DOMAIN r.rows : SegRow(r.case.a, r.case.b, r.rows[k]) # "ok"} IN
  IF Len(r.rows) # r.case.n * r.case.n * (r.case.n * r.case.n - 1) THEN Bad("segseg|short", 0)
  ELSE IF bad = {} THEN OK
  ELSE LET k == FirstOf(bad) IN Bad("segseg|" \o SegRow(r.case.a, r.case.b, r.rows[k]), k)

\* ---------------------------------------------------------------- C13
HullOne(o, l, P) ==
  CASE o.kind = "panic" -> "panic"
    [] ~o.inputsame -> "input-modified"
    [] ~o.hint -> "non-input-vertex"
    [] ~IsHullOf(o.kind, o.h, P) ->
         (IF ~FromInput(o.h, P) THEN "vertex-not-from-input" ELSE "not-the-hull|" \o o.kind)
    [] o.hl # l -> "layout"
    [] o.kind = "Polygon" /\ o.rings # 1 -> "rings"
    [] OTHER -> "ok"
HullClass(P) == IF Cardinality(PtsXY(P)) = 1 THEN "coincident" ELSE IF AllCollinear(P) THEN "collinear"
                ELSE IF Len(P) > 50 THEN "general>50" ELSE "general"
VHull(r) ==
  LET P == r.pts  f == HullOne(r.flat, r.case.l, P)  g == HullOne(r.geom, r.case.l, P) IN
  IF f # "ok" THEN Bad("hull|ConvexHullFlat|" \o f \o "|" \o HullClass(P), 1)
  ELSE IF g # "ok" THEN Bad("hull|ConvexHull|" \o g \o "|" \o HullClass(P), 2)
  ELSE OK

\* ---- the set / order components under the hull
VSetOrder(r) ==
  LET P == r.pts IN
  CASE r.pan # "" -> Bad("setorder|panic", 0)
    [] ~r.inputsame -> Bad("setorder|input-modified", 0)
    [] ~IsUniqueOf(r.unique, P) -> Bad("setorder|transform.UniqueCoords", 1)
    [] ~IsSortedSetOf(r.treeset, P) -> Bad("setorder|transform.TreeSet", 2)
    [] ~IsSortOf(r.sorted, P) -> Bad("setorder|sorting.FlatCoord", 3)
    [] OTHER -> OK

\* ---------------------------------------------------------------- C15
DQ == 256
\* "zero when the sets touch or cross" is read together with "to within rounding error": a crossing found
\* through a computed parameter (3-D) may come out as 1e-17, which the fixed-point bound accepts
DistOK(o, want) ==
  /\ o.t = "num"
  /\ WithinFixed(o.q, 1, DQ, want)
DistWhy(o, want) == IF o.t # "num" THEN o.t ELSE IF want[1] = 0 THEN "nonzero-for-touching" ELSE "wrong-value"
Fn2P == <<"DistanceFromPointToLine", "DistanceFromPointToLine(reversed)", "DistanceFromPointToLineString",
          "DistanceFromPointToLineString(xyz)", "PerpendicularDistanceFromPointToLine">>
Fn2S == <<"DistanceFromLineToLine", "DistanceFromLineToLine(swapped)", "DistanceFromLineToLine(reversed)", "DistanceFromLineToLine(xyz)">>
Fn2L == <<"DistanceFromPointToLineString(a-b-c)", "DistanceFromPointToLineString(c-b-a)", "DistanceFromPointToLineString(xym,a-b-c)">>
Fn3P == <<"DistancePointToLine", "DistancePointToLine(reversed)", "Distance">>
Fn3S == <<"DistanceLineToLine", "DistanceLineToLine(swapped)", "DistanceLineToLine(reversed)">>
SegClass(a, b, c, d) == IF a = b /\ c = d THEN "both-degenerate" ELSE IF a = b THEN "first-degenerate"
                        ELSE IF c = d THEN "second-degenerate" ELSE "general"
VDist2(r) ==
  LET a == r.case.a  b == r.case.b
      wantP(row, f) == IF f = 5 THEN SqDistPtLine2(row.p, a, b) ELSE SqDistPtSeg2(row.p, a, b)
      badP == {<<k, f>> \in (DOMAIN r.pt) \X (1..5) : ~(f = 5 /\ a = b) /\ ~DistOK(r.pt[k].r[f], wantP(r.pt[k], f))}
      badS == {<<k, f>> \in (DOMAIN r.seg) \X (1..4) : ~DistOK(r.seg[k].r[f], SqDistSegSeg2(a, b, r.seg[k].c, r.seg[k].d))} IN
  IF badP # {} THEN LET kf == CHOOSE x \in badP : \A y \in badP : x[1] < y[1] \/ (x[1] = y[1] /\ x[2] <= y[2]) IN
       Bad("dist|xy." \o Fn2P[kf[2]] \o "|" \o DistWhy(r.pt[kf[1]].r[kf[2]], wantP(r.pt[kf[1]], kf[2]))
           \o "|" \o (IF a = b THEN "degenerate" ELSE "general"), kf[1])
  ELSE IF badS # {} THEN LET kf == CHOOSE x \in badS : \A y \in badS : x[1] < y[1] \/ (x[1] = y[1] /\ x[2] <= y[2]) IN
       Bad("dist|xy." \o Fn2S[kf[2]] \o "|" \o DistWhy(r.seg[kf[1]].r[kf[2]], SqDistSegSeg2(a, b, r.seg[kf[1]].c, r.seg[kf[1]].d))
           \o "|" \o SegClass(a, b, r.seg[kf[1]].c, r.seg[kf[1]].d), kf[1])
  ELSE LET wantL(row) == SqDistPtLineString2(row.p, <<a, b, row.c>>)          \* three-vertex linestrings a-b-c
           badL == {<<k, f>> \in (DOMAIN r.pls) \X (1..3) : ~DistOK(r.pls[k].r[f], wantL(r.pls[k]))} IN
       IF badL # {} THEN LET kf == CHOOSE x \in badL : \A y \in badL : x[1] < y[1] \/ (x[1] = y[1] /\ x[2] <= y[2]) IN
            Bad("dist|xy." \o Fn2L[kf[2]] \o "|" \o DistWhy(r.pls[kf[1]].r[kf[2]], wantL(r.pls[kf[1]])) \o "|three-vertices", kf[1])
       ELSE OK
\* which input class a 3-D segment pair falls in (for the signature): where the unconstrained optimum lies
OptClass(a, b, c, d) ==
  LET u == Sub3(b, a)  v == Sub3(d, c)  w == Sub3(a, c)
      A == Dot3(u, u)  B == Dot3(u, v)  C == Dot3(v, v)  D == Dot3(u, w)  E == Dot3(v, w)
      den == A * C - B * B  sn == B * E - C * D  tn == A * E - B * D IN
  IF a = b \/ c = d THEN SegClass(a, b, c, d)
  ELSE IF den = 0 THEN "parallel"
  ELSE IF 0 <= sn /\ sn <= den /\ 0 <= tn /\ tn <= den THEN "optimum-inside"
  ELSE "optimum-outside"
VDist3(r) ==
  LET a == r.case.a  b == r.case.b
      wantP(row, f) == IF f = 3 THEN <<Dot3(Sub3(row.p, a), Sub3(row.p, a)), 1>> ELSE SqDistPtSeg3(row.p, a, b)
      badP == {<<k, f>> \in (DOMAIN r.pt) \X (1..3) : ~DistOK(r.pt[k].r[f], wantP(r.pt[k], f))}
      badS == {<<k, f>> \in (DOMAIN r.seg) \X (1..3) : ~DistOK(r.seg[k].r[f], SqDistSegSeg3(a, b, r.seg[k].c, r.seg[k].d))} IN
  IF badP # {} THEN LET kf == CHOOSE x \in badP : \A y \in badP : x[1] < y[1] \/ (x[1] = y[1] /\ x[2] <= y[2]) IN
       Bad("dist|xyz." \o Fn3P[kf[2]] \o "|" \o DistWhy(r.pt[kf[1]].r[kf[2]], wantP(r.pt[kf[1]], kf[2]))
           \o "|" \o (IF a = b THEN "degenerate" ELSE "general"), kf[1])
  ELSE IF badS # {} THEN LET kf == CHOOSE x \in badS : \A y \in badS : x[1] < y[1] \/ (x[1] = y[1] /\ x[2] <= y[2])
                             row == r.seg[kf[1]]
                             \* the class is that of the call as it was made (arguments swapped for variant 2)
                             cls == IF kf[2] = 2 THEN OptClass(row.c, row.d, a, b) ELSE OptClass(a, b, row.c, row.d) IN
       Bad("dist|xyz.DistanceLineToLine|" \o DistWhy(row.r[kf[2]], SqDistSegSeg3(a, b, row.c, row.d)) \o "|" \o cls, kf[1])
  ELSE OK

\* ---------------------------------------------------------------- C20
\* The pending intervals of Douglas-Peucker as a state machine (trace validation of the verif hook: one event
\* <<start, end, maxIndex, ...>> per processed interval).  Each event must be a step the specification allows:
\* if the largest exact distance of an interior point exceeds the threshold the interval is split at A farthest
\* point (ties may be broken either way), if it is smaller the interval is dropped, if it is exactly equal either
\* is allowed (float rounding); at the end nothing is pending and the retained points are exactly the result.
RGt(p, q) == p[1] * q[2] > q[1] * p[2]
REq(p, q) == p[1] * q[2] = q[1] * p[2]
\* The order in which pending intervals are processed and the representation of the stack are NOT prescribed (a
\* refactoring to recursion or to left-first order must not raise an alarm): the logged interval must be SOME pending
\* interval; it counts as split when its logged farthest point is one of the returned indexes.
RECURSIVE RdpRun(_, _, _, _, _, _, _)
RdpRun(P, T2, pending, kept, evs, k, Idx) ==
  \* (intervals without interior points need not be visited, or logged, at all)
  IF k > Len(evs) THEN [why |-> IF \A iv \in pending : iv[2] <= iv[1] + 1 THEN "ok" ELSE "intervals-left-unprocessed", kept |-> kept]
  ELSE
    LET ev == evs[k]  s == ev[1]  e == ev[2]
        inner == {i \in (s + 1)..(e - 1) : TRUE}
        \* all distances of one interval over the common denominator l2 (the squared chord length; 1 for a zero-length
        \* chord), so that they are compared without cross-multiplying (32-bit integers)
        l2 == LET c == Dot2(Sub2(P[e + 1], P[s + 1]), Sub2(P[e + 1], P[s + 1])) IN IF c = 0 THEN 1 ELSE c
        N(i) == LET d == SqDistPtSeg2(P[i + 1], P[s + 1], P[e + 1]) IN IF d[2] = 1 THEN d[1] * l2 ELSE d[1]
        far == {i \in inner : \A j \in inner : N(j) <= N(i)}
        split == ev[3] \in Idx /\ s < ev[3] /\ ev[3] < e IN
    IF <<s, e>> \notin pending THEN [why |-> "interval-was-not-pending", kept |-> kept]
    ELSE IF inner = {} THEN RdpRun(P, T2, pending \ {<<s, e>>}, kept, evs, k + 1, Idx)
    ELSE LET M == <<N(CHOOSE i \in far : TRUE), l2>> IN
         IF split
         THEN IF ~(RGt(M, T2) \/ REq(M, T2)) THEN [why |-> "split-below-threshold", kept |-> kept]
              ELSE IF ev[3] \notin far THEN [why |-> "split-not-at-a-farthest-point", kept |-> kept]
              ELSE RdpRun(P, T2, (pending \ {<<s, e>>}) \cup {<<s, ev[3]>>, <<ev[3], e>>}, kept \cup {ev[3]}, evs, k + 1, Idx)
         ELSE IF RGt(M, T2) THEN [why |-> "interval-dropped-although-a-point-exceeds-the-threshold", kept |-> kept]
              ELSE RdpRun(P, T2, pending \ {<<s, e>>}, kept, evs, k + 1, Idx)
SmallCoords(P) == \A i \in DOMAIN P : -40 <= P[i][1] /\ P[i][1] <= 40 /\ -40 <= P[i][2] /\ P[i][2] <= 40       \* keeps every product within 32 bits
TraceWhy(r, T2n, T2d) ==
  LET P == r.case.pts  n == Len(P) IN
  \* no events at all: the code path does not go through the instrumented loop (trivial input, or a refactoring that
  \* bypasses it); the property is then decided by ValidSimplification alone - never an alarm
  IF r.dp = <<>> THEN "ok"
  ELSE IF n < 3 THEN "ok"                  \* (routing a trivial input through the worker is harmless)
  ELSE LET res == RdpRun(P, <<T2n, T2d>>, {<<0, n - 1>>}, {0, n - 1}, r.dp, 1, {r.idx[k] : k \in DOMAIN r.idx}) IN
       IF res.why # "ok" THEN res.why
       ELSE IF {r.idx[k] : k \in DOMAIN r.idx} # res.kept THEN "result-is-not-the-retained-set" ELSE "ok"
VRdp(r) ==
  LET T2n == r.case.thr[1] * r.case.thr[1]  T2d == r.case.thr[2] * r.case.thr[2] IN
  IF r.ev # "ok" THEN Bad("rdp|panic", 0)
  ELSE IF r.msg # "" THEN Bad("rdp|" \o r.msg, 0)
  ELSE IF ~r.inputsame THEN Bad("rdp|input-modified", 0)
  ELSE IF ~ValidSimplification(r.case.pts, T2n, T2d, r.idx) THEN
         Bad("rdp|invalid|" \o (IF T2n = 0 THEN "thr=0" ELSE "thr>0"), 1)
  ELSE IF r.idx2 # [k \in DOMAIN r.idx |-> k - 1] THEN Bad("rdp|not-a-fixed-point", 2)
  ELSE IF Len(r.dp) < 5000 /\ SmallCoords(r.case.pts) /\ TraceWhy(r, T2n, T2d) # "ok" THEN Bad("rdp|trace|" \o TraceWhy(r, T2n, T2d), 3)
  ELSE OK

\* a history: lines simplified one after the other by one process; each result is judged as if it were the only call
VRdpSeq(r) ==
  LET one(k) == VRdp([case |-> r.case.seq[k]] @@ r.seq[k])
      badk == {k \in DOMAIN r.seq : ~one(k).ok} IN
  IF Len(r.seq) # Len(r.case.seq) THEN Bad("rdp|history|short", 0)
  ELSE IF badk = {} THEN OK
  ELSE Bad(one(FirstOf(badk)).sig \o "|after-earlier-calls", FirstOf(badk))
Verdict(r) ==
  IF MODE = "rdpseq" THEN (IF r.ev # "ok" THEN Bad("rdp|history|" \o r.ev, 0) ELSE VRdpSeq(r))
  ELSE IF r.ev # "ok" /\ MODE # "rdp" THEN Bad(MODE \o "|" \o r.ev, 0)
  ELSE CASE MODE = "orient" -> VOrient(r)
         [] MODE = "locate" -> VLocate(r)
         [] MODE = "segseg" -> VSegSeg(r)
         [] MODE = "hull"   -> VHull(r)
         [] MODE = "setorder" -> VSetOrder(r)
         [] MODE = "dist2"  -> VDist2(r)
         [] MODE = "dist3"  -> VDist3(r)
         [] MODE = "rdp"    -> VRdp(r)

VARIABLES i, bad
Init == i = 1 /\ bad = 0
Next == /\ i <= Len(Recs)
        /\ LET v == Verdict(Recs[i]) IN
           /\ IF v.ok THEN TRUE ELSE PrintT(<<"VIOL", ToJson([i |-> i, sig |-> v.sig, row |-> v.row])>>)
           /\ bad' = IF v.ok THEN bad ELSE bad + 1
        /\ i' = i + 1
Done == i = Len(Recs) + 1 => PrintT(<<"SUMMARY", ToJson([n |-> Len(Recs), bad |-> bad])>>)
====
