INIT Init
NEXT Next
INVARIANT Laws Emit
CONSTANTS
  Family = "locate"
  N = 4
  K = 4
