INIT Init
NEXT Next
INVARIANT Laws Emit
CONSTANTS
  Family = "segseg"
  N = 4
  K = 0
