INIT Init
NEXT Next
INVARIANT NoPanic StackNonEmpty AcceptedAtTop TreeTotal
ACTION_CONSTRAINT Emit

CONSTANTS
  MaxLen = 15
  PruneSyn = TRUE
  KeywordsUsed <- KwLines
  PointsUsed <- PtsLines
  PunctsUsed <- PunctNoErr
  EmitRejects = FALSE
