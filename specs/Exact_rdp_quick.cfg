INIT Init
NEXT Next
INVARIANT Laws Emit
CONSTANTS
  Family = "rdp"
  N = 3
  K = 4
