---- MODULE StorageModel ----
(* model A for Storage: Go slice expressions and append on one backing array of N cells, every pair of slices derived from it.
   Checks the laws the C16 rule rests on: (1) Meet is symmetric and irreflexive only for empty ranges; (2) append to a slice
   with room writes inside its own range, so it can only be seen by slices that Meet it - and IS seen by a slice whose range
   covers the written cell once that slice grows or already has the length; (3) clipping the capacity (s[i:j:j]) makes append
   leave the range alone.  The memory is explicit: cells hold values, slices are <<lo, hi, len>>. *)
EXTENDS Storage, TLC
CONSTANT N
Cells == 0..(N - 1)
Slices == {<<lo, hi, ln>> \in (0..N) \X (0..N) \X (0..N) : lo < hi /\ ln <= hi - lo}
VARIABLES mem, a, b, fresh
vars == <<mem, a, b, fresh>>
Init == /\ mem = [c \in Cells |-> 0]
        /\ a \in Slices /\ b \in Slices
        /\ fresh = FALSE
\* append(a, 7): in place when there is room, otherwise to a new array (modelled by "fresh": a no longer lives in mem)
AppendA == /\ ~fresh
           /\ IF a[3] < Hi(a) - Lo(a)
              THEN /\ mem' = [mem EXCEPT ![Lo(a) + a[3]] = 7]
                   /\ a' = <<Lo(a), Hi(a), a[3] + 1>>
                   /\ UNCHANGED <<b, fresh>>
              ELSE /\ fresh' = TRUE /\ UNCHANGED <<mem, a, b>>
\* b grows by re-slicing within its capacity (what a later append by b's owner would read or overwrite)
GrowB == /\ b[3] < Hi(b) - Lo(b) /\ b' = <<Lo(b), Hi(b), b[3] + 1>> /\ UNCHANGED <<mem, a, fresh>>
Next == AppendA \/ GrowB
Spec == Init /\ [][Next]_vars
\* what b can read: the cells of its length
Reads(s) == {Lo(s) + k : k \in 0..(s[3] - 1)}
Symmetric == Meet(a, b) = Meet(b, a)
\* a write by a that b can ever read, or that lands where b would append, happens only if the ranges meet
NoMeetNoEffect == [][(AppendA /\ ~Meet(a, b)) => \A c \in Lo(b)..(Hi(b) - 1) : mem'[c] = mem[c]]_vars
\* and if they meet in the cell that is written, b's range contains the change (non-vacuity of the rule)
MeetCanShow == [][(AppendA /\ ~fresh' /\ a' # a /\ Lo(a) + a[3] \in Lo(b)..(Hi(b) - 1)) => mem'[Lo(a) + a[3]] = 7 /\ Meet(a, b)]_vars
\* a clipped slice (capacity = length) never writes in place
ClippedAppendsElsewhere == [][(AppendA /\ a[3] = Hi(a) - Lo(a)) => mem' = mem]_vars
====
