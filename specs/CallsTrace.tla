---- MODULE CallsTrace ----
(* C17, trace validation: the event log of the real code (one event per call, written at the call's return -
   the linearization point of a sequential library - plus the race detector's reports appended by the
   orchestrator) must be a behaviour of the Calls design: arguments and package variables keep their initial
   snapshot across every call (Pure), a result object overwritten by its caller changes no argument (scrib events), every call returns what the same call returned when it ran alone
   (SequentialResults; the table of sequential results is built from the sequential pass of the same log,
   where every call is made twice and must agree with itself), and there is no data-race report whose
   writing access is in library code.  Under concurrency a snapshot per call would not be atomic: there the log has
   ONE final snapshot per argument, taken after all goroutines have finished; it must equal the initial one, and
   (event "end", appended by the orchestrator) EVERY argument of the log must have had its final snapshot - geometries
   as well as the Bounds / Feature / byte-slice values that travel with them inside the same snapshot.
   Violating events are listed, the run does not stop at the first. *)
EXTENDS Integers, Sequences, SequencesExt, TLC, Json, IOUtils
Trace == ndJsonDeserialize(IOEnv.TRACEFILE)
VARIABLES i, bad, shared, dirty, finals
Key(e) == e.op \o "@" \o e.arg
Has(f, x) == x \in DOMAIN f
\* the table of sequential results: for every (operation, argument) the result of the FIRST sequential call in the log
\* (a constant of the log - TLC evaluates it once - so it is not carried in the state)
table == FoldLeft(LAMBDA t, e : IF e.ev = "seq" /\ ~Has(t, Key(e)) THEN (Key(e) :> e.res) @@ t ELSE t, <<>>, Trace)
\* An operation made on an object with a history of its own (an encoder value that has already been used, also for a call
\* that failed half way) and the same operation on a new object: "exactly the result it returns when run alone".
\* Results are values: the encoders' results for an argument, digested after every encoder has been called again for another
\* geometry ("kept"), are what they were at the return ("now").
AloneOf == ("wkt.Encoder.reused" :> "wkt.Encoder.alone") @@ ("encoders.kept" :> "encoders.now")
Init == i = 1 /\ bad = 0 /\ shared = <<>> /\ dirty = {} /\ finals = {}
\* Only the call that CAUSES a deviation is blamed: once an argument has been modified (dirty), later calls on
\* it are not compared any more - their results and snapshots are consequences, not further violations.
Why(e) ==
  CASE e.ev = "init" -> "ok"
    [] e.ev = "seq" ->
         IF ~Has(shared, e.arg) THEN "unknown-argument"
         ELSE IF e.arg \in dirty THEN "ok"
         ELSE IF e.pre # shared[e.arg] THEN "argument-modified-between-calls"
         ELSE IF e.post # e.pre THEN "argument-modified|" \o e.op
         ELSE IF Has(table, Key(e)) /\ table[Key(e)] # e.res THEN "result-depends-on-history|" \o e.op
         ELSE IF Has(AloneOf, e.op) /\ Has(table, AloneOf[e.op] \o "@" \o e.arg) /\ table[AloneOf[e.op] \o "@" \o e.arg] # e.res
              THEN "result-depends-on-history|" \o e.op
         ELSE "ok"
    [] e.ev = "scrib" ->      \* the caller overwrote the object that a call had returned: results are made of fresh storage
         IF ~Has(shared, e.arg) THEN "unknown-argument"
         ELSE IF e.arg \in dirty THEN "ok"
         ELSE IF e.post # e.pre THEN "result-shares-storage-with-argument|" \o e.op
         ELSE "ok"
    [] e.ev = "conc" ->
         IF e.arg \in dirty THEN "ok"
         ELSE IF ~Has(table, Key(e)) THEN "no-sequential-result|" \o e.op
         ELSE IF table[Key(e)] # e.res THEN "concurrent-result-differs|" \o e.op
         ELSE "ok"
    [] e.ev = "final" ->
         IF ~Has(shared, e.arg) THEN "unknown-argument"
         ELSE IF e.arg \in dirty THEN "ok"
         ELSE IF e.pre = shared[e.arg] THEN "ok" ELSE "argument-modified-under-concurrency"
    [] e.ev = "end" ->        \* the final-snapshot rule has covered every argument of the log
         IF DOMAIN shared \subseteq finals THEN "ok" ELSE "argument-without-final-snapshot"
    [] e.ev = "race" -> "data-race|" \o e.op
    [] OTHER -> "unknown-event"
Next == /\ i <= Len(Trace)
        /\ LET e == Trace[i]  w == Why(e) IN
           /\ IF w = "ok" THEN TRUE ELSE PrintT(<<"VIOL", ToJson([i |-> i, sig |-> "calls|" \o w, arg |-> e.arg])>>)
           /\ bad' = IF w = "ok" THEN bad ELSE bad + 1
           /\ shared' = IF e.ev = "init" THEN (e.arg :> e.pre) @@ shared ELSE shared
           /\ finals' = IF e.ev = "final" THEN finals \cup {e.arg} ELSE finals
           /\ dirty' = IF e.ev \in {"seq", "scrib"} /\ Has(shared, e.arg) /\ (e.pre # shared[e.arg] \/ e.post # e.pre) THEN dirty \cup {e.arg} ELSE dirty
        /\ i' = i + 1
Done == i = Len(Trace) + 1 => PrintT(<<"SUMMARY", ToJson([n |-> Len(Trace), bad |-> bad])>>)
====
