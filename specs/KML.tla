---- MODULE KML ----
(* KML rendering of a geometry tree (the third renderer over the trees of WKTRender: G(t, l, body)); beyond the listed
   properties (./check EXTRA).  A KML document is an element tree; positions are "lon,lat[,alt]" tuples, so a layout with M
   loses M and anything beyond the third ordinate is not written:
     Point / LineString: one <coordinates> child; Polygon: <outerBoundaryIs> for the first ring, <innerBoundaryIs> for every
     further one, each holding a <LinearRing>; every multi-geometry and collection: <MultiGeometry> with one child per
     member, in order (a member polygon without rings is an empty <Polygon>).
   KML has no empty Point: whether an EMPTY member of a MultiPoint (or an EMPTY Point in a collection) is written as a
   <Point> with empty coordinates or left out is open - both sides are compared after Norm, which removes them. *)
EXTENDS WKTRender
KDim(l) == IF l \in {"XY", "XYM"} THEN 2 ELSE 3
Cut(c, l) == SubSeq(c, 1, KDim(l))
El(n, kids) == [n |-> n, kids |-> kids, cs |-> <<>>]
Co(cs, l) == [n |-> "coordinates", kids |-> <<>>, cs |-> [i \in DOMAIN cs |-> Cut(cs[i], l)]]
PointEl(c, l) == El("Point", <<Co(IF c = <<>> \/ c = NILPT THEN <<>> ELSE <<c>>, l)>>)
LineEl(cs, l) == El("LineString", <<Co(cs, l)>>)
RingEl(cs, l) == El("LinearRing", <<Co(cs, l)>>)
PolyEl(rings, l) == El("Polygon", [i \in DOMAIN rings |->
                       El(IF i = 1 THEN "outerBoundaryIs" ELSE "innerBoundaryIs", <<RingEl(rings[i], l)>>)])
RECURSIVE KmlOf(_)
KmlOf(g) ==
  CASE g.t = "PT"  -> PointEl(g.body, g.l)
    [] g.t = "LS"  -> LineEl(g.body, g.l)
    [] g.t = "PG"  -> PolyEl(g.body, g.l)
    [] g.t = "MPT" -> El("MultiGeometry", [i \in DOMAIN g.body |-> PointEl(g.body[i], g.l)])
    [] g.t = "MLS" -> El("MultiGeometry", [i \in DOMAIN g.body |-> LineEl(g.body[i], g.l)])
    [] g.t = "MPG" -> El("MultiGeometry", [i \in DOMAIN g.body |-> PolyEl(g.body[i], g.l)])
    [] g.t = "GC"  -> El("MultiGeometry", [i \in DOMAIN g.body |-> KmlOf(g.body[i])])
IsEmptyPoint(e) == e.n = "Point" /\ Len(e.kids) = 1 /\ e.kids[1].n = "coordinates" /\ e.kids[1].cs = <<>>
\* "lon,lat" is "lon,lat,0": an altitude of zero (Z: the identifiers that denote 0 or -0) may be left out
NormPos(t, Z) == IF Len(t) = 3 /\ t[3] \in Z THEN SubSeq(t, 1, 2) ELSE t
RECURSIVE NormZ(_, _)
NormZ(e, Z) == [n |-> e.n, cs |-> [i \in DOMAIN e.cs |-> NormPos(e.cs[i], Z)],
                kids |-> LET ks == IF e.n = "MultiGeometry" THEN SelectSeq(e.kids, LAMBDA k : ~IsEmptyPoint(k)) ELSE e.kids IN
                         [i \in DOMAIN ks |-> NormZ(ks[i], Z)]]
Norm(e) == NormZ(e, {})
\* design laws (checked by TLC on every tree of the render model): the number of positions written is the number of
\* coordinates of the geometry; every position has 2 or 3 ordinates; the tree has one leaf <coordinates> per linear part
RECURSIVE Positions(_)
Positions(e) == IF e.n = "coordinates" THEN Len(e.cs)
                ELSE LET RECURSIVE Sum(_)
                         Sum(i) == IF i > Len(e.kids) THEN 0 ELSE Positions(e.kids[i]) + Sum(i + 1) IN Sum(1)
RECURSIVE SumInts(_)
SumInts(s) == IF s = <<>> THEN 0 ELSE Head(s) + SumInts(Tail(s))
RECURSIVE NumCoordsOf(_)
NumCoordsOf(g) ==
  CASE g.t = "PT"  -> IF g.body = <<>> THEN 0 ELSE 1
    [] g.t = "LS"  -> Len(g.body)
    [] g.t = "PG"  -> SumInts([i \in DOMAIN g.body |-> Len(g.body[i])])
    [] g.t = "MPT" -> SumInts([i \in DOMAIN g.body |-> IF g.body[i] = NILPT THEN 0 ELSE 1])
    [] g.t = "MLS" -> SumInts([i \in DOMAIN g.body |-> Len(g.body[i])])
    [] g.t = "MPG" -> SumInts([i \in DOMAIN g.body |-> SumInts([j \in DOMAIN g.body[i] |-> Len(g.body[i][j])])])
    [] g.t = "GC"  -> SumInts([i \in DOMAIN g.body |-> NumCoordsOf(g.body[i])])
KmlLaws(g) == Positions(KmlOf(g)) = NumCoordsOf(g) /\ Positions(Norm(KmlOf(g))) = NumCoordsOf(g)
====
