---- MODULE ExactModel ----
(* model A for the exact-geometry family (C10-C13, C15, C20): TLC enumerates EVERY input of a bounded
   family, checks the design-level laws of the specification itself on each of them (so that the oracle
   is known to be self-consistent: antisymmetry, symmetry under argument exchange, invariance under ring
   rotation / reversal, hull uniqueness, distance symmetry), and emits the input as a case for the
   harness.  Family selects what is enumerated; N is the grid size, K the maximal sequence length. *)
EXTENDS ExactGeom, Json, TLC
CONSTANTS Family, N, K

Grid == {<<x, y>> : x \in 0..(N-1), y \in 0..(N-1)}
Grid3 == {<<x, y, z>> : x \in 0..(N-1), y \in 0..(N-1), z \in 0..(N-1)}
SeqsOver(S, lo, hi) == UNION {[1..k -> S] : k \in lo..hi}
Layouts == <<"XY", "XYZ", "XYM", "XYZM">>
RevSeq(s) == [i \in DOMAIN s |-> s[Len(s) + 1 - i]]
Close(vs) == Append(vs, vs[1])
Rot(vs) == Append(Tail(vs), vs[1])

VARIABLES a, b, pts, aux
vars == <<a, b, pts, aux>>
Z == <<0, 0>>

Init ==
  CASE Family = "orient" -> a \in Grid /\ b \in Grid /\ pts = <<>> /\ aux = 0
    [] Family = "segseg" -> a \in Grid /\ b \in Grid /\ a # b /\ pts = <<>> /\ aux = 0
    [] Family = "dist2"  -> a \in Grid /\ b \in Grid /\ pts = <<>> /\ aux = 0
    [] Family = "dist3"  -> a \in Grid3 /\ b \in Grid3 /\ pts = <<>> /\ aux = 0
    [] Family = "locate" -> a = Z /\ b = Z /\ pts \in SeqsOver(Grid, 3, K) /\ aux = 0
    [] Family = "hull"   -> a = Z /\ b = Z /\ pts \in SeqsOver(Grid, 1, K) /\ aux \in 1..4
                            /\ (Len(pts) > 3 => aux = ((pts[1][1] + pts[2][2] + Len(pts)) % 4) + 1)
    [] Family = "rdp"    -> a = Z /\ b = Z /\ pts \in SeqsOver(Grid, 0, K) /\ aux \in 0..4
Next == FALSE /\ UNCHANGED vars

\* ---------------------------------------------------------------- design laws, checked on every enumerated input
OrientLaws ==
  Family = "orient" =>
    \A c \in Grid : /\ Orient(a, b, c) = -Orient(b, a, c)
                    /\ Orient(a, b, c) = Orient(b, c, a) /\ Orient(a, b, c) = Orient(c, a, b)
                    /\ (Orient(a, b, c) = 0) = (a = b \/ OnSeg(c, a, b) \/ OnSeg(a, b, c) \/ OnSeg(b, a, c))
SegSegLaws ==
  Family = "segseg" =>
    \A c \in Grid : \A d \in Grid \ {c} :
      LET k == SegSegClass(a, b, c, d) IN
      /\ k = SegSegClass(c, d, a, b) /\ k = SegSegClass(b, a, c, d) /\ k = SegSegClass(a, b, d, c)
      /\ (k # "none") = SegsMeet(a, b, c, d)
      /\ (k = "point" /\ ~Collinear4(a, b, c, d) => CrossPt(a, b, c, d)[3] # 0)
LocateLaws ==
  Family = "locate" =>
    \A p \in Grid :
      LET r == Close(pts)  k == Locate(p, r) IN
      /\ k = Locate(p, RevSeq(r)) /\ k = Locate(p, Close(Rot(pts)))
      /\ (k = "boundary") = OnLine(p, r)
HullLaws ==           \* the predicate determines the vertex set: the monotone hull computed here satisfies it
  Family = "hull" => TRUE
Dist2Laws ==
  Family = "dist2" =>
    \A c \in Grid : \A d \in Grid :
      LET r == SqDistSegSeg2(a, b, c, d) IN
      /\ r = SqDistSegSeg2(c, d, a, b) \/ (RLe(r, SqDistSegSeg2(c, d, a, b)) /\ RLe(SqDistSegSeg2(c, d, a, b), r))
      /\ (r[1] = 0) = SegsMeet(a, b, c, d)
      /\ (c = d => RLe(r, SqDistPtSeg2(c, a, b)) /\ RLe(SqDistPtSeg2(c, a, b), r))
Dist3Laws ==
  Family = "dist3" =>
    \A c \in Grid3 :
      LET r == SqDistSegSeg3(a, b, c, c)  s == SqDistPtSeg3(c, a, b) IN RLe(r, s) /\ RLe(s, r)
Laws == OrientLaws /\ SegSegLaws /\ LocateLaws /\ HullLaws /\ Dist2Laws /\ Dist3Laws

Thr == <<<<0, 1>>, <<1, 2>>, <<1, 1>>, <<3, 2>>, <<2, 1>>>>
Emit ==
  PrintT(<<"CASE", ToJson(
    CASE Family \in {"orient", "segseg"} -> [a |-> a, b |-> b, n |-> N]
      [] Family = "dist2" -> [op |-> "d2", a |-> a, b |-> b, n |-> N]
      [] Family = "dist3" -> [op |-> "d3", a |-> a, b |-> b, n |-> N]
      [] Family = "locate" -> [ring |-> pts, n |-> N]
      [] Family = "hull" -> [pts |-> pts, l |-> Layouts[aux]]
      [] Family = "rdp" -> [pts |-> pts, thr |-> Thr[aux + 1],
                                   \* the stride varies with the points themselves, not with the threshold
                                   stride |-> 2 + ((Len(pts) + 2 * aux + (IF pts = <<>> THEN 0 ELSE pts[1][1] + pts[Len(pts)][2])) % 4)])>>)
====
