---- MODULE GeomOpsObs ----
(* model B for C02 / C16 / C01: every behaviour recorded from the real code (the replay of a TLC-emitted
   edge, or a seeded random history) is checked against the specification.  MODE selects the property:
   C02  fold Apply over the history; the projection the Go API showed after EVERY step must agree with the
        specification state: flat/ends/endss = Deflate(value), Coords() = value, part accessors = parts,
        SRID, error class; the part objects that were pushed must be unchanged (no aliasing).
   C16  stated on the recorded projections alone (so that an unrelated defect in a mutator is not blamed
        on Clone): right after Clone the clone's projection equals the original's and the original is
        unchanged; after any other action aimed at one object the OTHER object's projection is unchanged.
   C01  every projection (objects and parts) is well formed and no accessor panics; after a successful
        SetCoords the target shows exactly the value that was set and its intended representation. *)
EXTENDS GeomOps, Json, IOUtils
Recs == ndJsonDeserialize(IOEnv.TRACEFILE)
MODE == IOEnv.MODE
ST == INSTANCE Storage

PoolOK(pool) == \A i \in DOMAIN pool :
   LET e == pool[i] IN /\ e.p.pan = <<>> /\ e.p.val = e.v /\ e.p.flat = Deflate(e.k, e.v).flat

\* ---------------------------------------------------------------- C02
StepAgrees(s, o) ==
  /\ o.err = s.err
  /\ o.o1.pan = <<>> /\ o.o2.pan = <<>>
  /\ Agrees(s.o[1], o.o1) /\ Agrees(s.o[2], o.o2)
  /\ PoolOK(o.pool)
RECURSIVE Check02(_, _, _, _)
Check02(s, hs, os, n) ==            \* 0 if all steps agree, else index of the first disagreeing step
  IF hs = <<>> THEN 0
  ELSE LET s1 == Apply(s, Head(hs)) IN
       IF StepAgrees(s1, Head(os)) THEN Check02(s1, Tail(hs), Tail(os), n + 1) ELSE n
RECURSIVE StateAt(_, _, _)
StateAt(s, hs, n) == IF n = 0 THEN s ELSE StateAt(Apply(s, Head(hs)), Tail(hs), n - 1)
Clause02(s, o) ==
  CASE o.err # s.err -> "err:" \o o.err
    [] o.o1.pan # <<>> \/ o.o2.pan # <<>> -> "panic-in-accessor"
    [] ~Agrees(s.o[1], o.o1) -> "obj1"
    [] ~Agrees(s.o[2], o.o2) -> "obj2"
    [] OTHER -> "pool-part-changed"

\* ---------------------------------------------------------------- C16 (on recorded projections only)
Prev(r, n) == IF n = 1 THEN r.init ELSE r.steps[n - 1]
Side(o, k) == IF k = 1 THEN o.o1 ELSE o.o2
StepOK16(r, n) ==
  LET a == r.case.hist[n]  o == r.steps[n]  p == Prev(r, n) IN
  \* (a Clone that panics is recorded in err; an accessor that panics on a faithful clone panics on the original too and is
  \* C01's business: the two projections are compared as they are)
  \* "shares no storage": right after Clone no slice of the clone occupies (with its capacity) an address range that a slice of
  \* the original occupies (Storage!Shares on the recorded ranges; recorded when the case asks for it)
  CASE a.op = "clone" -> o.err = "none" /\ o.o2 = o.o1 /\ o.o1 = p.o1 /\ ("sto" \in DOMAIN o => ST!Disjoint(o.sto.o1, o.sto.o2))
    [] a.op = "swap"  -> TRUE
    [] OTHER          -> Side(o, 3 - a.to) = Side(p, 3 - a.to)
First16(r) == LET bad == {n \in DOMAIN r.steps : ~StepOK16(r, n)} IN
              IF bad = {} THEN 0 ELSE CHOOSE n \in bad : \A m \in bad : n <= m

\* ---------------------------------------------------------------- C01
RECURSIVE WFAll(_)
WFAll(p) == /\ p.pan = <<>>
            /\ IF p.k = "GC" THEN \A i \in DOMAIN p.parts : WFAll(p.parts[i])
               ELSE WellFormedObj(p) /\ \A i \in DOMAIN p.parts : WFAll(p.parts[i])
StepOK01(r, n) ==
  LET a == r.case.hist[n]  o == r.steps[n] IN
  /\ WFAll(o.o1) /\ WFAll(o.o2)
  /\ (a.op \in {"setcoords", "newflat"} =>
        LET q == Side(o, a.to)  d == Deflate(q.k, a.v) IN
        /\ o.err = "none" /\ q.val = a.v /\ q.flat = d.flat /\ q.ends = d.ends /\ q.endss = d.endss)
  \* a value in which some coordinate has the wrong length is refused with a stride-mismatch error (what the receiver
  \* holds afterwards is not prescribed - only that it is well formed, which WFAll demands of every projection)
  /\ (a.op = "setbad" => o.err = "stride")
  \* the object's own coordinate views handed back in another order: what is read back is the OLD value in that order
  /\ (a.op = "setself" =>
        LET q == Side(o, a.to)  was == Side(Prev(r, n), a.to).val  d == Deflate(q.k, SelfOrder(was, a.how)) IN
        /\ o.err = "none" /\ q.val = SelfOrder(was, a.how) /\ q.flat = d.flat)
  \* SetCoords on a part handed out by an accessor: the part reads back the value; in the geometry it came from every OTHER
  \* part keeps its value, and the part itself keeps its value or (a part of the same size may be a window that is written
  \* through) shows the new one
  /\ (a.op = "setpart" =>
        LET q == Side(o, a.to)  was == Side(Prev(r, n), a.to)  m == a.pos + 1 IN
        IF Len(was.val) < m THEN o.o1 = Prev(r, n).o1 /\ o.o2 = Prev(r, n).o2        \* no such part: the call is not made
        ELSE
        /\ o.err = "none" /\ o.part.pan = <<>> /\ o.part.val = a.v
        /\ Side(o, 3 - a.to) = Side(Prev(r, n), 3 - a.to)
        /\ Len(q.val) = Len(was.val)
        /\ \A j \in DOMAIN was.val : j # m => q.val[j] = was.val[j]
        /\ (q.val[m] = was.val[m] \/ (q.val[m] = a.v /\ Len(Deflate(PartKind(q.k), a.v).flat) = Len(Deflate(PartKind(q.k), PartVal(q.k, was.val, m)).flat))))
First01(r) == LET bad == {n \in DOMAIN r.steps : ~StepOK01(r, n)} IN
              IF bad = {} THEN 0 ELSE CHOOSE n \in bad : \A m \in bad : n <= m
Clause01(r, n) == LET o == r.steps[n] IN
  CASE o.o1.pan # <<>> -> "panic:" \o o.o1.pan[1]
    [] o.o2.pan # <<>> -> "panic:" \o o.o2.pan[1]
    [] ~(WFAll(o.o1) /\ WFAll(o.o2)) -> "ill-formed"
    [] r.case.hist[n].op = "setbad" -> "wrong-length-coordinate-not-refused:" \o o.err
    [] r.case.hist[n].op = "setself" -> "own-coordinates-reordered-not-lossless"
    [] r.case.hist[n].op = "setpart" -> "part-setcoords-changes-neighbours"
    [] OTHER -> r.case.hist[n].op \o "-not-lossless"

LClass(l) == IF l = "No" THEN "No" ELSE "any"
S0(r) == IF "l2" \in DOMAIN r.case THEN St0x(r.case.k, r.case.l, r.case.l2) ELSE St0(r.case.k, r.case.l)
Verdict(r) ==
  \* a whole case that hangs or crashes: C01 / C02 report it; for C16 only if the history contains nothing but clones (then
  \* Clone is to blame) - a hang in Reverse or Push is not Clone's fault
  IF r.ev # "ok" /\ MODE = "C16" /\ (\E n \in DOMAIN r.case.hist : r.case.hist[n].op # "clone") THEN [ok |-> TRUE]
  ELSE IF r.ev # "ok" THEN [ok |-> FALSE, sig |-> "geomops|" \o r.ev \o "|" \o r.case.k \o "|" \o LClass(r.case.l)
                                              \o "|" \o r.case.hist[Len(r.case.hist)].op, step |-> 0]
  ELSE IF Len(r.steps) # Len(r.case.hist) THEN [ok |-> FALSE, sig |-> "geomops|short-trace", step |-> 0]
  ELSE CASE MODE = "C02" ->
         LET n == Check02(S0(r), r.case.hist, r.steps, 1) IN
         IF n = 0 THEN [ok |-> TRUE]
         ELSE LET s == StateAt(S0(r), r.case.hist, n) IN
              [ok |-> FALSE, step |-> n,
               sig |-> "geomops|" \o r.case.k \o "|" \o LClass(r.case.l) \o "|"
                       \o r.case.hist[n].op \o "|" \o Clause02(s, r.steps[n])]
       [] MODE = "C16" ->
         LET n == First16(r) IN
         IF n = 0 THEN [ok |-> TRUE]
         ELSE [ok |-> FALSE, step |-> n,
               sig |-> "clone|" \o r.case.k \o "|" \o LClass(r.case.l) \o "|" \o r.case.hist[n].op
                       \o (IF r.case.hist[n].op = "clone" /\ "sto" \in DOMAIN r.steps[n] /\ ST!Shares(r.steps[n].sto.o1, r.steps[n].sto.o2)
                           THEN "|shares-storage" ELSE "")]
       [] MODE = "C01" ->
         LET n == First01(r) IN
         IF n = 0 THEN [ok |-> TRUE]
         ELSE [ok |-> FALSE, step |-> n,
               sig |-> "wellformed|" \o r.case.k \o "|" \o LClass(r.case.l) \o "|" \o r.case.hist[n].op
                       \o "|" \o Clause01(r, n)]

VARIABLES i, bad
Init == i = 1 /\ bad = 0
Next == /\ i <= Len(Recs)
        /\ LET v == Verdict(Recs[i]) IN
           /\ IF v.ok THEN TRUE ELSE PrintT(<<"VIOL", ToJson([i |-> i, sig |-> v.sig, step |-> v.step])>>)
           /\ bad' = IF v.ok THEN bad ELSE bad + 1
        /\ i' = i + 1
Done == i = Len(Recs) + 1 => PrintT(<<"SUMMARY", ToJson([n |-> Len(Recs), bad |-> bad])>>)
====
