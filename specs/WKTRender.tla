---- MODULE WKTRender ----
(* C05: the canonical token sequence of a geometry tree - standard WKT, written from the OGC grammar
   (bare multipoint members, EMPTY members, a dimension suffix on every nested geometry) - independent of
   encode.go.  Geometry = [t, l, body]; body as in WKTParser!Tree (coords are tuples of value identifiers).
   Spellings the property lists that change the TOKEN sequence (parenthesised multipoint members) are
   produced here; spellings below the token level (letter case, white space, attached/detached suffix,
   exponent notation) are applied by the harness when it renders tokens to text. *)
EXTENDS WKTParser
Var(l) == CASE l = "XY" -> "B" [] l = "XYZ" -> "Z" [] l = "XYM" -> "M" [] l = "XYZM" -> "ZM"
Commas(seqs) ==                       \* join token sequences with ","
  FoldLeft(LAMBDA acc, i : IF i = 1 THEN seqs[1] ELSE acc \o <<Tok(",")>> \o seqs[i], <<>>, [i \in DOMAIN seqs |-> i])
Paren(ts) == <<Tok("(")>> \o ts \o <<Tok(")")>>
Pt(c) == <<P(Len(c), c)>>
PtListR(cs) == IF cs = <<>> THEN <<Tok("EMPTY")>> ELSE Paren(Commas([i \in DOMAIN cs |-> Pt(cs[i])]))
RingListR(rs) == IF rs = <<>> THEN <<Tok("EMPTY")>> ELSE Paren(Commas([i \in DOMAIN rs |-> PtListR(rs[i])]))
RECURSIVE RenderG(_, _)
RenderG(g, parenMembers) ==
  <<KW(g.t, Var(g.l))>> \o
  CASE g.t = "PT"  -> (IF g.body = <<>> THEN <<Tok("EMPTY")>> ELSE Paren(Pt(g.body)))
    [] g.t = "LS"  -> PtListR(g.body)
    [] g.t = "PG"  -> RingListR(g.body)
    [] g.body = <<>> -> <<Tok("EMPTY")>>
    [] g.t = "MPT" -> Paren(Commas([i \in DOMAIN g.body |->
                         IF g.body[i] = NILPT THEN <<Tok("EMPTY")>>
                         ELSE IF parenMembers THEN Paren(Pt(g.body[i])) ELSE Pt(g.body[i])]))
    [] g.t = "MLS" -> Paren(Commas([i \in DOMAIN g.body |-> PtListR(g.body[i])]))
    [] g.t = "MPG" -> Paren(Commas([i \in DOMAIN g.body |-> RingListR(g.body[i])]))
    [] g.t = "GC"  -> Paren(Commas([i \in DOMAIN g.body |-> RenderG(g.body[i], parenMembers)]))
Render(g) == RenderG(g, FALSE)
RECURSIVE Strip(_)
Strip(g) == IF g.t = "GC" THEN [t |-> "GC", body |-> [i \in DOMAIN g.body |-> Strip(g.body[i])]]
            ELSE [t |-> g.t, body |-> g.body]
\* the reader and the renderer, two independent statements of the language, must agree
ParsesBack(g, toks) == LET r == Parse(toks \o <<Tok("EOF")>>) IN
                       r.verdict = "acc" /\ r.l = g.l /\ r.tree = Strip(g)
====
