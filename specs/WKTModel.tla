---- MODULE WKTModel ----
(* model A for C06 (and C05's reader side): every token sequence up to MaxLen over a configured alphabet.
   PruneSyn = TRUE keeps viable prefixes only, so that ALL GRAMMATICAL strings within the bound are
   enumerated (no VIEW: distinct histories are distinct states); with the VIEW (parser state only) TLC
   explores the abstract state space far deeper for the design invariants. *)
EXTENDS WKTParser, Json
CONSTANTS MaxLen, PruneSyn, KeywordsUsed, PointsUsed, PunctsUsed, EmitRejects

Alphabet == KeywordsUsed \cup PointsUsed \cup PunctsUsed
VARIABLES s, hist
vars == <<s, hist>>
Init == s = S0 /\ hist = <<>>
Next == /\ s.st = "run" /\ Len(hist) < MaxLen
        /\ \E tok \in Alphabet : LET n == Step(s, tok) IN
              /\ (PruneSyn => n.st # "synrej")            \* viable prefixes only (filter inside Next)
              /\ s' = n /\ hist' = Append(hist, tok)
View == [s EXCEPT !.log = <<>>]
NoPanic == NoPanicS(s)
StackNonEmpty == StackNonEmptyS(s)
AcceptedAtTop == AcceptedAtTopS(s)
\* the two statements of the accepted language agree: what the recogniser accepts, the tree builder can read
TreeTotal == (s.st = "acc" /\ s.sem = "ok") => Tree(hist).t \in Types
Emit == IF s'.st = "acc" \/ (EmitRejects /\ s'.st = "synrej")
        THEN PrintT(<<"CASE", ToJson([toks |-> hist'])>>) ELSE TRUE
====
