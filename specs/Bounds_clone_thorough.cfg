INIT Init
NEXT Next
INVARIANT Laws Emit
CONSTANTS
  Family = "clone"
  MaxLen = 2
  Rich = TRUE
