INIT Init
NEXT Next
INVARIANT Laws Emit
CONSTANTS
  Family = "orient"
  N = 9
  K = 0
