INIT Init
NEXT Next
INVARIANT Laws Emit
CONSTANTS
  Family = "clone"
  MaxLen = 1
  Rich = FALSE
