INIT Init
NEXT Next
INVARIANT NoPanic StackNonEmpty AcceptedAtTop TreeTotal
ACTION_CONSTRAINT Emit

CONSTANTS
  MaxLen = 13
  PruneSyn = TRUE
  KeywordsUsed <- KwColl
  PointsUsed <- PtsColl
  PunctsUsed <- PunctNoErr
  EmitRejects = FALSE
