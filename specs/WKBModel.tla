---- MODULE WKBModel ----
(* model A for C03: geometry trees x byte order x flavour x SRID. TLC checks on every case that the two
   halves of the specification agree (the reference decoder reads the reference encoder's bytes back to
   the canonical form of the geometry and consumes exactly those bytes), and emits the case for the harness. *)
EXTENDS WKB, Json, FiniteSets
CONSTANT Rich
G(t, l, srid, body) == [t |-> t, l |-> l, srid |-> srid, body |-> body]
N == <<>>
Layouts == {"XY", "XYZ", "XYM", "XYZM"}
C(l) == [i \in 1..Stride(l) |-> i]                  \* ordinate tokens
D(l) == [i \in 1..Stride(l) |-> 10 + i]
E(l) == [i \in 1..Stride(l) |-> 20 + i]
QN(l) == [i \in 1..Stride(l) |-> IF i = 1 THEN 126 ELSE 125]     \* every ordinate a NON-canonical NaN: not an empty point
Srids == {<<>>, <<0, 0, 16, 230>>, <<255, 255, 255, 255>>, <<128, 0, 0, 0>>, <<0, 0, 0, 1>>}
PT(l, c) == G("PT", l, N, c)
LS(l, cs) == G("LS", l, N, cs)
PG(l, rs) == G("PG", l, N, rs)
Leaf(l) == { PT(l, C(l)), PT(l, <<>>), PT(l, QN(l)),
             LS(l, <<>>), LS(l, <<C(l), D(l)>>), LS(l, <<C(l)>>),
             PG(l, <<>>), PG(l, <<<<C(l), D(l), E(l), C(l)>>, <<>>>>), PG(l, <<<<>>, <<C(l), D(l)>>, <<>>, <<E(l)>>>>) }
Multi(l) == { G("MPT", l, N, <<>>), G("MPT", l, N, <<PT(l, C(l)), PT(l, <<>>), PT(l, D(l))>>), G("MPT", l, N, <<PT(l, <<>>)>>),
              G("MLS", l, N, <<>>), G("MLS", l, N, <<LS(l, <<>>), LS(l, <<C(l), D(l)>>), LS(l, <<>>)>>),
              G("MPG", l, N, <<>>), G("MPG", l, N, <<PG(l, <<>>), PG(l, <<<<C(l), D(l), C(l)>>>>), PG(l, <<<<>>>>)>>),
              G("MPG", l, N, <<PG(l, <<<<C(l), D(l), E(l), C(l)>>, <<D(l), E(l), D(l)>>>>), PG(l, <<>>)>>) }
Coll(l) == { G("GC", l, N, <<>>),
             G("GC", l, N, <<PT(l, C(l)), G("GC", l, N, <<LS(l, <<C(l), D(l)>>)>>)>>),
             G("GC", l, N, <<G("GC", l, N, <<>>), G("MPT", l, N, <<PT(l, <<>>), PT(l, D(l))>>), PG(l, <<<<C(l), D(l), C(l)>>>>)>>) }
\* collections mixing layouts: the collection's own layout is the join of its members'
Mixed == { G("GC", "XYZ", N, <<PT("XY", C("XY")), LS("XYZ", <<C("XYZ"), D("XYZ")>>)>>),
           G("GC", "XYZM", N, <<PT("XYM", C("XYM")), PT("XYZ", C("XYZ"))>>),
           G("GC", "XYZM", N, <<G("GC", "XY", N, <<PT("XY", <<>>)>>), PT("XYZM", D("XYZM"))>>),
           G("GC", "No", N, <<>>),
           \* collections whose members are all layout-less empty collections (still encodable: type code of XY)
           G("GC", "No", N, <<G("GC", "No", N, <<>>)>>),
           G("GC", "No", N, <<G("GC", "No", N, <<>>), G("GC", "No", N, <<G("GC", "No", N, <<>>)>>)>>),
           G("GC", "XY", N, <<G("GC", "No", N, <<>>), PT("XY", C("XY"))>>) }
Deep(l) == IF Rich THEN { G("GC", l, N, <<x, G("GC", l, N, <<y, G("GC", l, N, <<x>>)>>)>>) : x \in Leaf(l), y \in Multi(l) } ELSE {}
Geoms == UNION {Leaf(l) \cup Multi(l) \cup Coll(l) \cup Deep(l) : l \in Layouts} \cup Mixed
WithSrid == {[g EXCEPT !.srid = s] : g \in Geoms, s \in IF Rich THEN Srids ELSE {<<>>, <<0, 0, 16, 230>>, <<255, 255, 255, 255>>}}
\* geometries in layouts the formats cannot carry (property: "layouts beyond XYZM are rejected with an unsupported-layout
\* error"; a non-collection geometry without layout): they have no encoding, what is demanded of the encoders is stated
\* in WKBObs!Clause (no panic; an error, or bytes that decode back to the geometry)
CN(n, o) == [i \in 1..n |-> o + i]
NonEnc == { PT("L5", CN(5, 0)), PT("L5", <<>>), PT("L6", CN(6, 0)),
            LS("L5", <<>>), LS("L5", <<CN(5, 0), CN(5, 10)>>), LS("L6", <<CN(6, 0)>>),
            PG("L5", <<>>), PG("L6", <<<<CN(6, 0), CN(6, 10), CN(6, 0)>>, <<>>>>),
            G("MPT", "L5", N, <<>>), G("MPT", "L5", N, <<PT("L5", CN(5, 0)), PT("L5", <<>>)>>),
            G("MLS", "L6", N, <<LS("L6", <<CN(6, 0), CN(6, 10)>>)>>), G("MLS", "L5", N, <<>>),
            G("MPG", "L5", N, <<PG("L5", <<<<CN(5, 0), CN(5, 10), CN(5, 0)>>>>)>>), G("MPG", "L6", N, <<>>),
            G("GC", "L5", N, <<>>), G("GC", "L5", N, <<PT("L5", CN(5, 0))>>),
            G("GC", "L5", N, <<PT("XY", C("XY")), LS("L5", <<CN(5, 0)>>)>>),
            G("GC", "L6", N, <<G("GC", "XYZ", N, <<PT("XYZ", C("XYZ"))>>), G("GC", "L6", N, <<PT("L6", <<>>)>>)>>),
            PT("No", <<>>), LS("No", <<>>), PG("No", <<>>), G("MPT", "No", N, <<>>), G("MLS", "No", N, <<>>), G("MPG", "No", N, <<>>),
            G("GC", "No", N, <<LS("No", <<>>)>>), G("GC", "XY", N, <<PT("XY", C("XY")), PG("No", <<>>)>>),
            G("GC", "No", N, <<G("GC", "No", N, <<>>), G("MPT", "No", N, <<>>)>>) }
NonEncS == NonEnc \cup {[x EXCEPT !.srid = <<0, 0, 16, 230>>] : x \in NonEnc}
\* collections whose MEMBERS carry SRIDs of their own (equal to, different from, or without the collection's SRID)
S1 == <<0, 0, 16, 230>>
S2 == <<255, 255, 255, 254>>
WS(x, s) == [x EXCEPT !.srid = s]
MemberSrid == UNION {{ G("GC", l, S1, <<WS(PT(l, C(l)), S2), LS(l, <<C(l), D(l)>>)>>),
                       G("GC", l, N, <<WS(PT(l, C(l)), S2)>>),
                       G("GC", l, S1, <<WS(PT(l, <<>>), S1), WS(PG(l, <<<<C(l), D(l), C(l)>>>>), S1)>>),
                       G("GC", l, S2, <<WS(G("GC", l, N, <<WS(PT(l, D(l)), S1)>>), S2),
                                        WS(G("MPT", l, N, <<PT(l, C(l)), PT(l, <<>>)>>), S2), LS(l, <<>>)>>),
                       G("GC", l, N, <<WS(G("GC", l, N, <<>>), S1), WS(G("MLS", l, N, <<LS(l, <<C(l), D(l)>>)>>), S2)>>) } : l \in Layouts}
              \cup { G("GC", "XYZM", S1, <<WS(PT("XYM", C("XYM")), S2), WS(PT("XYZ", C("XYZ")), S1)>>) }
VARIABLES g, order, flavor
Init == /\ \/ g \in WithSrid /\ flavor \in {"wkb", "wkbnan", "ewkb"}
           \/ g \in NonEncS /\ flavor \in {"wkb", "wkbnan", "ewkb"}
           \/ g \in MemberSrid /\ flavor \in {"wkb", "ewkb"}
        /\ order \in {"NDR", "XDR"}
Next == FALSE /\ UNCHANGED <<g, order, flavor>>
\* in-spec token images (any injective choice of finite doubles) to run the decoder half on the encoder half
ImgA(tok) == IF tok = 125 THEN <<127, 248, 0, 0, 0, 0, 0, 1>> ELSE IF tok = 126 THEN <<255, 248, 0, 0, 0, 0, 0, 0>>
             ELSE <<64, tok, 0, 0, 0, 0, 0, 0>>
ImgTab == [i \in 1..126 |-> <<i>> \o ImgA(i)]
EncDecAgree ==
  LET sym == Enc(g, order, flavor) IN
  sym = <<>> \/
  LET bytes == Concrete(sym, ImgTab)
      r == Decode(bytes, IF flavor = "ewkb" THEN "ewkb" ELSE "wkb", flavor = "wkbnan", <<-1, -1, -1>>) IN
  /\ r.ok /\ r.pos = Len(bytes)
  /\ (IF flavor = "ewkb" /\ HasMemberSrid(g) THEN StripM(r.g) ELSE r.g) = ConcG(Canon(g, flavor), ImgTab)
  /\ WFTree(r.g)
Emit == PrintT(<<"CASE", ToJson([g |-> g, order |-> order, flavor |-> flavor])>>)
====
