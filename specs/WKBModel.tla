---- MODULE WKBModel ----
(* model A for C03: geometry trees x byte order x flavour x SRID. TLC checks on every case that the two
   halves of the specification agree (the reference decoder reads the reference encoder's bytes back to
   the canonical form of the geometry and consumes exactly those bytes), and emits the case for the harness. *)
EXTENDS WKB, Json, FiniteSets
CONSTANT Rich
G(t, l, srid, body) == [t |-> t, l |-> l, srid |-> srid, body |-> body]
N == <<>>
Layouts == {"XY", "XYZ", "XYM", "XYZM"}
C(l) == [i \in 1..Stride(l) |-> i]                  \* ordinate tokens
D(l) == [i \in 1..Stride(l) |-> 10 + i]
E(l) == [i \in 1..Stride(l) |-> 20 + i]
QN(l) == [i \in 1..Stride(l) |-> IF i = 1 THEN 126 ELSE 125]     \* every ordinate a NON-canonical NaN: not an empty point
Srids == {<<>>, <<0, 0, 16, 230>>, <<255, 255, 255, 255>>, <<128, 0, 0, 0>>, <<0, 0, 0, 1>>}
PT(l, c) == G("PT", l, N, c)
LS(l, cs) == G("LS", l, N, cs)
PG(l, rs) == G("PG", l, N, rs)
Leaf(l) == { PT(l, C(l)), PT(l, <<>>), PT(l, QN(l)),
             LS(l, <<>>), LS(l, <<C(l), D(l)>>), LS(l, <<C(l)>>),
             PG(l, <<>>), PG(l, <<<<C(l), D(l), E(l), C(l)>>, <<>>>>), PG(l, <<<<>>, <<C(l), D(l)>>, <<>>, <<E(l)>>>>) }
Multi(l) == { G("MPT", l, N, <<>>), G("MPT", l, N, <<PT(l, C(l)), PT(l, <<>>), PT(l, D(l))>>), G("MPT", l, N, <<PT(l, <<>>)>>),
              G("MLS", l, N, <<>>), G("MLS", l, N, <<LS(l, <<>>), LS(l, <<C(l), D(l)>>), LS(l, <<>>)>>),
              G("MPG", l, N, <<>>), G("MPG", l, N, <<PG(l, <<>>), PG(l, <<<<C(l), D(l), C(l)>>>>), PG(l, <<<<>>>>)>>),
              G("MPG", l, N, <<PG(l, <<<<C(l), D(l), E(l), C(l)>>, <<D(l), E(l), D(l)>>>>), PG(l, <<>>)>>) }
Coll(l) == { G("GC", l, N, <<>>),
             G("GC", l, N, <<PT(l, C(l)), G("GC", l, N, <<LS(l, <<C(l), D(l)>>)>>)>>),
             G("GC", l, N, <<G("GC", l, N, <<>>), G("MPT", l, N, <<PT(l, <<>>), PT(l, D(l))>>), PG(l, <<<<C(l), D(l), C(l)>>>>)>>) }
\* collections mixing layouts: the collection's own layout is the join of its members'
Mixed == { G("GC", "XYZ", N, <<PT("XY", C("XY")), LS("XYZ", <<C("XYZ"), D("XYZ")>>)>>),
           G("GC", "XYZM", N, <<PT("XYM", C("XYM")), PT("XYZ", C("XYZ"))>>),
           G("GC", "XYZM", N, <<G("GC", "XY", N, <<PT("XY", <<>>)>>), PT("XYZM", D("XYZM"))>>),
           G("GC", "No", N, <<>>),
           \* collections whose members are all layout-less empty collections (still encodable: type code of XY)
           G("GC", "No", N, <<G("GC", "No", N, <<>>)>>),
           G("GC", "No", N, <<G("GC", "No", N, <<>>), G("GC", "No", N, <<G("GC", "No", N, <<>>)>>)>>),
           G("GC", "XY", N, <<G("GC", "No", N, <<>>), PT("XY", C("XY"))>>) }
Deep(l) == IF Rich THEN { G("GC", l, N, <<x, G("GC", l, N, <<y, G("GC", l, N, <<x>>)>>)>>) : x \in Leaf(l), y \in Multi(l) } ELSE {}
Geoms == UNION {Leaf(l) \cup Multi(l) \cup Coll(l) \cup Deep(l) : l \in Layouts} \cup Mixed
WithSrid == {[g EXCEPT !.srid = s] : g \in Geoms, s \in IF Rich THEN Srids ELSE {<<>>, <<0, 0, 16, 230>>, <<255, 255, 255, 255>>}}
VARIABLES g, order, flavor
Init == g \in WithSrid /\ order \in {"NDR", "XDR"} /\ flavor \in {"wkb", "wkbnan", "ewkb"}
Next == FALSE /\ UNCHANGED <<g, order, flavor>>
\* in-spec token images (any injective choice of finite doubles) to run the decoder half on the encoder half
ImgA(tok) == IF tok = 125 THEN <<127, 248, 0, 0, 0, 0, 0, 1>> ELSE IF tok = 126 THEN <<255, 248, 0, 0, 0, 0, 0, 0>>
             ELSE <<64, tok, 0, 0, 0, 0, 0, 0>>
ImgTab == [i \in 1..126 |-> <<i>> \o ImgA(i)]
EncDecAgree ==
  LET sym == Enc(g, order, flavor) IN
  sym = <<>> \/
  LET bytes == Concrete(sym, ImgTab)
      r == Decode(bytes, IF flavor = "ewkb" THEN "ewkb" ELSE "wkb", flavor = "wkbnan", <<-1, -1, -1>>) IN
  /\ r.ok /\ r.pos = Len(bytes)
  /\ r.g = ConcG(Canon(g, flavor), ImgTab)
  /\ WFTree(r.g)
Emit == PrintT(<<"CASE", ToJson([g |-> g, order |-> order, flavor |-> flavor])>>)
====
