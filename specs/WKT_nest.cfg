INIT Init
NEXT Next
INVARIANT NoPanic StackNonEmpty AcceptedAtTop TreeTotal
ACTION_CONSTRAINT Emit

CONSTANTS
  MaxLen = 13
  PruneSyn = TRUE
  KeywordsUsed <- KwNest
  PointsUsed <- PtsNest
  PunctsUsed <- PunctNoErr
  EmitRejects = FALSE
