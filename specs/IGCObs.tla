---- MODULE IGCObs ----
(* model B for C19: what igc.Read returned for rendered line sequences / arbitrary byte streams, and what
   igc.Read(igc.Encode(track)) returned, decided against the IGC specification. *)
EXTENDS IGC, Json, IOUtils, FiniteSets
Recs == ndJsonDeserialize(IOEnv.TRACEFILE)
OK == [ok |-> TRUE, sig |-> ""]
Bad(s) == [ok |-> FALSE, sig |-> s]
\* nores: Read gave no track at all (a nil *T or a nil LineString).  With an error that is a refusal of the input ("error or
\* well-formed result"); without an error nothing was returned.
NoRes(r) == "nores" \in DOMAIN r /\ r.nores
Whole(r) == IF NoRes(r) THEN r.errkind # "nil" ELSE r.layout = "L5" /\ r.flatlen = 5 * r.nfix
YearClass(ls) == IF \E i \in DOMAIN ls : ls[i].k = "HDTE" /\ ls[i].yy >= 70 THEN "|year70-99" ELSE ""
\* For an arbitrary record sequence the property demands totality and whole fixes; how many records are reported as
\* errors, and whether a malformed record still yields a fix, is left to the implementation (a more lenient or a
\* stricter decoder is not an alarm).  Counts and instants are fixed only for sequences of the kind the encoder
\* writes - an A record, valid date headers, plain 35-column B records, every fix after a date header.
StdLine(l) == \/ l.k \in {"A", "H"}
              \/ (l.k = "HDTE" /\ ~l.short /\ l.dd \in 1..31 /\ l.mm \in 1..12)
              \/ (l.k = "B" /\ l.len = 35 /\ l.ok)
StdLines(c) == /\ Len(c.lines) > 0 /\ c.lines[1].k = "A"
               /\ \A i \in DOMAIN c.lines : StdLine(c.lines[i])
               /\ \A i \in DOMAIN c.fixes : c.fixes[i][3] = 1
\* "returns ... the list of record errors": the error of Read is nil or the documented igc.Errors list (errors.As: a wrapped
\* list is a list) - there is no other error an in-memory reader can cause.  (A line beyond the 64 KiB a line scanner buffers
\* is exempt: an implementation may report the scanner's own error there.)  errkind: "nil", "Errors", or the Go type of anything else.
ErrKindOK(r) == r.errkind \in {"nil", "Errors"} \/ r.maxline > 65535
\* The day roll-over ("time of day goes backwards => next day") is a mechanism of one decoder, not part of the statement, and
\* the encoder never writes a file that needs it (it writes a date header on every new day).  Counts and instants are
\* therefore fixed only for files whose fixes, dated naively by the latest date header, never go backwards; in any other
\* file a decoder may roll the day, keep the day or report the backward fix as an error.
RECURSIVE Forward(_, _, _, _)
Forward(ls, i, day, last) ==               \* day: of the latest date header; last: <<day, sec>> of the previous B record or <<>>
  IF i > Len(ls) THEN TRUE
  ELSE IF ls[i].k = "HDTE" THEN Forward(ls, i + 1, DaysFromCivil(Year(ls[i].yy), ls[i].mm, ls[i].dd), last)
  ELSE IF ls[i].k = "B" THEN (IF last # <<>> /\ Before(<<day, ls[i].sec>>, last) THEN FALSE ELSE Forward(ls, i + 1, day, <<day, ls[i].sec>>))
  ELSE Forward(ls, i + 1, day, last)
\* "returns ... its headers": one header per well-formed H record (a colon, a non-empty key, a non-empty value), in file
\* order, with that record's source and key.  How the rest of the record is split into key extension and value is not stated.
\* An odd H record (no colon - which includes the date headers -, or an empty value) may be returned as a header (with any
\* content), skipped, or reported as a record error.
WellFormedH(l) == l.k = "H" /\ l.colon /\ l.key # "" /\ l.value # ""
OddH(l) == l.k = "H" /\ ~WellFormedH(l)
RECURSIVE HdrMatch(_, _, _, _)
HdrMatch(ls, i, hs, j) ==
  IF i > Len(ls) THEN j > Len(hs)
  ELSE IF ls[i].k \notin {"H", "HDTE"} THEN HdrMatch(ls, i + 1, hs, j)
  ELSE IF WellFormedH(ls[i]) THEN (IF j <= Len(hs) /\ hs[j][1] = ls[i].src /\ hs[j][2] = ls[i].key THEN HdrMatch(ls, i + 1, hs, j + 1) ELSE FALSE)
  ELSE IF j <= Len(hs) /\ HdrMatch(ls, i + 1, hs, j + 1) THEN TRUE ELSE HdrMatch(ls, i + 1, hs, j)
NumOddH(ls) == Cardinality({i \in DOMAIN ls : OddH(ls[i])})
\* c: the case with what the decoder model gives for its lines (nfix, nerr, fixes); judgeTimes: whether the instants are fixed
VLinesC(r, c, judgeTimes) ==
  IF r.ev # "ok" THEN Bad("igc|decode|" \o r.ev)
  ELSE IF ~Whole(r) THEN Bad("igc|decode|not-whole-fixes")
  ELSE IF ~ErrKindOK(r) THEN Bad("igc|decode|error-kind")
  ELSE IF ~StdLines(c) THEN OK
  ELSE IF ~Forward(c.lines, 1, 0, <<>>) THEN OK
  ELSE IF r.nfix # c.nfix THEN Bad("igc|decode|fix-count")
  \* record errors: none, except that every odd H record may be reported as one
  ELSE IF r.nerr < c.nerr \/ r.nerr > c.nerr + NumOddH(c.lines) THEN Bad("igc|decode|error-count")
  ELSE IF judgeTimes /\ \E i \in DOMAIN c.fixes : r.times[i] # <<c.fixes[i][1], c.fixes[i][2]>> THEN Bad("igc|decode|timestamp" \o YearClass(c.lines))
  ELSE IF ~HdrMatch(c.lines, 1, r.hdrs, 1) THEN Bad("igc|decode|headers")
  ELSE OK
VLines(r) == VLinesC(r, r.case, TRUE)
\* generated line sequences (seeded; H records, long flights with several day roll-overs): the decoder model of IGC.tla is
\* evaluated here.  After a date header that names a day before the last fix's day the instants are not judged.
VGLines(r) ==
  LET s == Run(S0, r.case.lines, 1) IN
  VLinesC(r, [lines |-> r.case.lines, nfix |-> Len(s.fixes), nerr |-> TotalErrors(s), fixes |-> s.fixes], ~s.backhdr)
PoleClass(tr) == IF \E i \in DOMAIN tr : Abs(tr[i].latq) = 90 * 6000000 \/ Abs(tr[i].lonq) = 180 * 6000000 THEN "|pole-or-antimeridian" ELSE ""
Year2(tr) == IF \E i \in DOMAIN tr : tr[i].t[1] < DaysFromCivil(2000, 1, 1) THEN "|19yy" ELSE ""
\* encev: "panic" when the ENCODER panicked (nothing was read back then).  The statement promises totality for Read only and
\* speaks of the tracks of the quantifier: for a track outside that domain (decreasing times, positions / dates out of range)
\* nothing is demanded of the encoder; whatever it wrote, reading that back must still be total.
EncPanic(r) == "encev" \in DOMAIN r /\ r.encev # "ok"
VTracks(r) ==
  LET tr == r.case.track IN
  IF ~InDomain(tr) /\ EncPanic(r) THEN OK
  ELSE IF r.ev # "ok" THEN Bad("igc|roundtrip|" \o r.ev)
  ELSE IF ~Whole(r) THEN Bad("igc|roundtrip|not-whole-fixes")
  ELSE IF ~ErrKindOK(r) THEN Bad("igc|roundtrip|error-kind")
  ELSE IF ~InDomain(tr) THEN OK
  ELSE IF r.encerr # "" THEN Bad("igc|roundtrip|encode-error")
  ELSE IF Len(r.got) # Len(tr) THEN Bad("igc|roundtrip|fix-count" \o PoleClass(tr))
  ELSE IF ~RoundTripOK(tr, r.got) THEN
         Bad("igc|roundtrip|" \o (IF \E i \in DOMAIN tr : r.got[i].t # tr[i].t THEN "timestamp" \o Year2(tr)
                                  ELSE IF \E i \in DOMAIN tr : ~AltOK(tr[i], r.got[i]) THEN "altitude"
                                  ELSE "position" \o PoleClass(tr)))
  \* (which date headers the writer emitted is not part of the round trip: fix count, positions, timestamps, altitudes)
  ELSE OK
\* arbitrary byte streams (mutated files, forged I records, random bytes, odd line endings, ...): totality and whole fixes only
VBytes(r) == IF r.ev # "ok" THEN Bad("igc|bytes|" \o r.ev) ELSE IF ~Whole(r) THEN Bad("igc|bytes|not-whole-fixes")
             ELSE IF ~ErrKindOK(r) THEN Bad("igc|bytes|error-kind") ELSE OK
Verdict(r) == CASE r.case.fam = "lines" -> VLines(r) [] r.case.fam = "glines" -> VGLines(r) [] r.case.fam = "tracks" -> VTracks(r) [] OTHER -> VBytes(r)
VARIABLES i, bad
Init == i = 1 /\ bad = 0
Next == /\ i <= Len(Recs)
        /\ LET v == Verdict(Recs[i]) IN
           /\ IF v.ok THEN TRUE ELSE PrintT(<<"VIOL", ToJson([i |-> i, sig |-> v.sig])>>)
           /\ bad' = IF v.ok THEN bad ELSE bad + 1
        /\ i' = i + 1
Done == i = Len(Recs) + 1 => PrintT(<<"SUMMARY", ToJson([n |-> Len(Recs), bad |-> bad])>>)
====
