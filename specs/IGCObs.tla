---- MODULE IGCObs ----
(* model B for C19: what igc.Read returned for rendered line sequences / arbitrary byte streams, and what
   igc.Read(igc.Encode(track)) returned, decided against the IGC specification. *)
EXTENDS IGC, Json, IOUtils
Recs == ndJsonDeserialize(IOEnv.TRACEFILE)
OK == [ok |-> TRUE, sig |-> ""]
Bad(s) == [ok |-> FALSE, sig |-> s]
Whole(r) == r.layout = "L5" /\ r.flatlen = 5 * r.nfix
YearClass(ls) == IF \E i \in DOMAIN ls : ls[i].k = "HDTE" /\ ls[i].yy >= 70 THEN "|year70-99" ELSE ""
\* For an arbitrary record sequence the property demands totality and whole fixes; how many records are reported as
\* errors, and whether a malformed record still yields a fix, is left to the implementation (a more lenient or a
\* stricter decoder is not an alarm).  Counts and instants are fixed only for sequences of the kind the encoder
\* writes - an A record, valid date headers, plain 35-column B records, every fix after a date header.
StdLine(l) == \/ l.k \in {"A", "H"}
              \/ (l.k = "HDTE" /\ ~l.short /\ l.dd \in 1..31 /\ l.mm \in 1..12)
              \/ (l.k = "B" /\ l.len = 35 /\ l.ok)
StdLines(c) == /\ Len(c.lines) > 0 /\ c.lines[1].k = "A"
               /\ \A i \in DOMAIN c.lines : StdLine(c.lines[i])
               /\ \A i \in DOMAIN c.fixes : c.fixes[i][3] = 1
\* "returns ... the list of record errors": the error of Read is nil or the documented igc.Errors list - there is no other
\* error an in-memory reader can cause.  (A line beyond the 64 KiB a line scanner buffers is exempt: an implementation may
\* report the scanner's own error there.)  errkind: "nil", "Errors", or the Go type of anything else.
ErrKindOK(r) == r.errkind \in {"nil", "Errors"} \/ r.maxline > 65535
\* c: the case with what the decoder model gives for its lines (nfix, nerr, fixes); judgeTimes: whether the instants are fixed
VLinesC(r, c, judgeTimes) ==
  IF r.ev # "ok" THEN Bad("igc|decode|" \o r.ev)
  ELSE IF ~Whole(r) THEN Bad("igc|decode|not-whole-fixes")
  ELSE IF ~ErrKindOK(r) THEN Bad("igc|decode|error-kind")
  ELSE IF ~StdLines(c) THEN OK
  ELSE IF r.nfix # c.nfix THEN Bad("igc|decode|fix-count")
  ELSE IF r.nerr # c.nerr THEN Bad("igc|decode|error-count")
  ELSE IF judgeTimes /\ \E i \in DOMAIN c.fixes : r.times[i] # <<c.fixes[i][1], c.fixes[i][2]>> THEN Bad("igc|decode|timestamp" \o YearClass(c.lines))
  \* "returns ... its headers": the H records of a standard file, in file order
  ELSE IF r.hdrs # Headers(c.lines, 1) THEN Bad("igc|decode|headers")
  ELSE OK
VLines(r) == VLinesC(r, r.case, TRUE)
\* generated line sequences (seeded; H records, long flights with several day roll-overs): the decoder model of IGC.tla is
\* evaluated here.  After a date header that names a day before the last fix's day the instants are not judged.
VGLines(r) ==
  LET s == Run(S0, r.case.lines, 1) IN
  VLinesC(r, [lines |-> r.case.lines, nfix |-> Len(s.fixes), nerr |-> TotalErrors(s), fixes |-> s.fixes], ~s.backhdr)
PoleClass(tr) == IF \E i \in DOMAIN tr : Abs(tr[i].latq) = 90 * 6000000 \/ Abs(tr[i].lonq) = 180 * 6000000 THEN "|pole-or-antimeridian" ELSE ""
Year2(tr) == IF \E i \in DOMAIN tr : tr[i].t[1] < DaysFromCivil(2000, 1, 1) THEN "|19yy" ELSE ""
VTracks(r) ==
  LET tr == r.case.track IN
  IF r.ev # "ok" THEN Bad("igc|roundtrip|" \o r.ev)
  ELSE IF ~Whole(r) THEN Bad("igc|roundtrip|not-whole-fixes")
  ELSE IF ~ErrKindOK(r) THEN Bad("igc|roundtrip|error-kind")
  ELSE IF ~InDomain(tr) THEN OK                   \* decreasing times, positions / dates outside the domain: totality only
  ELSE IF r.encerr # "" THEN Bad("igc|roundtrip|encode-error")
  ELSE IF Len(r.got) # Len(tr) THEN Bad("igc|roundtrip|fix-count" \o PoleClass(tr))
  ELSE IF ~RoundTripOK(tr, r.got) THEN
         Bad("igc|roundtrip|" \o (IF \E i \in DOMAIN tr : r.got[i].t # tr[i].t THEN "timestamp" \o Year2(tr)
                                  ELSE IF \E i \in DOMAIN tr : ~AltOK(tr[i], r.got[i]) THEN "altitude"
                                  ELSE "position" \o PoleClass(tr)))
  \* the headers read back: the date of every new UTC day, in order (hdates: the first six characters of the value of every
  \* DTE header; a writer that repeats a date header is not an alarm)
  ELSE IF Dedup(r.hdates, 1) # TrackDates(tr) THEN Bad("igc|roundtrip|headers")
  ELSE OK
\* arbitrary byte streams (mutated files, forged I records, random bytes, odd line endings, ...): totality and whole fixes only
VBytes(r) == IF r.ev # "ok" THEN Bad("igc|bytes|" \o r.ev) ELSE IF ~Whole(r) THEN Bad("igc|bytes|not-whole-fixes")
             ELSE IF ~ErrKindOK(r) THEN Bad("igc|bytes|error-kind") ELSE OK
Verdict(r) == CASE r.case.fam = "lines" -> VLines(r) [] r.case.fam = "glines" -> VGLines(r) [] r.case.fam = "tracks" -> VTracks(r) [] OTHER -> VBytes(r)
VARIABLES i, bad
Init == i = 1 /\ bad = 0
Next == /\ i <= Len(Recs)
        /\ LET v == Verdict(Recs[i]) IN
           /\ IF v.ok THEN TRUE ELSE PrintT(<<"VIOL", ToJson([i |-> i, sig |-> v.sig])>>)
           /\ bad' = IF v.ok THEN bad ELSE bad + 1
        /\ i' = i + 1
Done == i = Len(Recs) + 1 => PrintT(<<"SUMMARY", ToJson([n |-> Len(Recs), bad |-> bad])>>)
====
