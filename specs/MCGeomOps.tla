---- MODULE MCGeomOps ----
EXTENDS GeomOpsModel
KindsAll == {"LS", "LR", "PG", "MPT", "MLS", "MPG", "GC", "PT"}
KindsMulti == {"PG", "MPT", "MLS", "MPG", "GC"}
KindsClone == {"PT", "LS", "LR", "PG", "MPT", "MLS", "MPG"}
LayoutsSmall == {"XY", "XYZM", "L5", "No"}
LayoutsAll == {"No", "XY", "XYZ", "XYM", "XYZM", "L5", "L6"}
OpsC01 == {"setcoords", "newflat", "setself", "setpart", "push", "push2", "clone", "reverse", "swap", "setlayout"}
OpsC02 == {"push", "push2", "pushbad", "reverse", "swap", "clone", "setlayout"}
OpsC16 == {"clone", "push", "reverse", "swap", "write", "wend", "transform", "srid", "reserve", "setcoords", "newflat"}
TailNone == {}
TailC01 == {"push"}
TailC16 == {"push", "wend", "write", "transform", "reverse"}
====
