INIT Init
NEXT Next
INVARIANT NoPanic StackNonEmpty AcceptedAtTop TreeTotal
ACTION_CONSTRAINT Emit
VIEW View
CONSTANTS
  MaxLen = 16
  PruneSyn = FALSE
  KeywordsUsed <- KwAll
  PointsUsed <- PtsFull
  PunctsUsed <- PunctAll
  EmitRejects = FALSE
