INIT Init
NEXT Next
INVARIANT NoPanic StackNonEmpty AcceptedAtTop TreeTotal
ACTION_CONSTRAINT Emit

CONSTANTS
  MaxLen = 16
  PruneSyn = TRUE
  KeywordsUsed <- KwMulti
  PointsUsed <- PtsMulti
  PunctsUsed <- PunctNoErr
  EmitRejects = FALSE
